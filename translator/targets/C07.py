"""C07: the stripe layout of BANE.filter_mc_sharemem (width_y, ymins, ymaxs).

Two targets on the same function:
  * widthY(img_y, nslice, step)  -- `int(max(img_y/nslice/step_size[1], 1) * step_size[1])`, Float arithmetic as Python does it
  * ymins / ymaxs(img_y, nslice, w) -- the two lists as functions of the width `w` (the variable width_y is substituted by
    the parameter), including the `if nslice > 1` / `else` merge.
`nslice` and `img_y` are substituted by parameters: in the model `nslice` is the value after the defaulting
`if (nslice is None) or (cores == 1): nslice = cores` (which the translator cannot express: `is None`).
"""
TARGETS = [
    dict(file='AegeanTools/BANE.py', func='filter_mc_sharemem', mode='int',
         params={'rows': 'N', 'ns': 'N', 'step': 'N'},
         subst={'img_y': 'rows', 'nslice': 'ns', 'step_size[1]': 'step'},
         outputs=[('width_y', 'widthY')],
         fallback={'widthY': 'def widthY (rows ns step : Nat) : Nat := Aegean.Model.C07.widthHand rows ns step'},
         all_params=['rows', 'ns', 'step']),
    dict(file='AegeanTools/BANE.py', func='filter_mc_sharemem', mode='int',
         params={'rows': 'N', 'ns': 'N', 'w': 'N'},
         subst={'img_y': 'rows', 'nslice': 'ns', 'width_y': 'w'},
         outputs=[('ymins', 'ymins'), ('ymaxs', 'ymaxs')],
         fallback={'ymins': 'def ymins (rows ns w : Nat) : List Nat := Aegean.Model.C07.yminsHand rows ns w',
                   'ymaxs': 'def ymaxs (rows ns w : Nat) : List Nat := Aegean.Model.C07.ymaxsHand rows ns w'},
         all_params=['rows', 'ns', 'w']),
    # the rows a stripe loads: its own rows plus half a box HEIGHT either side, clipped to the image
    dict(file='AegeanTools/BANE.py', func='sigma_filter', mode='int',
         params={'lo': 'N', 'hi': 'N', 'bh': 'N', 'bw': 'N', 'nrows': 'N'},
         subst={'ymin': 'lo', 'ymax': 'hi', 'box_size[0]': 'bh', 'box_size[1]': 'bw', 'shape[0]': 'nrows'},
         outputs=[('data_row_min', 'dataRowMin'), ('data_row_max', 'dataRowMax')],
         fallback={'dataRowMin': 'def dataRowMin (lo hi bh bw nrows : Nat) : Int := Aegean.Model.C07.dataRowMinHand lo hi bh bw nrows',
                   'dataRowMax': 'def dataRowMax (lo hi bh bw nrows : Nat) : Nat := Aegean.Model.C07.dataRowMaxHand lo hi bh bw nrows'},
         all_params=['lo', 'hi', 'bh', 'bw', 'nrows']),
    # the row range of the box centred on local row r of the loaded data (dlen rows)
    dict(file='AegeanTools/BANE.py', func='sigma_filter.box', mode='int',
         params={'r': 'N', 'bh': 'N', 'bw': 'N', 'dlen': 'N'},
         subst={'box_size[0]': 'bh', 'box_size[1]': 'bw', 'data.shape[0]': 'dlen'},
         outputs=[('r_min', 'boxRMin'), ('r_max', 'boxRMax')],
         fallback={'boxRMin': 'def boxRMin (r bh bw dlen : Nat) : Int := Aegean.Model.C07.boxRMinHand r bh bw dlen',
                   'boxRMax': 'def boxRMax (r bh bw dlen : Nat) : Nat := Aegean.Model.C07.boxRMaxHand r bh bw dlen'},
         all_params=['r', 'bh', 'bw', 'dlen']),
]


# ---------------------------------------------------------------------------------------------
# Extension of py2lean.Translator.stmt (the guide allows an extended copy in the targets file):
# `lst.append(<expr outside the whitelist>)` on a list the translator was tracking (here
# `args.append((filename, region, ...))`) used to abort the translation of the whole function.
# The list is unrelated to the requested outputs, so it is enough to make it opaque: an output
# that depends on it is still reported UNTRANSLATABLE by `emit`.  Behaviour is unchanged for every
# statement the original handles.
# ---------------------------------------------------------------------------------------------
import ast as _ast
import py2lean as _p2l

if not getattr(_p2l.Translator, '_c07_append_patch', False):
    _orig_stmt = _p2l.Translator.stmt

    def _stmt(self, s):
        if isinstance(s, _ast.Expr) and isinstance(s.value, _ast.Call) and isinstance(s.value.func, _ast.Attribute) \
                and s.value.func.attr == 'append' and isinstance(s.value.func.value, _ast.Name):
            try:
                return _orig_stmt(self, s)
            except _p2l.Untranslatable:
                var = s.value.func.value.id
                if var in self.env:
                    self.env[var] = ('?opaque?' + var, self.env[var][1])
                return None
        return _orig_stmt(self, s)

    _p2l.Translator.stmt = _stmt
    _p2l.Translator._c07_append_patch = True


# ---------------------------------------------------------------------------------------------
# Skeleton slicer: the synchronisation skeleton of `sigma_filter` (which barrier waits and which accesses
# to the shared maps lie on which path, early returns included) and the except clauses of `_sf2`, as Lean
# terms of type Aegean.Model.C07.Skel / List Handler.
#
# Conservative by construction: anything that hands the barrier or a shared map to code the slicer cannot
# read, a `try` around tracked events, recursion … is UNTRANSLATABLE (the hand fallback is used and only
# the runs tie the code).  Normalised shapes: helper functions (module level or nested) whose body can be
# read are inlined with their parameters bound to the tracked objects passed in; aliases by plain
# assignment; early returns / guard clauses; `if barrier is not None:` is taken (the workers always get
# the barrier from the pool initialiser); calls to the verification hook `_verif_*` are ignored.
# ---------------------------------------------------------------------------------------------
class _Skel(object):
    def __init__(self, tree):
        self.module_funcs = {n.name: n for n in tree.body if isinstance(n, _ast.FunctionDef)}

    # --- Lean printing ---
    @staticmethod
    def seq(items):
        items = [i for i in items if i != '.skip']
        if not items:
            return '.skip'
        out = items[-1]
        for i in reversed(items[:-1]):
            out = f'(.seq {i} {out})'
        return out

    # --- expressions ---
    def base_name(self, node):
        while isinstance(node, (_ast.Subscript, _ast.Attribute)):
            node = node.value
        return node.id if isinstance(node, _ast.Name) else None

    def reads(self, node, env, funcs, depth):
        """events of evaluating an expression, in evaluation order (approximately: calls first)"""
        out = []
        if node is None:
            return out
        if isinstance(node, _ast.Call):
            return self.call(node, env, funcs, depth)
        if isinstance(node, _ast.Name):
            tag = env.get(node.id)
            if tag == 'barrier':
                raise _p2l.Untranslatable(f"the barrier is used as a value: {node.id}")
            if isinstance(tag, tuple) and tag[0] == 'arr' and isinstance(node.ctx, _ast.Load):
                out.append('(.ev .rBkg)' if tag[1] == 'bkg' else '(.ev .rRms)')
            return out
        if isinstance(node, (_ast.Lambda, _ast.GeneratorExp, _ast.ListComp, _ast.SetComp, _ast.DictComp)):
            for n in _ast.walk(node):
                if isinstance(n, _ast.Name) and env.get(n.id) is not None:
                    raise _p2l.Untranslatable("tracked object inside a comprehension / lambda")
            return out
        for ch in _ast.iter_child_nodes(node):
            out += self.reads(ch, env, funcs, depth)
        return out

    def call(self, node, env, funcs, depth):
        f = node.func
        out = []
        # barrier methods
        if isinstance(f, _ast.Attribute) and isinstance(f.value, _ast.Name) and env.get(f.value.id) == 'barrier':
            if f.attr in ('wait', 'reset', 'abort'):
                for a in node.args:
                    out += self.reads(a, env, funcs, depth)
                if f.attr == 'wait' and (node.args or node.keywords):
                    return out + ['(.ev .waitT)']      # barrier.wait(timeout)
                return out + [f'(.ev .{f.attr})']
            raise _p2l.Untranslatable(f"barrier.{f.attr}")
        name = f.id if isinstance(f, _ast.Name) else None
        if name and name.startswith('_verif_'):
            return out
        target = None
        if name:
            target = funcs.get(name) or self.module_funcs.get(name)
        # SharedMemory / ndarray constructors are handled by the assignment; as bare calls they do nothing here
        if target is not None:
            if depth > 4:
                raise _p2l.Untranslatable(f"helper nesting too deep at {name}")
            if any(isinstance(a, _ast.Starred) for a in node.args) or any(k.arg is None for k in node.keywords):
                for a in list(node.args) + [k.value for k in node.keywords]:
                    for n in _ast.walk(a):
                        if isinstance(n, _ast.Name) and env.get(n.id) is not None:
                            raise _p2l.Untranslatable(f"tracked object passed through * / ** to {name}")
            params = [a.arg for a in target.args.args]
            new_env = {k: v for k, v in env.items() if k not in params and v == 'barrier' and k == 'barrier'}
            new_env.setdefault('barrier', 'barrier')
            for k, a in enumerate(node.args):
                if isinstance(a, _ast.Name) and env.get(a.id) is not None and k < len(params):
                    new_env[params[k]] = env[a.id]
                else:
                    out += self.reads(a, env, funcs, depth)
            for kw in node.keywords:
                if isinstance(kw.value, _ast.Name) and env.get(kw.value.id) is not None and kw.arg in params:
                    new_env[kw.arg] = env[kw.value.id]
                else:
                    out += self.reads(kw.value, env, funcs, depth)
            body = self.block(target.body, new_env, {}, depth + 1)
            if not self.has_events(body) and '.raise_' not in body:
                # a helper that neither synchronises, touches the shared maps nor raises: its return only ends the helper
                return out
            return out + [f'(.call {body})']
        # a call the slicer cannot read: it must not receive the barrier or a shared map as such
        for a in list(node.args) + [k.value for k in node.keywords]:
            if isinstance(a, _ast.Name) and env.get(a.id) is not None and not (
                    isinstance(env.get(a.id), tuple) and env[a.id][0] == 'shm'):
                raise _p2l.Untranslatable(f"{a.id} is handed to {_ast.unparse(f)}, which the slicer cannot read")
            out += self.reads(a, env, funcs, depth)
        if isinstance(f, _ast.Attribute):
            b = self.base_name(f)
            if b and isinstance(env.get(b), tuple) and env[b][0] == 'arr':
                # a method of a shared map (ibkg.fill(…)): could read or write
                raise _p2l.Untranslatable(f"method {f.attr} of a shared map")
            out += self.reads(f.value, env, funcs, depth)
        return out

    # --- statements ---
    def classify_shm(self, value, env):
        """('shm', kind) for SharedMemory(name=f'ibkg_…'), ('arr', kind) for np.ndarray(…, buffer=<shm>.buf)"""
        if not isinstance(value, _ast.Call):
            return None
        fn = value.func
        fname = fn.id if isinstance(fn, _ast.Name) else (fn.attr if isinstance(fn, _ast.Attribute) else None)
        if fname == 'SharedMemory':
            for kw in value.keywords:
                if kw.arg == 'name':
                    txt = _ast.unparse(kw.value)
                    if 'ibkg_' in txt:
                        return ('shm', 'bkg')
                    if 'irms_' in txt:
                        return ('shm', 'rms')
            raise _p2l.Untranslatable("SharedMemory with a name the slicer does not recognise")
        if fname in ('ndarray', 'frombuffer'):
            for kw in value.keywords:
                if kw.arg == 'buffer':
                    b = self.base_name(kw.value)
                    if b and isinstance(env.get(b), tuple) and env[b][0] == 'shm':
                        return ('arr', env[b][1])
        return None

    def target_events(self, tgt, env, funcs, depth):
        out = []
        if isinstance(tgt, (_ast.Tuple, _ast.List)):
            for e in tgt.elts:
                out += self.target_events(e, env, funcs, depth)
            return out
        if isinstance(tgt, _ast.Name):
            return out
        b = self.base_name(tgt)
        # index expressions are evaluated (they may read)
        node = tgt
        while isinstance(node, (_ast.Subscript, _ast.Attribute)):
            if isinstance(node, _ast.Subscript):
                out += self.reads(node.slice, env, funcs, depth)
            node = node.value
        if b and env.get(b) == 'barrier':
            raise _p2l.Untranslatable("assignment to an attribute of the barrier")
        if b and isinstance(env.get(b), tuple) and env[b][0] == 'arr':
            out.append('(.ev .wBkg)' if env[b][1] == 'bkg' else '(.ev .wRms)')
        return out

    def block(self, body, env, funcs, depth):
        items = []
        funcs = dict(funcs)
        for st in body:
            items.append(self.stmt(st, env, funcs, depth))
        return self.seq(items)

    def has_events(self, skel):
        return '.ev ' in skel

    def stmt(self, st, env, funcs, depth):
        if isinstance(st, _ast.FunctionDef):
            funcs[st.name] = st
            return '.skip'
        if isinstance(st, _ast.Assign):
            ev = []
            kind = self.classify_shm(st.value, env)
            if kind is None:
                ev += self.reads(st.value, env, funcs, depth)
            for tgt in st.targets:
                ev += self.target_events(tgt, env, funcs, depth)
                if isinstance(tgt, _ast.Name):
                    if kind is not None:
                        env[tgt.id] = kind
                    elif isinstance(st.value, _ast.Name) and env.get(st.value.id) is not None:
                        env[tgt.id] = env[st.value.id]
                    elif isinstance(st.value, _ast.Subscript) and isinstance(env.get(self.base_name(st.value)), tuple) \
                            and env[self.base_name(st.value)][0] == 'arr':
                        # a slice of a shared map is a view of the same memory: writes through it are writes to the map
                        env[tgt.id] = env[self.base_name(st.value)]
                    elif tgt.id in env:
                        if env[tgt.id] == 'barrier':
                            raise _p2l.Untranslatable("the barrier name is rebound")
                        del env[tgt.id]
                elif isinstance(tgt, (_ast.Tuple, _ast.List)):
                    for e in tgt.elts:
                        if isinstance(e, _ast.Name) and e.id in env:
                            raise _p2l.Untranslatable(f"tracked name {e.id} rebound in a tuple assignment")
            # reading `X = ibkg` as an alias, not as a read
            if isinstance(st.value, _ast.Name) and env.get(st.value.id) is not None:
                ev = [e for e in ev if e not in ('(.ev .rBkg)', '(.ev .rRms)')] if len(st.targets) == 1 else ev
            return self.seq(ev)
        if isinstance(st, _ast.AugAssign):
            ev = self.reads(st.value, env, funcs, depth)
            b = self.base_name(st.target)
            if isinstance(st.target, _ast.Name) and st.target.id in env:
                raise _p2l.Untranslatable(f"in-place update of tracked name {st.target.id}")
            if b and isinstance(env.get(b), tuple) and env[b][0] == 'arr':
                ev.append('(.ev .rBkg)' if env[b][1] == 'bkg' else '(.ev .rRms)')
            ev += self.target_events(st.target, env, funcs, depth)
            return self.seq(ev)
        if isinstance(st, _ast.Expr):
            return self.seq(self.reads(st.value, env, funcs, depth))
        if isinstance(st, _ast.Return):
            return self.seq(self.reads(st.value, env, funcs, depth) + ['.ret'])
        if isinstance(st, _ast.Raise):
            return self.seq(self.reads(st.exc, env, funcs, depth) + ['.raise_'])
        if isinstance(st, _ast.If):
            test = st.test
            txt = _ast.unparse(test)
            pre = []
            if txt in ('barrier is not None', 'barrier'):
                return self.block(st.body, env, funcs, depth)
            e1, e2 = dict(env), dict(env)
            thn = self.block(st.body, e1, funcs, depth)
            els = self.block(st.orelse, e2, funcs, depth)
            if e1 != e2 and (self.has_events(thn) or self.has_events(els) or True):
                # the branches leave different aliases behind
                if any(e1.get(k) != e2.get(k) for k in set(e1) | set(e2)):
                    raise _p2l.Untranslatable("tracked names differ between the branches of an if")
            env.clear()
            env.update(e1)
            if txt == 'domask':
                return f'(.ifMask {thn} {els})'
            if txt == 'not domask':
                return f'(.ifMask {els} {thn})'
            if 'domask' in [n.id for n in _ast.walk(test) if isinstance(n, _ast.Name)]:
                raise _p2l.Untranslatable(f"condition mixes domask with something else: {txt}")
            pre = self.reads(test, env, funcs, depth)
            if thn == '.skip' and els == '.skip':
                return self.seq(pre)
            return self.seq(pre + [f'(.ifData {thn} {els})'])
        if isinstance(st, (_ast.Break, _ast.Continue)):
            return '.brk'
        if isinstance(st, (_ast.For, _ast.While)):
            pre = self.reads(st.iter if isinstance(st, _ast.For) else st.test, env, funcs, depth)
            body = self.block(list(st.body) + list(st.orelse), env, funcs, depth)
            if '.brk' in body:
                if self.has_events(body) or '.ret' in body or '.raise_' in body:
                    raise _p2l.Untranslatable("break / continue in a loop that synchronises, returns or raises")
                body = '.skip'
            if body == '.skip':
                return self.seq(pre)
            return self.seq(pre + [f'(.loop {body})'])
        if isinstance(st, _ast.With):
            pre = []
            for it in st.items:
                pre += self.reads(it.context_expr, env, funcs, depth)
            return self.seq(pre + [self.block(st.body, env, funcs, depth)])
        if isinstance(st, _ast.Try):
            parts = [self.block(st.body, env, funcs, depth)] + [self.block(h.body, env, funcs, depth) for h in st.handlers] + \
                    [self.block(st.orelse, env, funcs, depth), self.block(st.finalbody, env, funcs, depth)]
            if any(self.has_events(p) or '.ret' in p for p in parts):
                raise _p2l.Untranslatable("try statement around synchronisation / shared-map accesses")
            return '(.ifData .skip .raise_)'
        if isinstance(st, (_ast.Delete, _ast.Pass, _ast.Import, _ast.ImportFrom, _ast.Global, _ast.Nonlocal)):
            return '.skip'
        if isinstance(st, _ast.Assert):
            return self.seq(self.reads(st.test, env, funcs, depth))
        raise _p2l.Untranslatable(f"statement {type(st).__name__}")


_EV = {'.wait': 0, '.reset': 1, '.abort': 2, '.wBkg': 3, '.rBkg': 4, '.wRms': 5, '.rRms': 6, '.waitT': 7}


def _tokens(term):
    """the Lean-like term printed by _Skel as the token list of Skel.parse"""
    import re as _re
    toks = _re.findall(r'\(|\)|\.\w+', term)
    out = []
    k = 0
    while k < len(toks):
        t = toks[k]
        if t in '()':
            k += 1
            continue
        if t == '.ev':
            out += [0, _EV[toks[k + 1]]]
            k += 2
            continue
        if t == '.brk':
            raise _p2l.Untranslatable("break / continue outside a loop the slicer can drop")
        out.append({'.skip': 1, '.ret': 2, '.raise_': 3, '.seq': 4, '.ifMask': 5, '.ifData': 6, '.loop': 7, '.call': 8}[t])
        k += 1
    return out


def _skeleton_target(src_path, lean_names):
    tree = _ast.parse(open(src_path).read())
    sk = _Skel(tree)
    out, info = [], {}
    if 'sigmaSkel' in lean_names:
        fn = sk.module_funcs.get('sigma_filter')
        if fn is None:
            raise _p2l.Untranslatable("sigma_filter not found")
        body = sk.block(fn.body, {'barrier': 'barrier'}, {}, 0)
        out.append("/- " + body + " -/\ndef sigmaSkel : List Nat :=\n  " + repr(_tokens(body)))
        info['sigmaSkel'] = []
    if 'sf2Handlers' in lean_names:
        fn = sk.module_funcs.get('_sf2')
        if fn is None:
            raise _p2l.Untranslatable("_sf2 not found")
        tries = [s for s in fn.body if isinstance(s, _ast.Try)]
        others = [s for s in fn.body if not isinstance(s, (_ast.Try, _ast.Expr))]
        if len(tries) != 1 or others or tries[0].finalbody or tries[0].orelse:
            raise _p2l.Untranslatable("_sf2 is not a single try/except around the call of sigma_filter")
        t = tries[0]
        calls = [n for n in _ast.walk(_ast.Module(body=t.body, type_ignores=[])) if isinstance(n, _ast.Call)
                 and isinstance(n.func, _ast.Name) and n.func.id == 'sigma_filter']
        if len(calls) != 1:
            raise _p2l.Untranslatable("_sf2 does not call sigma_filter exactly once inside its try")
        hs = []
        for h in t.handlers:
            cls = _ast.unparse(h.type) if h.type is not None else ''
            skel = sk.block(h.body, {'barrier': 'barrier'}, {}, 0)
            if '.ifData' in skel or '.ifMask' in skel or '.loop' in skel:
                raise _p2l.Untranslatable(f"handler for {cls} branches")
            import re as _re
            evs = _re.findall(r'\(\.ev (\.\w+)\)', skel)
            # calls made before barrier.abort() (anything that could itself raise and so skip the abort)
            before = 0
            found = False
            for stt in h.body:
                calls_here = [n for n in _ast.walk(stt) if isinstance(n, _ast.Call)]
                is_abort = any(isinstance(c.func, _ast.Attribute) and c.func.attr == 'abort' for c in calls_here)
                if is_abort:
                    found = True
                    before += sum(1 for c in calls_here if not (isinstance(c.func, _ast.Attribute) and c.func.attr == 'abort'))
                    break
                before += len(calls_here)
            if not found:
                before = 0
            hs.append('("%s", %s, %s, %d)' % (cls.replace('"', "'"), repr([_EV[e] for e in evs]),
                                              'true' if '.raise_' in skel else 'false', before))
        out.append("def sf2Handlers : List (String × List Nat × Bool × Nat) :=\n  [" + ",\n   ".join(hs) + "]")
        info['sf2Handlers'] = []
    if 'barrierCtor' in lean_names:
        fn = sk.module_funcs.get('filter_mc_sharemem')
        if fn is None:
            raise _p2l.Untranslatable("filter_mc_sharemem not found")
        ctors = [n for n in _ast.walk(fn) if isinstance(n, _ast.Call) and isinstance(n.func, _ast.Attribute)
                 and n.func.attr == 'Barrier']
        if len(ctors) != 1:
            raise _p2l.Untranslatable(f"{len(ctors)} Barrier(...) constructors in filter_mc_sharemem")
        c = ctors[0]
        if any(isinstance(a, _ast.Starred) for a in c.args) or any(k.arg is None for k in c.keywords):
            raise _p2l.Untranslatable("Barrier(*args / **kwargs)")
        names = ['parties', 'action', 'timeout']
        given = {names[k]: a for k, a in enumerate(c.args) if k < 3}
        given.update({k.arg: k.value for k in c.keywords})
        if 'parties' not in given or set(given) - set(names):
            raise _p2l.Untranslatable("Barrier arguments the slicer does not know")
        parties = _ast.unparse(given['parties']).replace('"', "'")
        tmo = given.get('timeout')
        if tmo is None or (isinstance(tmo, _ast.Constant) and tmo.value is None):
            t = 'none'
        elif isinstance(tmo, _ast.Constant) and isinstance(tmo.value, (int, float)) and tmo.value >= 0:
            import math as _math
            t = f'(some {int(_math.ceil(tmo.value))})'
        else:
            t = '(some 0)'
        act = given.get('action')
        a_ = 'false' if act is None or (isinstance(act, _ast.Constant) and act.value is None) else 'true'
        out.append(f'def barrierCtor : String × Option Nat × Bool := ("{parties}", {t}, {a_})')
        info['barrierCtor'] = []
    return "\n\n".join(out), info


# hand the 'skel' targets to the slicer above: targets.generate calls the `translate_function` it imported;
# replace that binding in the module that is loading this file (works for `import targets` and for the
# command-line entry of py2lean.py alike)
import inspect as _inspect


def _install_skel_mode():
    for fr in _inspect.stack():
        g = fr.frame.f_globals
        if 'translate_function' in g and '_load_targets' in g and not g.get('_c07_skel_mode'):
            orig = g['translate_function']

            def translate_function(src_path, qualname, outputs, mode, params, subst=None, calls=None, returns=None, **kw):
                if mode == 'c07-skel':
                    return _skeleton_target(src_path, [ln for _, ln in outputs])
                return orig(src_path, qualname, outputs, mode, params, subst, calls, returns=returns, **kw)
            g['translate_function'] = translate_function
            g['_c07_skel_mode'] = True
            return True
    return False


_install_skel_mode()

TARGETS += [
    dict(file='AegeanTools/BANE.py', func='sigma_filter', mode='c07-skel', params={}, outputs=[('sigma_filter', 'sigmaSkel')],
         fallback={'sigmaSkel': 'def sigmaSkel : List Nat := Aegean.Model.C07.sigmaSkelHand'}),
    dict(file='AegeanTools/BANE.py', func='_sf2', mode='c07-skel', params={}, outputs=[('_sf2', 'sf2Handlers')],
         fallback={'sf2Handlers': 'def sf2Handlers : List (String × List Nat × Bool × Nat) := Aegean.Model.C07.sf2HandlersHand'}),
    dict(file='AegeanTools/BANE.py', func='filter_mc_sharemem', mode='c07-skel', params={}, outputs=[('Barrier', 'barrierCtor')],
         fallback={'barrierCtor': 'def barrierCtor : String × Option Nat × Bool := Aegean.Model.C07.barrierCtorHand'}),
]
