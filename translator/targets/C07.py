"""C07: the stripe layout of BANE.filter_mc_sharemem (width_y, ymins, ymaxs).

Two targets on the same function:
  * widthY(img_y, nslice, step)  -- `int(max(img_y/nslice/step_size[1], 1) * step_size[1])`, Float arithmetic as Python does it
  * ymins / ymaxs(img_y, nslice, w) -- the two lists as functions of the width `w` (the variable width_y is substituted by
    the parameter), including the `if nslice > 1` / `else` merge.
`nslice` and `img_y` are substituted by parameters: in the model `nslice` is the value after the defaulting
`if (nslice is None) or (cores == 1): nslice = cores` (which the translator cannot express: `is None`).
"""
TARGETS = [
    dict(file='AegeanTools/BANE.py', func='filter_mc_sharemem', mode='int',
         params={'rows': 'N', 'ns': 'N', 'step': 'N'},
         subst={'img_y': 'rows', 'nslice': 'ns', 'step_size[1]': 'step'},
         outputs=[('width_y', 'widthY')],
         fallback={'widthY': 'def widthY (rows ns step : Nat) : Nat := Aegean.Model.C07.widthHand rows ns step'},
         all_params=['rows', 'ns', 'step']),
    dict(file='AegeanTools/BANE.py', func='filter_mc_sharemem', mode='int',
         params={'rows': 'N', 'ns': 'N', 'w': 'N'},
         subst={'img_y': 'rows', 'nslice': 'ns', 'width_y': 'w'},
         outputs=[('ymins', 'ymins'), ('ymaxs', 'ymaxs')],
         fallback={'ymins': 'def ymins (rows ns w : Nat) : List Nat := Aegean.Model.C07.yminsHand rows ns w',
                   'ymaxs': 'def ymaxs (rows ns w : Nat) : List Nat := Aegean.Model.C07.ymaxsHand rows ns w'},
         all_params=['rows', 'ns', 'w']),
    # the rows a stripe loads: its own rows plus half a box HEIGHT either side, clipped to the image
    dict(file='AegeanTools/BANE.py', func='sigma_filter', mode='int',
         params={'lo': 'N', 'hi': 'N', 'bh': 'N', 'bw': 'N', 'nrows': 'N'},
         subst={'ymin': 'lo', 'ymax': 'hi', 'box_size[0]': 'bh', 'box_size[1]': 'bw', 'shape[0]': 'nrows'},
         outputs=[('data_row_min', 'dataRowMin'), ('data_row_max', 'dataRowMax')],
         fallback={'dataRowMin': 'def dataRowMin (lo hi bh bw nrows : Nat) : Int := Aegean.Model.C07.dataRowMinHand lo hi bh bw nrows',
                   'dataRowMax': 'def dataRowMax (lo hi bh bw nrows : Nat) : Nat := Aegean.Model.C07.dataRowMaxHand lo hi bh bw nrows'},
         all_params=['lo', 'hi', 'bh', 'bw', 'nrows']),
    # the row range of the box centred on local row r of the loaded data (dlen rows)
    dict(file='AegeanTools/BANE.py', func='sigma_filter.box', mode='int',
         params={'r': 'N', 'bh': 'N', 'bw': 'N', 'dlen': 'N'},
         subst={'box_size[0]': 'bh', 'box_size[1]': 'bw', 'data.shape[0]': 'dlen'},
         outputs=[('r_min', 'boxRMin'), ('r_max', 'boxRMax')],
         fallback={'boxRMin': 'def boxRMin (r bh bw dlen : Nat) : Int := Aegean.Model.C07.boxRMinHand r bh bw dlen',
                   'boxRMax': 'def boxRMax (r bh bw dlen : Nat) : Nat := Aegean.Model.C07.boxRMaxHand r bh bw dlen'},
         all_params=['r', 'bh', 'bw', 'dlen']),
]


# ---------------------------------------------------------------------------------------------
# Extension of py2lean.Translator.stmt (the guide allows an extended copy in the targets file):
# `lst.append(<expr outside the whitelist>)` on a list the translator was tracking (here
# `args.append((filename, region, ...))`) used to abort the translation of the whole function.
# The list is unrelated to the requested outputs, so it is enough to make it opaque: an output
# that depends on it is still reported UNTRANSLATABLE by `emit`.  Behaviour is unchanged for every
# statement the original handles.
# ---------------------------------------------------------------------------------------------
import ast as _ast
import py2lean as _p2l

if not getattr(_p2l.Translator, '_c07_append_patch', False):
    _orig_stmt = _p2l.Translator.stmt

    def _stmt(self, s):
        if isinstance(s, _ast.Expr) and isinstance(s.value, _ast.Call) and isinstance(s.value.func, _ast.Attribute) \
                and s.value.func.attr == 'append' and isinstance(s.value.func.value, _ast.Name):
            try:
                return _orig_stmt(self, s)
            except _p2l.Untranslatable:
                var = s.value.func.value.id
                if var in self.env:
                    self.env[var] = ('?opaque?' + var, self.env[var][1])
                return None
        return _orig_stmt(self, s)

    _p2l.Translator.stmt = _stmt
    _p2l.Translator._c07_append_patch = True
