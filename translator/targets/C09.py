"""C09 translation targets (real mode): the arithmetic leaves of the conversion algebra in regions.py.

  Region.sky2ang    -> sky2angTheta   `theta_phi[:, 0] = np.pi/2 - theta_phi[:, 0]`  (col0 = dec after the swap)
  Region.vec2sky    -> vec2skyRa, vec2skyDec   `ra = phi`, `dec = np.pi/2 - theta`, and the `if degrees:` rescaling
                       (theta, phi = hp.vec2ang(vec) are the inputs)
  Region.sky_within -> skyWithinScale  `if degin: sky = np.radians(sky)` per element (sky = radec2sky(...) is the input)

The column swap of sky2ang, the calls into healpy and the masking are outside the arithmetic whitelist:
they are hand-modelled (Model/C09.lean) and tied by the correspondence harness, which spies on the
actual arguments healpy receives.

Two small extensions of py2lean (AGENT_GUIDE: extended copies live in the targets file):
  * `np.pi` / `math.pi` become `R.pi`  (same extension as C04's; applied only if not already present);
  * an assignment to a subscript `X[...] = e` whose target text is a key of the target's `subst` binds
    the pseudo-variable `__sub_<param>` to the translation of `e` (evaluated BEFORE the binding, so the
    right-hand side sees the old value = the parameter).
  * the oversampling factor healpy's inclusive mode is given: for an assignment `x = hp.query_disc(...)` /
    `hp.query_polygon(...)` the pseudo-variable `__kw_fact` is bound (int mode) to the `fact=` keyword — an integer
    literal, or a module-level integer constant (resolved from the module the function was found in), or healpy's
    documented default 4 when the keyword is absent.  Anything else (an expression depending on the inputs) is
    Untranslatable and the hand value 4 is used; the spy-based correspondence then compares the actual argument.
    The property leaves this factor free: the theorems are stated for every value (Healpix.disc / .poly are indexed
    by it) and the harness samples the contract at the value in use.
Flags (`degin`, `degrees`) are parameters of type 'B' (Bool); the translator's if-merge produces
`if flag then … else …`.
"""
import ast

import py2lean


def _with_pi(orig):
    def expr_real(self, node):
        if isinstance(node, ast.Attribute) and isinstance(node.value, ast.Name) \
                and node.value.id in ('np', 'numpy', 'math') and node.attr == 'pi':
            return '(R.pi : α)', 'A', set()
        return orig(self, node)
    expr_real._c09_pi = True
    return expr_real


def _pi_already_handled():
    try:
        tr = py2lean.Translator('real', {})
        tr.expr(ast.parse('np.pi', mode='eval').body)
        return True
    except py2lean.Untranslatable:
        return False


if not _pi_already_handled():
    py2lean.Translator.expr_real = _with_pi(py2lean.Translator.expr_real)


if not getattr(py2lean.Translator, '_c09_subscript_patch', False):
    _orig_stmt = py2lean.Translator.stmt

    def _stmt(self, s):
        if isinstance(s, ast.Assign) and len(s.targets) == 1 and isinstance(s.targets[0], ast.Subscript):
            key = ast.unparse(s.targets[0])
            if key in self.subst:
                try:
                    c, t, d = self.expr(s.value)
                except py2lean.Untranslatable:
                    return
                self.bind('__sub_' + self.subst[key], c, t, d)
                return
        return _orig_stmt(self, s)

    py2lean.Translator.stmt = _stmt
    py2lean.Translator._c09_subscript_patch = True


if not getattr(py2lean, '_c09_module_stash', False):
    _orig_find = py2lean.find_function

    def _find(tree, qualname):
        py2lean._c09_last_module = tree          # remember the module the function lives in (for constants)
        return _orig_find(tree, qualname)

    py2lean.find_function = _find
    py2lean._c09_module_stash = True


def _module_int_constant(name):
    tree = getattr(py2lean, '_c09_last_module', None)
    if tree is None:
        return None
    val = None
    for node in tree.body:
        if isinstance(node, ast.Assign) and len(node.targets) == 1 and isinstance(node.targets[0], ast.Name) \
                and node.targets[0].id == name:
            if isinstance(node.value, ast.Constant) and isinstance(node.value.value, int) and not isinstance(node.value.value, bool):
                val = node.value.value if val is None else 'ambiguous'
            else:
                return None
    return val if isinstance(val, int) else None


HEALPY_DEFAULT_FACT = 4     # healpy.query_disc / query_polygon signature default (trusted; compared by the spy every run)

if not getattr(py2lean.Translator, '_c09_fact_patch', False):
    _prev_stmt = py2lean.Translator.stmt

    def _stmt_fact(self, s):
        if self.mode == 'int' and isinstance(s, ast.Assign) and isinstance(s.value, ast.Call) \
                and isinstance(s.value.func, ast.Attribute) and s.value.func.attr in ('query_disc', 'query_polygon') \
                and isinstance(s.value.func.value, ast.Name) and s.value.func.value.id == 'hp':
            # never raise here (other properties translate functions of regions.py too): anything this extension cannot
            # express makes `__kw_fact` opaque, so only the C09 outputs that ask for it become UNTRANSLATABLE
            kw = [k for k in s.value.keywords if k.arg == 'fact']
            npos = 4 if s.value.func.attr == 'query_disc' else 3       # fact is the 5th / 4th positional parameter
            v = None
            if any(k.arg is None for k in s.value.keywords) or len(s.value.args) > npos:
                pass                                                   # fact passed positionally or through **kwargs
            elif not kw:
                v = HEALPY_DEFAULT_FACT
            elif isinstance(kw[0].value, ast.Constant) and isinstance(kw[0].value.value, int) and not isinstance(kw[0].value.value, bool):
                v = kw[0].value.value
            elif isinstance(kw[0].value, ast.Name) and kw[0].value.id not in self.env:
                v = _module_int_constant(kw[0].value.id)
            if v is None or v < 0 or '__kw_fact' in self.env:
                self.env['__kw_fact'] = ('?opaque?__kw_fact', 'N')    # not a literal / module constant, or a second query
            else:
                self.bind('__kw_fact', f'({v} : Nat)', 'N', set())
        return _prev_stmt(self, s)

    py2lean.Translator.stmt = _stmt_fact
    py2lean.Translator._c09_fact_patch = True

_F = 'AegeanTools/regions.py'
_H = 'Aegean.Model.C09'

TARGETS = [
    dict(file=_F, func='Region.add_circles', mode='int', params={}, outputs=[('__kw_fact', 'discFact')],
         fallback={'discFact': f'def discFact : Nat := {_H}.discFactHand'}),
    dict(file=_F, func='Region.add_poly', mode='int', params={}, outputs=[('__kw_fact', 'polyFact')],
         fallback={'polyFact': f'def polyFact : Nat := {_H}.polyFactHand'}),
    dict(file=_F, func='Region.sky2ang', mode='real', params={'col0': 'A'},
         subst={'theta_phi[:, 0]': 'col0'},
         outputs=[('__sub_col0', 'sky2angTheta')],
         fallback={'sky2angTheta': f'def sky2angTheta {{α : Type}} [R α] (col0 : α) : α := {_H}.sky2angThetaHand col0'}),
    dict(file=_F, func='Region.vec2sky', mode='real', params={'degrees': 'B'},
         outputs=[('ra', 'vec2skyRa'), ('dec', 'vec2skyDec')],
         fallback={'vec2skyRa': f'def vec2skyRa {{α : Type}} [R α] (degrees : Bool) (phi : α) : α := {_H}.vec2skyRaHand degrees phi',
                   'vec2skyDec': f'def vec2skyDec {{α : Type}} [R α] (degrees : Bool) (theta : α) : α := {_H}.vec2skyDecHand degrees theta'}),
    dict(file=_F, func='Region.sky_within', mode='real', params={'degin': 'B'},
         outputs=[('sky', 'skyWithinScale')],
         fallback={'skyWithinScale': f'def skyWithinScale {{α : Type}} [R α] (degin : Bool) (sky : α) : α := {_H}.skyWithinScaleHand degin sky'}),
]
