"""C09 translation targets (real mode): the arithmetic leaves of the conversion algebra in regions.py.

  Region.sky2ang    -> sky2angTheta   `theta_phi[:, 0] = np.pi/2 - theta_phi[:, 0]`  (col0 = dec after the swap)
  Region.vec2sky    -> vec2skyRa, vec2skyDec   `ra = phi`, `dec = np.pi/2 - theta`, and the `if degrees:` rescaling
                       (theta, phi = hp.vec2ang(vec) are the inputs)
  Region.sky_within -> skyWithinScale  `if degin: sky = np.radians(sky)` per element (sky = radec2sky(...) is the input)

The column swap of sky2ang, the calls into healpy and the masking are outside the arithmetic whitelist:
they are hand-modelled (Model/C09.lean) and tied by the correspondence harness, which spies on the
actual arguments healpy receives.

Two small extensions of py2lean (AGENT_GUIDE: extended copies live in the targets file):
  * `np.pi` / `math.pi` become `R.pi`  (same extension as C04's; applied only if not already present);
  * an assignment to a subscript `X[...] = e` whose target text is a key of the target's `subst` binds
    the pseudo-variable `__sub_<param>` to the translation of `e` (evaluated BEFORE the binding, so the
    right-hand side sees the old value = the parameter).
  * the oversampling factor healpy's inclusive mode is given: for an assignment `x = hp.query_disc(...)` /
    `hp.query_polygon(...)` the pseudo-variable `__kw_fact` is bound (int mode) to the `fact=` keyword — an integer
    literal, or a module-level integer constant (resolved from the module the function was found in), or healpy's
    documented default 4 when the keyword is absent.  Anything else (an expression depending on the inputs) is
    Untranslatable and the hand value 4 is used; the spy-based correspondence then compares the actual argument.
    The property leaves this factor free: the theorems are stated for every value (Healpix.disc / .poly are indexed
    by it) and the harness samples the contract at the value in use.
Flags (`degin`, `degrees`) are parameters of type 'B' (Bool); the translator's if-merge produces
`if flag then … else …`.
"""
import ast

import py2lean


def _with_pi(orig):
    def expr_real(self, node):
        if isinstance(node, ast.Attribute) and isinstance(node.value, ast.Name) \
                and node.value.id in ('np', 'numpy', 'math') and node.attr == 'pi':
            return '(R.pi : α)', 'A', set()
        return orig(self, node)
    expr_real._c09_pi = True
    return expr_real


def _pi_already_handled():
    try:
        tr = py2lean.Translator('real', {})
        tr.expr(ast.parse('np.pi', mode='eval').body)
        return True
    except py2lean.Untranslatable:
        return False


if not _pi_already_handled():
    py2lean.Translator.expr_real = _with_pi(py2lean.Translator.expr_real)


if not getattr(py2lean.Translator, '_c09_subscript_patch', False):
    _orig_stmt = py2lean.Translator.stmt

    def _stmt(self, s):
        if isinstance(s, ast.Assign) and len(s.targets) == 1 and isinstance(s.targets[0], ast.Subscript):
            key = ast.unparse(s.targets[0])
            if key in self.subst:
                try:
                    c, t, d = self.expr(s.value)
                except py2lean.Untranslatable:
                    return
                self.bind('__sub_' + self.subst[key], c, t, d)
                return
        return _orig_stmt(self, s)

    py2lean.Translator.stmt = _stmt
    py2lean.Translator._c09_subscript_patch = True


if not getattr(py2lean, '_c09_module_stash', False):
    _orig_find = py2lean.find_function

    def _find(tree, qualname):
        py2lean._c09_last_module = tree          # remember the module the function lives in (for constants)
        return _orig_find(tree, qualname)

    py2lean.find_function = _find
    py2lean._c09_module_stash = True


def _module_int_constant(name):
    tree = getattr(py2lean, '_c09_last_module', None)
    if tree is None:
        return None
    val = None
    for node in tree.body:
        if isinstance(node, ast.Assign) and len(node.targets) == 1 and isinstance(node.targets[0], ast.Name) \
                and node.targets[0].id == name:
            if isinstance(node.value, ast.Constant) and isinstance(node.value.value, int) and not isinstance(node.value.value, bool):
                val = node.value.value if val is None else 'ambiguous'
            else:
                return None
    return val if isinstance(val, int) else None


HEALPY_DEFAULT_FACT = 4     # healpy.query_disc / query_polygon signature default (trusted; compared by the spy every run)

# ------------------------------------------------------------------------------------------------------------------
# hand-off slicer (int mode): what add_circles / add_poly / sky_within hand to healpy and to add_pixels.
#   x = hp.query_disc(nside, vec, radius, inclusive=False, fact=4, nest=False, buff=None)
#   x = hp.query_polygon(nside, vertices, inclusive=False, fact=4, nest=False, buff=None)
#   x = hp.ang2pix(nside, theta, phi, nest=False, lonlat=False)
# binds   __arg_nside (the translated nside expression, e.g. 2 ^ depth after the clamp),
#         __kw_inclusive, __kw_nest (Bool literals; healpy's default False when absent), __kw_fact
#         (integer literal, module-level integer constant, or healpy's default 4 when absent);
#   self.add_pixels(x, d)   binds   __arg_insert_depth (the translated d), only if x is the variable the query was bound to.
# `depth is None` is expressible when the target declares a companion parameter `depth_is_none` (Nat, 1 = None) and
# `depth` has not been reassigned before the test.
# Nothing here raises: what cannot be read becomes opaque, so only the C09 outputs asking for it are UNTRANSLATABLE
# (other properties translate functions of regions.py too).
# ------------------------------------------------------------------------------------------------------------------
_HP_SIGS = {'query_disc': ['nside', 'vec', 'radius', 'inclusive', 'fact', 'nest', 'buff'],
            'query_polygon': ['nside', 'vertices', 'inclusive', 'fact', 'nest', 'buff'],
            'ang2pix': ['nside', 'theta', 'phi', 'nest', 'lonlat']}


def _opaque(tr, name, t='N'):
    tr.env[name] = ('?opaque?' + name, t)


def _is_hp_call(call):
    f = call.func
    return isinstance(f, ast.Attribute) and f.attr in _HP_SIGS and isinstance(f.value, ast.Name) and f.value.id == 'hp'


def _bind_hp_call(tr, call, target):
    names = _HP_SIGS[call.func.attr]
    outs = ['__arg_nside', '__kw_inclusive', '__kw_nest', '__kw_fact']
    second = any(o in tr.env for o in outs)
    argmap = {}
    bad = second or any(isinstance(a, ast.Starred) for a in call.args) or any(k.arg is None for k in call.keywords) \
        or len(call.args) > len(names)
    if not bad:
        for nm, a in zip(names, call.args):
            argmap[nm] = a
        for k in call.keywords:
            if k.arg in argmap or k.arg not in names:
                bad = True
            argmap[k.arg] = k.value
    if not bad and 'lonlat' in argmap and not (isinstance(argmap['lonlat'], ast.Constant) and argmap['lonlat'].value is False):
        bad = True
    if bad:
        for o in outs:
            _opaque(tr, o, 'B' if o in ('__kw_inclusive', '__kw_nest') else 'N')
        tr._c09_query_target = None
        return
    tr._c09_query_target = target
    try:
        c, t, d = tr.expr(argmap['nside'])
        if t != 'N':
            raise py2lean.Untranslatable('nside is not a natural number')
        tr.bind('__arg_nside', c, 'N', d)
    except (py2lean.Untranslatable, KeyError):
        _opaque(tr, '__arg_nside')
    for kw, out in (('inclusive', '__kw_inclusive'), ('nest', '__kw_nest')):
        if kw not in names:
            continue
        node = argmap.get(kw)
        if node is None:
            tr.bind(out, 'false', 'B', set())
        elif isinstance(node, ast.Constant) and isinstance(node.value, bool):
            tr.bind(out, 'true' if node.value else 'false', 'B', set())
        else:
            _opaque(tr, out, 'B')
    if 'fact' in names:
        node = argmap.get('fact')
        v = None
        if node is None:
            v = HEALPY_DEFAULT_FACT
        elif isinstance(node, ast.Constant) and isinstance(node.value, int) and not isinstance(node.value, bool):
            v = node.value
        elif isinstance(node, ast.Name) and node.id not in tr.env:
            v = _module_int_constant(node.id)
        if v is None or v < 0:
            _opaque(tr, '__kw_fact')
        else:
            tr.bind('__kw_fact', f'({v} : Nat)', 'N', set())


if not getattr(py2lean.Translator, '_c09_handoff_patch', False):
    _prev_stmt = py2lean.Translator.stmt

    def _stmt_handoff(self, s):
        if self.mode == 'int' and isinstance(s, (ast.Assign, ast.AugAssign, ast.AnnAssign, ast.Expr)) and s.value is not None:
            # a healpy query anywhere in a simple statement (x = hp.query_disc(..), acc.update(hp.query_disc(..)), ...)
            qs = [n for n in ast.walk(s.value) if isinstance(n, ast.Call) and _is_hp_call(n)]
            for q in qs:
                _bind_hp_call(self, q, None)
            # self.add_pixels(<pixels>, <depth>): the depth expression is what is regenerated (which pixels are handed over is
            # tied by the comparison of the real region with the model's pixel set, not by the translator)
            for c in [n for n in ast.walk(s.value) if isinstance(n, ast.Call) and isinstance(n.func, ast.Attribute)
                      and n.func.attr == 'add_pixels' and isinstance(n.func.value, ast.Name) and n.func.value.id == 'self']:
                ok = len(c.args) == 2 and not c.keywords and not isinstance(c.args[1], ast.Starred)
                code = None
                if ok:
                    try:
                        code, t, d = self.expr(c.args[1])
                        if t != 'N':
                            raise py2lean.Untranslatable('depth is not a natural number')
                    except py2lean.Untranslatable:
                        ok = False
                prev = getattr(self, '_c09_insert_code', None)
                if ok and prev is None and '__arg_insert_depth' not in self.env:
                    self.bind('__arg_insert_depth', code, 'N', d)
                    self._c09_insert_code = code
                elif not (ok and prev == code):          # a second insertion at a different (or unreadable) depth
                    _opaque(self, '__arg_insert_depth')
        return _prev_stmt(self, s)

    py2lean.Translator.stmt = _stmt_handoff

    _prev_expr_int = py2lean.Translator.expr_int

    def _expr_int_none(self, node):
        if isinstance(node, ast.Compare) and len(node.ops) == 1 and isinstance(node.ops[0], (ast.Is, ast.IsNot)) \
                and isinstance(node.comparators[0], ast.Constant) and node.comparators[0].value is None \
                and isinstance(node.left, ast.Name):
            flag = node.left.id + '_is_none'
            if flag in self.params and self.env.get(node.left.id) == (py2lean.lean_ident(node.left.id), 'N'):
                code = f'({flag} = 1)' if isinstance(node.ops[0], ast.Is) else f'(¬ ({flag} = 1))'
                return code, 'B', {flag, py2lean.lean_ident(node.left.id)}
            raise py2lean.Untranslatable(f'`{ast.unparse(node)}` on a variable without a declared *_is_none companion')
        return _prev_expr_int(self, node)

    py2lean.Translator.expr_int = _expr_int_none
    py2lean.Translator._c09_handoff_patch = True


# ------------------------------------------------------------------------------------------------------------------
# column slicer (real mode), enabled by subst = {'__columns__': <array variable>, '__source__': <array parameter>}:
# a two-column array program.  The array starts as a copy of the source (columns = parameters col0, col1) and is updated by
#     A[:, [i, j]] = A[:, [k, l]]        (column permutation, literal indices, simultaneous)
#     A[:, k] = e     /   A[:, k] op= e  (e may read A[:, k'])
# and returned.  Any other store into A, any call that receives A, any loop touching A makes both columns opaque.
# ------------------------------------------------------------------------------------------------------------------
def _col(arr, k):
    return f'{arr}_c{k}'


def _col_index(sub, arr):
    """A[:, k] -> k ;  A[:, [i, j]] -> (i, j) ;  otherwise None"""
    if not (isinstance(sub, ast.Subscript) and isinstance(sub.value, ast.Name) and sub.value.id == arr):
        return None
    sl = sub.slice
    if not (isinstance(sl, ast.Tuple) and len(sl.elts) == 2 and isinstance(sl.elts[0], ast.Slice)
            and sl.elts[0].lower is None and sl.elts[0].upper is None and sl.elts[0].step is None):
        return None
    x = sl.elts[1]
    if isinstance(x, ast.Constant) and isinstance(x.value, int) and not isinstance(x.value, bool) and x.value in (0, 1):
        return x.value
    if isinstance(x, ast.List) and len(x.elts) == 2 and all(isinstance(e, ast.Constant) and not isinstance(e.value, bool)
                                                             and e.value in (0, 1) for e in x.elts):
        return (x.elts[0].value, x.elts[1].value)
    return None


def _mentions(node, arr):
    return any(isinstance(n, ast.Name) and n.id == arr for n in ast.walk(node))


def _read_col(arr, k):
    return ast.Subscript(value=ast.Name(id=arr, ctx=ast.Load()),
                         slice=ast.Tuple(elts=[ast.Slice(), ast.Constant(value=k)], ctx=ast.Load()), ctx=ast.Load())


if not getattr(py2lean.Translator, '_c09_column_patch', False):
    _prev_stmt2 = py2lean.Translator.stmt
    _prev_expr_real = py2lean.Translator.expr_real

    def _both_opaque(self, arr):
        for k in (0, 1):
            _opaque(self, _col(arr, k), 'A')

    def _stmt_columns(self, s):
        if self.mode != 'real' or '__columns__' not in self.subst:
            return _prev_stmt2(self, s)
        arr, src = self.subst['__columns__'], self.subst['__source__']
        if isinstance(s, (ast.Try, ast.If, ast.With)):
            return _prev_stmt2(self, s)                      # recursed statement by statement (If merges environments)
        if isinstance(s, (ast.For, ast.While)):
            if _mentions(s, arr):
                _both_opaque(self, arr)
            return
        if isinstance(s, ast.Return):
            if isinstance(s.value, ast.Name) and s.value.id == arr and all(_col(arr, k) in self.env for k in (0, 1)):
                for k in (0, 1):
                    ssa, t = self.env[_col(arr, k)]
                    if ssa.startswith('?opaque?'):
                        _opaque(self, f'__ret_c{k}', 'A')
                    else:
                        self.bind(f'__ret_c{k}', ssa, 'A', {ssa})
            elif s.value is not None:
                for k in (0, 1):
                    _opaque(self, f'__ret_c{k}', 'A')
            return
        if isinstance(s, ast.Assign) and len(s.targets) == 1:
            tgt, val = s.targets[0], s.value
            if isinstance(tgt, ast.Name) and tgt.id == arr:
                is_copy = (isinstance(val, ast.Name) and val.id == src) \
                    or (isinstance(val, ast.Call) and isinstance(val.func, ast.Attribute) and val.func.attr == 'copy'
                        and isinstance(val.func.value, ast.Name) and val.func.value.id == src and not val.args and not val.keywords) \
                    or (isinstance(val, ast.Call) and self.callee_name(val.func) in ('array', 'asarray', 'copy') and len(val.args) == 1
                        and isinstance(val.args[0], ast.Name) and val.args[0].id == src and not val.keywords)
                if is_copy:
                    for k in (0, 1):
                        p = py2lean.lean_ident(f'col{k}')
                        self.bind(_col(arr, k), p, 'A', {p})
                else:
                    _both_opaque(self, arr)
                return
            idx = _col_index(tgt, arr)
            if idx is not None:
                try:
                    if isinstance(idx, tuple):
                        ridx = _col_index(val, arr)
                        if not isinstance(ridx, tuple) or set(idx) != {0, 1}:
                            raise py2lean.Untranslatable('not a column permutation')
                        old = [self.expr_real(_read_col(arr, r)) for r in ridx]
                        for k, (c, t, d) in zip(idx, old):
                            self.bind(_col(arr, k), c, 'A', d)
                    else:
                        c, t, d = self.expr(val)
                        self.bind(_col(arr, idx), c, 'A', d)
                except py2lean.Untranslatable:
                    _both_opaque(self, arr)
                return
        if isinstance(s, ast.AugAssign):
            idx = _col_index(s.target, arr)
            if isinstance(idx, int):
                try:
                    c, t, d = self.expr(ast.BinOp(left=_read_col(arr, idx), op=s.op, right=s.value))
                    self.bind(_col(arr, idx), c, 'A', d)
                except py2lean.Untranslatable:
                    _both_opaque(self, arr)
                return
        # anything else that stores into the array or hands it to a call
        touches = False
        for n in ast.walk(s):
            if isinstance(n, (ast.Assign, ast.AugAssign, ast.AnnAssign, ast.Delete)):
                tg = n.targets if isinstance(n, (ast.Assign, ast.Delete)) else [n.target]
                touches |= any(_mentions(t, arr) for t in tg)
            if isinstance(n, ast.Call) and (any(_mentions(a, arr) for a in n.args) or any(_mentions(k.value, arr) for k in n.keywords)
                                            or (isinstance(n.func, ast.Attribute) and _mentions(n.func.value, arr))):
                touches = True
        if touches:
            _both_opaque(self, arr)
            return
        return _prev_stmt2(self, s)

    def _expr_real_columns(self, node):
        if '__columns__' in self.subst:
            idx = _col_index(node, self.subst['__columns__'])
            if isinstance(idx, int):
                name = _col(self.subst['__columns__'], idx)
                if name not in self.env or self.env[name][0].startswith('?opaque?'):
                    raise py2lean.Untranslatable(f'column {idx} is not known here')
                ssa, t = self.env[name]
                return ssa, 'A', {ssa}
        return _prev_expr_real(self, node)

    py2lean.Translator.stmt = _stmt_columns
    py2lean.Translator.expr_real = _expr_real_columns
    py2lean.Translator._c09_column_patch = True

_F = 'AegeanTools/regions.py'
_H = 'Aegean.Model.C09'
_D3 = ['depth_is_none', 'depth', 'maxdepth']
_P3 = {'depth_is_none': 'N', 'depth': 'N', 'maxdepth': 'N'}
_S3 = {'self.maxdepth': 'maxdepth'}


def _handoff_targets(func, prefix):
    """one target per piece, so that one unreadable piece does not take the others down"""
    sig3 = '(depth_is_none depth maxdepth : Nat)'
    return [
        dict(file=_F, func=func, mode='int', params={}, outputs=[('__kw_fact', prefix + 'Fact')],
             fallback={prefix + 'Fact': f'def {prefix}Fact : Nat := {_H}.{prefix}FactHand'}),
        dict(file=_F, func=func, mode='int', params=_P3, subst=_S3, outputs=[('__arg_nside', prefix + 'Nside')], all_params=_D3,
             fallback={prefix + 'Nside': f'def {prefix}Nside {sig3} : Nat := {_H}.nsideHand depth_is_none depth maxdepth'}),
        dict(file=_F, func=func, mode='int', params=_P3, subst=_S3, outputs=[('__arg_insert_depth', prefix + 'InsertDepth')], all_params=_D3,
             fallback={prefix + 'InsertDepth': f'def {prefix}InsertDepth {sig3} : Nat := {_H}.clampHand depth_is_none depth maxdepth'}),
        dict(file=_F, func=func, mode='int', params={}, outputs=[('__kw_inclusive', prefix + 'Inclusive')],
             fallback={prefix + 'Inclusive': f'def {prefix}Inclusive : Bool := true'}),
        dict(file=_F, func=func, mode='int', params={}, outputs=[('__kw_nest', prefix + 'Nest')],
             fallback={prefix + 'Nest': f'def {prefix}Nest : Bool := true'}),
    ]


TARGETS = _handoff_targets('Region.add_circles', 'disc') + _handoff_targets('Region.add_poly', 'poly') + [
    dict(file=_F, func='Region.sky_within', mode='int', params={'maxdepth': 'N'}, subst=_S3, outputs=[('__arg_nside', 'withinNside')],
         all_params=['maxdepth'], fallback={'withinNside': f'def withinNside (maxdepth : Nat) : Nat := {_H}.withinNsideHand maxdepth'}),
    dict(file=_F, func='Region.sky_within', mode='int', params={}, outputs=[('__kw_nest', 'withinNest')],
         fallback={'withinNest': 'def withinNest : Bool := true'}),
    dict(file=_F, func='Region.sky2ang', mode='real', params={'col0': 'A', 'col1': 'A'},
         subst={'__columns__': 'theta_phi', '__source__': 'sky'},
         outputs=[('__ret_c0', 'sky2angCol0'), ('__ret_c1', 'sky2angCol1')], all_params=['col0', 'col1'],
         fallback={'sky2angCol0': f'def sky2angCol0 {{α : Type}} [R α] (col0 col1 : α) : α := {_H}.sky2angThetaHand col1',
                   'sky2angCol1': f'def sky2angCol1 {{α : Type}} [R α] (col0 col1 : α) : α := col0'}),
    dict(file=_F, func='Region.sky2ang', mode='real', params={'col0': 'A'},
         subst={'theta_phi[:, 0]': 'col0'},
         outputs=[('__sub_col0', 'sky2angTheta')],
         fallback={'sky2angTheta': f'def sky2angTheta {{α : Type}} [R α] (col0 : α) : α := {_H}.sky2angThetaHand col0'}),
    dict(file=_F, func='Region.vec2sky', mode='real', params={'degrees': 'B'},
         outputs=[('ra', 'vec2skyRa'), ('dec', 'vec2skyDec')],
         fallback={'vec2skyRa': f'def vec2skyRa {{α : Type}} [R α] (degrees : Bool) (phi : α) : α := {_H}.vec2skyRaHand degrees phi',
                   'vec2skyDec': f'def vec2skyDec {{α : Type}} [R α] (degrees : Bool) (theta : α) : α := {_H}.vec2skyDecHand degrees theta'}),
    dict(file=_F, func='Region.sky_within', mode='real', params={'degin': 'B'},
         outputs=[('sky', 'skyWithinScale')],
         fallback={'skyWithinScale': f'def skyWithinScale {{α : Type}} [R α] (degin : Bool) (sky : α) : α := {_H}.skyWithinScaleHand degin sky'}),
]
