"""C09 translation targets (real mode): the arithmetic leaves of the conversion algebra in regions.py.

  Region.sky2ang    -> sky2angTheta   `theta_phi[:, 0] = np.pi/2 - theta_phi[:, 0]`  (col0 = dec after the swap)
  Region.vec2sky    -> vec2skyRa, vec2skyDec   `ra = phi`, `dec = np.pi/2 - theta`, and the `if degrees:` rescaling
                       (theta, phi = hp.vec2ang(vec) are the inputs)
  Region.sky_within -> skyWithinScale  `if degin: sky = np.radians(sky)` per element (sky = radec2sky(...) is the input)

The column swap of sky2ang, the calls into healpy and the masking are outside the arithmetic whitelist:
they are hand-modelled (Model/C09.lean) and tied by the correspondence harness, which spies on the
actual arguments healpy receives.

Two small extensions of py2lean (AGENT_GUIDE: extended copies live in the targets file):
  * `np.pi` / `math.pi` become `R.pi`  (same extension as C04's; applied only if not already present);
  * an assignment to a subscript `X[...] = e` whose target text is a key of the target's `subst` binds
    the pseudo-variable `__sub_<param>` to the translation of `e` (evaluated BEFORE the binding, so the
    right-hand side sees the old value = the parameter).
Flags (`degin`, `degrees`) are parameters of type 'B' (Bool); the translator's if-merge produces
`if flag then … else …`.
"""
import ast

import py2lean


def _with_pi(orig):
    def expr_real(self, node):
        if isinstance(node, ast.Attribute) and isinstance(node.value, ast.Name) \
                and node.value.id in ('np', 'numpy', 'math') and node.attr == 'pi':
            return '(R.pi : α)', 'A', set()
        return orig(self, node)
    expr_real._c09_pi = True
    return expr_real


def _pi_already_handled():
    try:
        tr = py2lean.Translator('real', {})
        tr.expr(ast.parse('np.pi', mode='eval').body)
        return True
    except py2lean.Untranslatable:
        return False


if not _pi_already_handled():
    py2lean.Translator.expr_real = _with_pi(py2lean.Translator.expr_real)


if not getattr(py2lean.Translator, '_c09_subscript_patch', False):
    _orig_stmt = py2lean.Translator.stmt

    def _stmt(self, s):
        if isinstance(s, ast.Assign) and len(s.targets) == 1 and isinstance(s.targets[0], ast.Subscript):
            key = ast.unparse(s.targets[0])
            if key in self.subst:
                try:
                    c, t, d = self.expr(s.value)
                except py2lean.Untranslatable:
                    return
                self.bind('__sub_' + self.subst[key], c, t, d)
                return
        return _orig_stmt(self, s)

    py2lean.Translator.stmt = _stmt
    py2lean.Translator._c09_subscript_patch = True

_F = 'AegeanTools/regions.py'
_H = 'Aegean.Model.C09'

TARGETS = [
    dict(file=_F, func='Region.sky2ang', mode='real', params={'col0': 'A'},
         subst={'theta_phi[:, 0]': 'col0'},
         outputs=[('__sub_col0', 'sky2angTheta')],
         fallback={'sky2angTheta': f'def sky2angTheta {{α : Type}} [R α] (col0 : α) : α := {_H}.sky2angThetaHand col0'}),
    dict(file=_F, func='Region.vec2sky', mode='real', params={'degrees': 'B'},
         outputs=[('ra', 'vec2skyRa'), ('dec', 'vec2skyDec')],
         fallback={'vec2skyRa': f'def vec2skyRa {{α : Type}} [R α] (degrees : Bool) (phi : α) : α := {_H}.vec2skyRaHand degrees phi',
                   'vec2skyDec': f'def vec2skyDec {{α : Type}} [R α] (degrees : Bool) (theta : α) : α := {_H}.vec2skyDecHand degrees theta'}),
    dict(file=_F, func='Region.sky_within', mode='real', params={'degin': 'B'},
         outputs=[('sky', 'skyWithinScale')],
         fallback={'skyWithinScale': f'def skyWithinScale {{α : Type}} [R α] (degin : Bool) (sky : α) : α := {_H}.skyWithinScaleHand degin sky'}),
]
