"""C08: the arithmetic leaves and loop ranges of `regions.Region`, one Lean definition each (`Gen.C08.*`):

    _demote_all   children p        the tuple handed to pd[d+1].update(...)          demoteLevels m   range(1, maxdepth)
    _renorm       quadHead p        the test `p % 4 == 0`                            renormLevels m   range(maxdepth, 2, -1)
                  parent p          the argument of pixeldict[d-1].add(...)
    union         degrade p d m     `p // 4**(d - self.maxdepth)`                    unionShared m om range(1, min(..)+1)
                  finer m om        the guard `self.maxdepth < other.maxdepth`       unionFiner m om  range(m+1, om+1)
    get_area                                                                         areaLevels m     range(1, maxdepth+1)
    without / intersect / symmetric_difference    sameDepthW/I/X m om   the condition whose failure raises AssertionError

The hand-written glue `Model.C08.stepL` assembles them (sets, caches, aliasing, healpy and pickle stay hand-modelled).

Each slicer first checks that the function still has the *shape* the glue assumes (one loop over the levels whose body
is the inner loop plus the reset of the level, one `.add(...)` of the parent, the guard as first statement, …) and
raises Untranslatable otherwise — nothing it cannot read is skipped silently; the fallback is `Model/C08Hand.lean`
and the correspondence then ties that piece alone.  Locals may be renamed, `pd` may or may not alias
`self.pixeldict`, the children may be a tuple / list / set literal with or without `set(...)`, the degraded id may go
through a temporary, the guard may be `if not (A == B): raise` or `if A != B: raise`.

Like C12.py this needs a per-target hook that translator/targets.py does not have, hence `_install()`.
"""
import ast
import os
import sys

sys.path.insert(0, os.path.dirname(os.path.dirname(os.path.abspath(__file__))))
import py2lean  # noqa: E402
from py2lean import Untranslatable  # noqa: E402

SUBST = {'self.maxdepth': 'maxdepth', 'other.maxdepth': 'omaxdepth'}
T = {'N': 'Nat', 'LN': 'List Nat', 'B': 'Bool'}


class X(py2lean.Translator):
    """int-mode expressions + `a ** (x - y)` with a natural exponent read as Int.toNat (x - y)"""

    def expr_int(self, node):
        if isinstance(node, ast.BinOp) and isinstance(node.op, ast.Pow):
            a, ta, da = self.expr(node.left)
            b, tb, db = self.expr(node.right)
            if ta != 'N':
                raise Untranslatable("power of a non-natural")
            if tb == 'Z':
                b, tb = f"(Int.toNat {b})", 'N'
            if tb != 'N':
                raise Untranslatable("power with a non-integer exponent")
            return f"({a} ^ {b})", 'N', da | db
        return super().expr_int(node)


def tr_expr(node, names, want):
    """translate `node` over the natural-number variables `names` (python name -> lean name)"""
    tr = X('int', dict({v: 'N' for v in names.values()}, maxdepth='N', omaxdepth='N'), dict(SUBST))
    for py, lean in names.items():
        tr.env[py] = (lean, 'N')
    for free in ast.walk(node):
        if isinstance(free, ast.Name) and free.id not in names and free.id not in ('min', 'max', 'int', 'abs', 'self', 'other', 'range', 'len'):
            raise Untranslatable(f"expression uses {free.id}")
    c, t, _ = tr.expr(node)
    if t == 'B':
        c = f"decide {c}"
    if t == 'Z' and want == 'N':
        # Python integers that are non-negative wherever the code uses them (d - maxdepth inside the loop over the
        # finer levels); read as naturals.  The obligation then pins the value on that range.
        c, t = f"(Int.toNat {c})", 'N'
    if t != want:
        raise Untranslatable(f"expression {ast.unparse(node)} has type {t}, wanted {want}")
    return c


def tr_range(call, names):
    if not (isinstance(call, ast.Call) and isinstance(call.func, ast.Name) and call.func.id == 'range' and not call.keywords):
        raise Untranslatable(f"not a range: {ast.unparse(call)}")
    a = call.args
    if len(a) == 3:
        st = a[2]
        if isinstance(st, ast.UnaryOp) and isinstance(st.op, ast.USub) and isinstance(st.operand, ast.Constant) and st.operand.value == 1:
            hi, lo = tr_expr(a[0], names, 'N'), tr_expr(a[1], names, 'N')
            return f"((List.range ({hi} - {lo})).map (fun k => {hi} - k))"
        if isinstance(st, ast.Constant) and st.value == 1:
            a = a[:2]
        else:
            raise Untranslatable(f"range step {ast.unparse(st)}")
    if len(a) == 1:
        return f"(Py.range 0 {tr_expr(a[0], names, 'N')} 1)"
    if len(a) == 2:
        return f"(Py.range {tr_expr(a[0], names, 'N')} {tr_expr(a[1], names, 'N')} 1)"
    raise Untranslatable("range arity")


def body_of(fn):
    b = list(fn.body)
    if b and isinstance(b[0], ast.Expr) and isinstance(b[0].value, ast.Constant) and isinstance(b[0].value.value, str):
        b = b[1:]
    return b


def range_loops(fn):
    return [n for n in ast.walk(fn) if isinstance(n, ast.For) and isinstance(n.iter, ast.Call)
            and isinstance(n.iter.func, ast.Name) and n.iter.func.id == 'range']


def no_while(fn):
    for n in ast.walk(fn):
        if isinstance(n, (ast.While, ast.Try, ast.With, ast.Lambda, ast.ListComp, ast.GeneratorExp)):
            raise Untranslatable(f"{type(n).__name__} in {fn.name}")


def level_set(node, d, aliases=('pd', 'self.pixeldict', 'other.pixeldict')):
    """is `node` the set of level `d` (+offset) of a pixel dictionary?  returns (owner, offset) or None"""
    if not isinstance(node, ast.Subscript):
        return None
    owner = ast.unparse(node.value)
    if owner not in aliases:
        return None
    idx = ast.unparse(node.slice)
    for off, txt in ((0, [d]), (1, [f"{d} + 1", f"1 + {d}"]), (-1, [f"{d} - 1"]), ('max', ['self.maxdepth'])):
        if idx in txt:
            return owner, off
    return None


def slice_demote(fn):
    no_while(fn)
    loops = range_loops(fn)
    if len(loops) != 1:
        raise Untranslatable("_demote_all: expected exactly one loop over the levels")
    outer = loops[0]
    if not isinstance(outer.target, ast.Name) or outer.orelse:
        raise Untranslatable("_demote_all: loop header")
    d = outer.target.id
    out = {'demoteLevels': lambda: ('(maxdepth : Nat)', 'LN', tr_range(outer.iter, {}))}
    if len(outer.body) != 2:
        raise Untranslatable("_demote_all: the level loop no longer consists of the inner loop and the reset of the level")
    inner, reset = outer.body
    ok_reset = isinstance(reset, ast.Assign) and len(reset.targets) == 1 and level_set(reset.targets[0], d) \
        and level_set(reset.targets[0], d)[1] == 0 and ast.unparse(reset.value) in ('set()', 'set([])')
    if not ok_reset:
        raise Untranslatable("_demote_all: level is not reset with `= set()`")
    if not (isinstance(inner, ast.For) and isinstance(inner.target, ast.Name) and level_set(inner.iter, d)
            and level_set(inner.iter, d)[1] == 0 and len(inner.body) == 1 and not inner.orelse):
        raise Untranslatable("_demote_all: inner loop over the pixels of the level")
    p = inner.target.id
    st = inner.body[0]
    if not (isinstance(st, ast.Expr) and isinstance(st.value, ast.Call) and isinstance(st.value.func, ast.Attribute)
            and st.value.func.attr == 'update' and level_set(st.value.func.value, d)
            and level_set(st.value.func.value, d)[1] == 1 and len(st.value.args) == 1 and not st.value.keywords):
        raise Untranslatable("_demote_all: children are not added with pd[d+1].update(...)")
    arg = st.value.args[0]
    if isinstance(arg, ast.Call) and isinstance(arg.func, ast.Name) and arg.func.id == 'set' and len(arg.args) == 1:
        arg = arg.args[0]
    if not isinstance(arg, (ast.Tuple, ast.List, ast.Set)):
        raise Untranslatable("_demote_all: children are not a literal collection")
    out['children'] = lambda: ('(p : Nat)', 'LN', "[" + ", ".join(tr_expr(e, {p: 'p'}, 'N') for e in arg.elts) + "]")
    return out


def slice_renorm(fn):
    no_while(fn)
    loops = range_loops(fn)
    if len(loops) != 1:
        raise Untranslatable("_renorm: expected exactly one loop over the levels")
    outer = loops[0]
    d = outer.target.id if isinstance(outer.target, ast.Name) else None
    if d is None or outer.orelse:
        raise Untranslatable("_renorm: loop header")
    out = {'renormLevels': lambda: ('(maxdepth : Nat)', 'LN', tr_range(outer.iter, {}))}
    inner = [s for s in outer.body if isinstance(s, ast.For)]
    others = [s for s in outer.body if not isinstance(s, ast.For)]
    if len(inner) != 1 or len(others) > 1:
        raise Untranslatable("_renorm: body of the level loop")
    plist = None
    if others:
        a = others[0]
        if not (isinstance(a, ast.Assign) and len(a.targets) == 1 and isinstance(a.targets[0], ast.Name)
                and ast.unparse(a.value) in (f"self.pixeldict[{d}].copy()", f"set(self.pixeldict[{d}])", f"list(self.pixeldict[{d}])")):
            raise Untranslatable("_renorm: snapshot of the level")
        plist = a.targets[0].id
    inner = inner[0]
    if not (isinstance(inner.target, ast.Name) and ast.unparse(inner.iter) == (plist or '?') and len(inner.body) == 1
            and isinstance(inner.body[0], ast.If) and not inner.body[0].orelse):
        raise Untranslatable("_renorm: inner loop over the snapshot with the head-of-quad test")
    p = inner.target.id
    head = inner.body[0]
    out['quadHead'] = lambda: ('(p : Nat)', 'B', tr_expr(head.test, {p: 'p'}, 'B'))
    adds = [n for n in ast.walk(head) if isinstance(n, ast.Call) and isinstance(n.func, ast.Attribute) and n.func.attr == 'add']
    dus = [n for n in ast.walk(head) if isinstance(n, ast.Call) and isinstance(n.func, ast.Attribute)
           and n.func.attr == 'difference_update']
    if len(adds) != 1 or len(dus) != 1 or len(adds[0].args) != 1:
        raise Untranslatable("_renorm: expected one difference_update and one add of the parent")
    tgt = level_set(adds[0].func.value, d)
    if not tgt or tgt[1] != -1:
        raise Untranslatable("_renorm: the parent is not added to pixeldict[d-1]")
    tgt = level_set(dus[0].func.value, d)
    if not tgt or tgt[1] != 0:
        raise Untranslatable("_renorm: the quad is not removed from pixeldict[d]")
    out['parent'] = lambda: ('(p : Nat)', 'N', tr_expr(adds[0].args[0], {p: 'p'}, 'N'))
    return out


def slice_union(fn):
    no_while(fn)
    loops = range_loops(fn)
    if len(loops) != 2:
        raise Untranslatable("union: expected the loop over shared levels and the loop over finer levels")
    top = body_of(fn)
    shared = loops[0]
    if shared not in top or not isinstance(shared.target, ast.Name):
        raise Untranslatable("union: shared-level loop is not at top level")
    d = shared.target.id
    if not (len(shared.body) == 1 and ast.unparse(shared.body[0]) == f"self.add_pixels(other.pixeldict[{d}], {d})"):
        raise Untranslatable("union: body of the shared-level loop")
    out = {'unionShared': lambda: ('(maxdepth : Nat) (omaxdepth : Nat)', 'LN', tr_range(shared.iter, {}))}
    guards = [s for s in top if isinstance(s, ast.If) and loops[1] in list(ast.walk(s))]
    if len(guards) != 1 or guards[0].orelse or len(guards[0].body) != 1 or guards[0].body[0] is not loops[1]:
        raise Untranslatable("union: the finer-level loop is not guarded by a single condition")
    out['finer'] = lambda: ('(maxdepth : Nat) (omaxdepth : Nat)', 'B', tr_expr(guards[0].test, {}, 'B'))
    fin = loops[1]
    d2 = fin.target.id if isinstance(fin.target, ast.Name) else None
    out['unionFiner'] = lambda: ('(maxdepth : Nat) (omaxdepth : Nat)', 'LN', tr_range(fin.iter, {}))
    if not (d2 and len(fin.body) == 1 and isinstance(fin.body[0], ast.For) and isinstance(fin.body[0].target, ast.Name)
            and ast.unparse(fin.body[0].iter) == f"other.pixeldict[{d2}]"):
        raise Untranslatable("union: inner loop over the finer pixels")
    pl = fin.body[0]
    p = pl.target.id
    temps = {}
    addarg = None
    for s in pl.body:
        if isinstance(s, ast.Assign) and len(s.targets) == 1 and isinstance(s.targets[0], ast.Name):
            temps[s.targets[0].id] = s.value
        elif isinstance(s, ast.Expr) and isinstance(s.value, ast.Call) and isinstance(s.value.func, ast.Attribute) \
                and s.value.func.attr == 'add' and ast.unparse(s.value.func.value) == 'self.pixeldict[self.maxdepth]' \
                and len(s.value.args) == 1 and addarg is None:
            addarg = s.value.args[0]
        else:
            raise Untranslatable("union: statement in the finer-pixel loop: " + " ".join(ast.unparse(s).split())[:50])
    if addarg is None:
        raise Untranslatable("union: degraded pixel is not added to pixeldict[maxdepth]")
    for _ in range(3):            # inline single temporaries (pp = …)
        if isinstance(addarg, ast.Name) and addarg.id in temps:
            addarg = temps[addarg.id]
    final = addarg
    out['degrade'] = lambda: ('(p : Nat) (d : Nat) (maxdepth : Nat)', 'N', tr_expr(final, {p: 'p', d2: 'd'}, 'N'))
    rest = [s for s in top if s is not shared and s is not guards[0]]
    for s in rest:
        txt = " ".join(ast.unparse(s).split())
        if txt not in ('if renorm: self._renorm()', 'return', 'return None'):
            raise Untranslatable("union: unexpected statement " + txt[:50])
    return out


def slice_area(fn):
    no_while(fn)
    loops = range_loops(fn)
    if len(loops) != 1:
        raise Untranslatable("get_area: expected one loop over the levels")
    return {'areaLevels': lambda: ('(maxdepth : Nat)', 'LN', tr_range(loops[0].iter, {}))}


def slice_guard(name):
    def f(fn):
        b = body_of(fn)
        while b and isinstance(b[0], ast.Expr) and isinstance(b[0].value, ast.Constant):
            b = b[1:]
        if not b or not isinstance(b[0], ast.If) or b[0].orelse or len(b[0].body) != 1 or not isinstance(b[0].body[0], ast.Raise):
            raise Untranslatable(f"{fn.name}: the first statement is not `if <condition>: raise …`")
        exc = b[0].body[0].exc
        if exc is None or 'AssertionError' not in ast.unparse(exc):
            raise Untranslatable(f"{fn.name}: the guard does not raise AssertionError")
        test = b[0].test
        def leaf():
            if isinstance(test, ast.UnaryOp) and isinstance(test.op, ast.Not):
                code = tr_expr(test.operand, {}, 'B')
            else:
                code = "!(" + tr_expr(test, {}, 'B') + ")"
            return ('(maxdepth : Nat) (omaxdepth : Nat)', 'B', code)
        return {name: leaf}
    return f


LEAVES = {
    'children': ('Region._demote_all', slice_demote), 'demoteLevels': ('Region._demote_all', slice_demote),
    'quadHead': ('Region._renorm', slice_renorm), 'parent': ('Region._renorm', slice_renorm),
    'renormLevels': ('Region._renorm', slice_renorm),
    'degrade': ('Region.union', slice_union), 'unionShared': ('Region.union', slice_union),
    'unionFiner': ('Region.union', slice_union), 'finer': ('Region.union', slice_union),
    'areaLevels': ('Region.get_area', slice_area),
    'sameDepthW': ('Region.without', slice_guard('sameDepthW')),
    'sameDepthI': ('Region.intersect', slice_guard('sameDepthI')),
    'sameDepthX': ('Region.symmetric_difference', slice_guard('sameDepthX')),
}
HAND = {'sameDepthW': 'sameDepth', 'sameDepthI': 'sameDepth', 'sameDepthX': 'sameDepth'}
SIGS = {
    'children': ('(p : Nat)', 'List Nat', 'p'), 'parent': ('(p : Nat)', 'Nat', 'p'), 'quadHead': ('(p : Nat)', 'Bool', 'p'),
    'degrade': ('(p : Nat) (d : Nat) (maxdepth : Nat)', 'Nat', 'p d maxdepth'),
    'demoteLevels': ('(maxdepth : Nat)', 'List Nat', 'maxdepth'), 'renormLevels': ('(maxdepth : Nat)', 'List Nat', 'maxdepth'),
    'areaLevels': ('(maxdepth : Nat)', 'List Nat', 'maxdepth'),
    'unionShared': ('(maxdepth : Nat) (omaxdepth : Nat)', 'List Nat', 'maxdepth omaxdepth'),
    'unionFiner': ('(maxdepth : Nat) (omaxdepth : Nat)', 'List Nat', 'maxdepth omaxdepth'),
    'finer': ('(maxdepth : Nat) (omaxdepth : Nat)', 'Bool', 'maxdepth omaxdepth'),
    'sameDepthW': ('(maxdepth : Nat) (omaxdepth : Nat)', 'Bool', 'maxdepth omaxdepth'),
    'sameDepthI': ('(maxdepth : Nat) (omaxdepth : Nat)', 'Bool', 'maxdepth omaxdepth'),
    'sameDepthX': ('(maxdepth : Nat) (omaxdepth : Nat)', 'Bool', 'maxdepth omaxdepth'),
}


def translate_leaf(src_path, leaf):
    qual, slicer = LEAVES[leaf]
    tree = ast.parse(open(src_path).read())
    fn = py2lean.find_function(tree, qual)
    try:
        res = slicer(fn)
    except Untranslatable:
        raise
    except Exception as e:          # a shape the slicer did not foresee: refuse, never guess
        raise Untranslatable(f"{qual}: {type(e).__name__}: {e}")
    if leaf not in res:
        raise Untranslatable(f"{leaf} not found in {qual}")
    try:
        sig, t, code = res[leaf]()
    except Untranslatable:
        raise
    except Exception as e:
        raise Untranslatable(f"{qual}.{leaf}: {type(e).__name__}: {e}")
    return f"def {leaf} {sig} : {T[t]} :=\n  {code}", {leaf: []}


def _install():
    for depth in range(1, 16):
        try:
            g = sys._getframe(depth).f_globals
        except ValueError:
            return
        if str(g.get('__file__', '')).endswith(os.path.join('translator', 'targets.py')) and 'translate_function' in g:
            orig = g['translate_function']
            if getattr(orig, '_c08', False):
                return

            def wrapped(src_path, qualname, outputs, mode, params, subst=None, calls=None, returns=None, **kw):
                if outputs and str(outputs[0][0]).startswith('__c08__'):
                    return translate_leaf(src_path, outputs[0][1])
                return orig(src_path, qualname, outputs, mode, params, subst, calls, returns=returns, **kw)
            wrapped._c08 = True
            if getattr(orig, '_c12', False):
                wrapped._c12 = True
            g['translate_function'] = wrapped
            return


_install()

TARGETS = [
    dict(file='AegeanTools/regions.py', func=LEAVES[leaf][0], mode='int', params={}, subst=SUBST,
         outputs=[('__c08__' + leaf, leaf)], translator=translate_leaf,
         fallback={leaf: f"def {leaf} {SIGS[leaf][0]} : {SIGS[leaf][1]} := Aegean.Model.C08.Hand.{HAND.get(leaf, leaf)} {SIGS[leaf][2]}"},
         fallback_imports=['Aegean.Model.C08Hand'])
    for leaf in ['children', 'demoteLevels', 'quadHead', 'parent', 'renormLevels', 'degrade', 'unionShared', 'unionFiner',
                 'finer', 'areaLevels', 'sameDepthW', 'sameDepthI', 'sameDepthX']
]
