"""C02 / C11: source_finder.find_islands, sliced into the pieces that carry the two properties.

  floodTest s clip      the comparison that builds the flood mask (the array handed to scipy.ndimage.label)
  floodFinite           1 iff that mask also requires np.isfinite(...)
  seedTest s clip       the comparison of the seed constraint
  seedScope             1 iff the seed comparison is restricted to the island's own pixels (subscripted by, or and-ed
                        with, `labels[box] == <label of this island>`), 0 iff it ranges over the whole bounding box
  ownLabel i            the label that selects the own pixels of the island visited in loop iteration i
  maskLabel i           the label used in the island mask `(snr[box] < flood) | (labels[box] != <label>)`
  (C11, see targets/C11.py)  probeX / probeY / probeOrigin / probeScope : the pixel -> FITS position arithmetic of the region test

The slicer reads the AST of the tree under test ($AEGEAN_REPO, default /repo) and writes each piece as a tiny Python
function (inside the translator's int-mode whitelist) into a scratch file.  It works structurally (which array goes
into label(), which compare mentions the flood / seed parameter, which subscript selects by label), inlines simple
aliases, and follows renamed locals and `for idx, (xs, ys) in enumerate(find_objects(labels))`.  Anything it does
not recognise is written as a call the translator rejects: the piece is reported UNTRANSLATABLE, the hand
definition of Aegean/Model/C02.lean stands in, and only the correspondence ties that piece to the code.
The comparisons are translated over Int: what is regenerated is the operator (direction, strictness), which does
not depend on the element type.
"""
import ast
import copy
import hashlib
import os
import tempfile

_F = 'AegeanTools/source_finder.py'


class _Bad(Exception):
    pass


def _names(node):
    return {n.id for n in ast.walk(node) if isinstance(n, ast.Name)}


class _Sub(ast.NodeTransformer):
    """replace whole sub-expressions (by unparse text) and names"""

    def __init__(self, exprs, names):
        self.exprs, self.names = exprs, names

    def visit(self, node):
        if isinstance(node, ast.expr):
            key = ast.unparse(node)
            if key in self.exprs:
                return ast.Name(id=self.exprs[key], ctx=ast.Load())
        return super().visit(node)

    def visit_Name(self, node):
        if node.id in self.names:
            return ast.Name(id=self.names[node.id], ctx=node.ctx)
        return node


def _rewrite(node, exprs=None, names=None):
    return ast.unparse(ast.fix_missing_locations(_Sub(exprs or {}, names or {}).visit(copy.deepcopy(node))))


class Reader(object):
    """structural facts about find_islands"""

    def __init__(self, fn):
        self.fn = fn
        args = [a.arg for a in fn.args.args]
        if len(args) < 5:
            raise _Bad('signature')
        self.seed, self.flood = args[3], args[4]
        # single-target assignments  name -> [value nodes]
        self.assign = {}
        for n in ast.walk(fn):
            if isinstance(n, ast.Assign) and len(n.targets) == 1 and isinstance(n.targets[0], ast.Name):
                self.assign.setdefault(n.targets[0].id, []).append(n.value)
        # labels, count = label(mask, ...)
        self.labels = self.count = self.mask = None
        for n in ast.walk(fn):
            if isinstance(n, ast.Assign) and len(n.targets) == 1 and isinstance(n.targets[0], ast.Tuple) \
                    and isinstance(n.value, ast.Call) and ast.unparse(n.value.func).split('.')[-1] == 'label' \
                    and len(n.targets[0].elts) == 2 and all(isinstance(e, ast.Name) for e in n.targets[0].elts) \
                    and n.value.args and isinstance(n.value.args[0], ast.Name):
                if self.labels is not None:
                    raise _Bad('two label() calls')
                self.labels, self.count = (e.id for e in n.targets[0].elts)
                self.mask = n.value.args[0].id
        if self.labels is None:
            raise _Bad('label() call not found')
        # boxes = find_objects(labels)
        self.boxes = None
        for k, vs in self.assign.items():
            for v in vs:
                if isinstance(v, ast.Call) and ast.unparse(v.func).split('.')[-1] == 'find_objects' \
                        and v.args and ast.unparse(v.args[0]) == self.labels:
                    self.boxes = k
        # the loop over islands: `for i in range(count)` or `for i, box in enumerate(boxes | find_objects(labels)[, start=k])`
        self.loop = self.ivar = None
        self.start = 0              # the loop variable equals (iteration number + start)
        self.slices = None          # (row slice name, col slice name) when the loop unpacks the boxes
        self.boxvar = None          # name of the per-island box when the loop binds it
        for n in ast.walk(fn):
            if not isinstance(n, ast.For):
                continue
            it = n.iter
            if ast.unparse(it) == f'range({self.count})' and isinstance(n.target, ast.Name):
                self.loop, self.ivar = n, n.target.id
            elif isinstance(it, ast.Call) and ast.unparse(it.func) == 'enumerate' and it.args \
                    and (ast.unparse(it.args[0]) in ((self.boxes,) if self.boxes else ())
                         or ast.unparse(it.args[0]).split('(')[0].split('.')[-1] == 'find_objects'
                         and ast.unparse(it.args[0]).endswith(f'({self.labels})')) \
                    and isinstance(n.target, ast.Tuple) and len(n.target.elts) == 2 and isinstance(n.target.elts[0], ast.Name):
                st = [k.value for k in it.keywords if k.arg == 'start'] + list(it.args[1:2])
                if st and not (isinstance(st[0], ast.Constant) and isinstance(st[0].value, int)):
                    continue
                self.start = st[0].value if st else 0
                self.loop, self.ivar = n, n.target.elts[0].id
                t = n.target.elts[1]
                if isinstance(t, ast.Tuple) and len(t.elts) == 2 and all(isinstance(e, ast.Name) for e in t.elts):
                    self.slices = (t.elts[0].id, t.elts[1].id)
                elif isinstance(t, ast.Name):
                    self.boxvar = t.id
        self.alias = {}
        if self.loop is None:
            return
        # simple aliases inside the loop: name = <expression without calls>, assigned once
        for n in ast.walk(self.loop):
            if isinstance(n, ast.Assign) and len(n.targets) == 1 and isinstance(n.targets[0], ast.Name) \
                    and not any(isinstance(x, ast.Call) for x in ast.walk(n.value)) \
                    and len(self.assign.get(n.targets[0].id, [])) == 1:
                self.alias[n.targets[0].id] = n.value

    def inline(self, node, depth=0):
        """inline the loop's simple aliases (a few levels)"""
        node = copy.deepcopy(node)
        for _ in range(4):
            class T(ast.NodeTransformer):
                def visit_Name(s, nd):
                    if isinstance(nd.ctx, ast.Load) and nd.id in self.alias:
                        return copy.deepcopy(self.alias[nd.id])
                    return nd
            node = ast.fix_missing_locations(T().visit(node))
        return node

    def is_label_select(self, node, op):
        """`labels[...] == E` / `!= E` (after inlining); returns E or None"""
        node = self.inline(node)
        if isinstance(node, ast.Compare) and len(node.ops) == 1 and isinstance(node.ops[0], op):
            a, b = node.left, node.comparators[0]
            for x, y in ((a, b), (b, a)):
                if isinstance(x, ast.Subscript) and ast.unparse(x.value) == self.labels and self.labels not in _names(y):
                    return y
        return None

    def need_loop(self):
        if self.loop is None:
            raise _Bad('loop over the labelled groups not recognised')

    def label_expr(self, e):
        extra = _names(e) - {self.ivar}
        if extra:
            raise _Bad(f'label expression uses {sorted(extra)}')
        rd = self

        class T(ast.NodeTransformer):
            def visit_Name(s, nd):
                if nd.id == rd.ivar:
                    return ast.parse(f'(i + {rd.start})' if rd.start else 'i', mode='eval').body
                return nd
        return ast.unparse(ast.fix_missing_locations(T().visit(copy.deepcopy(e))))

    def clip_compare(self, root, clip, other):
        """the unique comparison under `root` that mentions the parameter `clip` (and not the other threshold)"""
        found = [n for n in ast.walk(root) if isinstance(n, ast.Compare) and clip in _names(n) and other not in _names(n)]
        if len(found) != 1 or len(found[0].ops) != 1:
            raise _Bad(f'{len(found)} comparisons with {clip}')
        c = found[0]
        left, right = c.left, c.comparators[0]
        if ast.unparse(left) == clip:
            s_side = right
        elif ast.unparse(right) == clip:
            s_side = left
        else:
            raise _Bad(f'{clip} is not compared directly')
        if clip in _names(s_side):
            raise _Bad('threshold on both sides')
        text = _rewrite(c, exprs={ast.unparse(s_side): 's'}, names={clip: 'clip'})
        return c, s_side, text


def _flood(rd):
    vs = rd.assign.get(rd.mask, [])
    if len(vs) != 1:
        raise _Bad('flood mask assigned more than once')
    _, _, text = rd.clip_compare(vs[0], rd.flood, rd.seed)
    fin = 1 if any(isinstance(n, ast.Call) and ast.unparse(n.func).split('.')[-1] == 'isfinite' for n in ast.walk(vs[0])) else 0
    return text, fin


def _seed(rd):
    cmp_node, s_side, text = rd.clip_compare(rd.fn, rd.seed, rd.flood)
    inside_loop = rd.loop is not None and any(n is cmp_node for n in ast.walk(rd.loop))
    if not inside_loop:
        return text, None
    # scope: own pixels only?
    scope = None
    s_in = rd.inline(s_side)
    if isinstance(s_in, ast.Subscript) and rd.is_label_select(s_in.slice, ast.Eq) is not None:
        scope = 1                                   # snr[box][labels[box] == k]
    else:
        # (compare) & own   somewhere around the comparison
        for n in ast.walk(rd.loop):
            if isinstance(n, ast.BinOp) and isinstance(n.op, ast.BitAnd):
                sides = [n.left, n.right]
                if any(x is cmp_node for x in sides) and any(rd.is_label_select(x, ast.Eq) is not None for x in sides):
                    scope = 1
        if scope is None and isinstance(s_in, ast.Subscript) and ast.unparse(s_in.value) not in (rd.labels,):
            idx = s_in.slice
            if isinstance(idx, ast.Tuple) and all(isinstance(e, ast.Slice) for e in idx.elts):
                scope = 0                           # snr[xmin:xmax, ymin:ymax] : the whole bounding box
    return text, scope


def _labels(rd):
    rd.need_loop()
    own = [rd.is_label_select(n, ast.Eq) for n in ast.walk(rd.loop) if isinstance(n, ast.Compare)]
    own = {rd.label_expr(e) for e in own if e is not None}
    msk = [rd.is_label_select(n, ast.NotEq) for n in ast.walk(rd.loop) if isinstance(n, ast.Compare)]
    msk = {rd.label_expr(e) for e in msk if e is not None}
    return own, msk


def _piece(head, body_ok, bad_lines):
    return head + "\n".join("    " + l for l in body_ok) + "\n"


def slice_text(repo):
    out = []
    try:
        import warnings
        with warnings.catch_warnings():
            warnings.simplefilter('ignore')          # the source may contain '\\s' in plain strings
            tree = ast.parse(open(os.path.join(repo, _F)).read())
        fn = [n for n in tree.body if isinstance(n, ast.FunctionDef) and n.name == 'find_islands'][0]
        rd = Reader(fn)
    except Exception as exc:          # nothing can be read: every piece is untranslatable
        rd = None
        why = repr(str(exc))

    def emit(name, params, lines, ret):
        out.append(f"def {name}({params}):\n" + "\n".join("    " + l for l in lines) + f"\n    return {ret}\n")

    def guarded(name, params, var, build):
        try:
            if rd is None:
                raise _Bad(why)
            lines = build()
        except Exception as exc:
            lines = [f"{var} = untranslatable({str(exc)!r})"]
        emit(name, params, lines, var)

    guarded('flood_test', 's, clip', 't', lambda: [f"t = {_flood(rd)[0]}"])
    guarded('flood_finite', 'i', 'fin', lambda: [f"fin = {_flood(rd)[1]}"])
    guarded('seed_test', 's, clip', 't', lambda: [f"t = {_seed(rd)[0]}"])

    def scope():
        sc = _seed(rd)[1]
        if sc is None:
            raise _Bad('scope of the seed comparison not recognised')
        return [f"scope = {sc}"]
    guarded('seed_scope', 'i', 'scope', scope)

    def one(which):
        def f():
            s = _labels(rd)[which]
            if len(s) != 1:
                raise _Bad(f'{len(s)} different label expressions')
            return [f"lab = {s.pop()}"]
        return f
    guarded('own_label', 'i', 'lab', one(0))
    guarded('mask_label', 'i', 'lab', one(1))
    return "\n\n".join(out)


def scratch(prefix, text):
    d = os.path.join(tempfile.gettempdir(), 'verif-C02-slices')
    os.makedirs(d, exist_ok=True)
    path = os.path.join(d, prefix + hashlib.sha1(text.encode()).hexdigest()[:12] + '.py')
    if not os.path.exists(path):
        with open(path + '.tmp%d' % os.getpid(), 'w') as f:
            f.write(text)
        os.replace(path + '.tmp%d' % os.getpid(), path)
    return path


_S = scratch('find_islands_', slice_text(os.environ.get('AEGEAN_REPO', '/repo')))
_M = 'Aegean.Model.C02.'

TARGETS = [
    dict(file=_S, func='flood_test', mode='int', params={'s': 'Z', 'clip': 'Z'}, outputs=[('t', 'floodTest')],
         fallback={'floodTest': f'def floodTest (s clip : Int) : Bool := {_M}floodTestHand s clip'}, all_params=['s', 'clip']),
    dict(file=_S, func='seed_test', mode='int', params={'s': 'Z', 'clip': 'Z'}, outputs=[('t', 'seedTest')],
         fallback={'seedTest': f'def seedTest (s clip : Int) : Bool := {_M}seedTestHand s clip'}, all_params=['s', 'clip']),
    dict(file=_S, func='flood_finite', mode='int', params={'i': 'N'}, outputs=[('fin', 'floodFinite')],
         fallback={'floodFinite': f'def floodFinite (i : Nat) : Nat := {_M}floodFiniteHand i'}, all_params=['i']),
    dict(file=_S, func='seed_scope', mode='int', params={'i': 'N'}, outputs=[('scope', 'seedScope')],
         fallback={'seedScope': f'def seedScope (i : Nat) : Nat := {_M}seedScopeHand i'}, all_params=['i']),
    dict(file=_S, func='own_label', mode='int', params={'i': 'N'}, outputs=[('lab', 'ownLabel')],
         fallback={'ownLabel': f'def ownLabel (i : Nat) : Nat := {_M}ownLabelHand i'}, all_params=['i']),
    dict(file=_S, func='mask_label', mode='int', params={'i': 'N'}, outputs=[('lab', 'maskLabel')],
         fallback={'maskLabel': f'def maskLabel (i : Nat) : Nat := {_M}maskLabelHand i'}, all_params=['i']),
]
