"""C20: the two row-bound expressions of fits_tools.load_image_band"""
TARGETS = [
        dict(file='AegeanTools/fits_tools.py', func='load_image_band', mode='int',
             params={'rows': 'N', 'n': 'N', 'i': 'N'},
             subst={"header['NAXIS2']": 'rows', "band[0]": 'i', "band[1]": 'n'},
             outputs=[('row_min', 'rowMin'), ('row_max', 'rowMax')],
             fallback={'rowMin': 'def rowMin (rows n i : Nat) : Nat := Aegean.Model.C20.rowMinHand rows n i',
                       'rowMax': 'def rowMax (rows n i : Nat) : Nat := Aegean.Model.C20.rowMaxHand rows n i'},
             all_params=['rows', 'n', 'i']),
    ]
