"""C20: fits_tools.load_image_band, regenerated piece by piece.

  rowMin / rowMax        the two row-bound expressions (translated in place, int mode)
  guard                  the argument-validation prologue: every `raise` that precedes the first statement that is
                         not an `if … raise` becomes `code = k` (k = 1, 2, … in source order, 0 = accepted)
  hdrNaxis2C / hdrCrpix2C   the header adjustments made before the `return` inside `if compressed:`
  hdrNaxis2P / hdrCrpix2P   the header adjustments made before the function's final `return`
  secN, secL0, secL1, secRlo, secRhi, secClo, secChi
                         the NAXIS dispatch: for the branch `NAXIS == k` the subscript of `.section[...]` is read as
                         (leading indices …, row slice, column slice); secN = number of leading indices (99 = raise),
                         secL0/secL1 their values, the others the slice bounds (`:` = 0 … NAXIS1)
  cmpRlo, cmpRhi, cmpClo, cmpChi   the subscript `hdulist[0].data[ … ]` of the compressed branch
  extHeader, extData, extCmp       which HDU the header / the pixels / the expanded image are taken from
  scaled                           the BSCALE handling: `if 'BSCALE' in header: data *= header['BSCALE']`

The slices are written as small Python functions (inside the translator's int-mode whitelist) into a scratch file,
from the AST of the tree under test ($AEGEAN_REPO, default /repo); anything the slicer does not recognise is
written as a call the translator rejects, so the piece is reported UNTRANSLATABLE, the hand model of
Aegean/Model/C20.lean stands in and only the correspondence check ties that piece to the code.
"""
import ast
import hashlib
import os
import tempfile

_F = 'AegeanTools/fits_tools.py'
_SUBST = {"header['NAXIS2']": 'rows', 'header["NAXIS2"]': 'rows', "band[0]": 'i', "band[1]": 'n'}


def _only_raises(stmts):
    return all(isinstance(s, ast.Raise) for s in stmts) and len(stmts) > 0


def _is_guard_if(s):
    """an if / elif chain all of whose leaves are `raise` (a missing else is allowed)"""
    if not isinstance(s, ast.If):
        return False
    if not _only_raises(s.body):
        return False
    if not s.orelse:
        return True
    if len(s.orelse) == 1 and isinstance(s.orelse[0], ast.If):
        return _is_guard_if(s.orelse[0])
    return _only_raises(s.orelse)


def _rename(expr_src):
    for k, v in _SUBST.items():
        expr_src = expr_src.replace(k, v)
    return expr_src


class _Inline(ast.NodeTransformer):
    def __init__(self, alias):
        self.alias = alias

    def visit_Name(self, node):
        if isinstance(node.ctx, ast.Load) and node.id in self.alias:
            return ast.parse(self.alias[node.id], mode='eval').body
        return node


def _inl(node, alias):
    import copy
    return ast.unparse(ast.fix_missing_locations(_Inline(alias).visit(copy.deepcopy(node))))


def _guard_slice(fn):
    """the validation prologue: leading `name = <expression>` statements are inlined as aliases (so `total = band[1]`
    followed by tests on `total` reads the same), then every if/elif chain whose leaves are all `raise`"""
    counter = [0]
    lines = ["def guard(i, n):", "    code = 0"]
    alias = {}

    def chain(s, ind, first=True):
        counter[0] += 1
        kw = 'if' if first else 'elif'
        lines.append(f"{ind}{kw} {_rename(_inl(s.test, alias))}:")
        lines.append(f"{ind}    code = {counter[0]}")
        if s.orelse:
            if len(s.orelse) == 1 and isinstance(s.orelse[0], ast.If):
                chain(s.orelse[0], ind, False)
            else:
                counter[0] += 1
                lines.append(f"{ind}else:")
                lines.append(f"{ind}    code = {counter[0]}")

    body = [s for s in fn.body if not (isinstance(s, ast.Expr) and isinstance(s.value, ast.Constant))]  # docstring
    k = nguards = 0
    while k < len(body):
        s = body[k]
        if isinstance(s, ast.Assign) and len(s.targets) == 1 and isinstance(s.targets[0], ast.Name) \
                and not any(isinstance(x, ast.Call) for x in ast.walk(s.value)):
            alias[s.targets[0].id] = '(' + _inl(s.value, alias) + ')'
        elif isinstance(s, ast.Assign) and len(s.targets) == 1 and isinstance(s.targets[0], ast.Tuple) \
                and all(isinstance(e, ast.Name) for e in s.targets[0].elts) and ast.unparse(s.value) == 'band' \
                and len(s.targets[0].elts) == 2:
            for j, e in enumerate(s.targets[0].elts):       # `i, n = band`
                alias[e.id] = f'(band[{j}])'
        elif _is_guard_if(s):
            if nguards == 0:
                chain(s, "    ")
            else:           # a later, separate `if`: only reached when nothing was raised before
                lines.append("    if code == 0:")
                chain(s, "        ")
            nguards += 1
        else:
            break
        k += 1
    if nguards == 0:
        lines.append("    code = untranslatable('no validation prologue')")
    lines.append("    return code")
    return "\n".join(lines) + "\n"


def _hdr_updates(block):
    """the `header[...]` assignments of a statement list that ends in `return`, as python over naxis2 / crpix2"""
    out = []
    for s in block:
        tgt = None
        if isinstance(s, ast.Assign) and len(s.targets) == 1:
            tgt, val = s.targets[0], ast.unparse(s.value)
        elif isinstance(s, ast.AugAssign):
            tgt = s.target
            op = {ast.Sub: '-', ast.Add: '+', ast.Mult: '*'}.get(type(s.op))
            if op is None:
                return None
            val = f"({ast.unparse(s.target)}) {op} ({ast.unparse(s.value)})"
        if tgt is None or not (isinstance(tgt, ast.Subscript) and ast.unparse(tgt.value) == 'header'):
            continue
        key = ast.literal_eval(tgt.slice) if isinstance(tgt.slice, ast.Constant) else None
        name = {'NAXIS2': 'naxis2', 'CRPIX2': 'crpix2'}.get(key)
        if name is None:
            return None        # another header card is touched: outside what this slice can say
        for k, v in (("header['NAXIS2']", 'naxis2'), ('header["NAXIS2"]', 'naxis2'),
                     ("header['CRPIX2']", 'crpix2'), ('header["CRPIX2"]', 'crpix2')):
            val = val.replace(k, v)
        out.append(f"    {name} = {val}")
    return out


def _find_returns(fn):
    """(block, nested_under_compressed) for every `return data, header`-like statement, with the block it ends"""
    found = []

    def walk(stmts, under):
        for s in stmts:
            if isinstance(s, ast.Return):
                found.append((stmts, under))
            elif isinstance(s, ast.If):
                u = under or 'compressed' in ast.unparse(s.test)
                walk(s.body, u)
                walk(s.orelse, under)
            elif isinstance(s, (ast.With, ast.For, ast.While, ast.Try)):
                walk(s.body, under)
    walk(fn.body, False)
    return found


def _plain_return_block(block):
    """the block ends in `return <name>, header` and nothing in it hands `header` to a call (a helper that adjusts the
    header in place, `return data, crop(header, …)`, … cannot be read by this slicer: be conservative)"""
    ret = block[-1] if block and isinstance(block[-1], ast.Return) else None
    if ret is None:
        rets = [s for s in block if isinstance(s, ast.Return)]
        ret = rets[-1] if rets else None
    if ret is None or not isinstance(ret.value, ast.Tuple) or len(ret.value.elts) != 2 \
            or not all(isinstance(e, ast.Name) for e in ret.value.elts) or ret.value.elts[1].id != 'header':
        return False
    start = 0
    for k, s in enumerate(block):       # what happens before the row bounds exist cannot depend on them
        if isinstance(s, ast.Assign) and any('row_min' in ast.unparse(t) for t in s.targets):
            start = k
            break
    for s in block[start:]:
        for c in ast.walk(s):
            if isinstance(c, ast.Call) and ast.unparse(c.func) not in ('is_compressed',) and any(isinstance(a, ast.Name) and a.id == 'header' for a in
                                               list(c.args) + [k.value for k in c.keywords]):
                return False
    return True


def _hdr_slice(fn, which):
    rets = [(b, u) for b, u in _find_returns(fn) if u == (which == 'c')]
    name = 'hdr_' + which
    head = f"def {name}(naxis2, crpix2, row_min, row_max):\n"
    if len(rets) != 1:
        return head + f"    naxis2 = untranslatable('{len(rets)} return sites')\n    crpix2 = naxis2\n    return naxis2\n"
    if not _plain_return_block(rets[0][0]):
        return head + "    naxis2 = untranslatable('return block not of the form: header updates; return data, header')\n    crpix2 = naxis2\n    return naxis2\n"
    ups = _hdr_updates(rets[0][0])
    if ups is None:
        return head + "    naxis2 = untranslatable('header updates not recognised')\n    crpix2 = naxis2\n    return naxis2\n"
    # make both names assigned so that both outputs exist even when a card is left alone
    return head + "    naxis2 = naxis2 + 0\n    crpix2 = crpix2 + 0\n" + "\n".join(ups) + "\n    return naxis2\n"


def _slice_bounds(sl, full_hi):
    """(lo, hi) python source of a slice node; `:` is 0 … full_hi; an index (not a slice) gives None"""
    if not isinstance(sl, ast.Slice) or sl.step is not None:
        return None
    lo = ast.unparse(sl.lower) if sl.lower is not None else '0'
    hi = ast.unparse(sl.upper) if sl.upper is not None else full_hi
    for k in ("header['NAXIS1']", 'header["NAXIS1"]'):
        lo, hi = lo.replace(k, 'naxis1'), hi.replace(k, 'naxis1')
    for k in ("header['NAXIS2']", 'header["NAXIS2"]'):
        lo, hi = lo.replace(k, 'naxis2'), hi.replace(k, 'naxis2')
    return lo, hi


def _subscript_parts(sub):
    """leading index sources, row bounds, column bounds of  X[ a, b, r0:r1, c0:c1 ]"""
    elts = sub.slice.elts if isinstance(sub.slice, ast.Tuple) else [sub.slice]
    if len(elts) < 2:
        return None
    rows = _slice_bounds(elts[-2], 'naxis2')
    cols = _slice_bounds(elts[-1], 'naxis1')
    if rows is None or cols is None:
        return None
    lead = []
    for e in elts[:-2]:
        if isinstance(e, ast.Slice):
            return None
        lead.append(ast.unparse(e))
    if len(lead) > 2:
        return None
    return lead, rows, cols


def _section_slice(fn):
    head = "def section(naxis, cube_index, row_min, row_max, naxis1, naxis2):\n"
    init = "    nlead = 99\n    l0 = 0\n    l1 = 0\n    rlo = 0\n    rhi = 0\n    clo = 0\n    chi = 0\n"
    bad = head + "    nlead = untranslatable('NAXIS dispatch not recognised')\n    l0 = nlead\n    l1 = nlead\n    rlo = nlead\n" \
                 "    rhi = nlead\n    clo = nlead\n    chi = nlead\n    return nlead\n"
    # the if-chain whose tests compare NAXIS (or header['NAXIS']) with a constant
    chains = [s for s in ast.walk(fn) if isinstance(s, ast.If) and isinstance(s.test, ast.Compare)
              and ast.unparse(s.test.left) in ('NAXIS', "header['NAXIS']", 'header["NAXIS"]')]
    if not chains:
        return bad
    top = chains[0]
    lines = []
    s, first = top, True
    while True:
        test = ast.unparse(s.test)
        for k in ("header['NAXIS']", 'header["NAXIS"]', 'NAXIS'):
            test = test.replace(k, 'naxis') if k in test else test
        subs = [n for st in s.body for n in ast.walk(st) if isinstance(n, ast.Subscript)
                and isinstance(n.value, ast.Attribute) and n.value.attr == 'section']
        if len(s.body) != 1 or len(subs) != 1:
            return bad
        parts = _subscript_parts(subs[0])
        if parts is None:
            return bad
        lead, rows, cols = parts
        lines.append(f"    {'if' if first else 'elif'} {test}:")
        lines.append(f"        nlead = {len(lead)}")
        for j, e in enumerate(lead):
            lines.append(f"        l{j} = {e}")
        lines += [f"        rlo = {rows[0]}", f"        rhi = {rows[1]}", f"        clo = {cols[0]}", f"        chi = {cols[1]}"]
        first = False
        if len(s.orelse) == 1 and isinstance(s.orelse[0], ast.If):
            s = s.orelse[0]
            continue
        if s.orelse and not _only_raises(s.orelse):
            return bad
        break
    return head + init + "\n".join(lines) + "\n    return nlead\n"


def _compressed_slice(fn):
    head = "def cmp_section(row_min, row_max, naxis1, naxis2):\n"
    bad = head + "    rlo = untranslatable('compressed branch not recognised')\n    rhi = rlo\n    clo = rlo\n    chi = rlo\n    return rlo\n"
    rets = [(b, u) for b, u in _find_returns(fn) if u]
    if len(rets) != 1:
        return bad
    subs = [n for st in rets[0][0] for n in ast.walk(st) if isinstance(n, ast.Subscript)
            and isinstance(n.value, ast.Attribute) and n.value.attr == 'data']
    if len(subs) != 1:
        return bad
    parts = _subscript_parts(subs[0])
    if parts is None or parts[0]:
        return bad
    _, rows, cols = parts
    return head + f"    rlo = {rows[0]}\n    rhi = {rows[1]}\n    clo = {cols[0]}\n    chi = {cols[1]}\n    return rlo\n"


def _ext_slice(fn):
    """which HDU the header is read from (`fits.getheader(filename, ext=X)` bound to `header`), which HDU the pixels are
    read from (every `a[Y]` on the handle of `with fits.open(...) as a` must use the same Y), and which HDU of the
    expanded file the compressed branch uses (`hdulist[Z]`, hdulist bound to `expand(...)`)"""
    head = "def ext(hdu_index):\n"
    bad = head + "    eh = untranslatable('HDU selection not recognised')\n    ed = eh\n    ec = eh\n    return eh\n"
    eh = None
    for n in ast.walk(fn):
        if isinstance(n, ast.Assign) and len(n.targets) == 1 and ast.unparse(n.targets[0]) == 'header' \
                and isinstance(n.value, ast.Call) and ast.unparse(n.value.func).endswith('getheader'):
            c = n.value
            x = [k.value for k in c.keywords if k.arg == 'ext']
            if x:
                cand = ast.unparse(x[0])
            elif len(c.args) >= 2:
                cand = ast.unparse(c.args[1])
            else:
                cand = '0'
            if eh is not None and eh != cand:
                return bad
            eh = cand
    handles, eds = set(), set()
    for n in ast.walk(fn):
        if isinstance(n, ast.With):
            for it in n.items:
                if isinstance(it.context_expr, ast.Call) and ast.unparse(it.context_expr.func).endswith('open') \
                        and isinstance(it.optional_vars, ast.Name):
                    handles.add(it.optional_vars.id)
    for n in ast.walk(fn):
        if isinstance(n, ast.Subscript) and isinstance(n.value, ast.Name) and n.value.id in handles:
            eds.add(ast.unparse(n.slice))
    exp_names, ecs = set(), set()
    for n in ast.walk(fn):
        if isinstance(n, ast.Assign) and len(n.targets) == 1 and isinstance(n.targets[0], ast.Name) \
                and isinstance(n.value, ast.Call) and ast.unparse(n.value.func).endswith('expand'):
            exp_names.add(n.targets[0].id)
    for n in ast.walk(fn):
        if isinstance(n, ast.Subscript) and isinstance(n.value, ast.Name) and n.value.id in exp_names:
            ecs.add(ast.unparse(n.slice))
    if eh is None or len(eds) != 1 or len(ecs) != 1:
        return bad
    return head + f"    eh = {eh}\n    ed = {eds.pop()}\n    ec = {ecs.pop()}\n    return eh\n"


def _bscale_slice(fn):
    """`if 'BSCALE' in header: data *= header['BSCALE']` (or data = data * header['BSCALE']), at the top level of the
    function: as  out = data; if has == 1: out = <data op bs>"""
    head = "def bscale(has, data, bs):\n"
    bad = head + "    out = untranslatable('BSCALE handling not recognised')\n    return out\n"
    sites = [s for s in ast.walk(fn) if isinstance(s, ast.If) and 'BSCALE' in ast.unparse(s.test)]
    if len(sites) != 1:
        return bad
    s = sites[0]
    if ast.unparse(s.test) not in ("'BSCALE' in header", '"BSCALE" in header') or s.orelse or len(s.body) != 1:
        return bad
    b = s.body[0]
    if isinstance(b, ast.AugAssign) and ast.unparse(b.target) == 'data':
        op = {ast.Mult: '*', ast.Add: '+', ast.Sub: '-', ast.FloorDiv: '//'}.get(type(b.op))
        if op is None:
            return bad
        rhs = f"data {op} ({ast.unparse(b.value)})"
    elif isinstance(b, ast.Assign) and len(b.targets) == 1 and ast.unparse(b.targets[0]) == 'data':
        rhs = ast.unparse(b.value)
    else:
        return bad
    for k in ("header['BSCALE']", 'header["BSCALE"]'):
        rhs = rhs.replace(k, 'bs')
    return head + f"    out = data\n    if has == 1:\n        out = {rhs}\n    return out\n"


def _slices():
    repo = os.environ.get('AEGEAN_REPO', '/repo')
    try:
        tree = ast.parse(open(os.path.join(repo, _F)).read())
        fn = [n for n in ast.walk(tree) if isinstance(n, ast.FunctionDef) and n.name == 'load_image_band'][0]
        text = "\n\n".join([_guard_slice(fn), _hdr_slice(fn, 'c'), _hdr_slice(fn, 'p'), _section_slice(fn),
                            _compressed_slice(fn), _ext_slice(fn), _bscale_slice(fn)])
    except Exception as exc:
        text = f"# slicing failed: {exc!r}\n"
    d = os.path.join(tempfile.gettempdir(), 'verif-C20-slices')
    os.makedirs(d, exist_ok=True)
    path = os.path.join(d, 'load_image_band_' + hashlib.sha1(text.encode()).hexdigest()[:12] + '.py')
    if not os.path.exists(path):
        with open(path + '.tmp%d' % os.getpid(), 'w') as f:
            f.write(text)
        os.replace(path + '.tmp%d' % os.getpid(), path)
    return path


_S = _slices()
_M = 'Aegean.Model.C20.'
_HP = ['naxis2', 'crpix2', 'row_min', 'row_max']
_SP = ['naxis', 'cube_index', 'row_min', 'row_max', 'naxis1', 'naxis2']
_CP = ['row_min', 'row_max', 'naxis1', 'naxis2']


def _fbZ(name, params, hand):
    return f"def {name} ({' '.join(params)} : Int) : Int := {_M}{hand} {' '.join(params)}"


def _fbN(name, params, hand):
    return f"def {name} ({' '.join(params)} : Nat) : Nat := {_M}{hand} {' '.join(params)}"


TARGETS = [
        dict(file=_F, func='load_image_band', mode='int',
             params={'rows': 'N', 'n': 'N', 'i': 'N'},
             subst={"header['NAXIS2']": 'rows', "band[0]": 'i', "band[1]": 'n'},
             outputs=[('row_min', 'rowMin'), ('row_max', 'rowMax')],
             fallback={'rowMin': 'def rowMin (rows n i : Nat) : Nat := Aegean.Model.C20.rowMinHand rows n i',
                       'rowMax': 'def rowMax (rows n i : Nat) : Nat := Aegean.Model.C20.rowMaxHand rows n i'},
             all_params=['rows', 'n', 'i']),
        dict(file=_S, func='guard', mode='int', params={'i': 'Z', 'n': 'Z'},
             outputs=[('code', 'guard')],
             fallback={'guard': 'def guard (i n : Int) : Nat := Aegean.Model.C20.guardHand i n'},
             all_params=['i', 'n']),
        dict(file=_S, func='hdr_c', mode='int', params={p: 'Z' for p in _HP},
             outputs=[('naxis2', 'hdrNaxis2C'), ('crpix2', 'hdrCrpix2C')],
             fallback={'hdrNaxis2C': _fbZ('hdrNaxis2C', _HP, 'hdrNaxis2Hand'), 'hdrCrpix2C': _fbZ('hdrCrpix2C', _HP, 'hdrCrpix2Hand')},
             all_params=_HP),
        dict(file=_S, func='hdr_p', mode='int', params={p: 'Z' for p in _HP},
             outputs=[('naxis2', 'hdrNaxis2P'), ('crpix2', 'hdrCrpix2P')],
             fallback={'hdrNaxis2P': _fbZ('hdrNaxis2P', _HP, 'hdrNaxis2Hand'), 'hdrCrpix2P': _fbZ('hdrCrpix2P', _HP, 'hdrCrpix2Hand')},
             all_params=_HP),
        dict(file=_S, func='section', mode='int', params={p: 'N' for p in _SP},
             outputs=[('nlead', 'secN'), ('l0', 'secL0'), ('l1', 'secL1'), ('rlo', 'secRlo'), ('rhi', 'secRhi'),
                      ('clo', 'secClo'), ('chi', 'secChi')],
             fallback={'secN': _fbN('secN', _SP, 'secNHand'), 'secL0': _fbN('secL0', _SP, 'secL0Hand'),
                       'secL1': _fbN('secL1', _SP, 'secL1Hand'), 'secRlo': _fbN('secRlo', _SP, 'secRloHand'),
                       'secRhi': _fbN('secRhi', _SP, 'secRhiHand'), 'secClo': _fbN('secClo', _SP, 'secCloHand'),
                       'secChi': _fbN('secChi', _SP, 'secChiHand')},
             all_params=_SP),
        dict(file=_S, func='cmp_section', mode='int', params={p: 'N' for p in _CP},
             outputs=[('rlo', 'cmpRlo'), ('rhi', 'cmpRhi'), ('clo', 'cmpClo'), ('chi', 'cmpChi')],
             fallback={'cmpRlo': _fbN('cmpRlo', _CP, 'cmpRloHand'), 'cmpRhi': _fbN('cmpRhi', _CP, 'cmpRhiHand'),
                       'cmpClo': _fbN('cmpClo', _CP, 'cmpCloHand'), 'cmpChi': _fbN('cmpChi', _CP, 'cmpChiHand')},
             all_params=_CP),
        dict(file=_S, func='ext', mode='int', params={'hdu_index': 'N'},
             outputs=[('eh', 'extHeader'), ('ed', 'extData'), ('ec', 'extCmp')],
             fallback={'extHeader': 'def extHeader (hdu_index : Nat) : Nat := Aegean.Model.C20.extHeaderHand hdu_index',
                       'extData': 'def extData (hdu_index : Nat) : Nat := Aegean.Model.C20.extDataHand hdu_index',
                       'extCmp': 'def extCmp (hdu_index : Nat) : Nat := Aegean.Model.C20.extCmpHand hdu_index'},
             all_params=['hdu_index']),
        dict(file=_S, func='bscale', mode='int', params={'has': 'N', 'data': 'N', 'bs': 'N'},
             outputs=[('out', 'scaled')],
             fallback={'scaled': 'def scaled (has data bs : Nat) : Nat := Aegean.Model.C20.scaledHand has data bs'},
             all_params=['has', 'data', 'bs']),
    ]
