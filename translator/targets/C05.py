"""C05: the arithmetic and decision leaves of priorized fitting, regenerated from the current source.

`source_finder.SourceFinder._refit_islands` keeps its state in `lmfit.Parameters` attributes and numpy
slices, which the straight-line translator does not bind.  `_slice()` therefore cuts the relevant
statements / sub-expressions out of the *current* source with `ast` (no evaluation, no rewriting of
arithmetic; only attribute look-ups are renamed to plain names) and hands small stand-alone functions
to the ordinary translator:

int mode (Gen.C05.*)
  xminStep xmaxStep yminStep ymaxStep   the four `xmin = min(xmin, max(0, x - xwidth // 2))` … statements of the
                                        per-source loop (one step of the running cut-out bounds)
  sliceX0 sliceX1 sliceY0 sliceY1       the four bounds of `idata = data[int(xmin):int(xmax), int(ymin):int(ymax)]`
  rmsX0 …                               the same four bounds of the `rmsimg[...]` cut-out used for `errs`
  boxX0 boxY0                           lower bounds of `box = slice(int(xmin), …)` in result_to_components
  subXoVal subXoMin subXoMax subYo…     right-hand sides of `params[prefix+"xo"].value/min/max -= xmin` (and yo/ymin)
  varyAmp varyXo varyYo varySx varySy varyTheta varyFlags     the `vary=` keyword of each `params.add(prefix + name, …)`
  rejectSrc                             the per-source acceptance test (`if …: continue`), temporaries and straight-line boolean
                                        helpers inlined, image / rms / beam look-ups as opaque atoms
  copyPosErr copyShapeErr               the tests guarding `ns.err_ra = s.err_ra` and `ns.err_a = s.err_a`
  clipXLo clipXHi clipYLo clipYHi        the interval each axis of the 3x3 "has data" box is clipped to (np.clip bounds)
real mode
  boxLoX boxHiX boxLoY boxHiY           the edges `cx - 1`, `cx + 2`, `cy - 1`, `cy + 2` of that box before clipping
  gauss                                 fitting.elliptical_gaussian (own copy)
  xoLocal yoLocal                       `value -= xmin` as `xo - xmin`
  xPix yPix                             `x_pix = xo + xmin + 1` of result_to_components

If a slice cannot be taken the target falls back to the hand formula of Aegean.Model.C05 and the
evidence says UNTRANSLATABLE; the correspondence (hook trace / outputs) still ties the code to the model.
"""
import ast
import atexit
import os
import tempfile

import py2lean

_H = 'Aegean.Model.C05'
_REPO = os.environ.get('AEGEAN_REPO', '/repo')


# ---- extension of the translator (AGENT_GUIDE: extended copy lives in the targets file) -------------
def _with_bool(orig):
    """`True` / `False` literals (the `vary=True` of the amplitude) become Lean Bool literals."""
    def expr_int(self, node):
        # only for C05's own `stage`-indexed tables, so that no other property's translation changes
        if isinstance(node, ast.Constant) and isinstance(node.value, bool) and set(self.params) == {'stage'}:
            return ('true' if node.value else 'false'), 'B', set()
        return orig(self, node)
    expr_int._c05_bool = True
    return expr_int


if not getattr(py2lean.Translator.expr_int, '_c05_bool', False):
    py2lean.Translator.expr_int = _with_bool(py2lean.Translator.expr_int)


def _with_logic(orig):
    """for C05's acceptance decision only (recognised by its parameter `data_finite`): `not e`, chained comparisons
    `a <= b < c` (= `a <= b and b < c`; the operands are plain names / literals / shape entries, so evaluating the middle
    one twice is harmless) and Bool literals, all as decidable propositions"""
    def expr_int(self, node):
        if 'data_finite' in self.params:
            if isinstance(node, ast.Constant) and isinstance(node.value, bool):
                return ('True' if node.value else 'False'), 'B', set()
            if isinstance(node, ast.UnaryOp) and isinstance(node.op, ast.Not):
                c, t, d = self.expr(node.operand)
                if t != 'B':
                    raise py2lean.Untranslatable("not of a non-boolean")
                return f"(¬ {c})", 'B', d
            if isinstance(node, ast.Compare) and len(node.ops) > 1:
                if not all(isinstance(e, (ast.Name, ast.Constant, ast.Subscript)) for e in [node.left] + node.comparators):
                    raise py2lean.Untranslatable("chained comparison of compound operands")
                parts, deps, left = [], set(), node.left
                for op, right in zip(node.ops, node.comparators):
                    c, t, d = self.expr(ast.Compare(left=left, ops=[op], comparators=[right]))
                    parts.append(c)
                    deps |= d
                    left = right
                return "(" + " ∧ ".join(parts) + ")", 'B', deps
        return orig(self, node)
    expr_int._c05_logic = True
    return expr_int


if not getattr(py2lean.Translator.expr_int, '_c05_logic', False):
    py2lean.Translator.expr_int = _with_logic(py2lean.Translator.expr_int)


# ---- slicing -----------------------------------------------------------------------------------------
def _fn(tree, name):
    return [n for n in ast.walk(tree) if isinstance(n, ast.FunctionDef) and n.name == name][0]


def _mkfun(name, args, body):
    f = ast.FunctionDef(name=name,
                        args=ast.arguments(posonlyargs=[], args=[ast.arg(arg=a) for a in args],
                                           kwonlyargs=[], kw_defaults=[], defaults=[]),
                        body=body + [ast.Return(value=ast.Constant(value=None))],
                        decorator_list=[], type_params=[])
    return f


def _assign(name, value):
    return ast.Assign(targets=[ast.Name(id=name, ctx=ast.Store())], value=value)


def _param_key(node):
    """'xo' for  params[prefix + "xo"]  (Subscript of a BinOp prefix + literal)"""
    if isinstance(node, ast.Subscript) and isinstance(node.slice, ast.BinOp) \
            and isinstance(node.slice.right, ast.Constant) and isinstance(node.slice.right.value, str):
        return node.slice.right.value
    return None


class _Subst(ast.NodeTransformer):
    """replace loads of plain names by given expressions (semantics-preserving renaming / alias resolution)"""
    def __init__(self, mapping):
        self.mapping = mapping

    def visit_Name(self, node):
        if isinstance(node.ctx, ast.Load) and node.id in self.mapping:
            import copy as _c
            return ast.copy_location(_c.deepcopy(self.mapping[node.id]), node)
        return node


def _is_shape(node):
    u = ast.unparse(node)
    return u in ('shape', 'data.shape') or u.endswith('.img.shape')


def _shape_aliases(fn):
    """`nx, ny = shape` (or `= data.shape`): names that are nothing but shape[0], shape[1]"""
    al = {}
    for n in ast.walk(fn):
        if isinstance(n, ast.Assign) and len(n.targets) == 1 and isinstance(n.targets[0], ast.Tuple) \
                and len(n.targets[0].elts) == 2 and all(isinstance(e, ast.Name) for e in n.targets[0].elts) \
                and _is_shape(n.value):
            a, b = (e.id for e in n.targets[0].elts)
            if a not in ('xmin', 'ymin', 'xmax', 'ymax') and b not in ('xmin', 'ymin', 'xmax', 'ymax'):
                al[a] = ast.parse('shape[0]', mode='eval').body
                al[b] = ast.parse('shape[1]', mode='eval').body
    # only if they are assigned exactly once in the function (a true alias)
    for name in list(al):
        cnt = sum(1 for n in ast.walk(fn) if isinstance(n, ast.Name) and n.id == name and isinstance(n.ctx, ast.Store))
        if cnt != 1:
            al.pop(name)
    return al


def _unroll_literal_loops(stmts):
    """`for a, b in ((e1, f1), (e2, f2)): body` -> body[a:=e1, b:=f1]; body[a:=e2, b:=f2]  (loops over literal tuples
    only; loop variables must not be re-assigned in the body); other statements are kept, recursively"""
    import copy as _c
    out = []
    for st in stmts:
        if isinstance(st, ast.For) and isinstance(st.iter, (ast.Tuple, ast.List)) and not st.orelse:
            tg = st.target
            names = [tg.id] if isinstance(tg, ast.Name) else \
                ([e.id for e in tg.elts] if isinstance(tg, ast.Tuple) and all(isinstance(e, ast.Name) for e in tg.elts) else None)
            stores = {n.id for b in st.body for n in ast.walk(b) if isinstance(n, ast.Name) and isinstance(n.ctx, ast.Store)}
            ok = names is not None and not (set(names) & stores)
            items = []
            for it in st.iter.elts:
                vals = [it] if len(names or []) == 1 else (list(it.elts) if isinstance(it, (ast.Tuple, ast.List)) else None)
                if vals is None or len(vals) != len(names or []):
                    ok = False
                items.append(vals)
            if ok:
                for vals in items:
                    body = [_Subst(dict(zip(names, vals))).visit(_c.deepcopy(b)) for b in st.body]
                    out += _unroll_literal_loops(body)
                continue
        if isinstance(st, (ast.For, ast.While)):
            st = _c.copy(st)
            st.body = _unroll_literal_loops(st.body)
        out.append(st)
    return out


def _resolve_param_aliases(stmts):
    """`par = params[<key>]` followed by `par.min -= …`: rewrite uses of `par` to `params[<key>]` (one alias at a time,
    in statement order; the alias statement itself is dropped)"""
    import copy as _c
    out, alias = [], {}
    for st in stmts:
        if isinstance(st, ast.Assign) and len(st.targets) == 1 and isinstance(st.targets[0], ast.Name) \
                and isinstance(st.value, ast.Subscript) and isinstance(st.value.value, ast.Name) and st.value.value.id == 'params':
            alias[st.targets[0].id] = st.value
            continue
        if isinstance(st, (ast.For, ast.While)):
            st = _c.copy(st)
            st.body = _resolve_param_aliases(st.body)
            out.append(st)
            continue
        out.append(_Subst(alias).visit(_c.deepcopy(st)) if alias else st)
    return out


def _str_key(node, keys):
    """the parameter a `params[...]` subscript addresses: the only string constant in its key that names one of `keys`
    (covers  prefix + "xo",  "c{0}_{1}".format(k, "xo"),  "c%d_xo" % k)"""
    if not isinstance(node, ast.Subscript):
        return None
    hits = set()
    for c in ast.walk(node.slice):
        if isinstance(c, ast.Constant) and isinstance(c.value, str):
            for k in keys:
                if c.value == k or c.value.endswith('_' + k):
                    hits.add(k)
    return hits.pop() if len(hits) == 1 else None


def _bind_call(call, fn):
    """{parameter name of fn: argument expression} for a call `self.fn(...)` / `fn(...)`; None if not resolvable"""
    params = [a.arg for a in fn.args.args]
    if params and params[0] in ('self', 'cls') and not any(isinstance(d, ast.Name) and d.id == 'staticmethod'
                                                            for d in fn.decorator_list):
        params = params[1:]
    if any(isinstance(a, ast.Starred) for a in call.args) or any(k.arg is None for k in call.keywords):
        return None
    if len(call.args) > len(params):
        return None
    b = dict(zip(params, call.args))
    for k in call.keywords:
        if k.arg not in params or k.arg in b:
            return None
        b[k.arg] = k.value
    return b


def _nz(name, eq=False):
    return ast.Compare(left=ast.Name(id=name, ctx=ast.Load()), ops=[ast.Eq() if eq else ast.NotEq()],
                       comparators=[ast.Constant(value=0)])


class _Atoms(ast.NodeTransformer):
    """what the acceptance test reads from outside becomes an opaque atom; everything unrecognised is left alone (and
    then stops the translation)"""
    def visit_Call(self, node):
        self.generic_visit(node)
        f = ast.unparse(node.func)
        if f == 'bool' and len(node.args) == 1 and not node.keywords:
            return node.args[0]
        if f in ('np.isfinite', 'numpy.isfinite', 'math.isfinite') and len(node.args) == 1 \
                and isinstance(node.args[0], ast.Subscript) and isinstance(node.args[0].slice, ast.Tuple) \
                and [ast.unparse(e) for e in node.args[0].slice.elts] == ['x', 'y']:
            arr = ast.unparse(node.args[0].value)
            if arr == 'rmsimg' or arr.endswith('.rmsimg'):
                return _nz('rms_finite')
            if arr == 'data' or arr.endswith('.img'):
                return _nz('data_finite')
        return node

    def visit_Compare(self, node):
        self.generic_visit(node)
        if len(node.ops) == 1 and ast.unparse(node.left) == 'pixbeam' and isinstance(node.comparators[0], ast.Constant) \
                and node.comparators[0].value is None:
            if isinstance(node.ops[0], ast.Is):
                return _nz('beam_none')
            if isinstance(node.ops[0], ast.IsNot):
                return _nz('beam_none', eq=True)
        return node

    def visit_Subscript(self, node):
        self.generic_visit(node)
        if _is_shape(node.value) and isinstance(node.slice, ast.Constant) and node.slice.value in (0, 1):
            return ast.parse(f'shape[{node.slice.value}]', mode='eval').body
        return node


def _bool_fn_to_expr(fn):
    """a straight-line boolean helper — plain-name assignments, `a, b = <shape>`, guard clauses `if c: return e`
    (with optional else-return), a final `return e`, docstring / logging calls — as ONE expression; raises otherwise"""
    import copy as _c
    env = {}

    def sub(e):
        return _Subst(env).visit(_c.deepcopy(e))

    def block(stmts):
        if not stmts:
            raise ValueError('falls off the end')
        st, rest = stmts[0], stmts[1:]
        if isinstance(st, ast.Expr) and (isinstance(st.value, ast.Constant) or
                                         (isinstance(st.value, ast.Call) and '.log.' in ast.unparse(st.value.func) + '.')):
            return block(rest)
        if isinstance(st, ast.Return) and st.value is not None:
            return sub(st.value)
        if isinstance(st, ast.Assign) and len(st.targets) == 1:
            tg = st.targets[0]
            if isinstance(tg, ast.Name):
                env[tg.id] = sub(st.value)
                return block(rest)
            if isinstance(tg, ast.Tuple) and len(tg.elts) == 2 and all(isinstance(e, ast.Name) for e in tg.elts) \
                    and _is_shape(st.value):
                env[tg.elts[0].id] = ast.parse('shape[0]', mode='eval').body
                env[tg.elts[1].id] = ast.parse('shape[1]', mode='eval').body
                return block(rest)
        if isinstance(st, ast.If):
            c = sub(st.test)
            saved = dict(env)
            a = block(st.body)                       # must end in a return
            env.clear()
            env.update(saved)
            b = block(st.orelse) if st.orelse else block(rest)
            # (c and a) or (not c and b)
            return ast.BoolOp(op=ast.Or(), values=[ast.BoolOp(op=ast.And(), values=[c, a]),
                                                    ast.BoolOp(op=ast.And(), values=[ast.UnaryOp(op=ast.Not(), operand=_c.deepcopy(c)), b])])
        raise ValueError('statement outside the straight-line boolean subset: ' + type(st).__name__)
    return block(list(fn.body))


def _accept_test(tree, refit):
    """the test of the first `if …: … continue` in the per-source loop of _refit_islands, as one closed expression
    over x, y, shape[0], shape[1] and the three atoms"""
    import copy as _c
    loop = [n for n in ast.walk(refit) if isinstance(n, ast.For) and ast.unparse(n.iter) == 'isle'][0]
    # the `if …: continue` that judges the rounded pixel (x, y): the first one, after `x` and `y` have been assigned, whose
    # test reads them (an earlier guard on the float position, e.g. "no pixel position at all", is not it)
    first_xy = max(k for k, st in enumerate(loop.body) if isinstance(st, ast.Assign) and len(st.targets) == 1
                   and isinstance(st.targets[0], ast.Name) and st.targets[0].id in ('x', 'y'))
    idx = [k for k, st in enumerate(loop.body) if k > first_xy and isinstance(st, ast.If)
           and any(isinstance(m, ast.Continue) for b in st.body for m in ast.walk(b))][0]
    test = _c.deepcopy(loop.body[idx].test)
    # plain-name boolean temporaries assigned (once) earlier in the same block, innermost last
    for _ in range(8):
        names = {m.id for m in ast.walk(test) if isinstance(m, ast.Name)} - {'x', 'y', 'shape', 'data', 'rmsimg', 'pixbeam', 'np', 'self'}
        env = {}
        for st in loop.body[:idx]:
            if isinstance(st, ast.Assign) and len(st.targets) == 1 and isinstance(st.targets[0], ast.Name) \
                    and st.targets[0].id in names:
                env[st.targets[0].id] = st.value
        if not env:
            break
        test = _Subst(env).visit(test)
    # straight-line boolean helpers of the class, called as self.<name>(…)
    for _ in range(4):
        calls = [m for m in ast.walk(test) if isinstance(m, ast.Call) and isinstance(m.func, ast.Attribute)
                 and isinstance(m.func.value, ast.Name) and m.func.value.id == 'self']
        if not calls:
            break
        call = calls[0]
        fn = [f for f in ast.walk(tree) if isinstance(f, ast.FunctionDef) and f.name == call.func.attr][0]
        bind = _bind_call(call, fn)
        if bind is None or not all(isinstance(v, ast.Name) for v in bind.values()):
            raise ValueError('helper call with compound arguments')
        body = _Subst(bind).visit(_bool_fn_to_expr(fn))

        class _R(ast.NodeTransformer):
            def visit_Call(self, node):
                return body if node is call else self.generic_visit(node)
        test = _R().visit(test)
    test = _Atoms().visit(test)
    ast.fix_missing_locations(test)
    left = {m.id for m in ast.walk(test) if isinstance(m, ast.Name)} - {'x', 'y', 'shape', 'data_finite', 'rms_finite', 'beam_none'}
    if left:
        raise ValueError(f'unresolved names {left}')
    return test


def _slice(repo):
    src = open(os.path.join(repo, 'AegeanTools', 'source_finder.py')).read()
    tree = ast.parse(src)
    out = []
    refit = _fn(tree, '_refit_islands')
    # normal form of the function body used by the slices below: loops over literal tuples unrolled, `par = params[k]`
    # aliases resolved, names that merely alias shape[0] / shape[1] replaced
    import copy as _copy
    refit = _copy.deepcopy(refit)
    try:
        refit.body = _resolve_param_aliases(_unroll_literal_loops(refit.body))
        al = _shape_aliases(refit)
        if al:
            refit = _Subst(al).visit(refit)
        ast.fix_missing_locations(refit)
    except Exception:  # noqa: BLE001 - keep the function as it is
        refit = _fn(tree, '_refit_islands')

    # 1. the four bound updates
    try:
        steps = {}
        for n in ast.walk(refit):
            if isinstance(n, ast.Assign) and len(n.targets) == 1 and isinstance(n.targets[0], ast.Name) \
                    and n.targets[0].id in ('xmin', 'xmax', 'ymin', 'ymax') and isinstance(n.value, ast.Call) \
                    and isinstance(n.value.func, ast.Name) and n.value.func.id in ('min', 'max'):
                steps.setdefault(n.targets[0].id, n)
        assert len(steps) == 4
        # the statements, in source order, together with any plain-name temporaries assigned between the
        # `xwidth = …` / `ywidth = …` lines and the last update in the same block (e.g. `half = xwidth // 2`)
        block = None
        for n in ast.walk(refit):
            for fld in ('body', 'orelse'):
                b = getattr(n, fld, None)
                if isinstance(b, list) and steps['xmin'] in b:
                    block = b
        assert block is not None and all(st in block for st in steps.values())
        idx = [block.index(st) for st in steps.values()]
        lo = min(idx)
        for k in range(min(idx) - 1, -1, -1):
            st = block[k]
            if isinstance(st, ast.Assign) and len(st.targets) == 1 and isinstance(st.targets[0], ast.Name) \
                    and st.targets[0].id not in ('xwidth', 'ywidth', 'width'):
                lo = k
            else:
                break
        body = [st for st in block[lo:max(idx) + 1]
                if isinstance(st, ast.Assign) and len(st.targets) == 1 and isinstance(st.targets[0], ast.Name)]
        out.append(_mkfun('c05_bounds_step',
                          ['xmin', 'xmax', 'ymin', 'ymax', 'x', 'y', 'xwidth', 'ywidth', 'shape0', 'shape1'], body))
    except Exception:  # noqa: BLE001
        pass

    # 2. the data / rms cut-outs and the box of result_to_components
    def bounds_of(sub, names):
        dims = sub.slice.elts
        return [_assign(names[0], dims[0].lower), _assign(names[1], dims[0].upper),
                _assign(names[2], dims[1].lower), _assign(names[3], dims[1].upper)]
    try:
        body = []
        for n in ast.walk(refit):
            if isinstance(n, ast.Assign) and isinstance(n.targets[0], ast.Name) and n.targets[0].id == 'idata':
                subs = [s for s in ast.walk(n.value) if isinstance(s, ast.Subscript) and isinstance(s.value, ast.Name)
                        and s.value.id == 'data' and isinstance(s.slice, ast.Tuple)]
                if subs:
                    body += bounds_of(subs[0], ['slice_x0', 'slice_x1', 'slice_y0', 'slice_y1'])
                    break
        assert body
        out.append(_mkfun('c05_slice', ['xmin', 'xmax', 'ymin', 'ymax'], body))
    except Exception:  # noqa: BLE001
        pass
    try:
        body = []
        for n in ast.walk(refit):
            if isinstance(n, ast.Subscript) and isinstance(n.value, ast.Name) and n.value.id == 'rmsimg' \
                    and isinstance(n.slice, ast.Tuple) and isinstance(n.slice.elts[0], ast.Slice):
                body = bounds_of(n, ['rms_x0', 'rms_x1', 'rms_y0', 'rms_y1'])
                break
        assert body
        out.append(_mkfun('c05_rms', ['xmin', 'xmax', 'ymin', 'ymax'], body))
    except Exception:  # noqa: BLE001
        pass
    try:
        r2c = _fn(tree, 'result_to_components')
        body = []
        for n in ast.walk(r2c):
            if isinstance(n, ast.Assign) and isinstance(n.targets[0], ast.Name) and n.targets[0].id == 'box':
                sl = n.value.elts   # slice(int(xmin), int(xmax)), slice(int(ymin), int(ymax))
                body = [_assign('box_x0', sl[0].args[0]), _assign('box_y0', sl[1].args[0])]
                break
        assert body
        out.append(_mkfun('c05_box', ['xmin', 'xmax', 'ymin', 'ymax'], body))
        # x_pix = xo + xmin + 1
        pix = {}
        for n in ast.walk(r2c):
            if isinstance(n, ast.Assign) and isinstance(n.targets[0], ast.Name) and n.targets[0].id in ('x_pix', 'y_pix'):
                pix.setdefault(n.targets[0].id, n)
        assert len(pix) == 2
        out.append(_mkfun('c05_pix', ['xo', 'yo', 'xmin', 'ymin'], [pix['x_pix'], pix['y_pix']]))
    except Exception:  # noqa: BLE001
        pass

    # 3. params[prefix + "xo"].value -= xmin  (and .min, .max, yo)
    try:
        body_i, body_r = [], []
        seen = set()
        for n in ast.walk(refit):
            if isinstance(n, ast.AugAssign) and isinstance(n.op, ast.Sub) and isinstance(n.target, ast.Attribute) \
                    and n.target.attr in ('value', 'min', 'max') and _str_key(n.target.value, ('xo', 'yo')) in ('xo', 'yo'):
                key = _str_key(n.target.value, ('xo', 'yo'))
                tag = f"sub_{key}_{n.target.attr}"
                if tag in seen:
                    continue
                seen.add(tag)
                body_i.append(_assign(tag, n.value))
                if n.target.attr == 'value':
                    body_r.append(_assign(f"{key}_local", ast.BinOp(left=ast.Name(id=key, ctx=ast.Load()),
                                                                    op=ast.Sub(), right=n.value)))
        assert len(seen) == 6
        out.append(_mkfun('c05_sub', ['xmin', 'xmax', 'ymin', 'ymax'], body_i))
        out.append(_mkfun('c05_local', ['xo', 'yo', 'xmin', 'ymin'], body_r))
    except Exception:  # noqa: BLE001
        pass

    # 4. vary= keywords: `params.add(<key>, …, vary=<expr>)` in _refit_islands itself, or in a helper it calls with the
    #    stage passed through unchanged (then the helper's plain-name temporaries are carried along)
    def vary_of(fn):
        body, seen = [], set()
        for n in ast.walk(fn):
            if isinstance(n, ast.Call) and isinstance(n.func, ast.Attribute) and n.func.attr == 'add' \
                    and isinstance(n.func.value, ast.Name) and n.args:
                hits = {k for c in ast.walk(n.args[0]) if isinstance(c, ast.Constant) and isinstance(c.value, str)
                        for k in ('amp', 'xo', 'yo', 'sx', 'sy', 'theta', 'flags') if c.value == k or c.value.endswith('_' + k)}
                vary = [k.value for k in n.keywords if k.arg == 'vary']
                if len(hits) != 1 or not vary:
                    continue
                key = hits.pop()
                if key in seen:
                    continue
                seen.add(key)
                body.append(_assign(f"vary_{key}", vary[0]))
        return body, seen
    try:
        body, seen = vary_of(refit)
        if not seen >= {'amp', 'xo', 'yo', 'sx', 'sy', 'theta', 'flags'}:
            body = None
            for call in ast.walk(refit):
                if isinstance(call, ast.Call) and isinstance(call.func, (ast.Attribute, ast.Name)):
                    name = call.func.attr if isinstance(call.func, ast.Attribute) else call.func.id
                    helpers = [f for f in ast.walk(tree) if isinstance(f, ast.FunctionDef) and f.name == name
                               and name not in ('_refit_islands', 'add')]
                    if not helpers:
                        continue
                    b2, seen2 = vary_of(helpers[0])
                    bind = _bind_call(call, helpers[0])
                    if seen2 >= {'amp', 'xo', 'yo', 'sx', 'sy', 'theta', 'flags'} and bind is not None:
                        # every helper parameter the vary expressions (and their temporaries) read must be `stage` itself
                        temps = [st for st in helpers[0].body if isinstance(st, ast.Assign) and len(st.targets) == 1
                                 and isinstance(st.targets[0], ast.Name)]
                        tnames = {t.targets[0].id for t in temps}
                        used = {m.id for st in b2 for m in ast.walk(st.value) if isinstance(m, ast.Name)}
                        need = set()
                        keep = []
                        for t in reversed(temps):
                            if t.targets[0].id in used | need:
                                keep.insert(0, t)
                                need |= {m.id for m in ast.walk(t.value) if isinstance(m, ast.Name)}
                        free = (used | need) - tnames
                        pmap = {p: bind.get(p) for p in free}
                        if all(isinstance(v, ast.Name) and v.id == 'stage' for v in pmap.values()):
                            ren = _Subst({p: ast.Name(id='stage', ctx=ast.Load()) for p in pmap})
                            body = [ren.visit(st) for st in keep + b2]
                            break
        assert body
        out.append(_mkfun('c05_vary', ['stage'], body))
    except Exception:  # noqa: BLE001
        pass

    # 5. copy-back guards
    try:
        body = []
        for n in ast.walk(refit):
            if isinstance(n, ast.If):
                tg = [t.attr for s in n.body if isinstance(s, ast.Assign) for t in s.targets if isinstance(t, ast.Attribute)]
                if 'err_ra' in tg and 'err_dec' in tg:
                    body.append(_assign('copy_pos_err', n.test))
                if 'err_a' in tg and 'err_b' in tg and 'err_pa' in tg:
                    body.append(_assign('copy_shape_err', n.test))
        assert len(body) == 2
        out.append(_mkfun('c05_copy', ['stage'], body))
    except Exception:  # noqa: BLE001
        pass

    # 6. the 3x3 "has data" box around each component (source_finder.py ~1832): np.clip(<expr in cx>, lo, hi)
    #    -> the clip bounds per axis (int mode) and the two offsets per axis (real mode).  Which of the two
    #    expressions is the lower edge is decided by evaluating them at cx = cy = 0 (classification only).
    try:
        found = {'cx': [], 'cy': []}
        for n in ast.walk(refit):
            if isinstance(n, ast.Call) and isinstance(n.func, ast.Attribute) and n.func.attr == 'clip' and len(n.args) == 3:
                names = {m.id for m in ast.walk(n.args[0]) if isinstance(m, ast.Name)}
                for v in ('cx', 'cy'):
                    if v in names and not ({'cx', 'cy'} - {v}) & names:
                        exprs = list(n.args[0].elts) if isinstance(n.args[0], (ast.Tuple, ast.List)) else [n.args[0]]
                        found[v].append((exprs, n.args[1], n.args[2]))
        body_i, body_r = [], []
        for v, tag in (('cx', 'x'), ('cy', 'y')):
            assert found[v]
            los = {ast.unparse(f[1]) for f in found[v]}
            his = {ast.unparse(f[2]) for f in found[v]}
            assert len(los) == 1 and len(his) == 1      # every call on this axis clips to the same interval
            body_i += [_assign(f'clip_{tag}_lo', found[v][0][1]), _assign(f'clip_{tag}_hi', found[v][0][2])]
            exprs = [e for f in found[v] for e in f[0]]
            vals = [(eval(compile(ast.Expression(body=e), '<c05>', 'eval'), {'__builtins__': {}}, {'cx': 0.0, 'cy': 0.0}), k)
                    for k, e in enumerate(exprs)]
            assert len(exprs) == 2
            lo_e, hi_e = (exprs[0], exprs[1]) if vals[0][0] <= vals[1][0] else (exprs[1], exprs[0])
            body_r += [_assign(f'box_{tag}_lo', lo_e), _assign(f'box_{tag}_hi', hi_e)]
        out.append(_mkfun('c05_clip', ['rows', 'cols'], body_i))
        out.append(_mkfun('c05_box3', ['cx', 'cy'], body_r))
    except Exception:  # noqa: BLE001
        pass

    # 7. the per-source acceptance test: the `if <test>: … continue` at the head of the `for src in isle` loop, with plain
    #    boolean temporaries and straight-line boolean helpers (guard clauses, `return`) inlined, and the three things it
    #    reads from outside reduced to opaque atoms: np.isfinite(data[x, y]) -> data_finite != 0,
    #    np.isfinite(rmsimg[x, y]) -> rms_finite != 0, `pixbeam is None` -> beam_none != 0
    try:
        out.append(_mkfun('c05_accept', ['x', 'y', 'shape0', 'shape1', 'data_finite', 'rms_finite', 'beam_none'],
                          [_assign('reject', _accept_test(tree, refit))]))
    except Exception:  # noqa: BLE001
        pass

    mod = ast.Module(body=out, type_ignores=[])
    ast.fix_missing_locations(mod)
    return ast.unparse(mod) + "\n"


def _slice_file():
    fd, path = tempfile.mkstemp(prefix='verif-C05-slice-', suffix='.py')
    try:
        text = _slice(_REPO)
    except Exception:  # noqa: BLE001 - nothing could be sliced: every target reports UNTRANSLATABLE
        text = ''
    with os.fdopen(fd, 'w') as f:
        f.write("# sliced from source_finder.py by translator/targets/C05.py\n" + text)
    atexit.register(lambda p=path: os.path.exists(p) and os.unlink(p))
    return path


_SL = _slice_file()
_B = ['xmin', 'xmax', 'ymin', 'ymax', 'x', 'y', 'xwidth', 'ywidth', 'shape0', 'shape1']
_BT = dict(xmin='Z', xmax='Z', ymin='Z', ymax='Z', x='Z', y='Z', xwidth='N', ywidth='N', shape0='N', shape1='N')
_C = ['xmin', 'xmax', 'ymin', 'ymax']
_CT = {k: 'Z' for k in _C}
_G = ['x', 'y', 'amp', 'xo', 'yo', 'sx', 'sy', 'theta']


def _fbB(name):
    return (f'def {name} (xmin xmax ymin ymax x y : Int) (xwidth ywidth shape0 shape1 : Nat) : Int := '
            f'{_H}.{name}Hand xmin xmax ymin ymax x y xwidth ywidth shape0 shape1')


def _fbC(name, which):
    return f'def {name} (xmin xmax ymin ymax : Int) : Int := {which}'


def _fbS(name, hand):
    return f'def {name} (stage : Nat) : Bool := {_H}.{hand} stage'


def _fbR(name, expr, args):
    return f'def {name} {{α : Type}} [R α] ({" ".join(args)} : α) : α := {expr}'


_P4 = ['xo', 'yo', 'xmin', 'ymin']

TARGETS = [
    dict(file='AegeanTools/fitting.py', func='elliptical_gaussian', mode='real',
         params={p: 'A' for p in _G}, subst={}, outputs=[], returns='gauss',
         fallback={'gauss': 'def gauss {α : Type} [R α] (x y amp xo yo sx sy theta : α) : α := '
                            f'{_H}.gaussHand x y amp xo yo sx sy theta'},
         all_params=_G),
    dict(file=_SL, func='c05_bounds_step', mode='int', params=_BT,
         subst={'shape[0]': 'shape0', 'shape[1]': 'shape1'},
         outputs=[('xmin', 'xminStep'), ('xmax', 'xmaxStep'), ('ymin', 'yminStep'), ('ymax', 'ymaxStep')],
         fallback={n: _fbB(n) for n in ['xminStep', 'xmaxStep', 'yminStep', 'ymaxStep']},
         all_params=_B),
    dict(file=_SL, func='c05_slice', mode='int', params=_CT, subst={},
         outputs=[('slice_x0', 'sliceX0'), ('slice_x1', 'sliceX1'), ('slice_y0', 'sliceY0'), ('slice_y1', 'sliceY1')],
         fallback={'sliceX0': _fbC('sliceX0', 'xmin'), 'sliceX1': _fbC('sliceX1', 'xmax'),
                   'sliceY0': _fbC('sliceY0', 'ymin'), 'sliceY1': _fbC('sliceY1', 'ymax')},
         all_params=_C),
    dict(file=_SL, func='c05_rms', mode='int', params=_CT, subst={},
         outputs=[('rms_x0', 'rmsX0'), ('rms_x1', 'rmsX1'), ('rms_y0', 'rmsY0'), ('rms_y1', 'rmsY1')],
         fallback={'rmsX0': _fbC('rmsX0', 'xmin'), 'rmsX1': _fbC('rmsX1', 'xmax'),
                   'rmsY0': _fbC('rmsY0', 'ymin'), 'rmsY1': _fbC('rmsY1', 'ymax')},
         all_params=_C),
    dict(file=_SL, func='c05_box', mode='int', params=_CT, subst={},
         outputs=[('box_x0', 'boxX0'), ('box_y0', 'boxY0')],
         fallback={'boxX0': _fbC('boxX0', 'xmin'), 'boxY0': _fbC('boxY0', 'ymin')},
         all_params=_C),
    dict(file=_SL, func='c05_sub', mode='int', params=_CT, subst={},
         outputs=[('sub_xo_value', 'subXoVal'), ('sub_xo_min', 'subXoMin'), ('sub_xo_max', 'subXoMax'),
                  ('sub_yo_value', 'subYoVal'), ('sub_yo_min', 'subYoMin'), ('sub_yo_max', 'subYoMax')],
         fallback={'subXoVal': _fbC('subXoVal', 'xmin'), 'subXoMin': _fbC('subXoMin', 'xmin'),
                   'subXoMax': _fbC('subXoMax', 'xmin'), 'subYoVal': _fbC('subYoVal', 'ymin'),
                   'subYoMin': _fbC('subYoMin', 'ymin'), 'subYoMax': _fbC('subYoMax', 'ymin')},
         all_params=_C),
    dict(file=_SL, func='c05_vary', mode='int', params={'stage': 'N'}, subst={},
         outputs=[('vary_amp', 'varyAmp'), ('vary_xo', 'varyXo'), ('vary_yo', 'varyYo'), ('vary_sx', 'varySx'),
                  ('vary_sy', 'varySy'), ('vary_theta', 'varyTheta'), ('vary_flags', 'varyFlags')],
         fallback={'varyAmp': _fbS('varyAmp', 'varyAmpHand'), 'varyXo': _fbS('varyXo', 'varyPosHand'),
                   'varyYo': _fbS('varyYo', 'varyPosHand'), 'varySx': _fbS('varySx', 'varyShapeHand'),
                   'varySy': _fbS('varySy', 'varyShapeHand'), 'varyTheta': _fbS('varyTheta', 'varyShapeHand'),
                   'varyFlags': _fbS('varyFlags', 'varyFlagsHand')},
         all_params=['stage']),
    dict(file=_SL, func='c05_copy', mode='int', params={'stage': 'N'}, subst={},
         outputs=[('copy_pos_err', 'copyPosErr'), ('copy_shape_err', 'copyShapeErr')],
         fallback={'copyPosErr': _fbS('copyPosErr', 'copyPosErrHand'),
                   'copyShapeErr': _fbS('copyShapeErr', 'copyShapeErrHand')},
         all_params=['stage']),
    dict(file=_SL, func='c05_clip', mode='int', params={'rows': 'N', 'cols': 'N'},
         subst={'idata.shape[0]': 'rows', 'idata.shape[1]': 'cols'},
         outputs=[('clip_x_lo', 'clipXLo'), ('clip_x_hi', 'clipXHi'), ('clip_y_lo', 'clipYLo'), ('clip_y_hi', 'clipYHi')],
         fallback={'clipXLo': 'def clipXLo (rows cols : Nat) : Nat := 0', 'clipXHi': 'def clipXHi (rows cols : Nat) : Nat := rows',
                   'clipYLo': 'def clipYLo (rows cols : Nat) : Nat := 0', 'clipYHi': 'def clipYHi (rows cols : Nat) : Nat := cols'},
         all_params=['rows', 'cols']),
    dict(file=_SL, func='c05_box3', mode='real', params={'cx': 'A', 'cy': 'A'}, subst={},
         outputs=[('box_x_lo', 'boxLoX'), ('box_x_hi', 'boxHiX'), ('box_y_lo', 'boxLoY'), ('box_y_hi', 'boxHiY')],
         fallback={'boxLoX': _fbR('boxLoX', 'cx - R.ofNat 1', ['cx', 'cy']), 'boxHiX': _fbR('boxHiX', 'cx + R.ofNat 2', ['cx', 'cy']),
                   'boxLoY': _fbR('boxLoY', 'cy - R.ofNat 1', ['cx', 'cy']), 'boxHiY': _fbR('boxHiY', 'cy + R.ofNat 2', ['cx', 'cy'])},
         all_params=['cx', 'cy']),
    dict(file=_SL, func='c05_accept', mode='int',
         params={'x': 'Z', 'y': 'Z', 'shape0': 'N', 'shape1': 'N', 'data_finite': 'N', 'rms_finite': 'N', 'beam_none': 'N'},
         subst={'shape[0]': 'shape0', 'shape[1]': 'shape1'},
         outputs=[('reject', 'rejectSrc')],
         fallback={'rejectSrc': 'def rejectSrc (x y : Int) (shape0 shape1 data_finite rms_finite beam_none : Nat) : Bool := '
                                f'{_H}.rejectSrcHand x y shape0 shape1 data_finite rms_finite beam_none'},
         all_params=['x', 'y', 'shape0', 'shape1', 'data_finite', 'rms_finite', 'beam_none']),
    dict(file=_SL, func='c05_local', mode='real', params={p: 'A' for p in _P4}, subst={},
         outputs=[('xo_local', 'xoLocal'), ('yo_local', 'yoLocal')],
         fallback={'xoLocal': _fbR('xoLocal', 'xo - xmin', _P4), 'yoLocal': _fbR('yoLocal', 'yo - ymin', _P4)},
         all_params=_P4),
    dict(file=_SL, func='c05_pix', mode='real', params={p: 'A' for p in _P4}, subst={},
         outputs=[('x_pix', 'xPix'), ('y_pix', 'yPix')],
         fallback={'xPix': _fbR('xPix', 'xo + xmin + R.ofNat 1', _P4), 'yPix': _fbR('yPix', 'yo + ymin + R.ofNat 1', _P4)},
         all_params=_P4),
]
