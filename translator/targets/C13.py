"""C13: regenerated pieces.

  gauss                      `fitting.elliptical_gaussian` (own copy): the objective whose oddness in `amp`
                             (`objective_even`, `residual_negation`) makes the negated fitting problem the mirror image.
  ampMinPos / ampMaxPos      the two amplitude bounds `estimate_lmfit_parinfo` assigns in the branch `amp > 0`
  ampMinNeg / ampMaxNeg      the two it assigns in the other branch (whichever order the tuple target has them in)
  summitArgPos / summitArgNeg   the thresholded quantity of the summit masks: `data - outerclip*rmsimg` (compared `> 0`,
                             positive island) and `data + outerclip*rmsimg` (compared `< 0`, negative island)

The bounds and the summit arguments are *sliced*: the AST of `SourceFinder.estimate_lmfit_parinfo` in the tree under test
($AEGEAN_REPO, default /repo) is searched for

  * the `if` whose test is `amp > 0` (also `0 < amp`; or `amp <= 0` / `0 >= amp` with the branches exchanged) and whose two
    branches each consist of one tuple assignment to the names {amp_min, amp_max};
  * the `if isnegative:` whose two branches each assign `kappa_sigma = np.where(<curve test>, np.where(<arg> <op> 0, data,
    np.nan), np.nan)` with `<curve test>` = `curve > 0.5` / `<arg> < 0` in the negative branch and `-1 * curve > 0.5` (or
    `-curve > 0.5`, `curve < -0.5`) / `<arg> > 0` in the positive branch;

and the pieces are written as small straight-line Python functions into a scratch file which the translator (real mode)
turns into Lean.  The comparison structure itself (which branch is which, `<`/`>` against 0, the curvature test) is checked
by the slicer and is hand-written glue in the model (`ampBoundsG`, `summitMaskG`); anything the slicer does not recognise is
written as a call the translator rejects, so the piece is reported UNTRANSLATABLE, the `…Hand` definitions of
Aegean/Model/C13.lean stand in and only the correspondence ties that piece to the code.
"""
import ast
import hashlib
import os
import tempfile

import py2lean

_SF = 'AegeanTools/source_finder.py'
_G = ['x', 'y', 'amp', 'xo', 'yo', 'sx', 'sy', 'theta']


def _with_minmax(orig):
    """extension of py2lean.Translator.expr_real (extended copy lives in the targets file, as the guide allows): the Python
    builtins `min(a, b)` / `max(a, b)` with exactly two positional arguments become `R.min` / `R.max` (equal to the builtins
    on non-NaN values).  Everything else is delegated unchanged."""
    def expr_real(self, node):
        if isinstance(node, ast.Call) and isinstance(node.func, ast.Name) and node.func.id in ('min', 'max') \
                and len(node.args) == 2 and not node.keywords and node.func.id not in self.calls:
            a, _, da = self.expr(node.args[0])
            b, _, db = self.expr(node.args[1])
            return f"(R.{node.func.id} {a} {b})", 'A', da | db
        return orig(self, node)
    expr_real._c13_minmax = True
    return expr_real


if not getattr(py2lean.Translator.expr_real, '_c13_minmax', False):
    py2lean.Translator.expr_real = _with_minmax(py2lean.Translator.expr_real)


# ---------------------------------------------------------------- slicing ------------------------------------------------

_BAD = "    {} = __unrecognised__({!r})\n"


def _is_zero(n):
    return isinstance(n, ast.Constant) and not isinstance(n.value, bool) and n.value == 0


def _is_name(n, name):
    return isinstance(n, ast.Name) and n.id == name


def _amp_test(test):
    """'pos' if the test is true exactly for amp > 0, 'nonpos' if it is true exactly for amp <= 0, else None"""
    if not (isinstance(test, ast.Compare) and len(test.ops) == 1 and len(test.comparators) == 1):
        return None
    l, op, r = test.left, test.ops[0], test.comparators[0]
    if _is_name(l, 'amp') and _is_zero(r):
        return 'pos' if isinstance(op, ast.Gt) else 'nonpos' if isinstance(op, ast.LtE) else None
    if _is_zero(l) and _is_name(r, 'amp'):
        return 'pos' if isinstance(op, ast.Lt) else 'nonpos' if isinstance(op, ast.GtE) else None
    return None


def _bounds_assign(stmts):
    """the single statement `a, b = (e1, e2)` with {a, b} = {amp_min, amp_max}; returns its source or None"""
    stmts = [s for s in stmts if not isinstance(s, (ast.Pass,)) and not (isinstance(s, ast.Expr) and isinstance(s.value, ast.Constant))]
    if len(stmts) == 2 and all(isinstance(s, ast.Assign) and len(s.targets) == 1 and isinstance(s.targets[0], ast.Name)
                               for s in stmts) and {s.targets[0].id for s in stmts} == {'amp_min', 'amp_max'}:
        # two separate assignments are as good as the tuple, provided the second does not read the first
        names = {n.id for n in ast.walk(stmts[1].value) if isinstance(n, ast.Name)}
        if stmts[0].targets[0].id not in names:
            return "\n".join("    " + ast.unparse(s) for s in stmts) + "\n"
        return None
    if len(stmts) != 1 or not isinstance(stmts[0], ast.Assign) or len(stmts[0].targets) != 1:
        return None
    t, v = stmts[0].targets[0], stmts[0].value
    if not (isinstance(t, ast.Tuple) and isinstance(v, ast.Tuple) and len(t.elts) == 2 and len(v.elts) == 2):
        return None
    if not all(isinstance(e, ast.Name) for e in t.elts) or {e.id for e in t.elts} != {'amp_min', 'amp_max'}:
        return None
    return "    " + ast.unparse(stmts[0]) + "\n"


def _amp_slice(fn):
    head_p = "def amp_pos(amp, r, innerclip, outerclip, sampling):\n"
    head_n = "def amp_neg(amp, r, innerclip, outerclip, sampling):\n"
    found = []
    for node in ast.walk(fn):
        if isinstance(node, ast.If) and _amp_test(node.test):
            a, b = _bounds_assign(node.body), _bounds_assign(node.orelse)
            if a and b:
                found.append((node, a, b))
    if len(found) != 1:
        why = f"{len(found)} statements of the form `if amp > 0: amp_min, amp_max = … else: …`"
        bad = _BAD.format('amp_min', why) + _BAD.format('amp_max', why)
        return head_p + bad + "    return amp\n\n" + head_n + bad + "    return amp\n"
    node, a, b = found[0]
    pos, neg = (a, b) if _amp_test(node.test) == 'pos' else (b, a)
    return head_p + pos + "    return amp_min\n\n" + head_n + neg + "    return amp_min\n"


def _np_where(call):
    return isinstance(call, ast.Call) and isinstance(call.func, ast.Attribute) and call.func.attr == 'where' \
        and isinstance(call.func.value, ast.Name) and call.func.value.id in ('np', 'numpy') and len(call.args) == 3 \
        and not call.keywords


def _is_nan(n):
    return isinstance(n, ast.Attribute) and n.attr in ('nan', 'NaN') and isinstance(n.value, ast.Name) \
        and n.value.id in ('np', 'numpy')


def _curve_sign(test):
    """+1 for `curve > 0.5`, -1 for `-1*curve > 0.5` / `-curve > 0.5` / `curve < -0.5`, else None"""
    if not (isinstance(test, ast.Compare) and len(test.ops) == 1):
        return None
    l, op, r = test.left, test.ops[0], test.comparators[0]
    half = isinstance(r, ast.Constant) and r.value == 0.5
    mhalf = (isinstance(r, ast.UnaryOp) and isinstance(r.op, ast.USub) and isinstance(r.operand, ast.Constant)
             and r.operand.value == 0.5) or (isinstance(r, ast.Constant) and r.value == -0.5)
    if _is_name(l, 'curve') and isinstance(op, ast.Gt) and half:
        return 1
    if _is_name(l, 'curve') and isinstance(op, ast.Lt) and mhalf:
        return -1
    neg_curve = (isinstance(l, ast.UnaryOp) and isinstance(l.op, ast.USub) and _is_name(l.operand, 'curve')) or \
        (isinstance(l, ast.BinOp) and isinstance(l.op, ast.Mult) and (
            (isinstance(l.left, ast.Constant) and l.left.value == -1 and _is_name(l.right, 'curve')) or
            (isinstance(l.left, ast.UnaryOp) and isinstance(l.left.op, ast.USub) and isinstance(l.left.operand, ast.Constant)
             and l.left.operand.value == 1 and _is_name(l.right, 'curve')) or
            (_is_name(l.left, 'curve') and isinstance(l.right, ast.UnaryOp) and isinstance(l.right.op, ast.USub)
             and isinstance(l.right.operand, ast.Constant) and l.right.operand.value == 1)))
    if neg_curve and isinstance(op, ast.Gt) and half:
        return -1
    return None


def _kappa(stmts, want_curve, want_op):
    """`kappa_sigma = np.where(<curve test>, np.where(<arg> <op> 0, data, np.nan), np.nan)`; returns source of <arg>"""
    stmts = [s for s in stmts if not (isinstance(s, ast.Expr) and isinstance(s.value, ast.Constant))]
    if len(stmts) != 1 or not isinstance(stmts[0], ast.Assign) or len(stmts[0].targets) != 1 \
            or not _is_name(stmts[0].targets[0], 'kappa_sigma'):
        return None
    outer = stmts[0].value
    if not _np_where(outer) or not _is_nan(outer.args[2]) or _curve_sign(outer.args[0]) != want_curve:
        return None
    inner = outer.args[1]
    if not _np_where(inner) or not _is_name(inner.args[1], 'data') or not _is_nan(inner.args[2]):
        return None
    t = inner.args[0]
    if not (isinstance(t, ast.Compare) and len(t.ops) == 1 and isinstance(t.ops[0], want_op) and _is_zero(t.comparators[0])):
        return None
    return ast.unparse(t.left)


def _summit_slice(fn):
    head_p = "def summit_pos(data, rmsimg, innerclip, outerclip):\n"
    head_n = "def summit_neg(data, rmsimg, innerclip, outerclip):\n"
    found = []
    for node in ast.walk(fn):
        if isinstance(node, ast.If) and _is_name(node.test, 'isnegative') and node.orelse:
            n, p = _kappa(node.body, 1, ast.Lt), _kappa(node.orelse, -1, ast.Gt)
            if n and p:
                found.append((p, n))
    if len(found) != 1:
        why = f"{len(found)} statements of the form `if isnegative: kappa_sigma = np.where(…) else: …`"
        bad = _BAD.format('arg', why)
        return head_p + bad + "    return data\n\n" + head_n + bad + "    return data\n"
    p, n = found[0]
    return head_p + f"    arg = {p}\n    return arg\n\n" + head_n + f"    arg = {n}\n    return arg\n"


def _slices():
    repo = os.environ.get('AEGEAN_REPO', '/repo')
    try:
        tree = ast.parse(open(os.path.join(repo, _SF)).read())
        fn = [n for n in ast.walk(tree) if isinstance(n, ast.FunctionDef) and n.name == 'estimate_lmfit_parinfo'][0]
        text = _amp_slice(fn) + "\n\n" + _summit_slice(fn)
    except Exception as exc:
        text = f"# slicing failed: {exc!r}\n"
    d = os.path.join(tempfile.gettempdir(), 'verif-C13-slices')
    os.makedirs(d, exist_ok=True)
    path = os.path.join(d, 'estimate_lmfit_parinfo_' + hashlib.sha1(text.encode()).hexdigest()[:12] + '.py')
    if not os.path.exists(path):
        with open(path + '.tmp%d' % os.getpid(), 'w') as f:
            f.write(text)
        os.replace(path + '.tmp%d' % os.getpid(), path)
    return path


_S = _slices()
_M = 'Aegean.Model.C13.'
_AP = ['amp', 'r', 'innerclip', 'outerclip', 'sampling']
_KP = ['data', 'rmsimg', 'innerclip', 'outerclip']


def _fb(name, params):
    return f"def {name} {{α : Type}} [R α] ({' '.join(params)} : α) : α := {_M}{name}Hand {' '.join(params)}"


TARGETS = [
    dict(file='AegeanTools/fitting.py', func='elliptical_gaussian', mode='real',
         params={p: 'A' for p in _G}, subst={}, outputs=[], returns='gauss',
         fallback={'gauss': 'def gauss {α : Type} [R α] (x y amp xo yo sx sy theta : α) : α := '
                            'Aegean.Model.C13.gaussHand x y amp xo yo sx sy theta'},
         all_params=_G),
    dict(file=_S, func='amp_pos', mode='real', params={p: 'A' for p in _AP}, subst={'rmsimg[xo, yo]': 'r'},
         outputs=[('amp_min', 'ampMinPos'), ('amp_max', 'ampMaxPos')],
         fallback={'ampMinPos': _fb('ampMinPos', _AP), 'ampMaxPos': _fb('ampMaxPos', _AP)}, all_params=_AP),
    dict(file=_S, func='amp_neg', mode='real', params={p: 'A' for p in _AP}, subst={'rmsimg[xo, yo]': 'r'},
         outputs=[('amp_min', 'ampMinNeg'), ('amp_max', 'ampMaxNeg')],
         fallback={'ampMinNeg': _fb('ampMinNeg', _AP), 'ampMaxNeg': _fb('ampMaxNeg', _AP)}, all_params=_AP),
    dict(file=_S, func='summit_pos', mode='real', params={p: 'A' for p in _KP},
         outputs=[('arg', 'summitArgPos')], fallback={'summitArgPos': _fb('summitArgPos', _KP)}, all_params=_KP),
    dict(file=_S, func='summit_neg', mode='real', params={p: 'A' for p in _KP},
         outputs=[('arg', 'summitArgNeg')], fallback={'summitArgNeg': _fb('summitArgNeg', _KP)}, all_params=_KP),
]
