"""C13: `fitting.elliptical_gaussian` (own copy, Gen.C13.gauss), the objective whose evenness in `amp`
(`objective_even`, `residual_negation`) makes the negated fitting problem the mirror image of the original."""
_G = ['x', 'y', 'amp', 'xo', 'yo', 'sx', 'sy', 'theta']

TARGETS = [
    dict(file='AegeanTools/fitting.py', func='elliptical_gaussian', mode='real',
         params={p: 'A' for p in _G}, subst={}, outputs=[], returns='gauss',
         fallback={'gauss': 'def gauss {α : Type} [R α] (x y amp xo yo sx sy theta : α) : α := '
                            'Aegean.Model.C13.gaussHand x y amp xo yo sx sy theta'},
         all_params=_G),
]
