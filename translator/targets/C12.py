"""C12: the NUNIQ encoder expression and the loop range of `Region._uniq`.

    pd = []
    for d in range(1, self.maxdepth+1):
        pd.extend(map(lambda x: int(4**(d+1) + x), self.pixeldict[d]))
    return sorted(pd)

(or any of the equivalent shapes listed in UniqTranslator: list comprehension / generator / append loop, hoisted
offset, renamed locals, `if not self.pixeldict[d]: continue`, in-place sort)

becomes   Gen.C12.encode (d x : Nat) : Nat      -- the lambda body
          Gen.C12.levels (maxdepth : Nat) : List Nat   -- the range the loop runs over

The shared py2lean.Translator walks `for` bodies without binding the loop header and knows no
lambdas, so this file carries an extended copy of the statement walker (a subclass that adds exactly
those two constructs, everything else is inherited) and routes `Region._uniq` — only that function —
to it.  `targets.generate` has no per-target translator hook, hence `_install()` below; the change
wanted in translator/targets.py is: `if 'translator' in tg: text, info = tg['translator'](src, tg)`.
Anything unexpected in `_uniq` (another iterable than `self.pixeldict[<loop var>]`, a second loop,
an encoder depending on other names) raises Untranslatable: the check then falls back to the hand
model and the correspondence (`uniq` lines of corr_C12) is what ties `_uniq` to the code.
"""
import ast
import os
import sys

sys.path.insert(0, os.path.dirname(os.path.dirname(os.path.abspath(__file__))))
import py2lean  # noqa: E402
from py2lean import Untranslatable  # noqa: E402


class UniqTranslator(py2lean.Translator):
    """py2lean.Translator restricted to the shapes `_uniq` can take and extended by them:

        acc = []
        for v in range(a, b):                       # exactly one loop; its range becomes `levels`
            [if not self.pixeldict[v]: continue]     # skipping an EMPTY level is the only guard accepted
            [name = <natural-number expression>]     # hoisted temporaries (inlined as lets)
            [alias = self.pixeldict[v]]
            acc.extend(map(lambda x: E, IT)) | acc.extend([E for x in IT]) | acc.extend(E for x in IT)
              | acc += [E for x in IT] | for x in IT: acc.append(E)          # E becomes `encode`
        [acc.sort()]
        return acc | return sorted(acc)

    with IT = self.pixeldict[v] (or its alias).  Every other statement — another loop, a filter, a condition on
    anything but emptiness of the level, a comprehension with an `if` — raises Untranslatable: the check then uses
    the hand definitions and the correspondence alone ties `_uniq` to the model.  Nothing is silently dropped."""

    def __init__(self, *a, **kw):
        super().__init__(*a, **kw)
        self.loopvar = None
        self.nloops = 0
        self.nlambda = 0
        self.acc = None
        self.aliases = set()
        self.sorted_in_place = False

    # -- helpers
    def is_level_set(self, node):
        txt = ast.unparse(node)
        return self.loopvar is not None and (txt == f"self.pixeldict[{self.loopvar}]" or txt in self.aliases)

    def encoder(self, argname, body):
        self.nlambda += 1
        if self.nlambda > 1:
            raise Untranslatable("more than one encoder")
        self.params[argname] = 'N'
        self.env[argname] = (py2lean.lean_ident(argname), 'N')
        self.lambda_arg = py2lean.lean_ident(argname)
        c, t, d = self.expr(body)
        if t != 'N':
            raise Untranslatable(f"encoder has type {t}, not a natural number (true division?)")
        self.bind('__lambda__', c, t, d)

    def comprehension(self, node):
        """[E for x in IT] / (E for x in IT)"""
        if len(node.generators) != 1:
            raise Untranslatable("nested comprehension")
        g = node.generators[0]
        if g.ifs or g.is_async or not isinstance(g.target, ast.Name):
            raise Untranslatable("comprehension with a filter")
        if not self.is_level_set(g.iter):
            raise Untranslatable(f"encoder is mapped over {ast.unparse(g.iter)}, not self.pixeldict[<loop variable>]")
        self.encoder(g.target.id, node.elt)

    def extend_arg(self, arg):
        if isinstance(arg, ast.Call) and self.callee_name(arg.func) == 'map' and len(arg.args) == 2 \
                and isinstance(arg.args[0], ast.Lambda):
            lam, it = arg.args
            if not self.is_level_set(it):
                raise Untranslatable(f"encoder is mapped over {ast.unparse(it)}, not self.pixeldict[<loop variable>]")
            la = lam.args
            if len(la.args) != 1 or la.vararg or la.kwarg or la.kwonlyargs or la.defaults:
                raise Untranslatable("lambda signature")
            self.encoder(la.args[0].arg, lam.body)
        elif isinstance(arg, (ast.ListComp, ast.GeneratorExp)):
            self.comprehension(arg)
        else:
            raise Untranslatable(f"extend argument {ast.unparse(arg)}")

    def is_acc_call(self, s, attr):
        return isinstance(s, ast.Expr) and isinstance(s.value, ast.Call) and isinstance(s.value.func, ast.Attribute) \
            and s.value.func.attr == attr and isinstance(s.value.func.value, ast.Name) \
            and s.value.func.value.id == self.acc

    # -- the function body
    def top(self, body):
        for s in body:
            if isinstance(s, ast.Expr) and isinstance(s.value, ast.Constant) and isinstance(s.value.value, str):
                continue                                            # docstring
            if isinstance(s, ast.Assign) and len(s.targets) == 1 and isinstance(s.targets[0], ast.Name) \
                    and isinstance(s.value, ast.List) and not s.value.elts and self.acc is None:
                self.acc = s.targets[0].id
            elif isinstance(s, ast.For):
                self.loop(s)
            elif self.acc and self.is_acc_call(s, 'sort') and not s.value.args and not s.value.keywords:
                self.sorted_in_place = True
            elif isinstance(s, ast.Return):
                txt = ast.unparse(s.value) if s.value is not None else ''
                if txt not in (self.acc, f"sorted({self.acc})"):
                    raise Untranslatable("return value is not the accumulated list")
                self.returned = True
            else:
                raise Untranslatable("statement outside the accepted shape: " + " ".join(ast.unparse(s).split())[:60])

    def loop(self, s):
        if self.acc is None:
            raise Untranslatable("loop before the accumulator is initialised")
        if not (isinstance(s.target, ast.Name) and isinstance(s.iter, ast.Call)
                and self.callee_name(s.iter.func) == 'range'):
            raise Untranslatable(f"loop header {ast.unparse(s.target)} in {ast.unparse(s.iter)}")
        if s.orelse:
            raise Untranslatable("for/else")
        self.nloops += 1
        if self.nloops > 1:
            raise Untranslatable("more than one loop in _uniq")
        c, t, d = self.expr(s.iter)
        if t != 'LN':
            raise Untranslatable("loop range is not a list of naturals")
        self.bind('__range__', c, t, d)
        v = s.target.id
        self.loopvar = v
        self.params[v] = 'N'
        self.env[v] = (py2lean.lean_ident(v), 'N')
        for b in s.body:
            self.loop_stmt(b)

    def loop_stmt(self, s):
        level = f"self.pixeldict[{self.loopvar}]"
        if isinstance(s, ast.If):
            # only "skip an empty level" (which contributes nothing anyway)
            test = ast.unparse(s.test)
            empties = {f"not {level}", f"len({level}) == 0", f"not len({level})"} | \
                {f"not {a}" for a in self.aliases} | {f"len({a}) == 0" for a in self.aliases}
            if test in empties and not s.orelse and len(s.body) == 1 and isinstance(s.body[0], ast.Continue):
                return
            raise Untranslatable(f"condition inside the loop: if {test}")
        if isinstance(s, ast.Assign) and len(s.targets) == 1 and isinstance(s.targets[0], ast.Name):
            name = s.targets[0].id
            if ast.unparse(s.value) == level:
                self.aliases.add(name)
                return
            c, t, d = self.expr(s.value)            # Untranslatable propagates: nothing becomes an opaque input
            if t != 'N':
                raise Untranslatable(f"temporary {name} is not a natural number")
            self.bind(name, c, t, d)
            return
        if self.is_acc_call(s, 'extend') and len(s.value.args) == 1 and not s.value.keywords:
            self.extend_arg(s.value.args[0])
            return
        if isinstance(s, ast.AugAssign) and isinstance(s.op, ast.Add) and isinstance(s.target, ast.Name) \
                and s.target.id == self.acc and isinstance(s.value, ast.ListComp):
            self.comprehension(s.value)
            return
        if isinstance(s, ast.For) and isinstance(s.target, ast.Name) and self.is_level_set(s.iter) and not s.orelse \
                and len(s.body) == 1 and self.is_acc_call(s.body[0], 'append') and len(s.body[0].value.args) == 1:
            self.encoder(s.target.id, s.body[0].value.args[0])
            return
        raise Untranslatable("statement inside the loop outside the accepted shape: " + " ".join(ast.unparse(s).split())[:60])


def _emit_fixed(tr, lean_name, var, sig, allowed, rename):
    """one def with a fixed signature; refuses dependencies outside `allowed`"""
    if var not in tr.env:
        raise Untranslatable(f"{var} is never assigned")
    ssa, t = tr.env[var]
    keep, need = tr.closure(ssa)
    lets = {n for n, _, _ in keep}
    extra = sorted(n for n in need if n not in lets and n not in allowed)
    if extra:
        raise Untranslatable(f"{lean_name} depends on unexpected inputs {extra}")
    lines = [f"def {lean_name} {sig} : {tr.LEAN_T[t]} :="]
    for a, b in rename:
        if a != b:
            lines.append(f"  let {a} : Nat := {b}")
    for name, code, lt in keep:
        lines.append(f"  let {name} : {tr.LEAN_T[lt]} := {code}")
    lines.append(f"  {ssa}")
    return "\n".join(lines)


def translate_uniq(src_path, qualname, params, subst):
    tree = ast.parse(open(src_path).read())
    fn = py2lean.find_function(tree, qualname)
    tr = UniqTranslator('int', params, subst, None)
    tr.returned = False
    tr.top(list(fn.body))
    if not tr.returned:
        raise Untranslatable("no return of the accumulated list")
    if tr.loopvar is None or tr.nlambda != 1:
        raise Untranslatable("no loop / no encoder found")
    d = py2lean.lean_ident(tr.loopvar)
    x = tr.lambda_arg
    enc = _emit_fixed(tr, 'encode', '__lambda__', '(d : Nat) (x : Nat)', {d, x}, [(d, 'd'), (x, 'x')])
    lev = _emit_fixed(tr, 'levels', '__range__', '(maxdepth : Nat)', {'maxdepth'}, [])
    return enc + "\n\n" + lev, {'encode': ['d', 'x'], 'levels': ['maxdepth']}


def _c08():
    """the expression / range helpers of targets/C08.py (same directory)"""
    import importlib.util
    here = os.path.dirname(os.path.abspath(__file__))
    spec = importlib.util.spec_from_file_location('targets_C08_helpers', os.path.join(here, 'C08.py'))
    m = importlib.util.module_from_spec(spec)
    spec.loader.exec_module(m)
    return m


def translate_export_leaf(src_path, leaf):
    """`regLevels maxdepth`: the range of the level loop of write_reg (first `for … in range(…)` of the function, whose
    body must be a loop over `self.pixeldict[<level>]`);  `mocOrderOf maxdepth`: the value written to the MOCORDER card
    of write_fits (`…header['MOCORDER'] = (<value>, <comment>)`, exactly one such assignment)."""
    h = _c08()
    tree = ast.parse(open(src_path).read())
    if leaf == 'regLevels':
        fn = py2lean.find_function(tree, 'Region.write_reg')
        loops = h.range_loops(fn)
        if len(loops) != 1 or not isinstance(loops[0].target, ast.Name):
            raise Untranslatable("write_reg: expected exactly one loop over the levels")
        d = loops[0].target.id
        level = f"self.pixeldict[{d}]"
        aliases = {level}
        inner = [s for s in loops[0].body if isinstance(s, ast.For)]
        rest = [s for s in loops[0].body if not isinstance(s, ast.For)]
        for s in rest:
            txt = " ".join(ast.unparse(s).split())
            if isinstance(s, ast.Assign) and len(s.targets) == 1 and isinstance(s.targets[0], ast.Name):
                if ast.unparse(s.value) == level:
                    aliases.add(s.targets[0].id)              # pixels = self.pixeldict[d]
                continue                                      # other temporaries (nside = 2**d): not part of this leaf
            if isinstance(s, ast.If) and not s.orelse and len(s.body) == 1 and isinstance(s.body[0], ast.Continue) \
                    and ast.unparse(s.test) in {f"not {a}" for a in aliases} | {f"len({a}) == 0" for a in aliases}:
                continue                                      # skipping an empty level writes nothing less
            if isinstance(s, ast.Expr) and isinstance(s.value, ast.Call) and txt.startswith(('log.', 'logging.')):
                continue
            raise Untranslatable("write_reg: statement beside the pixel loop: " + txt[:50])
        if len(inner) != 1 or ast.unparse(inner[0].iter) not in aliases or inner[0].orelse:
            raise Untranslatable("write_reg: the level loop does not iterate over self.pixeldict[<level>]")
        for n in ast.walk(inner[0]):
            if isinstance(n, (ast.Continue, ast.Break)):
                raise Untranslatable("write_reg: continue/break inside the pixel loop")
        code = h.tr_range(loops[0].iter, {})
        return f"def regLevels (maxdepth : Nat) : List Nat :=\n  {code}", {'regLevels': []}
    if leaf == 'mocOrderOf':
        fn = py2lean.find_function(tree, 'Region.write_fits')
        hits = [n for n in ast.walk(fn) if isinstance(n, ast.Assign) and len(n.targets) == 1
                and isinstance(n.targets[0], ast.Subscript) and isinstance(n.targets[0].slice, ast.Constant)
                and n.targets[0].slice.value == 'MOCORDER']
        if len(hits) != 1:
            raise Untranslatable("write_fits: expected exactly one assignment of the MOCORDER card")
        v = hits[0].value
        if isinstance(v, ast.Tuple) and len(v.elts) >= 1:
            v = v.elts[0]
        code = h.tr_expr(v, {}, 'N')
        return f"def mocOrderOf (maxdepth : Nat) : Nat :=\n  {code}", {'mocOrderOf': []}
    raise Untranslatable(f"unknown leaf {leaf}")


def _install():
    """route `Region._uniq` (and nothing else) through translate_uniq in the module that is loading us"""
    for depth in range(1, 16):
        try:
            g = sys._getframe(depth).f_globals
        except ValueError:
            return
        if str(g.get('__file__', '')).endswith(os.path.join('translator', 'targets.py')) and 'translate_function' in g:
            orig = g['translate_function']
            if getattr(orig, '_c12', False):
                return

            def wrapped(src_path, qualname, outputs, mode, params, subst=None, calls=None, returns=None, **kw):
                if outputs and str(outputs[0][0]).startswith('__c12__'):
                    try:
                        return translate_export_leaf(src_path, outputs[0][1])
                    except Untranslatable:
                        raise
                    except Exception as e:
                        raise Untranslatable(f"{qualname}: {type(e).__name__}: {e}")
                if qualname == 'Region._uniq':
                    return translate_uniq(src_path, qualname, params, subst)
                return orig(src_path, qualname, outputs, mode, params, subst, calls, returns=returns, **kw)
            wrapped._c12 = True
            g['translate_function'] = wrapped
            return


_install()

TARGETS = [
    dict(file='AegeanTools/regions.py', func='Region._uniq', mode='int',
         params={'maxdepth': 'N'},
         subst={'self.maxdepth': 'maxdepth'},
         outputs=[('__lambda__', 'encode'), ('__range__', 'levels')],
         translator=translate_uniq,
         fallback={'encode': 'def encode (d : Nat) (x : Nat) : Nat := Aegean.Model.C12.encodeHand d x',
                   'levels': 'def levels (maxdepth : Nat) : List Nat := Aegean.Model.C12.levelsHand maxdepth'},
         fallback_imports=['Aegean.Model.C12Hand']),
    dict(file='AegeanTools/regions.py', func='Region.write_reg', mode='int', params={'maxdepth': 'N'},
         subst={'self.maxdepth': 'maxdepth'}, outputs=[('__c12__regLevels', 'regLevels')],
         fallback={'regLevels': 'def regLevels (maxdepth : Nat) : List Nat := Aegean.Model.C12.regLevelsHand maxdepth'},
         fallback_imports=['Aegean.Model.C12Hand']),
    dict(file='AegeanTools/regions.py', func='Region.write_fits', mode='int', params={'maxdepth': 'N'},
         subst={'self.maxdepth': 'maxdepth'}, outputs=[('__c12__mocOrderOf', 'mocOrderOf')],
         fallback={'mocOrderOf': 'def mocOrderOf (maxdepth : Nat) : Nat := Aegean.Model.C12.mocOrderHand maxdepth'},
         fallback_imports=['Aegean.Model.C12Hand']),
]
