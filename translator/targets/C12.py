"""C12: the NUNIQ encoder expression and the loop range of `Region._uniq`.

    pd = []
    for d in range(1, self.maxdepth+1):
        pd.extend(map(lambda x: int(4**(d+1) + x), self.pixeldict[d]))
    return sorted(pd)

becomes   Gen.C12.encode (d x : Nat) : Nat      -- the lambda body
          Gen.C12.levels (maxdepth : Nat) : List Nat   -- the range the loop runs over

The shared py2lean.Translator walks `for` bodies without binding the loop header and knows no
lambdas, so this file carries an extended copy of the statement walker (a subclass that adds exactly
those two constructs, everything else is inherited) and routes `Region._uniq` — only that function —
to it.  `targets.generate` has no per-target translator hook, hence `_install()` below; the change
wanted in translator/targets.py is: `if 'translator' in tg: text, info = tg['translator'](src, tg)`.
Anything unexpected in `_uniq` (another iterable than `self.pixeldict[<loop var>]`, a second loop,
an encoder depending on other names) raises Untranslatable: the check then falls back to the hand
model and the correspondence (`uniq` lines of corr_C12) is what ties `_uniq` to the code.
"""
import ast
import os
import sys

sys.path.insert(0, os.path.dirname(os.path.dirname(os.path.abspath(__file__))))
import py2lean  # noqa: E402
from py2lean import Untranslatable  # noqa: E402


class UniqTranslator(py2lean.Translator):
    """py2lean.Translator + `for v in range(...)` headers + `acc.extend(map(lambda x: E, self.pixeldict[v]))`"""

    def __init__(self, *a, **kw):
        super().__init__(*a, **kw)
        self.loopvar = None
        self.nloops = 0
        self.nlambda = 0

    def stmt(self, s):
        if isinstance(s, ast.For):
            if not (isinstance(s.target, ast.Name) and isinstance(s.iter, ast.Call)
                    and self.callee_name(s.iter.func) == 'range'):
                raise Untranslatable(f"loop header {ast.unparse(s.target)} in {ast.unparse(s.iter)}")
            if s.orelse:
                raise Untranslatable("for/else")
            self.nloops += 1
            if self.nloops > 1:
                raise Untranslatable("more than one loop in _uniq")
            c, t, d = self.expr(s.iter)
            if t != 'LN':
                raise Untranslatable("loop range is not a list of naturals")
            self.bind('__range__', c, t, d)
            v = s.target.id
            self.loopvar = v
            self.params[v] = 'N'
            self.env[v] = (py2lean.lean_ident(v), 'N')
            self.stmts(s.body)
            return
        if isinstance(s, ast.Expr) and isinstance(s.value, ast.Call) and isinstance(s.value.func, ast.Attribute) \
                and s.value.func.attr == 'extend' and len(s.value.args) == 1:
            arg = s.value.args[0]
            if not (isinstance(arg, ast.Call) and self.callee_name(arg.func) == 'map' and len(arg.args) == 2
                    and isinstance(arg.args[0], ast.Lambda)):
                raise Untranslatable(f"extend argument {ast.unparse(arg)}")
            lam, it = arg.args
            if self.loopvar is None or ast.unparse(it) != f"self.pixeldict[{self.loopvar}]":
                raise Untranslatable(f"encoder is mapped over {ast.unparse(it)}, not self.pixeldict[<loop variable>]")
            la = lam.args
            if len(la.args) != 1 or la.vararg or la.kwarg or la.kwonlyargs or la.defaults:
                raise Untranslatable("lambda signature")
            x = la.args[0].arg
            self.nlambda += 1
            if self.nlambda > 1:
                raise Untranslatable("more than one encoder")
            self.params[x] = 'N'
            self.env[x] = (py2lean.lean_ident(x), 'N')
            self.lambda_arg = py2lean.lean_ident(x)
            c, t, d = self.expr(lam.body)
            if t != 'N':
                raise Untranslatable(f"encoder has type {t}, not a natural number (true division?)")
            self.bind('__lambda__', c, t, d)
            return
        if isinstance(s, ast.While):
            raise Untranslatable("while loop")
        super().stmt(s)


def _emit_fixed(tr, lean_name, var, sig, allowed, rename):
    """one def with a fixed signature; refuses dependencies outside `allowed`"""
    if var not in tr.env:
        raise Untranslatable(f"{var} is never assigned")
    ssa, t = tr.env[var]
    keep, need = tr.closure(ssa)
    lets = {n for n, _, _ in keep}
    extra = sorted(n for n in need if n not in lets and n not in allowed)
    if extra:
        raise Untranslatable(f"{lean_name} depends on unexpected inputs {extra}")
    lines = [f"def {lean_name} {sig} : {tr.LEAN_T[t]} :="]
    for a, b in rename:
        if a != b:
            lines.append(f"  let {a} : Nat := {b}")
    for name, code, lt in keep:
        lines.append(f"  let {name} : {tr.LEAN_T[lt]} := {code}")
    lines.append(f"  {ssa}")
    return "\n".join(lines)


def translate_uniq(src_path, qualname, params, subst):
    tree = ast.parse(open(src_path).read())
    fn = py2lean.find_function(tree, qualname)
    tr = UniqTranslator('int', params, subst, None)
    tr.stmts(list(fn.body))
    rets = [n for n in ast.walk(fn) if isinstance(n, ast.Return) and n.value is not None]
    if len(rets) != 1 or ast.unparse(rets[0].value) not in ('sorted(pd)', 'pd'):
        raise Untranslatable("return value is not the accumulated list")
    if tr.loopvar is None or tr.nlambda != 1:
        raise Untranslatable("no loop / no encoder found")
    d = py2lean.lean_ident(tr.loopvar)
    x = tr.lambda_arg
    enc = _emit_fixed(tr, 'encode', '__lambda__', '(d : Nat) (x : Nat)', {d, x}, [(d, 'd'), (x, 'x')])
    lev = _emit_fixed(tr, 'levels', '__range__', '(maxdepth : Nat)', {'maxdepth'}, [])
    return enc + "\n\n" + lev, {'encode': ['d', 'x'], 'levels': ['maxdepth']}


def _install():
    """route `Region._uniq` (and nothing else) through translate_uniq in the module that is loading us"""
    for depth in range(1, 16):
        try:
            g = sys._getframe(depth).f_globals
        except ValueError:
            return
        if str(g.get('__file__', '')).endswith(os.path.join('translator', 'targets.py')) and 'translate_function' in g:
            orig = g['translate_function']
            if getattr(orig, '_c12', False):
                return

            def wrapped(src_path, qualname, outputs, mode, params, subst=None, calls=None, returns=None, **kw):
                if qualname == 'Region._uniq':
                    return translate_uniq(src_path, qualname, params, subst)
                return orig(src_path, qualname, outputs, mode, params, subst, calls, returns=returns, **kw)
            wrapped._c12 = True
            g['translate_function'] = wrapped
            return


_install()

TARGETS = [
    dict(file='AegeanTools/regions.py', func='Region._uniq', mode='int',
         params={'maxdepth': 'N'},
         subst={'self.maxdepth': 'maxdepth'},
         outputs=[('__lambda__', 'encode'), ('__range__', 'levels')],
         translator=translate_uniq,
         fallback={'encode': 'def encode (d : Nat) (x : Nat) : Nat := Aegean.Model.C12.encodeHand d x',
                   'levels': 'def levels (maxdepth : Nat) : List Nat := Aegean.Model.C12.levelsHand maxdepth'},
         fallback_imports=['Aegean.Model.C12Hand']),
]
