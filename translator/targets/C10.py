"""C10: MIMAS.mask_plane / mask_file / mask_table / mask_catalog, regenerated piece by piece.

  idxE0, idxE1           the two elements of the tuple in `idx = np.array([(e0, e1) for j in range(..)])`
  idxSetCol, idxSetVal   the column overwritten in the row loop and the value: `idx[:, c] = v`
  idxLo, idxHi           the bounds of the slice assignment `indexes[lo:hi] = idx`
  idxTotal, idxOuter, idxInner   rows of `np.empty((N, 2))`, the row-loop range, the comprehension range
                         (an `np.indices(data.shape)` + `np.column_stack((a.ravel(), b.ravel()))` spelling is
                         normalised to the same pieces)
  wcsOrigin, wcsShift    the origin argument of `wcs.wcs_pix2world / all_pix2world(indexes [+ k], origin)` and k
  skyOrder, skyDegin     `region.sky_within(ra, dec, degin=True)` takes the two unpacked world columns in order
  maskBit                the negate logic between sky_within and the assignment, over 0/1:  b = inside; [b = 1 - b]
  applyReshape, applyBlank   `bigmask.reshape(data.shape)` (C order) and `data[bigmask] = np.nan`
  planeCut, planeSame    mask_file: the loop runs over `np.ndindex(data.shape[:cut])`, every call gets data[loop
                         variable] and the same (wcs, region, negate)
  rowKeep                mask_table: the negate logic, over 0/1, result 1 = row kept
  tableArgs              mask_table: sky_within(table[racol], table[deccol], degin=True) and `return table[mask]`
  catalogArgs            mask_catalog hands negate, racol, deccol on to mask_table and writes what it returns

The slices are written as small Python functions inside the translator's int-mode whitelist into a scratch file,
from the AST of the tree under test ($AEGEAN_REPO, default /repo).  Whatever a slicer does not recognise is written
as a call the translator rejects: the piece is reported UNTRANSLATABLE, the hand piece of Aegean/Model/C10.lean stands
in, and only the correspondence ties that piece to the code.
"""
import ast
import copy
import hashlib
import os
import tempfile

_F = 'AegeanTools/MIMAS.py'
_NOT = ('np.bitwise_not', 'np.logical_not', 'np.invert', 'numpy.bitwise_not', 'numpy.logical_not', 'numpy.invert')


def _bad(name, params, outs, why):
    lines = [f"def {name}({', '.join(params)}):", f"    {outs[0]} = untranslatable({why!r})"]
    lines += [f"    {o} = {outs[0]}" for o in outs[1:]]
    lines.append(f"    return {outs[0]}")
    return "\n".join(lines) + "\n"


class _Sub(ast.NodeTransformer):
    def __init__(self, m):
        self.m = m

    def generic_visit(self, node):
        try:
            src = ast.unparse(node)
        except Exception:
            src = None
        if src in self.m and isinstance(node, ast.expr):
            return ast.parse(self.m[src], mode='eval').body
        return super().generic_visit(node)

    def visit(self, node):
        return self.generic_visit(node)


def _sub(node, m):
    """source of `node` with every sub-expression whose source is a key of m replaced"""
    return ast.unparse(ast.fix_missing_locations(_Sub(m).visit(copy.deepcopy(node))))


def _aliases(fn, arr='data'):
    """shape aliases of a function body: data.shape[0] -> nrow, data.shape[1] -> ncol, `name = <those>`, `a, b = data.shape`"""
    m = {f'{arr}.shape[0]': 'nrow', f'{arr}.shape[1]': 'ncol', f'{arr}.shape[-2]': 'nrow', f'{arr}.shape[-1]': 'ncol',
         f'len({arr})': 'nrow'}
    for s in fn.body:
        if isinstance(s, ast.Assign) and len(s.targets) == 1:
            t, v = s.targets[0], s.value
            if isinstance(t, ast.Name) and not any(isinstance(x, ast.Call) for x in ast.walk(v)):
                src = _sub(v, m)
                if all(isinstance(x, (ast.Name, ast.Constant, ast.BinOp, ast.operator, ast.expr_context, ast.UnaryOp, ast.unaryop))
                       for x in ast.walk(ast.parse(src, mode='eval').body)):
                    m[t.id] = '(' + src + ')'
            elif isinstance(t, ast.Tuple) and ast.unparse(v) == f'{arr}.shape' and len(t.elts) == 2 \
                    and all(isinstance(e, ast.Name) for e in t.elts):
                m[t.elts[0].id], m[t.elts[1].id] = 'nrow', 'ncol'
    return m


def _range_arg(call, m):
    if isinstance(call, ast.Call) and ast.unparse(call.func) == 'range' and len(call.args) == 1:
        return _sub(call.args[0], m)
    return None


def _index_slices(fn):
    P_T, P_S, P_L, P_C = ['j'], ['i'], ['i', 'nrow', 'ncol'], ['nrow', 'ncol']

    def fail(why):
        return "\n".join([_bad('idx_tuple', P_T, ['e0', 'e1'], why), _bad('idx_set', P_S, ['col', 'val'], why),
                          _bad('idx_slice', P_L, ['lo', 'hi'], why), _bad('idx_counts', P_C, ['total', 'outer', 'inner'], why)])
    m = _aliases(fn)
    # --- spelling 2: rows, cols = np.indices(data.shape); indexes = np.column_stack((cols.ravel(), rows.ravel()))
    for s in fn.body:
        if isinstance(s, ast.Assign) and isinstance(s.value, ast.Call) and ast.unparse(s.value.func) in ('np.indices', 'numpy.indices') \
                and len(s.value.args) == 1 and ast.unparse(s.value.args[0]) == 'data.shape' and not s.value.keywords \
                and isinstance(s.targets[0], ast.Tuple) and len(s.targets[0].elts) == 2 \
                and all(isinstance(e, ast.Name) for e in s.targets[0].elts):
            rname, cname = (e.id for e in s.targets[0].elts)
            for t in fn.body:
                if isinstance(t, ast.Assign) and isinstance(t.value, ast.Call) \
                        and ast.unparse(t.value.func) in ('np.column_stack', 'numpy.column_stack') and len(t.value.args) == 1 \
                        and isinstance(t.value.args[0], (ast.Tuple, ast.List)) and len(t.value.args[0].elts) == 2:
                    a, b = (ast.unparse(e) for e in t.value.args[0].elts)
                    forms = {f'{cname}.ravel()': 'c', f'{rname}.ravel()': 'r', f'{cname}.flatten()': 'c', f'{rname}.flatten()': 'r'}
                    if forms.get(a) == 'c' and forms.get(b) == 'r':
                        e0, e1, col = 'j', '0', 1
                    elif forms.get(a) == 'r' and forms.get(b) == 'c':
                        e0, e1, col = '0', 'j', 0
                    else:
                        return fail('column_stack arguments not recognised')
                    return "\n".join([
                        f"def idx_tuple(j):\n    e0 = {e0}\n    e1 = {e1}\n    return e0\n",
                        f"def idx_set(i):\n    col = {col}\n    val = i\n    return col\n",
                        "def idx_slice(i, nrow, ncol):\n    lo = i * ncol\n    hi = (i + 1) * ncol\n    return lo\n",
                        "def idx_counts(nrow, ncol):\n    total = nrow * ncol\n    outer = nrow\n    inner = ncol\n    return total\n"])
            return fail('np.indices without a recognised column_stack')
    # --- spelling 1: np.empty + comprehension + row loop with a slice assignment
    total = tup = inner = None
    arr = row = None
    for s in fn.body:
        if isinstance(s, ast.Assign) and len(s.targets) == 1 and isinstance(s.targets[0], ast.Name) and isinstance(s.value, ast.Call):
            f = ast.unparse(s.value.func)
            if f in ('np.empty', 'np.zeros', 'numpy.empty', 'numpy.zeros') and s.value.args \
                    and isinstance(s.value.args[0], ast.Tuple) and len(s.value.args[0].elts) == 2 \
                    and ast.unparse(s.value.args[0].elts[1]) == '2':
                arr, total = s.targets[0].id, _sub(s.value.args[0].elts[0], m)
            elif f in ('np.array', 'numpy.array') and s.value.args and isinstance(s.value.args[0], ast.ListComp):
                lc = s.value.args[0]
                if len(lc.generators) == 1 and not lc.generators[0].ifs and isinstance(lc.generators[0].target, ast.Name) \
                        and isinstance(lc.elt, ast.Tuple) and len(lc.elt.elts) == 2:
                    v = lc.generators[0].target.id
                    mm = {k: w for k, w in m.items() if k != v}
                    mm[v] = 'j'
                    inner = _range_arg(lc.generators[0].iter, {k: w for k, w in m.items() if k != v} if v in m else m)
                    tup = (_sub(lc.elt.elts[0], mm), _sub(lc.elt.elts[1], mm))
                    row = s.targets[0].id
    loops = [s for s in fn.body if isinstance(s, ast.For)]
    if arr is None or tup is None or inner is None or len(loops) != 1:
        return fail('index construction not recognised')
    lp = loops[0]
    outer = _range_arg(lp.iter, m)
    if outer is None or not isinstance(lp.target, ast.Name) or lp.orelse:
        return fail('row loop not recognised')
    iv = lp.target.id
    mi = {k: w for k, w in m.items() if k != iv}
    mi[iv] = 'i'
    col = val = lo = hi = None
    for s in lp.body:
        if not (isinstance(s, ast.Assign) and len(s.targets) == 1 and isinstance(s.targets[0], ast.Subscript)):
            return fail('statement in the row loop not recognised')
        t = s.targets[0]
        if ast.unparse(t.value) == row and isinstance(t.slice, ast.Tuple) and len(t.slice.elts) == 2 \
                and ast.unparse(t.slice.elts[0]) == ':' and isinstance(t.slice.elts[1], ast.Constant) and col is None and lo is None:
            col, val = t.slice.elts[1].value, _sub(s.value, mi)
        elif ast.unparse(t.value) == arr and isinstance(t.slice, ast.Slice) and t.slice.step is None \
                and t.slice.lower is not None and t.slice.upper is not None and ast.unparse(s.value) == row and lo is None:
            lo, hi = _sub(t.slice.lower, mi), _sub(t.slice.upper, mi)
        else:
            return fail('statement in the row loop not recognised')
    if col not in (0, 1) or lo is None:
        return fail('row loop does not set a column and assign a slice')
    return "\n".join([
        f"def idx_tuple(j):\n    e0 = {tup[0]}\n    e1 = {tup[1]}\n    return e0\n",
        f"def idx_set(i):\n    col = {col}\n    val = {val}\n    return col\n",
        f"def idx_slice(i, nrow, ncol):\n    lo = {lo}\n    hi = {hi}\n    return lo\n",
        f"def idx_counts(nrow, ncol):\n    total = {total}\n    outer = {outer}\n    inner = {inner}\n    return total\n"])


def _index_array_name(fn):
    for s in fn.body:
        if isinstance(s, ast.Assign) and len(s.targets) == 1 and isinstance(s.targets[0], ast.Name) and isinstance(s.value, ast.Call) \
                and ast.unparse(s.value.func) in ('np.empty', 'np.zeros', 'numpy.empty', 'numpy.zeros', 'np.column_stack',
                                                  'numpy.column_stack'):
            return s.targets[0].id
    return None


def _wcs_slice(fn):
    fail = lambda why: _bad('wcs_call', ['u'], ['origin', 'shift'], why) + "\n" + _bad('sky_call', ['u'], ['order', 'degin'], why)  # noqa: E731
    arr = _index_array_name(fn)
    calls = [c for c in ast.walk(fn) if isinstance(c, ast.Call) and isinstance(c.func, ast.Attribute)
             and c.func.attr in ('wcs_pix2world', 'all_pix2world')]
    if arr is None or len(calls) != 1:
        return fail('exactly one pix2world call on the index array expected')
    c = calls[0]
    if ast.unparse(c.func.value) != 'wcs' or len(c.args) != 2 or c.keywords or not isinstance(c.args[1], ast.Constant) \
            or not isinstance(c.args[1].value, int) or isinstance(c.args[1].value, bool):
        return fail('pix2world(indexes, <integer literal>) expected')
    a = c.args[0]
    if isinstance(a, ast.Name) and a.id == arr:
        shift = '0'
    elif isinstance(a, ast.BinOp) and isinstance(a.op, (ast.Add, ast.Sub)):
        l, r = a.left, a.right
        if isinstance(l, ast.Name) and l.id == arr and isinstance(r, ast.Constant) and isinstance(r.value, int):
            shift = f"{'-' if isinstance(a.op, ast.Sub) else ''}{r.value}" if r.value else '0'
            shift = f"0 - {r.value}" if isinstance(a.op, ast.Sub) else f"{r.value}"
        elif isinstance(r, ast.Name) and r.id == arr and isinstance(l, ast.Constant) and isinstance(l.value, int) \
                and isinstance(a.op, ast.Add):
            shift = f"{l.value}"
        else:
            return fail('first pix2world argument not recognised')
    else:
        return fail('first pix2world argument not recognised')
    # the statement that unpacks the world coordinates, and the sky_within call that consumes them
    unpack = None
    for s in fn.body:
        if isinstance(s, ast.Assign) and any(x is c for x in ast.walk(s.value)):
            v = s.value
            shape_ok = (isinstance(v, ast.Call) and isinstance(v.func, ast.Attribute) and v.func.attr == 'transpose' and v.func.value is c
                        and not v.args) or (isinstance(v, ast.Attribute) and v.attr == 'T' and v.value is c)
            if shape_ok and isinstance(s.targets[0], ast.Tuple) and len(s.targets[0].elts) == 2 \
                    and all(isinstance(e, ast.Name) for e in s.targets[0].elts):
                unpack = [e.id for e in s.targets[0].elts]
    sw = [x for x in ast.walk(fn) if isinstance(x, ast.Call) and isinstance(x.func, ast.Attribute) and x.func.attr == 'sky_within']
    if unpack is None or len(sw) != 1 or ast.unparse(sw[0].func.value) != 'region' or len(sw[0].args) != 2:
        sky = _bad('sky_call', ['u'], ['order', 'degin'], 'world columns / sky_within call not recognised')
    else:
        names = [ast.unparse(x) for x in sw[0].args]
        order = 1 if names == unpack else (2 if names == unpack[::-1] else None)
        kw = {k.arg: k.value for k in sw[0].keywords}
        if set(kw) == {'degin'} and isinstance(kw['degin'], ast.Constant) and kw['degin'].value in (True, False):
            degin = 1 if kw['degin'].value is True else 0
        elif not kw:
            degin = 0                       # the default of sky_within is radians
        else:
            order = None
        sky = _bad('sky_call', ['u'], ['order', 'degin'], 'sky_within arguments are not the unpacked world columns') if order is None else \
            f"def sky_call(u):\n    order = {order}\n    degin = {degin}\n    return order\n"
    # (0 * u keeps both results integers whatever the sign of the literals)
    return f"def wcs_call(u):\n    origin = 0 * u + {c.args[1].value}\n    shift = 0 * u + {shift}\n    return origin\n\n" + sky


def _negate_logic(fn, fname, out):
    """the statements between `X = region.sky_within(...)` and the use of the mask, over 0/1 values"""
    fail = lambda why: _bad(fname, ['negate', 'inside'], [out], why)  # noqa: E731
    src = None
    k0 = None
    for k, s in enumerate(fn.body):
        if isinstance(s, ast.Assign) and len(s.targets) == 1 and isinstance(s.targets[0], ast.Name) and isinstance(s.value, ast.Call) \
                and isinstance(s.value.func, ast.Attribute) and s.value.func.attr == 'sky_within':
            src, k0 = s.targets[0].id, k
    if src is None:
        return fail('no `name = region.sky_within(...)`')
    names = {src}
    lines = [f"def {fname}(negate, inside):", f"    {out} = inside"]

    def conv_test(t):
        u = ast.unparse(t)
        return {'not negate': 'negate == 0', 'negate': 'negate != 0', 'negate is False': 'negate == 0', 'negate is True': 'negate != 0',
                'negate == False': 'negate == 0', 'negate == True': 'negate != 0', 'negate is not True': 'negate == 0'}.get(u)

    def conv_assign(s, ind):
        if not (isinstance(s, ast.Assign) and len(s.targets) == 1 and isinstance(s.targets[0], ast.Name)):
            return False
        v = s.value
        if isinstance(v, ast.Name) and v.id in names:
            rhs = out
        elif isinstance(v, ast.UnaryOp) and isinstance(v.op, ast.Invert) and isinstance(v.operand, ast.Name) and v.operand.id in names:
            rhs = f"1 - {out}"
        elif isinstance(v, ast.Call) and ast.unparse(v.func) in _NOT and len(v.args) == 1 and not v.keywords \
                and isinstance(v.args[0], ast.Name) and v.args[0].id in names:
            rhs = f"1 - {out}"
        else:
            return False
        lines.append(f"{ind}{out} = {rhs}")
        return s.targets[0].id

    final = src
    seen_if = False
    for s in fn.body[k0 + 1:]:
        if isinstance(s, ast.Assign) and len(s.targets) == 1 and isinstance(s.targets[0], ast.Name) \
                and isinstance(s.value, ast.Name) and s.value.id == final and not seen_if:
            names.add(s.targets[0].id)          # a plain alias of the membership array: `mask = inside`
            final = s.targets[0].id
        elif isinstance(s, ast.If) and 'negate' in ast.unparse(s.test):
            if seen_if:
                return fail('more than one test of negate')
            seen_if = True
            t = conv_test(s.test)
            if t is None:
                return fail('test of negate not recognised')
            lines.append(f"    if {t}:")
            tb = [conv_assign(x, "        ") for x in s.body]
            if not tb or not all(tb):
                return fail('branch of the negate test not recognised')
            te = []
            if s.orelse:
                lines.append("    else:")
                te = [conv_assign(x, "        ") for x in s.orelse]
                if not all(te):
                    return fail('branch of the negate test not recognised')
            tgt = set(tb) | set(te)
            if len(tgt) != 1:
                return fail('branches assign different names')
            prev, final = final, tgt.pop()
            if not s.orelse and final != prev:
                return fail('mask undefined when the test is false')
            names.add(final)
        elif any(isinstance(x, ast.Name) and x.id in names and isinstance(x.ctx, ast.Store) for x in ast.walk(s)):
            # a later re-binding of the mask: only `m = m.reshape(data.shape)` is understood (by _apply_slice)
            if not (isinstance(s, ast.Assign) and isinstance(s.value, ast.Call) and isinstance(s.value.func, ast.Attribute)
                    and s.value.func.attr == 'reshape'):
                return fail('mask re-bound in a way that is not recognised')
    if not seen_if:
        return fail('no test of negate')
    lines.append(f"    return {out}")
    return "\n".join(lines) + "\n", final


def _apply_slice(fn, maskname):
    fail = lambda why: _bad('apply_mask', ['u'], ['reshape', 'blank'], why)  # noqa: E731
    resh = None
    for s in fn.body:
        if isinstance(s, ast.Assign) and isinstance(s.value, ast.Call) and isinstance(s.value.func, ast.Attribute) \
                and s.value.func.attr == 'reshape' and ast.unparse(s.value.func.value) == maskname:
            ok = len(s.value.args) == 1 and ast.unparse(s.value.args[0]) == 'data.shape' and not s.value.keywords \
                and ast.unparse(s.targets[0]) == maskname
            if not ok:
                return fail('reshape arguments not recognised')
            resh = 1
    blank = None
    for s in fn.body:
        if isinstance(s, ast.Assign) and isinstance(s.targets[0], ast.Subscript) and ast.unparse(s.targets[0].value) == 'data':
            if ast.unparse(s.targets[0].slice) != maskname:
                return fail('data[...] indexed by something other than the mask')
            if ast.unparse(s.value) in ('np.nan', 'numpy.nan', "float('nan')", 'np.NaN'):
                blank = 1
            elif isinstance(s.value, ast.Constant) and isinstance(s.value.value, (int, float)) and s.value.value == s.value.value:
                blank = 0                   # a number: definitely not the blank value
            else:
                return fail('blank value not recognised')
    rets = [s for s in ast.walk(fn) if isinstance(s, ast.Return)]
    if resh is None or blank is None or len(rets) != 1 or ast.unparse(rets[0].value) != 'data':
        return fail('reshape / assignment / return data not recognised')
    return f"def apply_mask(u):\n    reshape = {resh}\n    blank = {blank}\n    return reshape\n"


def _plane_slice(fn):
    fail = lambda why: _bad('plane_loop', ['u'], ['cut', 'same'], why)  # noqa: E731
    loops = [s for s in ast.walk(fn) if isinstance(s, ast.For)]
    calls = [c for c in ast.walk(fn) if isinstance(c, ast.Call) and ast.unparse(c.func) == 'mask_plane']
    if len(loops) != 1 or len(calls) != 1:
        return fail('one loop with one mask_plane call expected')
    lp, c = loops[0], calls[0]
    it = lp.iter
    if not (isinstance(it, ast.Call) and ast.unparse(it.func) in ('np.ndindex', 'numpy.ndindex') and len(it.args) == 1
            and isinstance(it.args[0], ast.Subscript) and ast.unparse(it.args[0].value) == 'data.shape'
            and isinstance(it.args[0].slice, ast.Slice) and it.args[0].slice.lower is None and it.args[0].slice.step is None
            and it.args[0].slice.upper is not None and isinstance(lp.target, ast.Name)):
        return fail('loop over np.ndindex(data.shape[:k]) expected')
    try:
        cut = ast.literal_eval(it.args[0].slice.upper)
    except Exception:
        return fail('slice bound is not a literal')
    if not (len(lp.body) == 1 and isinstance(lp.body[0], ast.Expr) and lp.body[0].value is c) or lp.orelse:
        return fail('loop body is not the single mask_plane call')
    args = [ast.unparse(a) for a in c.args] + [f"{k.arg}={ast.unparse(k.value)}" for k in c.keywords]
    if args in ([f'data[{lp.target.id}]', 'wcs', 'region', 'negate'], [f'data[{lp.target.id}]', 'wcs', 'region', 'negate=negate']):
        same = 1
    elif args[:3] == [f'data[{lp.target.id}]', 'wcs', 'region'] and (len(args) == 3 or args[3] in ('True', 'False', 'negate=True', 'negate=False')):
        same = 0                            # negate not handed on
    else:
        return fail('mask_plane arguments not recognised')
    # `data` must be the whole HDU array, not a squeezed / copied version
    binds = [s for s in fn.body if isinstance(s, ast.Assign) and ast.unparse(s.targets[0]) == 'data']
    if len(binds) != 1 or ast.unparse(binds[0].value) != 'im[0].data':
        return fail('data is not bound once to im[0].data')
    return f"def plane_loop(u):\n    cut = 0 * u + ({cut})\n    same = {same}\n    return cut\n"


def _table_slice(fn):
    fail = lambda why: _bad('table_call', ['u'], ['args'], why)  # noqa: E731
    sw = [x for x in ast.walk(fn) if isinstance(x, ast.Call) and isinstance(x.func, ast.Attribute) and x.func.attr == 'sky_within']
    rets = [s for s in ast.walk(fn) if isinstance(s, ast.Return) and s.value is not None]
    if len(sw) != 1 or len(rets) != 1:
        return fail('one sky_within call and one return expected'), None
    alias = {}
    for n in ast.walk(fn):
        if isinstance(n, ast.Assign) and len(n.targets) == 1:
            t, v = n.targets[0], n.value
            if isinstance(t, ast.Name) and isinstance(v, ast.Subscript) and ast.unparse(v.value) == 'table':
                alias[t.id] = ast.unparse(v)
            elif isinstance(t, ast.Tuple) and isinstance(v, ast.Tuple) and len(t.elts) == len(v.elts):
                for a1, b1 in zip(t.elts, v.elts):
                    if isinstance(a1, ast.Name) and isinstance(b1, ast.Subscript) and ast.unparse(b1.value) == 'table':
                        alias[a1.id] = ast.unparse(b1)
    a = [alias.get(ast.unparse(x), ast.unparse(x)) for x in sw[0].args] + [f"{k.arg}={ast.unparse(k.value)}" for k in sw[0].keywords]
    if ast.unparse(sw[0].func.value) != 'region':
        return fail('sky_within is not called on the region'), None
    if a == ['table[racol]', 'table[deccol]', 'degin=True']:
        ok = True
    elif a in (['table[deccol]', 'table[racol]', 'degin=True'], ['table[racol]', 'table[deccol]'],
               ['table[racol]', 'table[deccol]', 'degin=False']):
        ok = False                          # definitely something else: swapped columns / radians
    else:
        return fail('sky_within arguments not recognised'), None
    r = rets[0].value
    rname = ast.unparse(r.slice) if (isinstance(r, ast.Subscript) and ast.unparse(r.value) == 'table') else None
    if rname is None:
        return fail('return table[mask] expected'), None
    return f"def table_call(u):\n    args = {1 if ok else 0}\n    return args\n", rname


def _catalog_slice(fn):
    fail = lambda why: _bad('catalog_call', ['u'], ['args'], why)  # noqa: E731
    calls = [c for c in ast.walk(fn) if isinstance(c, ast.Call) and ast.unparse(c.func) == 'mask_table']
    wr = [c for c in ast.walk(fn) if isinstance(c, ast.Call) and ast.unparse(c.func) == 'write_table']
    if len(calls) != 1 or len(wr) != 1:
        return fail('one mask_table and one write_table call expected')
    c = calls[0]
    pos = ['region', 'table', 'negate', 'racol', 'deccol']
    got = {}
    for k, a in enumerate(c.args):
        if k >= len(pos):
            return fail('too many arguments')
        got[pos[k]] = ast.unparse(a)
    for k in c.keywords:
        got[k.arg] = ast.unparse(k.value)
    tgt = [s for s in fn.body if isinstance(s, ast.Assign) and s.value is c and isinstance(s.targets[0], ast.Name)]
    if len(tgt) != 1 or [ast.unparse(x) for x in wr[0].args] != [tgt[0].targets[0].id, 'outfile']:
        return fail('the table written is not what mask_table returned')
    if got == {p: p for p in pos}:
        ok = True
    elif all(got.get(p) == p for p in ('region', 'table')) and all(got.get(p, p) == p for p in pos) and len(got) < len(pos):
        ok = False                          # negate / racol / deccol left at mask_table's defaults
    else:
        return fail('mask_table arguments not recognised')
    return f"def catalog_call(u):\n    args = {1 if ok else 0}\n    return args\n"


def _slices():
    repo = os.environ.get('AEGEAN_REPO', '/repo')
    try:
        tree = ast.parse(open(os.path.join(repo, _F)).read())
        fns = {n.name: n for n in ast.walk(tree) if isinstance(n, ast.FunctionDef)}
        mp, mf, mt, mc = fns['mask_plane'], fns['mask_file'], fns['mask_table'], fns['mask_catalog']
        parts = [_index_slices(mp), _wcs_slice(mp)]
        nl = _negate_logic(mp, 'mask_bit', 'b')
        if isinstance(nl, tuple):
            parts += [nl[0], _apply_slice(mp, nl[1])]
        else:
            parts += [nl, _bad('apply_mask', ['u'], ['reshape', 'blank'], 'negate logic not recognised')]
        parts.append(_plane_slice(mf))
        tc, rname = _table_slice(mt)
        rk = _negate_logic(mt, 'row_keep', 'k')
        if isinstance(rk, tuple) and rname is not None and rk[1] != rname:
            rk = _bad('row_keep', ['negate', 'inside'], ['k'], 'the returned selection is not the mask that was computed')
        parts += [rk[0] if isinstance(rk, tuple) else rk, tc, _catalog_slice(mc)]
        text = "\n\n".join(parts)
    except Exception as exc:
        text = f"# slicing failed: {exc!r}\n"
    d = os.path.join(tempfile.gettempdir(), 'verif-C10-slices')
    os.makedirs(d, exist_ok=True)
    path = os.path.join(d, 'mimas_' + hashlib.sha1(text.encode()).hexdigest()[:12] + '.py')
    if not os.path.exists(path):
        with open(path + '.tmp%d' % os.getpid(), 'w') as f:
            f.write(text)
        os.replace(path + '.tmp%d' % os.getpid(), path)
    return path


_S = _slices()
_M = 'Aegean.Model.C10.'


def _tg(func, params, ptyp, outs):
    """outs: [(python variable, lean name, hand name, result type)]"""
    T = 'N' if ptyp == 'Nat' else 'Z'
    return dict(file=_S, func=func, mode='int', params={p: T for p in params},
                outputs=[(v, ln) for v, ln, _, _ in outs],
                fallback={ln: f"def {ln} ({' '.join(params)} : {ptyp}) : {rt} := {_M}{h} {' '.join(params)}" for _, ln, h, rt in outs},
                all_params=params)


TARGETS = [
    _tg('idx_tuple', ['j'], 'Nat', [('e0', 'idxE0', 'idxE0Hand', 'Nat'), ('e1', 'idxE1', 'idxE1Hand', 'Nat')]),
    _tg('idx_set', ['i'], 'Nat', [('col', 'idxSetCol', 'idxSetColHand', 'Nat'), ('val', 'idxSetVal', 'idxSetValHand', 'Nat')]),
    _tg('idx_slice', ['i', 'nrow', 'ncol'], 'Nat', [('lo', 'idxLo', 'idxLoHand', 'Nat'), ('hi', 'idxHi', 'idxHiHand', 'Nat')]),
    _tg('idx_counts', ['nrow', 'ncol'], 'Nat', [('total', 'idxTotal', 'idxTotalHand', 'Nat'), ('outer', 'idxOuter', 'idxOuterHand', 'Nat'),
                                                ('inner', 'idxInner', 'idxInnerHand', 'Nat')]),
    _tg('wcs_call', ['u'], 'Int', [('origin', 'wcsOrigin', 'wcsOriginHand', 'Int'), ('shift', 'wcsShift', 'wcsShiftHand', 'Int')]),
    _tg('sky_call', ['u'], 'Nat', [('order', 'skyOrder', 'skyOrderHand', 'Nat'), ('degin', 'skyDegin', 'skyDeginHand', 'Nat')]),
    _tg('mask_bit', ['negate', 'inside'], 'Int', [('b', 'maskBit', 'maskBitHand', 'Int')]),
    _tg('apply_mask', ['u'], 'Nat', [('reshape', 'applyReshape', 'applyReshapeHand', 'Nat'), ('blank', 'applyBlank', 'applyBlankHand', 'Nat')]),
    _tg('plane_loop', ['u'], 'Int', [('cut', 'planeCut', 'planeCutHand', 'Int'), ('same', 'planeSame', 'planeSameHand', 'Nat')]),
    _tg('row_keep', ['negate', 'inside'], 'Int', [('k', 'rowKeep', 'rowKeepHand', 'Int')]),
    _tg('table_call', ['u'], 'Nat', [('args', 'tableArgs', 'tableArgsHand', 'Nat')]),
    _tg('catalog_call', ['u'], 'Nat', [('args', 'catalogArgs', 'catalogArgsHand', 'Nat')]),
]
