"""C18: the decision tables of catalogs.py / models.py, regenerated from the tree under test.

  fitsLetter / fitsWidth   writeFITSTable: the per-column format decision (the if-chain inside the loop over
                           table.colnames, with FITSTableType inlined), as a function of
                             is_err  name.startswith('err_')            (0/1)
                             is_uuid name == 'uuid'                     (0/1)   [only the pinned code asks]
                             kind    table[name].dtype.kind             b=0 i=1 f=2 U=3 S=4 O=5 u=6
                             maxlen  max(len(v) for v in table[name])
                             t       python type of table[name][0]      bool=0 int=1 float=2 str=3 other=4
                             vlen    len(table[name][0])
                           letter = ASCII code of the TFORM letter, width = its repeat count (0 = none)
  sqlCode                  writeDB.sqlTypes: declared column type from the python type tag t
                           BOOL=0 INT=1 FLOAT=2 VARCHAR=3
  classifyWhich            models.classify_catalog: which of the returned lists (1, 2, 3 = position in the
                           return tuple, 0 = none) an object of class code c goes to
                           other=0 SimpleSource=1 IslandSource=2 ComponentSource=3, instances of USER SUBCLASSES of
                           these three = 4, 5, 6: `isinstance` admits them, exact-class tests (`type(x) is C`,
                           `x.__class__ == C`, a dict keyed on the class) do not

The slices are written as small Python functions (int-mode whitelist of py2lean) into a scratch file; whatever the
slicer cannot read is written as a call the translator rejects, so that piece is reported UNTRANSLATABLE and the
hand model (`…Hand` in Aegean/Model/C18.lean) stands in — never a guess.
"""
import ast
import hashlib
import os
import re
import tempfile

_FC = 'AegeanTools/catalogs.py'
_FM = 'AegeanTools/models.py'

PYTYPES = {'bool': [0], 'int': [0, 1], 'float': [2], 'str': [3],
           'np.int64': [1], 'np.int32': [1], 'np.int16': [1], 'np.integer': [1], 'numpy.int64': [1], 'numpy.int32': [1],
           'np.float64': [2], 'np.float32': [2], 'np.floating': [2], 'numpy.float64': [2], 'numpy.float32': [2],
           'np.str_': [3], 'np.bool_': [0]}
# class codes: other 0, SimpleSource 1, IslandSource 2, ComponentSource 3, and instances of USER SUBCLASSES of
# these three: 4, 5, 6.  `isinstance` admits the subclasses, an exact-class test (`type(x) is C`, `x.__class__ == C`,
# a dict keyed on the class) does not.
CLASSES = {'ComponentSource': [3, 6], 'IslandSource': [2, 5], 'SimpleSource': [1, 2, 3, 4, 5, 6]}
CLASSES.update({'models.' + k: v for k, v in list(CLASSES.items())})
EXACT = {'ComponentSource': [3], 'IslandSource': [2], 'SimpleSource': [1]}
EXACT.update({'models.' + k: v for k, v in list(EXACT.items())})
NCLS = 7
KINDS = {'b': 0, 'i': 1, 'f': 2, 'U': 3, 'S': 4, 'O': 5, 'u': 6}
SQL = {'BOOL': 0, 'INT': 1, 'FLOAT': 2, 'VARCHAR': 3}


class Unreadable(Exception):
    pass


def _fn(tree, name):
    for n in ast.walk(tree):
        if isinstance(n, ast.FunctionDef) and n.name == name:
            return n
    raise Unreadable(f'function {name} not found')


def _is_log(s):
    return isinstance(s, ast.Expr) and isinstance(s.value, ast.Call) and \
        ast.unparse(s.value.func).split('.')[0] in ('log', 'logging', 'logger')


def _is_doc(s):
    return isinstance(s, ast.Expr) and isinstance(s.value, ast.Constant) and isinstance(s.value.value, str)


def _isinstance_test(test, var_srcs, table, varname):
    """`isinstance(<one of var_srcs>, T | (T, ...))` -> python source over `varname`; None if not of that form"""
    neg = False
    if isinstance(test, ast.UnaryOp) and isinstance(test.op, ast.Not):
        neg, test = True, test.operand
    tags = set()
    if isinstance(test, ast.Compare) and len(test.ops) == 1 and table is CLASSES and \
            ast.unparse(test.left) in {f'type({v})' for v in var_srcs} | {f'{v}.__class__' for v in var_srcs}:
        # exact-class test: `type(x) is C`, `x.__class__ == C`, `type(x) in (C, D)`  (subclass instances do NOT match)
        op, right = test.ops[0], test.comparators[0]
        if isinstance(op, (ast.Is, ast.Eq)):
            ts = [right]
        elif isinstance(op, ast.In) and isinstance(right, (ast.Tuple, ast.List, ast.Set)):
            ts = list(right.elts)
        elif isinstance(op, (ast.IsNot, ast.NotEq)):
            ts, neg = [right], not neg
        else:
            return None
        for t in ts:
            key = ast.unparse(t)
            if key not in EXACT:
                raise Unreadable(f'class {key} is not in the tag table')
            tags.update(EXACT[key])
    else:
        if not (isinstance(test, ast.Call) and ast.unparse(test.func) == 'isinstance' and len(test.args) == 2
                and not test.keywords and ast.unparse(test.args[0]) in var_srcs):
            return None
        ts = test.args[1].elts if isinstance(test.args[1], ast.Tuple) else [test.args[1]]
        for t in ts:
            key = ast.unparse(t)
            if key not in table:
                raise Unreadable(f'type {key} is not in the tag table')
            tags.update(table[key])
    if neg:                                   # the tag universes are finite: say the complement positively
        universe = set(range(5)) if table is PYTYPES else set(range(NCLS))
        tags = universe - tags
        if not tags:
            raise Unreadable('test that is never true')
    return '(' + ' or '.join(f'{varname} == {k}' for k in sorted(tags)) + ')'


# ------------------------------------------------------------------------------------------------------------------
# FITS column format

def _width(node, env, first_srcs, col_srcs):
    """python source over maxlen / vlen / literals for an expression that gives a column width"""
    if isinstance(node, ast.Constant) and isinstance(node.value, int) and not isinstance(node.value, bool):
        return str(node.value)
    if isinstance(node, ast.Name) and node.id in env:
        return _width(env[node.id], env, first_srcs, col_srcs)
    if isinstance(node, ast.Call) and not node.keywords:
        f = ast.unparse(node.func)
        if f == 'len' and len(node.args) == 1 and ast.unparse(node.args[0]) in first_srcs:
            return 'vlen'
        if f == 'int' and len(node.args) == 1:
            return _width(node.args[0], env, first_srcs, col_srcs)
        if f in ('max', 'min') and len(node.args) == 1:
            a = node.args[0]
            extra = []
            if isinstance(a, ast.BinOp) and isinstance(a.op, ast.Add) and isinstance(a.right, ast.List) \
                    and all(isinstance(e, ast.Constant) and isinstance(e.value, int) for e in a.right.elts):
                extra, a = [str(e.value) for e in a.right.elts], a.left
            if f == 'max' and isinstance(a, (ast.GeneratorExp, ast.ListComp)) and len(a.generators) == 1 \
                    and not a.generators[0].ifs and isinstance(a.generators[0].target, ast.Name) \
                    and ast.unparse(a.generators[0].iter) in col_srcs \
                    and ast.unparse(a.elt) == f'len({a.generators[0].target.id})':
                return 'maxlen' if not extra else f"max(maxlen, {', '.join(extra)})"
            return None
        if f in ('max', 'min') and len(node.args) >= 2:
            parts = [_width(a, env, first_srcs, col_srcs) for a in node.args]
            return None if None in parts else f"{f}({', '.join(parts)})"
        return None
    if isinstance(node, ast.BinOp) and isinstance(node.op, (ast.Add, ast.Sub, ast.Mult)):
        l, r = _width(node.left, env, first_srcs, col_srcs), _width(node.right, env, first_srcs, col_srcs)
        op = {ast.Add: '+', ast.Sub: '-', ast.Mult: '*'}[type(node.op)]
        return None if None in (l, r) else f'({l} {op} {r})'
    return None


def _fmt_value(node, env, first_srcs, col_srcs):
    """(letter code, width source) of an expression that evaluates to a TFORM string; None if unreadable"""
    w = lambda n: _width(n, env, first_srcs, col_srcs)  # noqa: E731
    if isinstance(node, ast.Name) and node.id in env:
        return _fmt_value(env[node.id], env, first_srcs, col_srcs)
    if isinstance(node, ast.Constant) and isinstance(node.value, str):
        m = re.fullmatch(r'(\d*)([A-Z])', node.value)
        return (ord(m.group(2)), m.group(1) or '0') if m else None
    if isinstance(node, ast.Call) and isinstance(node.func, ast.Attribute) and node.func.attr == 'format' \
            and isinstance(node.func.value, ast.Constant) and isinstance(node.func.value.value, str) \
            and len(node.args) == 1 and not node.keywords:
        m = re.fullmatch(r'\{0?(?::d)?\}([A-Z])', node.func.value.value)
        ww = w(node.args[0])
        return (ord(m.group(1)), ww) if m and ww else None
    if isinstance(node, ast.BinOp) and isinstance(node.op, ast.Mod) and isinstance(node.left, ast.Constant) \
            and isinstance(node.left.value, str):
        m = re.fullmatch(r'%[di]([A-Z])', node.left.value)
        arg = node.right.elts[0] if isinstance(node.right, ast.Tuple) and len(node.right.elts) == 1 else node.right
        ww = w(arg)
        return (ord(m.group(1)), ww) if m and ww else None
    if isinstance(node, ast.BinOp) and isinstance(node.op, ast.Add) and isinstance(node.right, ast.Constant) \
            and isinstance(node.right.value, str) and re.fullmatch(r'[A-Z]', node.right.value) \
            and isinstance(node.left, ast.Call) and ast.unparse(node.left.func) == 'str' and len(node.left.args) == 1:
        ww = w(node.left.args[0])
        return (ord(node.right.value), ww) if ww else None
    if isinstance(node, ast.JoinedStr) and len(node.values) == 2 and isinstance(node.values[0], ast.FormattedValue) \
            and isinstance(node.values[1], ast.Constant) and re.fullmatch(r'[A-Z]', str(node.values[1].value)):
        ww = w(node.values[0].value)
        return (ord(node.values[1].value), ww) if ww else None
    return None


def _leaf_assign(stmts, var, env):
    """the value last assigned to `var` in a straight-line block (aliases collected into env, log calls skipped)"""
    env = dict(env)
    val = None
    for s in stmts:
        if _is_log(s) or _is_doc(s) or isinstance(s, ast.Pass):
            continue
        if isinstance(s, ast.Assign) and len(s.targets) == 1 and isinstance(s.targets[0], ast.Name):
            if s.targets[0].id == var:
                val = s.value
            else:
                env[s.targets[0].id] = s.value
            continue
        raise Unreadable(f'statement {ast.unparse(s)[:40]!r} in a branch')
    if val is None:
        raise Unreadable(f'branch does not assign {var}')
    return val, env


def _type_chain(fn, ind):
    """FITSTableType: isinstance chain over its parameter, each leaf assigns the returned name"""
    if len(fn.args.args) != 1:
        raise Unreadable('FITSTableType arity')
    val = fn.args.args[0].arg
    body = [s for s in fn.body if not _is_doc(s)]
    if not (len(body) == 2 and isinstance(body[0], ast.If) and isinstance(body[1], ast.Return)
            and isinstance(body[1].value, ast.Name)):
        raise Unreadable('FITSTableType is not: if-chain; return name')
    var = body[1].value.id
    lines = []

    def leaf(stmts, ind2):
        v, env = _leaf_assign(stmts, var, {})
        fv = _fmt_value(v, env, {val}, set())
        if fv is None:
            raise Unreadable(f'format value {ast.unparse(v)[:40]!r}')
        lines.append(f'{ind2}letter = {fv[0]}')
        lines.append(f'{ind2}width = {fv[1]}')

    s, first = body[0], True
    while True:
        test = _isinstance_test(s.test, {val}, PYTYPES, 't')
        if test is None:
            raise Unreadable(f'test {ast.unparse(s.test)[:40]!r}')
        lines.append(f"{ind}{'if' if first else 'elif'} {test}:")
        leaf(s.body, ind + '    ')
        first = False
        if len(s.orelse) == 1 and isinstance(s.orelse[0], ast.If):
            s = s.orelse[0]
            continue
        if s.orelse:
            lines.append(f'{ind}else:')
            leaf(s.orelse, ind + '    ')
        break
    return lines


def _fits_slice(tree):
    head = "def fits_col(is_err, is_uuid, kind, maxlen, t, vlen):\n    letter = 0\n    width = 0\n"
    try:
        w = _fn(tree, 'writeFITSTable')
        helpers = {n.name: n for n in w.body if isinstance(n, ast.FunctionDef)}
        loops = [n for n in w.body if isinstance(n, ast.For) and isinstance(n.target, ast.Name)
                 and ast.unparse(n.iter) in ('table.colnames', 'table.columns', 'table.keys()')]
        if len(loops) != 1:
            raise Unreadable('no single loop over the column names')
        loop = loops[0]
        nm = loop.target.id
        col_srcs = {f'table[{nm}]'}
        first_srcs = {f'table[{nm}][0]'}
        # the variable handed to fits.Column(format=…)
        fmtvars = [k.value.id for c in ast.walk(loop) if isinstance(c, ast.Call) for k in c.keywords
                   if k.arg == 'format' and isinstance(k.value, ast.Name)]
        if len(set(fmtvars)) != 1:
            raise Unreadable('format= variable')
        var = fmtvars[0]
        env = {}
        chain = None
        for s in loop.body:
            if isinstance(s, ast.Assign) and len(s.targets) == 1 and isinstance(s.targets[0], ast.Name) \
                    and s.targets[0].id != var and chain is None:
                env[s.targets[0].id] = s.value
                if ast.unparse(s.value) in col_srcs:
                    col_srcs.add(s.targets[0].id)
                    first_srcs.add(f'{s.targets[0].id}[0]')
                if ast.unparse(s.value) in first_srcs:
                    first_srcs.add(s.targets[0].id)
            elif isinstance(s, ast.If) and chain is None:
                chain = s
            elif chain is not None and any(isinstance(t, ast.Name) and t.id == var
                                           for a in ast.walk(s) if isinstance(a, (ast.Assign, ast.AugAssign))
                                           for t in (a.targets if isinstance(a, ast.Assign) else [a.target])):
                raise Unreadable('format variable re-assigned after the chain')
        if chain is None:
            raise Unreadable('no if-chain in the column loop')
        lines = []

        def test_src(test):
            src = ast.unparse(test)
            m = re.fullmatch(rf"{nm}\.startswith\((['\"])err_\1\)", src)
            if m:
                return 'is_err == 1'
            if re.fullmatch(rf"{nm} == (['\"])uuid\1", src):
                return 'is_uuid == 1'
            if isinstance(test, ast.Compare) and len(test.ops) == 1 and \
                    ast.unparse(test.left) in {c + '.dtype.kind' for c in col_srcs}:
                right = test.comparators[0]
                if isinstance(test.ops[0], ast.In):
                    if isinstance(right, ast.Constant) and isinstance(right.value, str):
                        ks = list(right.value)
                    elif isinstance(right, (ast.Tuple, ast.List, ast.Set)) and \
                            all(isinstance(e, ast.Constant) and isinstance(e.value, str) for e in right.elts):
                        ks = [e.value for e in right.elts]
                    else:
                        return None
                elif isinstance(test.ops[0], ast.Eq) and isinstance(right, ast.Constant):
                    ks = [right.value]
                else:
                    return None
                if not ks or any(k not in KINDS for k in ks):
                    return None
                return '(' + ' or '.join(f'kind == {KINDS[k]}' for k in ks) + ')'
            return _isinstance_test(test, first_srcs, PYTYPES, 't')

        def leaf(stmts, ind):
            v, env2 = _leaf_assign(stmts, var, env)
            if isinstance(v, ast.Call) and isinstance(v.func, ast.Name) and v.func.id in helpers \
                    and len(v.args) == 1 and ast.unparse(v.args[0]) in first_srcs and not v.keywords:
                lines.extend(_type_chain(helpers[v.func.id], ind))
                return
            fv = _fmt_value(v, env2, first_srcs, col_srcs)
            if fv is None:
                raise Unreadable(f'format value {ast.unparse(v)[:50]!r}')
            lines.append(f'{ind}letter = {fv[0]}')
            lines.append(f'{ind}width = {fv[1]}')

        s, first = chain, True
        while True:
            t = test_src(s.test)
            if t is None:
                raise Unreadable(f'column test {ast.unparse(s.test)[:50]!r}')
            lines.append(f"    {'if' if first else 'elif'} {t}:")
            leaf(s.body, '        ')
            first = False
            if len(s.orelse) == 1 and isinstance(s.orelse[0], ast.If):
                s = s.orelse[0]
                continue
            if not s.orelse:
                raise Unreadable('chain without else')
            lines.append('    else:')
            leaf(s.orelse, '        ')
            break
        return head + "\n".join(lines) + "\n    return letter\n"
    except Unreadable as e:
        msg = str(e).replace("'", '"')
        return head + f"    letter = untranslatable('{msg}')\n    width = letter\n    return letter\n"


# ------------------------------------------------------------------------------------------------------------------
# sqlTypes

def _sql_slice(tree):
    head = "def sql_type(t):\n    code = 9\n"
    try:
        w = _fn(tree, 'writeDB')
        f = [n for n in w.body if isinstance(n, ast.FunctionDef) and n.name == 'sqlTypes']
        if len(f) != 1:
            raise Unreadable('sqlTypes not found')
        loops = [n for n in f[0].body if isinstance(n, ast.For)]
        if len(loops) != 1:
            raise Unreadable('sqlTypes loop')
        val, chain, lst = None, None, None
        for s in loops[0].body:
            if isinstance(s, ast.Assign) and len(s.targets) == 1 and isinstance(s.targets[0], ast.Name) \
                    and isinstance(s.value, ast.Call) and ast.unparse(s.value.func) == 'getattr' and val is None:
                val = s.targets[0].id
            elif isinstance(s, ast.If) and chain is None:
                chain = s
            else:
                raise Unreadable(f'statement {ast.unparse(s)[:40]!r} in sqlTypes loop')
        if val is None or chain is None:
            raise Unreadable('sqlTypes shape')
        lines = []

        def leaf(stmts, ind):
            nonlocal lst
            got = None
            for st in stmts:
                if _is_log(st):
                    continue
                if isinstance(st, ast.Expr) and isinstance(st.value, ast.Call) and isinstance(st.value.func, ast.Attribute) \
                        and st.value.func.attr == 'append' and len(st.value.args) == 1 \
                        and isinstance(st.value.args[0], ast.Constant) and st.value.args[0].value in SQL and got is None:
                    tgt = ast.unparse(st.value.func.value)
                    if lst not in (None, tgt):
                        raise Unreadable('appends to different lists')
                    lst = tgt
                    got = SQL[st.value.args[0].value]
                    continue
                raise Unreadable(f'statement {ast.unparse(st)[:40]!r} in sqlTypes branch')
            if got is None:
                raise Unreadable('branch appends nothing')
            lines.append(f'{ind}code = {got}')

        s, first = chain, True
        while True:
            t = _isinstance_test(s.test, {val}, PYTYPES, 't')
            if t is None:
                raise Unreadable(f'test {ast.unparse(s.test)[:40]!r}')
            lines.append(f"    {'if' if first else 'elif'} {t}:")
            leaf(s.body, '        ')
            first = False
            if len(s.orelse) == 1 and isinstance(s.orelse[0], ast.If):
                s = s.orelse[0]
                continue
            if not s.orelse:
                raise Unreadable('chain without else')
            lines.append('    else:')
            leaf(s.orelse, '        ')
            break
        return head + "\n".join(lines) + "\n    return code\n"
    except Unreadable as e:
        msg = str(e).replace("'", '"')
        return head + f"    code = untranslatable('{msg}')\n    return code\n"


# ------------------------------------------------------------------------------------------------------------------
# classify_catalog

def _classify_slice(tree):
    head = "def classify_which(c):\n    which = 0\n"
    try:
        f = _fn(tree, 'classify_catalog')
        body = [s for s in f.body if not _is_doc(s)]
        rets = [s for s in body if isinstance(s, ast.Return)]
        if len(rets) != 1 or not isinstance(rets[0].value, ast.Tuple) or len(rets[0].value.elts) != 3 \
                or not all(isinstance(e, ast.Name) for e in rets[0].value.elts):
            raise Unreadable('return is not a 3-tuple of names')
        pos = {e.id: k + 1 for k, e in enumerate(rets[0].value.elts)}
        loops = [s for s in body if isinstance(s, ast.For)]
        if len(loops) != 1 or not isinstance(loops[0].target, ast.Name) or ast.unparse(loops[0].iter) != f.args.args[0].arg \
                or loops[0].orelse:
            raise Unreadable('not a single pass `for x in catalog`')
        dispatch = {}                                # name -> {class name: list name}: `bins = {Cls: lst, …}`
        for s in body:                               # everything else must be `name = []`, such a dict, or the return
            if s is loops[0] or isinstance(s, ast.Return):
                continue
            if isinstance(s, ast.Assign) and len(s.targets) == 1 and isinstance(s.targets[0], ast.Name) \
                    and isinstance(s.value, ast.Dict) and s.value.keys and \
                    all(k is not None and ast.unparse(k) in EXACT for k in s.value.keys) and \
                    all(isinstance(x, ast.Name) and x.id in pos for x in s.value.values):
                dispatch[s.targets[0].id] = [(ast.unparse(k), x.id) for k, x in zip(s.value.keys, s.value.values)]
                continue
            if isinstance(s, ast.Assign) and all(isinstance(t, ast.Name) and t.id in pos for t in s.targets) \
                    and ast.unparse(s.value) in ('[]', 'list()'):
                continue
            raise Unreadable(f'statement {ast.unparse(s)[:40]!r} outside the loop')
        v = loops[0].target.id
        lb = list(loops[0].body)
        lines = []
        ind = '    '
        # exact-class dispatch through a dict:  d = bins.get(type(x) | x.__class__[, None]);  if d is not None: d.append(x)
        if len(lb) == 2 and isinstance(lb[0], ast.Assign) and len(lb[0].targets) == 1 and isinstance(lb[0].targets[0], ast.Name) \
                and isinstance(lb[0].value, ast.Call) and isinstance(lb[0].value.func, ast.Attribute) \
                and lb[0].value.func.attr == 'get' and ast.unparse(lb[0].value.func.value) in dispatch \
                and 1 <= len(lb[0].value.args) <= 2 and ast.unparse(lb[0].value.args[0]) in (f'type({v})', f'{v}.__class__') \
                and (len(lb[0].value.args) == 1 or ast.unparse(lb[0].value.args[1]) == 'None') \
                and isinstance(lb[1], ast.If) and not lb[1].orelse and len(lb[1].body) == 1:
            d = lb[0].targets[0].id
            if ast.unparse(lb[1].test) not in (f'{d} is not None', f'{d} != None') or \
                    ast.unparse(lb[1].body[0]) != f'{d}.append({v})':
                raise Unreadable('dict dispatch body')
            first = True
            for cname, lst in dispatch[ast.unparse(lb[0].value.func.value)]:
                lines.append(f"{ind}{'if' if first else 'elif'} ({' or '.join(f'c == {k}' for k in EXACT[cname])}):")
                lines.append(f'{ind}    which = {pos[lst]}')
                first = False
            return head + "\n".join(lines) + "\n    return which\n"
        if dispatch:
            raise Unreadable('class dictionary used in an unrecognised way')
        # leading `if not isinstance(x, T): continue`
        while lb and isinstance(lb[0], ast.If) and not lb[0].orelse and len(lb[0].body) == 1 \
                and isinstance(lb[0].body[0], ast.Continue):
            t = _isinstance_test(lb[0].test, {v}, CLASSES, 'c')
            if t is None:
                raise Unreadable('continue guard')
            # `if not …: continue` followed by the chain reads the same as one flat chain
            lines.append(f"{ind}{'if' if not lines else 'elif'} {t}:")
            lines.append(f'{ind}    which = 0')
            lb = lb[1:]
        if len(lb) != 1 or not isinstance(lb[0], ast.If):
            raise Unreadable('loop body is not one if-chain')

        def leaf(stmts, ind2):
            if len(stmts) != 1:
                raise Unreadable('branch with several statements')
            st = stmts[0]
            tgt = None
            if isinstance(st, ast.Expr) and isinstance(st.value, ast.Call) and isinstance(st.value.func, ast.Attribute) \
                    and st.value.func.attr == 'append' and len(st.value.args) == 1 and ast.unparse(st.value.args[0]) == v:
                tgt = ast.unparse(st.value.func.value)
            elif isinstance(st, ast.AugAssign) and isinstance(st.op, ast.Add) and ast.unparse(st.value) in (f'[{v}]', f'({v},)'):
                tgt = ast.unparse(st.target)
            elif isinstance(st, (ast.Pass, ast.Continue)):
                lines.append(f'{ind2}which = 0')
                return
            if tgt not in pos:
                raise Unreadable(f'branch {ast.unparse(st)[:40]!r}')
            lines.append(f'{ind2}which = {pos[tgt]}')

        s, first = lb[0], not lines
        while True:
            t = _isinstance_test(s.test, {v}, CLASSES, 'c')
            if t is None:
                raise Unreadable(f'test {ast.unparse(s.test)[:40]!r}')
            lines.append(f"{ind}{'if' if first else 'elif'} {t}:")
            leaf(s.body, ind + '    ')
            first = False
            if len(s.orelse) == 1 and isinstance(s.orelse[0], ast.If):
                s = s.orelse[0]
                continue
            if s.orelse:
                lines.append(f'{ind}else:')
                leaf(s.orelse, ind + '    ')
            break
        return head + "\n".join(lines) + "\n    return which\n"
    except Unreadable as e:
        msg = str(e).replace("'", '"')
        return head + f"    which = untranslatable('{msg}')\n    return which\n"


def _slices():
    repo = os.environ.get('AEGEAN_REPO', '/repo')
    parts = []
    for path, fns in ((_FC, (_fits_slice, _sql_slice)), (_FM, (_classify_slice,))):
        try:
            tree = ast.parse(open(os.path.join(repo, path)).read())
            parts += [f(tree) for f in fns]
        except Exception as exc:                      # unreadable file: every piece falls back
            parts.append(f"# slicing {path} failed: {exc!r}\n")
    text = "\n\n".join(parts)
    d = os.path.join(tempfile.gettempdir(), 'verif-C18-slices')
    os.makedirs(d, exist_ok=True)
    path = os.path.join(d, 'catalogs_' + hashlib.sha1(text.encode()).hexdigest()[:12] + '.py')
    if not os.path.exists(path):
        with open(path + '.tmp%d' % os.getpid(), 'w') as f:
            f.write(text)
        os.replace(path + '.tmp%d' % os.getpid(), path)
    return path


_S = _slices()
SLICE_FILE = _S
_M = 'Aegean.Model.C18.'
_P6 = ['is_err', 'is_uuid', 'kind', 'maxlen', 't', 'vlen']


def _fb(name, params, hand):
    return f"def {name} ({' '.join(params)} : Nat) : Nat := {_M}{hand} {' '.join(params)}"


TARGETS = [
    dict(file=_S, func='fits_col', mode='int', params={p: 'N' for p in _P6},
         outputs=[('letter', 'fitsLetter'), ('width', 'fitsWidth')],
         fallback={'fitsLetter': _fb('fitsLetter', _P6, 'fitsLetterHand'), 'fitsWidth': _fb('fitsWidth', _P6, 'fitsWidthHand')},
         all_params=_P6),
    dict(file=_S, func='sql_type', mode='int', params={'t': 'N'},
         outputs=[('code', 'sqlCode')],
         fallback={'sqlCode': _fb('sqlCode', ['t'], 'sqlCodeHand')},
         all_params=['t']),
    dict(file=_S, func='classify_which', mode='int', params={'c': 'N'},
         outputs=[('which', 'classifyWhich')],
         fallback={'classifyWhich': _fb('classifyWhich', ['c'], 'classifyWhichHand')},
         all_params=['c']),
]
