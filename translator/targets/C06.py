"""C06: the integer arithmetic of BANE.sigma_filter that decides WHICH pixels every estimate is made from, regenerated
from the tree under test ($AEGEAN_REPO, default /repo) on every run.

  boxRMin, boxRMax, boxCMin, boxCMax   the nested `box(r, c)` (translated in place): the exclusive slice bounds of the box
                                       centred on a grid node; `data.shape[0]`, `data.shape[1]` are the loaded block's row
                                       count `dn` and the column count `nc`
  dataRowMin, dataRowMax               the rows a stripe loads (`data_row_min = …`, `data_row_max = …`)
  gridR0, gridREnd, gridRStep, gridRLast   `rows = list(range(A, B, S)); rows.append(L)`  ->  A, B, S, L
  gridC0, gridCEnd, gridCStep, gridCLast   the same for `cols`
  subTLo, subTHi, subSLo, subSHi       the background subtraction `data[TLo:THi, :] -= ibkg[SLo:SHi, :]` (a bare `data` on the
                                       left is rows 0 … dn): which rows of the loaded block are subtracted, and which rows of
                                       the full-size map they are taken from  (the site of ledger item 8 / fixes/C06-01)

  wsLeaks, wsInitParams, wsInitArgs    worker state: how many module globals written by the parent (filter_mc_sharemem /
                                       filter_image) are read by the code the workers run (sigma_filter, _sf2) without being set by
                                       the pool initializer from its initargs; arity of the initializer and of initargs

All but `box` are sliced out of the AST into small Python functions (inside the translator's int-mode whitelist) written to a
scratch file; leading plain-name aliases are inlined, the statements are found by what they assign / call, not by position.
Anything the slicer does not recognise becomes a call the translator rejects: the piece is reported UNTRANSLATABLE and the hand
fallback (the model's own expression) stands in, never a guess.  `Properties/C06.lean` proves every piece equal to the hand
model's expression (`gen_*` theorems), which is what makes the model's theorems theorems about this arithmetic.
"""
import ast
import hashlib
import os
import tempfile

_F = 'AegeanTools/BANE.py'
_SUB = [("box_size[0]", 'bY'), ("box_size[1]", 'bX'), ("step_size[0]", 'gy'), ("step_size[1]", 'gx'),
        ("data.shape[0]", 'dn'), ("data.shape[1]", 'nc'), ("shape[0]", 'nr'), ("shape[1]", 'nc'),
        ("data_row_min", 'drmin'), ("data_row_max", 'drmax')]


def _s(node):
    t = ast.unparse(node)
    for a, b in _SUB:
        t = t.replace(a, b)
    return t


def _first_assign(fn, name):
    for s in fn.body:
        if isinstance(s, ast.Assign) and len(s.targets) == 1 and isinstance(s.targets[0], ast.Name) and s.targets[0].id == name:
            return s.value
    return None


def _loaded_slice(fn):
    head = "def loaded_rows(ymin, ymax, bY, nr):\n"
    a, b = _first_assign(fn, 'data_row_min'), _first_assign(fn, 'data_row_max')
    if a is None or b is None:
        return head + "    lo = untranslatable('data_row_min / data_row_max not found')\n    hi = lo\n    return lo\n"
    return head + f"    lo = {_s(a)}\n    hi = {_s(b)}\n    return lo\n"


def _range_args(v):
    """`list(range(a, b, c))` or `range(a, b, c)` -> (a, b, c) as source text"""
    if isinstance(v, ast.Call) and ast.unparse(v.func) == 'list' and len(v.args) == 1:
        v = v.args[0]
    if isinstance(v, ast.Call) and ast.unparse(v.func) == 'range' and not v.keywords and 1 <= len(v.args) <= 3:
        a = [_s(x) for x in v.args]
        if len(a) == 1:
            a = ['0', a[0], '1']
        elif len(a) == 2:
            a = [a[0], a[1], '1']
        return a
    return None


def _grid_slice(fn, var, fname, params):
    head = f"def {fname}({', '.join(params)}):\n"
    bad = head + f"    g0 = untranslatable('grid {var} not recognised')\n    gend = g0\n    gstep = g0\n    glast = g0\n    return g0\n"
    v = _first_assign(fn, var)
    ra = _range_args(v) if v is not None else None
    apps = [s.value.args[0] for s in fn.body if isinstance(s, ast.Expr) and isinstance(s.value, ast.Call)
            and ast.unparse(s.value.func) == f'{var}.append' and len(s.value.args) == 1]
    others = [s for s in ast.walk(fn) if isinstance(s, (ast.Assign, ast.AugAssign))
              and any(ast.unparse(t) == var for t in (s.targets if isinstance(s, ast.Assign) else [s.target]))]
    if ra is None or len(apps) != 1 or len(others) != 1:
        return bad
    return head + f"    g0 = {ra[0]}\n    gend = {ra[1]}\n    gstep = {ra[2]}\n    glast = {_s(apps[0])}\n    return g0\n"


def _row_slice_of(sub):
    """rows part of `X[a:b, :]` / `X[a:b]` -> (a, b) source text with None for an omitted bound"""
    sl = sub.slice
    if isinstance(sl, ast.Tuple):
        if len(sl.elts) != 2:
            return None
        col = sl.elts[1]
        if not (isinstance(col, ast.Slice) and col.lower is None and col.upper is None and col.step is None):
            return None
        sl = sl.elts[0]
    if not isinstance(sl, ast.Slice) or sl.step is not None:
        return None
    return (_s(sl.lower) if sl.lower is not None else None, _s(sl.upper) if sl.upper is not None else None)


def _subtract_slice(fn):
    head = "def subtract(ymin, ymax, drmin, drmax, dn, nr):\n"
    bad = head + "    tlo = untranslatable('background subtraction not recognised')\n    thi = tlo\n    slo = tlo\n    shi = tlo\n    return tlo\n"
    sites = [s for s in fn.body if isinstance(s, ast.AugAssign) and isinstance(s.op, ast.Sub)
             and isinstance(s.value, ast.Subscript) and ast.unparse(s.value.value) == 'ibkg']
    if len(sites) != 1:
        return bad
    s = sites[0]
    src = _row_slice_of(s.value)
    if src is None:
        return bad
    if isinstance(s.target, ast.Name) and s.target.id == 'data':
        tgt = ('0', 'dn')
    elif isinstance(s.target, ast.Subscript) and ast.unparse(s.target.value) == 'data':
        tgt = _row_slice_of(s.target)
        if tgt is None:
            return bad
        tgt = (tgt[0] or '0', tgt[1] or 'dn')
    else:
        return bad
    return head + f"    tlo = {tgt[0]}\n    thi = {tgt[1]}\n    slo = {src[0] or '0'}\n    shi = {src[1] or 'nr'}\n    return tlo\n"


def _globals_written(fn):
    """names declared `global` in fn and assigned there"""
    decl = {n for st in ast.walk(fn) if isinstance(st, ast.Global) for n in st.names}
    stored = {n.id for n in ast.walk(fn) if isinstance(n, ast.Name) and isinstance(n.ctx, ast.Store)}
    return decl & stored


def _worker_state_slice(tree):
    """what a worker can only have by inheriting the parent's memory: module globals that the parent writes after import
    (in filter_mc_sharemem / filter_image) and that the code run in the workers (sigma_filter, _sf2) reads, minus those
    the pool initializer sets from its `initargs`.  Under the 'spawn' / 'forkserver' start methods such a global still has
    its import-time value in the worker.  Emits  leaks = <how many>, ninit = parameters of the initializer,
    nargs = length of initargs  (99 when the Pool(...) call is not recognised)."""
    head = "def worker_state(z):\n"
    bad = head + "    leaks = untranslatable('worker set-up not recognised')\n    ninit = leaks\n    nargs = leaks\n    return leaks\n"
    fns = {n.name: n for n in tree.body if isinstance(n, ast.FunctionDef)}
    if not {'sigma_filter', 'filter_mc_sharemem'} <= set(fns):
        return bad
    pools = [c for c in ast.walk(fns['filter_mc_sharemem']) if isinstance(c, ast.Call) and ast.unparse(c.func).endswith('Pool')]
    if len(pools) != 1:
        return bad
    kw = {k.arg: k.value for k in pools[0].keywords}
    if 'initializer' not in kw or 'initargs' not in kw or not isinstance(kw['initializer'], ast.Name) \
            or kw['initializer'].id not in fns or not isinstance(kw['initargs'], (ast.Tuple, ast.List)):
        return bad
    init = fns[kw['initializer'].id]
    params = [a.arg for a in init.args.args]
    # globals the initializer sets *from its parameters*
    from_args = set()
    decl = {n for st in ast.walk(init) if isinstance(st, ast.Global) for n in st.names}
    for st in init.body:
        if isinstance(st, ast.Assign) and len(st.targets) == 1 and isinstance(st.targets[0], ast.Name) \
                and st.targets[0].id in decl and isinstance(st.value, ast.Name) and st.value.id in params:
            from_args.add(st.targets[0].id)
    written = set()
    for name in ('filter_mc_sharemem', 'filter_image'):
        if name in fns:
            written |= _globals_written(fns[name])
    read = set()
    for name in ('sigma_filter', '_sf2'):
        if name in fns:
            f = fns[name]
            local = {a.arg for a in f.args.args} | {n.id for n in ast.walk(f) if isinstance(n, ast.Name) and isinstance(n.ctx, ast.Store)}
            gdecl = {n for st in ast.walk(f) if isinstance(st, ast.Global) for n in st.names}
            read |= {n.id for n in ast.walk(f) if isinstance(n, ast.Name) and isinstance(n.ctx, ast.Load)
                     and (n.id not in local or n.id in gdecl)}
    leaks = sorted((written & read) - from_args)
    return head + f"    leaks = {len(leaks)}   # {leaks}\n    ninit = {len(params)}\n    nargs = {len(kw['initargs'].elts)}\n    return leaks\n"


def _slices():
    repo = os.environ.get('AEGEAN_REPO', '/repo')
    try:
        tree = ast.parse(open(os.path.join(repo, _F)).read())
        fn = [n for n in ast.walk(tree) if isinstance(n, ast.FunctionDef) and n.name == 'sigma_filter'][0]
        text = "\n\n".join([_loaded_slice(fn),
                            _grid_slice(fn, 'rows', 'grid_rows', ['ymin', 'ymax', 'drmin', 'gy']),
                            _grid_slice(fn, 'cols', 'grid_cols', ['nc', 'gx']),
                            _subtract_slice(fn), _worker_state_slice(tree)])
    except Exception as exc:
        text = f"# slicing failed: {exc!r}\n"
    d = os.path.join(tempfile.gettempdir(), 'verif-C06-slices')
    os.makedirs(d, exist_ok=True)
    path = os.path.join(d, 'sigma_filter_' + hashlib.sha1(text.encode()).hexdigest()[:12] + '.py')
    if not os.path.exists(path):
        with open(path + '.tmp%d' % os.getpid(), 'w') as f:
            f.write(text)
        os.replace(path + '.tmp%d' % os.getpid(), path)
    return path


_S = _slices()
_BP = ['r', 'c', 'bY', 'bX', 'dn', 'nc']
_LP = ['ymin', 'ymax', 'bY', 'nr']
_GR = ['ymin', 'ymax', 'drmin', 'gy']
_GC = ['nc', 'gx']
_SP = ['ymin', 'ymax', 'drmin', 'drmax', 'dn', 'nr']
_WP = ['z']


def _fb(name, params, body):
    return f"def {name} ({' '.join(params)} : Nat) : Int := (({body} : Nat) : Int)"


TARGETS = [
    dict(file=_F, func='sigma_filter.box', mode='int', params={p: 'N' for p in _BP},
         subst={"box_size[0]": 'bY', "box_size[1]": 'bX', "data.shape[0]": 'dn', "data.shape[1]": 'nc'},
         outputs=[('r_min', 'boxRMin'), ('r_max', 'boxRMax'), ('c_min', 'boxCMin'), ('c_max', 'boxCMax')],
         fallback={'boxRMin': _fb('boxRMin', _BP, 'r - bY / 2'), 'boxRMax': _fb('boxRMax', _BP, 'min dn (r + bY / 2)'),
                   'boxCMin': _fb('boxCMin', _BP, 'c - bX / 2'), 'boxCMax': _fb('boxCMax', _BP, 'min nc (c + bX / 2)')},
         fallback_imports=[], all_params=_BP),
    dict(file=_S, func='loaded_rows', mode='int', params={p: 'N' for p in _LP},
         outputs=[('lo', 'dataRowMin'), ('hi', 'dataRowMax')],
         fallback={'dataRowMin': _fb('dataRowMin', _LP, 'ymin - bY / 2'),
                   'dataRowMax': _fb('dataRowMax', _LP, 'min nr (ymax + bY / 2)')},
         fallback_imports=[], all_params=_LP),
    dict(file=_S, func='grid_rows', mode='int', params={p: 'N' for p in _GR},
         outputs=[('g0', 'gridR0'), ('gend', 'gridREnd'), ('gstep', 'gridRStep'), ('glast', 'gridRLast')],
         fallback={'gridR0': _fb('gridR0', _GR, 'ymin - drmin'), 'gridREnd': _fb('gridREnd', _GR, 'ymax - drmin'),
                   'gridRStep': _fb('gridRStep', _GR, 'gy'), 'gridRLast': _fb('gridRLast', _GR, 'ymax - drmin')},
         fallback_imports=[], all_params=_GR),
    dict(file=_S, func='grid_cols', mode='int', params={p: 'N' for p in _GC},
         outputs=[('g0', 'gridC0'), ('gend', 'gridCEnd'), ('gstep', 'gridCStep'), ('glast', 'gridCLast')],
         fallback={'gridC0': _fb('gridC0', _GC, '0'), 'gridCEnd': _fb('gridCEnd', _GC, 'nc'),
                   'gridCStep': _fb('gridCStep', _GC, 'gx'), 'gridCLast': _fb('gridCLast', _GC, 'nc')},
         fallback_imports=[], all_params=_GC),
    dict(file=_S, func='subtract', mode='int', params={p: 'N' for p in _SP},
         outputs=[('tlo', 'subTLo'), ('thi', 'subTHi'), ('slo', 'subSLo'), ('shi', 'subSHi')],
         fallback={'subTLo': _fb('subTLo', _SP, '0'), 'subTHi': _fb('subTHi', _SP, 'dn'),
                   'subSLo': _fb('subSLo', _SP, 'drmin'), 'subSHi': _fb('subSHi', _SP, 'drmax')},
         fallback_imports=[], all_params=_SP),
    dict(file=_S, func='worker_state', mode='int', params={'z': 'N'},
         outputs=[('leaks', 'wsLeaks'), ('ninit', 'wsInitParams'), ('nargs', 'wsInitArgs')],
         fallback={'wsLeaks': _fb('wsLeaks', _WP, '0'), 'wsInitParams': _fb('wsInitParams', _WP, '2'),
                   'wsInitArgs': _fb('wsInitArgs', _WP, '2')},
         fallback_imports=[], all_params=_WP),
]
