"""C04: `fitting.elliptical_gaussian` and the six derivative expressions of `fitting.jacobian`.

All eight definitions take the same explicit parameter list (x y amp xo yo sx sy theta) over
`{α} [R α]`; `theta` is in degrees, exactly as in the Python (`np.radians` is `R.radians`).
The per-component parameter look-ups `pars[prefix + 'amp'].value` are the model's inputs.
"""
import ast

import py2lean


def _with_pi(orig):
    """extension of py2lean.Translator.expr_real (AGENT_GUIDE: extended copy lives in the targets file):
    the constants `np.pi` / `math.pi` become `R.pi`.  Everything else is delegated unchanged."""
    def expr_real(self, node):
        if isinstance(node, ast.Attribute) and isinstance(node.value, ast.Name) \
                and node.value.id in ('np', 'numpy', 'math') and node.attr == 'pi':
            return '(R.pi : α)', 'A', set()
        return orig(self, node)
    expr_real._c04_pi = True
    return expr_real


if not getattr(py2lean.Translator.expr_real, '_c04_pi', False):
    py2lean.Translator.expr_real = _with_pi(py2lean.Translator.expr_real)

_HPARS = ['amp', 'xo', 'yo', 'sx', 'sy', 'theta']


def _name_hessian_entries(fn):
    """`fitting.hessian` stores its second-derivative expressions into `hmat[j][k]`.  Give every
    upper-triangle entry a name the translator can follow: inside the block `if P_var:` a statement
    `hmat[j][k] <op>= e` becomes `h_P_Q <op>= e` when it sits inside `if Q_var:` and `h_P_P <op>= e` when it
    sits directly in the block (the diagonal).  The symmetric copies `hmat[j][k] = hmat[...][...]` of the lower
    triangle are dropped (they are copies, not expressions)."""
    def is_hmat(t):
        return isinstance(t, ast.Subscript) and isinstance(t.value, ast.Subscript) \
            and isinstance(t.value.value, ast.Name) and t.value.value.id == 'hmat'

    def var_of(test):
        if isinstance(test, ast.Name) and test.id.endswith('_var') and test.id[:-4] in _HPARS:
            return test.id[:-4]
        return None

    def rename(stmts, name):
        out = []
        for st in stmts:
            if isinstance(st, ast.Assign) and len(st.targets) == 1 and is_hmat(st.targets[0]):
                if is_hmat(st.value):
                    continue
                st = ast.Assign(targets=[ast.Name(id=name, ctx=ast.Store())], value=st.value)
            elif isinstance(st, ast.AugAssign) and is_hmat(st.target):
                st = ast.AugAssign(target=ast.Name(id=name, ctx=ast.Store()), op=st.op, value=st.value)
            out.append(st)
        return out

    def block(stmts, P):
        out = []
        for st in stmts:
            if isinstance(st, ast.If) and var_of(st.test):
                Q = var_of(st.test)
                if _HPARS.index(Q) < _HPARS.index(P):
                    continue                      # lower triangle: symmetric copy
                out.append(ast.If(test=st.test, body=rename(st.body, f'h_{P}_{Q}') or [ast.Pass()], orelse=[]))
            else:
                out.extend(rename([st], f'h_{P}_{P}'))
        return out

    def walk(stmts):
        out = []
        for st in stmts:
            if isinstance(st, ast.For):
                st = ast.For(target=st.target, iter=st.iter, body=walk(st.body), orelse=[])
            elif isinstance(st, ast.If) and var_of(st.test):
                st = ast.If(test=st.test, body=block(st.body, var_of(st.test)), orelse=[])
            out.append(st)
        return out

    new = ast.FunctionDef(name=fn.name, args=fn.args, body=walk(fn.body), decorator_list=[], returns=None)
    return ast.fix_missing_locations(ast.copy_location(new, fn))


def _with_hessian(orig):
    def find_function(tree, qualname):
        fn = orig(tree, qualname)
        if qualname == 'hessian':
            fn = _name_hessian_entries(fn)
        return fn
    find_function._c04_hessian = True
    return find_function


if not getattr(py2lean.find_function, '_c04_hessian', False):
    py2lean.find_function = _with_hessian(py2lean.find_function)

_P = ['x', 'y', 'amp', 'xo', 'yo', 'sx', 'sy', 'theta']
_PARAMS = {p: 'A' for p in _P}
_H = 'Aegean.Model.C04'


def _fb(name):
    return f'def {name} {{α : Type}} [R α] (x y amp xo yo sx sy theta : α) : α := {_H}.{name}Hand x y amp xo yo sx sy theta'


TARGETS = [
    dict(file='AegeanTools/fitting.py', func='elliptical_gaussian', mode='real',
         params=_PARAMS, subst={}, outputs=[], returns='gauss',
         fallback={'gauss': _fb('gauss')}, all_params=_P),
    dict(file='AegeanTools/fitting.py', func='jacobian', mode='real',
         params=_PARAMS,
         subst={f"pars[prefix + '{p}'].value": p for p in ['amp', 'xo', 'yo', 'sx', 'sy', 'theta']},
         calls={'elliptical_gaussian': ('gauss', 8)},
         outputs=[('dmds', 'dmds'), ('dmdxo', 'dmdxo'), ('dmdyo', 'dmdyo'),
                  ('dmdsx', 'dmdsx'), ('dmdsy', 'dmdsy'), ('dmdtheta', 'dmdtheta')],
         fallback={n: _fb(n) for n in ['dmds', 'dmdxo', 'dmdyo', 'dmdsx', 'dmdsy', 'dmdtheta']},
         all_params=_P),
    # OBSERVATION ONLY (not part of the C04 verdict: the hessian is not handed to the optimiser; it feeds
    # RB_bias).  The 21 upper-triangle second-derivative expressions of `fitting.hessian`, named h_P_Q.
    # No fallback: if they become untranslatable they are simply absent and only
    # Aegean/Proofs/C04Hessian.lean (not imported by the property file) stops building.
    dict(file='AegeanTools/fitting.py', func='hessian', mode='real',
         params=_PARAMS,
         subst={f"pars[prefix + '{p}'].value": p for p in _HPARS},
         calls={'elliptical_gaussian': ('gauss', 8)},
         outputs=[(f'h_{p}_{q}', f'h_{p}_{q}') for i, p in enumerate(_HPARS) for q in _HPARS[i:]],
         fallback={}, all_params=_P),
]
