"""C04: `fitting.elliptical_gaussian` and the six derivative expressions of `fitting.jacobian`.

All eight definitions take the same explicit parameter list (x y amp xo yo sx sy theta) over
`{α} [R α]`; `theta` is in degrees, exactly as in the Python (`np.radians` is `R.radians`).
The per-component parameter look-ups `pars[prefix + 'amp'].value` are the model's inputs.
"""
import ast

import py2lean


def _with_pi(orig):
    """extension of py2lean.Translator.expr_real (AGENT_GUIDE: extended copy lives in the targets file):
    the constants `np.pi` / `math.pi` become `R.pi`.  Everything else is delegated unchanged."""
    def expr_real(self, node):
        if isinstance(node, ast.Attribute) and isinstance(node.value, ast.Name) \
                and node.value.id in ('np', 'numpy', 'math') and node.attr == 'pi':
            return '(R.pi : α)', 'A', set()
        return orig(self, node)
    expr_real._c04_pi = True
    return expr_real


if not getattr(py2lean.Translator.expr_real, '_c04_pi', False):
    py2lean.Translator.expr_real = _with_pi(py2lean.Translator.expr_real)

_HPARS = ['amp', 'xo', 'yo', 'sx', 'sy', 'theta']


def _name_hessian_entries(fn):
    """`fitting.hessian` stores its second-derivative expressions into `hmat[j][k]`.  Give every
    upper-triangle entry a name the translator can follow: inside the block `if P_var:` a statement
    `hmat[j][k] <op>= e` becomes `h_P_Q <op>= e` when it sits inside `if Q_var:` and `h_P_P <op>= e` when it
    sits directly in the block (the diagonal).  The symmetric copies `hmat[j][k] = hmat[...][...]` of the lower
    triangle are dropped (they are copies, not expressions)."""
    def is_hmat(t):
        return isinstance(t, ast.Subscript) and isinstance(t.value, ast.Subscript) \
            and isinstance(t.value.value, ast.Name) and t.value.value.id == 'hmat'

    def var_of(test):
        if isinstance(test, ast.Name) and test.id.endswith('_var') and test.id[:-4] in _HPARS:
            return test.id[:-4]
        return None

    def rename(stmts, name):
        out = []
        for st in stmts:
            if isinstance(st, ast.Assign) and len(st.targets) == 1 and is_hmat(st.targets[0]):
                if is_hmat(st.value):
                    continue
                st = ast.Assign(targets=[ast.Name(id=name, ctx=ast.Store())], value=st.value)
            elif isinstance(st, ast.AugAssign) and is_hmat(st.target):
                st = ast.AugAssign(target=ast.Name(id=name, ctx=ast.Store()), op=st.op, value=st.value)
            out.append(st)
        return out

    def block(stmts, P):
        out = []
        for st in stmts:
            if isinstance(st, ast.If) and var_of(st.test):
                Q = var_of(st.test)
                if _HPARS.index(Q) < _HPARS.index(P):
                    continue                      # lower triangle: symmetric copy
                out.append(ast.If(test=st.test, body=rename(st.body, f'h_{P}_{Q}') or [ast.Pass()], orelse=[]))
            else:
                out.extend(rename([st], f'h_{P}_{P}'))
        return out

    def walk(stmts):
        out = []
        for st in stmts:
            if isinstance(st, ast.For):
                st = ast.For(target=st.target, iter=st.iter, body=walk(st.body), orelse=[])
            elif isinstance(st, ast.If) and var_of(st.test):
                st = ast.If(test=st.test, body=block(st.body, var_of(st.test)), orelse=[])
            out.append(st)
        return out

    new = ast.FunctionDef(name=fn.name, args=fn.args, body=walk(fn.body), decorator_list=[], returns=None)
    return ast.fix_missing_locations(ast.copy_location(new, fn))


# ---------------------------------------------------------------------------------------------------------
# Normalisation of `fitting.jacobian` before translation (round 6: harmless refactors must re-prove).
# Every step is semantics-preserving for side-effect-free code and refuses (leaves the code alone, which ends
# in UNTRANSLATABLE and the hand fallback) whenever its preconditions are not met.  The regenerated
# definitions are additionally compared numerically with the Python on every run.
#   1. parameter look-ups  <pars>[<prefix> + 'amp'].value          -> canonical text (the model input `amp`)
#   2. comprehensions over a constant sequence, `tuple(...)`/`list(...)` of them        -> tuple displays
#   3. calls of simple module-level helpers (assignments + one return, positional name arguments) -> inlined
#   4. (nested) tuple assignments, also through a name bound to a tuple display      -> single assignments
#   5. the k-th `<rows>.append(e)` on the list that is returned     -> `__row_k = e`   (k = 0..5: amp, xo, yo,
#      sx, sy, theta — the documented order; which row is appended under which `vary` flag, and in which
#      order, is the hand model `jacRows`, tied by the correspondence)
# ---------------------------------------------------------------------------------------------------------

def _canon_lookup(name):
    return ast.parse(f"pars[prefix + '{name}'].value").body[0].value


class _Lookups(ast.NodeTransformer):
    def visit_Attribute(self, node):
        self.generic_visit(node)
        if node.attr == 'value' and isinstance(node.value, ast.Subscript) and isinstance(node.value.value, ast.Name):
            sl = node.value.slice
            if isinstance(sl, ast.BinOp) and isinstance(sl.op, ast.Add) and isinstance(sl.left, ast.Name) \
                    and isinstance(sl.right, ast.Constant) and sl.right.value in _HPARS:
                return _canon_lookup(sl.right.value)
        return node


class _Subst(ast.NodeTransformer):
    def __init__(self, mapping):
        self.mapping = mapping

    def visit_Name(self, node):
        if node.id in self.mapping:
            import copy
            new = copy.deepcopy(self.mapping[node.id])
            if isinstance(new, ast.Name):
                new.ctx = node.ctx
            return new
        return node


def _subst(node, mapping):
    import copy
    return _Subst(mapping).visit(copy.deepcopy(node))


def _const_seq(node):
    if isinstance(node, (ast.Tuple, ast.List)) and node.elts and \
            all(isinstance(e, ast.Constant) and isinstance(e.value, (str, int, float)) for e in node.elts):
        return [e.value for e in node.elts]
    return None


def _collect_seqs(module, fn):
    """names bound exactly once (at module level or in the function) to a display of constants"""
    seqs, count = {}, {}
    for scope in (module.body, list(ast.walk(fn))):
        for st in scope:
            if isinstance(st, ast.Assign) and len(st.targets) == 1 and isinstance(st.targets[0], ast.Name):
                n = st.targets[0].id
                count[n] = count.get(n, 0) + 1
                v = _const_seq(st.value)
                if v is not None:
                    seqs[n] = v
            elif isinstance(st, (ast.AugAssign, ast.For)):
                t = st.target
                if isinstance(t, ast.Name):
                    count[t.id] = count.get(t.id, 0) + 2
    return {n: v for n, v in seqs.items() if count.get(n) == 1}


class _Comprehensions(ast.NodeTransformer):
    def __init__(self, seqs):
        self.seqs = seqs

    def expand(self, node):
        if isinstance(node, (ast.ListComp, ast.GeneratorExp)) and len(node.generators) == 1:
            g = node.generators[0]
            if not g.ifs and not g.is_async and isinstance(g.target, ast.Name):
                vals = self.seqs.get(g.iter.id) if isinstance(g.iter, ast.Name) else _const_seq(g.iter)
                if vals is not None:
                    return ast.Tuple(elts=[_subst(node.elt, {g.target.id: ast.Constant(value=v)}) for v in vals],
                                     ctx=ast.Load())
        return None

    def visit_ListComp(self, node):
        self.generic_visit(node)
        return self.expand(node) or node

    def visit_Call(self, node):
        self.generic_visit(node)
        if isinstance(node.func, ast.Name) and node.func.id in ('tuple', 'list') and len(node.args) == 1 \
                and not node.keywords:
            a = node.args[0]
            if isinstance(a, ast.Tuple):
                return a
            e = self.expand(a)
            if e is not None:
                return e
        return node


def _inline_helper(st, module):
    """`T = F(a, b)` with F a module-level function made of single-name assignments and one final return"""
    if not (isinstance(st, ast.Assign) and len(st.targets) == 1 and isinstance(st.value, ast.Call)
            and isinstance(st.value.func, ast.Name) and not st.value.keywords):
        return None
    F = next((d for d in module.body if isinstance(d, ast.FunctionDef) and d.name == st.value.func.id), None)
    if F is None or F.args.vararg or F.args.kwarg or F.args.kwonlyargs or F.args.defaults or F.decorator_list:
        return None
    params = [a.arg for a in F.args.args]
    args = st.value.args
    if len(params) != len(args) or not all(isinstance(a, (ast.Name, ast.Constant)) for a in args):
        return None
    body = list(F.body)
    if body and isinstance(body[0], ast.Expr) and isinstance(body[0].value, ast.Constant):
        body = body[1:]                                                   # docstring
    if not body or not isinstance(body[-1], ast.Return) or body[-1].value is None:
        return None
    for b in body[:-1]:
        if not (isinstance(b, ast.Assign) and len(b.targets) == 1 and isinstance(b.targets[0], ast.Name)):
            return None
    if any(isinstance(n, (ast.Return, ast.Yield, ast.YieldFrom, ast.Lambda, ast.Global, ast.Nonlocal))
           for b in body[:-1] for n in ast.walk(b)):
        return None
    mapping = dict(zip(params, args))
    for b in body[:-1]:
        mapping.setdefault(b.targets[0].id, ast.Name(id=f'_{F.name}_{b.targets[0].id}', ctx=ast.Load()))
    out = []
    for b in body[:-1]:
        tgt = mapping[b.targets[0].id]
        if not isinstance(tgt, ast.Name):
            return None
        out.append(ast.Assign(targets=[ast.Name(id=tgt.id, ctx=ast.Store())], value=_subst(b.value, mapping)))
    out.append(ast.Assign(targets=st.targets, value=_subst(body[-1].value, mapping)))
    return out


def _names(node):
    return {n.id for n in ast.walk(node) if isinstance(n, ast.Name)}


def _flatten(target, value, tupdefs, out):
    """pairs (Name target, value expression) of a possibly nested tuple assignment; False if not resolvable"""
    if isinstance(value, ast.Name) and value.id in tupdefs and isinstance(target, ast.Tuple):
        value = tupdefs[value.id]
    if isinstance(target, ast.Name):
        out.append((target, value))
        return True
    if isinstance(target, ast.Tuple) and isinstance(value, (ast.Tuple, ast.List)) and len(target.elts) == len(value.elts):
        return all(_flatten(t, v, tupdefs, out) for t, v in zip(target.elts, value.elts))
    return False


def _norm_block(stmts, module, tupdefs):
    out = []
    for st in stmts:
        inl = _inline_helper(st, module)
        if inl is not None:
            out.extend(_norm_block(inl, module, tupdefs))
            continue
        if isinstance(st, ast.Assign) and len(st.targets) == 1:
            t, v = st.targets[0], st.value
            if isinstance(t, ast.Tuple):
                pairs = []
                if _flatten(t, v, tupdefs, pairs):
                    tnames = [a.id for a, _ in pairs]
                    used = set().union(*[_names(b) for _, b in pairs]) if pairs else set()
                    if len(set(tnames)) == len(tnames) and not (set(tnames) & used):
                        for a, b in pairs:
                            tupdefs.pop(a.id, None)
                            if isinstance(b, ast.Tuple):
                                tupdefs[a.id] = b
                            out.append(ast.Assign(targets=[ast.Name(id=a.id, ctx=ast.Store())], value=b))
                        continue
                for n in _names(t):
                    tupdefs.pop(n, None)
            elif isinstance(t, ast.Name):
                tupdefs.pop(t.id, None)
                if isinstance(v, ast.Tuple):
                    tupdefs[t.id] = v
            out.append(st)
        elif isinstance(st, (ast.For, ast.While)):
            st.body = _norm_block(st.body, module, tupdefs)
            out.append(st)
        elif isinstance(st, ast.If):
            st.body = _norm_block(st.body, module, dict(tupdefs))
            st.orelse = _norm_block(st.orelse, module, dict(tupdefs))
            out.append(st)
        elif isinstance(st, (ast.With, ast.Try)):
            st.body = _norm_block(st.body, module, tupdefs)
            out.append(st)
        else:
            if isinstance(st, ast.AugAssign) and isinstance(st.target, ast.Name):
                tupdefs.pop(st.target.id, None)
            out.append(st)
    return out


def _number_rows(fn):
    """the argument of the k-th `<rows>.append(...)` (source order) on the list the function returns"""
    rets = [n for n in ast.walk(fn) if isinstance(n, ast.Return) and n.value is not None]
    if len(rets) != 1:
        raise py2lean.Untranslatable("jacobian: expected exactly one return")
    r = rets[0].value
    if isinstance(r, ast.Call) and len(r.args) == 1 and isinstance(r.args[0], ast.Name):
        r = r.args[0]
    if not isinstance(r, ast.Name):
        raise py2lean.Untranslatable("jacobian: the returned matrix is not a named list of rows")
    rows = r.id
    k = [0]

    def walk(stmts):
        out = []
        for st in stmts:
            if isinstance(st, ast.Expr) and isinstance(st.value, ast.Call) and isinstance(st.value.func, ast.Attribute) \
                    and st.value.func.attr == 'append' and isinstance(st.value.func.value, ast.Name) \
                    and st.value.func.value.id == rows and len(st.value.args) == 1 and not st.value.keywords:
                out.append(ast.Assign(targets=[ast.Name(id=f'__row_{k[0]}', ctx=ast.Store())], value=st.value.args[0]))
                k[0] += 1
                continue
            for attr in ('body', 'orelse', 'finalbody'):
                if hasattr(st, attr) and isinstance(getattr(st, attr), list):
                    setattr(st, attr, walk(getattr(st, attr)))
            out.append(st)
        return out
    fn.body = walk(fn.body)
    if k[0] != len(_HPARS):
        raise py2lean.Untranslatable(f"jacobian appends {k[0]} rows per component, expected {len(_HPARS)}")
    return fn


def _split_zero_amp(fn):
    """the shape   if amp == 0: V = <e0>  else: V = <e>     (or `amp != 0` with the branches swapped, or the
    conditional expression  V = <e> if amp != 0 else <e0>)  becomes   V = <e>;  __amp0 = <e0>;  __amp0flag = 1.
    The class `R` has no decidable comparison, so the two branches are regenerated as two definitions (`dmds` for
    amp != 0, `dmds0` for amp == 0) and the property file puts them together.  Without such a shape:
    __amp0flag = 0 and `dmds0` is UNTRANSLATABLE (hand fallback, about which nothing is claimed for the code)."""
    found = [0]

    def zero_test(t):
        if isinstance(t, ast.Compare) and _is_name(t.left, 'amp') and len(t.ops) == 1 \
                and isinstance(t.comparators[0], ast.Constant) and t.comparators[0].value in (0, 0.0) \
                and not isinstance(t.comparators[0].value, bool):
            if isinstance(t.ops[0], ast.Eq):
                return 'eq'
            if isinstance(t.ops[0], ast.NotEq):
                return 'ne'
        return None

    def single_assign(stmts):
        """(key, value) of a branch that is one `V = e` (key 'V') or one `<rows>.append(e)` (key '<rows>.append')"""
        if len(stmts) == 1 and isinstance(stmts[0], ast.Assign) and len(stmts[0].targets) == 1 \
                and isinstance(stmts[0].targets[0], ast.Name):
            return stmts[0].targets[0].id, stmts[0].value
        if len(stmts) == 1 and isinstance(stmts[0], ast.Expr) and isinstance(stmts[0].value, ast.Call) \
                and isinstance(stmts[0].value.func, ast.Attribute) and stmts[0].value.func.attr == 'append' \
                and isinstance(stmts[0].value.func.value, ast.Name) and len(stmts[0].value.args) == 1 \
                and not stmts[0].value.keywords:
            return stmts[0].value.func.value.id + '.append', stmts[0].value.args[0]
        return None

    def divides_by_amp(e):
        return any(isinstance(n, ast.BinOp) and isinstance(n.op, ast.Div) and _is_name(n.right, 'amp')
                   for n in ast.walk(e))

    def emit(var, nonzero, zero):
        found[0] += 1
        if var.endswith('.append'):
            # the two branches append ONE row between them: `if amp == 0: rows.append(e0) else: rows.append(e)`
            lst = var[:-len('.append')]
            return [ast.Assign(targets=[ast.Name(id='__ampgen', ctx=ast.Store())], value=nonzero),
                    ast.Assign(targets=[ast.Name(id='__amp0', ctx=ast.Store())], value=zero),
                    ast.Assign(targets=[ast.Name(id='__amp0flag', ctx=ast.Store())], value=ast.Constant(value=1)),
                    ast.Expr(value=ast.Call(func=ast.Attribute(value=ast.Name(id=lst, ctx=ast.Load()), attr='append',
                                                               ctx=ast.Load()),
                                            args=[ast.Name(id='__ampgen', ctx=ast.Load())], keywords=[]))]
        return [ast.Assign(targets=[ast.Name(id=var, ctx=ast.Store())], value=nonzero),
                ast.Assign(targets=[ast.Name(id='__amp0', ctx=ast.Store())], value=zero),
                ast.Assign(targets=[ast.Name(id='__amp0flag', ctx=ast.Store())], value=ast.Constant(value=1))]

    def walk(stmts):
        out = []
        for st in stmts:
            if isinstance(st, ast.If) and zero_test(st.test):
                a, b = single_assign(st.body), single_assign(st.orelse)
                if a and b and a[0] == b[0]:
                    z, nz = (a[1], b[1]) if zero_test(st.test) == 'eq' else (b[1], a[1])
                    if divides_by_amp(nz):        # only the special case of `<model> / amp`
                        out.extend(emit(a[0], nz, z))
                        continue
            if isinstance(st, ast.Assign) and len(st.targets) == 1 and isinstance(st.targets[0], ast.Name) \
                    and isinstance(st.value, ast.IfExp) and zero_test(st.value.test):
                z, nz = (st.value.body, st.value.orelse) if zero_test(st.value.test) == 'eq' \
                    else (st.value.orelse, st.value.body)
                if divides_by_amp(nz):
                    out.extend(emit(st.targets[0].id, nz, z))
                    continue
            for attr in ('body', 'orelse'):
                if hasattr(st, attr) and isinstance(getattr(st, attr), list):
                    setattr(st, attr, walk(getattr(st, attr)))
            out.append(st)
        return out
    fn.body = walk(fn.body)
    if found[0] == 0:
        fn.body.insert(0, ast.Assign(targets=[ast.Name(id='__amp0flag', ctx=ast.Store())], value=ast.Constant(value=0)))
    elif found[0] > 1:
        raise py2lean.Untranslatable("jacobian: more than one amp == 0 special case")
    return fn


def _normalise(fn, module, rows=False):
    import copy
    fn = copy.deepcopy(fn)
    module = _Lookups().visit(copy.deepcopy(module))
    fn = _Lookups().visit(fn)
    seqs = _collect_seqs(module, fn)
    comp = _Comprehensions(seqs)
    module = comp.visit(module)
    fn = comp.visit(fn)
    fn.body = _norm_block(fn.body, module, {})
    fn = _Lookups().visit(fn)          # look-ups brought in by inlined helpers
    if rows:
        fn = _split_zero_amp(fn)
        fn = _number_rows(fn)
    return ast.fix_missing_locations(fn)


def _with_hessian(orig):
    def find_function(tree, qualname):
        fn = orig(tree, qualname)
        if qualname == 'hessian':
            fn = _name_hessian_entries(_normalise(fn, tree))
        elif qualname == 'jacobian':
            fn = _normalise(fn, tree, rows=True)
        return fn
    find_function._c04_hessian = True
    return find_function


def _with_identity_casts(orig):
    """`np.asarray(e)`, `np.asanyarray(e)`, `np.array(e)`, `float(e)`: the identity on real numbers"""
    def expr_real(self, node):
        if isinstance(node, ast.Call) and not node.keywords and len(node.args) == 1 \
                and self.callee_name(node.func) in ('asarray', 'asanyarray', 'array', 'float', 'float64') \
                and not isinstance(node.args[0], (ast.List, ast.Tuple, ast.ListComp, ast.GeneratorExp)):
            return self.expr(node.args[0])
        return orig(self, node)
    expr_real._c04_casts = True
    expr_real._c04_pi = True
    return expr_real


if not getattr(py2lean.Translator.expr_real, '_c04_casts', False):
    py2lean.Translator.expr_real = _with_identity_casts(py2lean.Translator.expr_real)


if not getattr(py2lean.find_function, '_c04_hessian', False):
    py2lean.find_function = _with_hessian(py2lean.find_function)

# ---------------------------------------------------------------------------------------------------------
# `fitting.lmfit_jacobian` as a pipeline (deepening round).  After the matrix of derivative rows has been obtained
# from `jacobian(pars, x, y)`, the body is read as a sequence of steps on that matrix:
#       1 = `if errs is not None: M /= errs`      2 = `if B is not None: M = M.dot(B)`      3 = `M = np.transpose(M)`
# (`np.vstack/np.array/np.asarray(M)` on the 2-D matrix are the identity).  The slice is written as a small
# int-mode Python function `lmj(k)`: op = code of step k, n = number of steps, src = 1 when the rows come from
# the analytic `jacobian(<first three arguments>)` for emp false.  Anything else that touches the matrix — another
# statement, another guard, another operand — makes the slice call `unrecognised(...)`, which the translator
# rejects: UNTRANSLATABLE, the hand pipeline stands in, only the correspondence ties it.
# ---------------------------------------------------------------------------------------------------------
import hashlib
import os
import tempfile


def _is_none_guard(test, name):
    return isinstance(test, ast.Compare) and isinstance(test.left, ast.Name) and test.left.id == name \
        and len(test.ops) == 1 and isinstance(test.ops[0], ast.IsNot) \
        and isinstance(test.comparators[0], ast.Constant) and test.comparators[0].value is None


def _np_call(node, names, nargs=1):
    return isinstance(node, ast.Call) and not node.keywords and len(node.args) == nargs \
        and isinstance(node.func, ast.Attribute) and isinstance(node.func.value, ast.Name) \
        and node.func.value.id in ('np', 'numpy') and node.func.attr in names


def _is_name(node, name):
    return isinstance(node, ast.Name) and node.id == name


def _lmj_steps(fn):
    """(ops, src) or None if something is not recognised"""
    args = [a.arg for a in fn.args.args]
    if len(args) < 5 or 'errs' not in args or 'B' not in args:
        return None
    body = list(fn.body)
    if body and isinstance(body[0], ast.Expr) and isinstance(body[0].value, ast.Constant):
        body = body[1:]
    rets = [n for n in ast.walk(fn) if isinstance(n, ast.Return)]
    if len(rets) != 1 or rets[0] is not body[-1] or rets[0].value is None:
        return None

    def analytic(call):
        return isinstance(call, ast.Call) and isinstance(call.func, ast.Name) and call.func.id == 'jacobian' \
            and not call.keywords and [ast.unparse(a) for a in call.args] == args[:3]

    def is_transpose(v, var):
        return (_np_call(v, ('transpose',)) and _is_name(v.args[0], var)) \
            or (isinstance(v, ast.Attribute) and v.attr == 'T' and _is_name(v.value, var)) \
            or (isinstance(v, ast.Call) and not v.args and not v.keywords and isinstance(v.func, ast.Attribute)
                and v.func.attr == 'transpose' and _is_name(v.func.value, var))

    var, src, ops = None, 0, []
    for st in body:
        if isinstance(st, ast.Expr) and isinstance(st.value, ast.Constant):
            continue
        if var is None:
            # where the rows come from
            if isinstance(st, ast.If) and _is_name(st.test, 'emp') and len(st.body) == 1 and len(st.orelse) == 1 \
                    and all(isinstance(b, ast.Assign) and len(b.targets) == 1 and isinstance(b.targets[0], ast.Name)
                            for b in (st.body[0], st.orelse[0])) \
                    and st.body[0].targets[0].id == st.orelse[0].targets[0].id and analytic(st.orelse[0].value):
                var, src = st.orelse[0].targets[0].id, 1
                continue
            if isinstance(st, ast.Assign) and len(st.targets) == 1 and isinstance(st.targets[0], ast.Name) \
                    and analytic(st.value):
                var, src = st.targets[0].id, 1
                continue
            return None
        if isinstance(st, ast.Return):
            if _is_name(st.value, var):
                return ops, src
            if is_transpose(st.value, var):
                return ops + [3], src
            return None
        if isinstance(st, ast.Assign) and len(st.targets) == 1 and _is_name(st.targets[0], var):
            v = st.value
            if _np_call(v, ('vstack', 'array', 'asarray', 'asanyarray')) and _is_name(v.args[0], var):
                continue
            if is_transpose(v, var):
                ops.append(3)
                continue
            return None
        if isinstance(st, ast.If) and not st.orelse and len(st.body) == 1:
            b = st.body[0]
            if _is_none_guard(st.test, 'errs'):
                if isinstance(b, ast.AugAssign) and _is_name(b.target, var) and isinstance(b.op, ast.Div) \
                        and _is_name(b.value, 'errs'):
                    ops.append(1)
                    continue
                if isinstance(b, ast.Assign) and len(b.targets) == 1 and _is_name(b.targets[0], var) \
                        and isinstance(b.value, ast.BinOp) and isinstance(b.value.op, ast.Div) \
                        and _is_name(b.value.left, var) and _is_name(b.value.right, 'errs'):
                    ops.append(1)
                    continue
                return None
            if _is_none_guard(st.test, 'B') and isinstance(b, ast.Assign) and len(b.targets) == 1 \
                    and _is_name(b.targets[0], var):
                v = b.value
                if (isinstance(v, ast.Call) and not v.keywords and len(v.args) == 1 and isinstance(v.func, ast.Attribute)
                        and v.func.attr == 'dot' and _is_name(v.func.value, var) and _is_name(v.args[0], 'B')) \
                        or (_np_call(v, ('dot', 'matmul'), 2) and _is_name(v.args[0], var) and _is_name(v.args[1], 'B')) \
                        or (isinstance(v, ast.BinOp) and isinstance(v.op, ast.MatMult) and _is_name(v.left, var)
                            and _is_name(v.right, 'B')):
                    ops.append(2)
                    continue
                return None
        return None
    return None


def _lmj_slice():
    repo = os.environ.get('AEGEAN_REPO', '/repo')
    try:
        tree = ast.parse(open(os.path.join(repo, 'AegeanTools/fitting.py')).read())
        fn = [n for n in tree.body if isinstance(n, ast.FunctionDef) and n.name == 'lmfit_jacobian'][0]
        r = _lmj_steps(fn)
    except Exception:
        r = None
    if r is None or len(r[0]) > 8:
        text = "def lmj(k):\n    op = unrecognised(k)\n    n = unrecognised(k)\n    src = unrecognised(k)\n"
    else:
        ops, src = r
        text = "def lmj(k):\n    op = 0\n" + "".join(f"    if k == {i}:\n        op = {c}\n" for i, c in enumerate(ops)) \
            + f"    n = {len(ops)}\n    src = {src}\n"
    try:
        ftext = _fisher_slice_text(tree)
    except Exception:
        ftext = None
    if ftext is None:
        ftext = "def fisher(k):\n" + "".join(f"    {v} = unrecognised(k)\n" for v in ('wc', 'wb', 'nc', 'nb', 'jc', 'jb', 'sig', 'msk', 'fmk'))
    text = text + "\n\n" + ftext
    d = os.path.join(tempfile.gettempdir(), 'verif-C04-slices')
    os.makedirs(d, exist_ok=True)
    path = os.path.join(d, 'lmfit_jacobian_' + hashlib.sha1(text.encode()).hexdigest()[:12] + '.py')
    if not os.path.exists(path):
        with open(path + '.tmp%d' % os.getpid(), 'w') as f:
            f.write(text)
        os.replace(path + '.tmp%d' % os.getpid(), path)
    return path


# ---------------------------------------------------------------------------------------------------------
# The Fisher-matrix assembly of `fitting.covar_errors` (deepening round).  In the try-body of the branch
# `if C is not None:` and of the branch `if C is None:` three assignments are read:
#     J = lmfit_jacobian(<params>, mask[0], mask[1], errs=errs[, B=B])     -> jc / jb: 1 = errs only, 2 = errs and B
#     covar = <product of J, transposes of J, inv(C)>                      -> a word over  1 = J^T, 2 = J, 3 = inv(C)
#                                                                             (np.transpose / .T / .dot / np.dot / @
#                                                                             are normalised; (XY)^T = Y^T X^T)
#     onesigma = np.sqrt(np.diag(inv(covar)))                               -> sig = 1 in both branches
# and the pixel selection `mask = np.where(<pred>(data))` of covar_errors (msk) and of do_lmfit (fmk):
#     1 = np.isfinite(data), 2 = ~np.isnan(data)  (round 8)
# Slice `fisher(k)`: wc/wb = letter k of the word of the C / B branch (0 beyond its length), nc/nb the lengths.
# Any other statement in those bodies (except `log.<level>(...)` calls) is unrecognised -> UNTRANSLATABLE.
# ---------------------------------------------------------------------------------------------------------

def _mat_word(e, J, C):
    """word of a matrix product expression, or None"""
    if isinstance(e, ast.Name) and e.id == J:
        return [2]
    if isinstance(e, ast.Call) and not e.keywords and len(e.args) == 1 and isinstance(e.func, ast.Name) \
            and e.func.id == 'inv' and _is_name(e.args[0], C):
        return [3]
    t = None
    if _np_call(e, ('transpose',)):
        t = e.args[0]
    elif isinstance(e, ast.Attribute) and e.attr == 'T':
        t = e.value
    if t is not None:
        w = _mat_word(t, J, C)
        if w is None or 3 in w:
            return None
        return [{1: 2, 2: 1}[c] for c in reversed(w)]
    pair = None
    if isinstance(e, ast.Call) and not e.keywords and len(e.args) == 1 and isinstance(e.func, ast.Attribute) \
            and e.func.attr == 'dot':
        pair = (e.func.value, e.args[0])
    elif _np_call(e, ('dot', 'matmul'), 2):
        pair = (e.args[0], e.args[1])
    elif isinstance(e, ast.BinOp) and isinstance(e.op, ast.MatMult):
        pair = (e.left, e.right)
    if pair is not None:
        a, b = _mat_word(pair[0], J, C), _mat_word(pair[1], J, C)
        if a is None or b is None:
            return None
        return a + b
    return None


def _fisher_branch(body, fn_params):
    """(jac kwargs code, word) of one try-body, or None"""
    J = covar = None
    code = word = None
    sig = 0
    for st in body:
        if isinstance(st, ast.Expr) and isinstance(st.value, ast.Call) and isinstance(st.value.func, ast.Attribute) \
                and _is_name(st.value.func.value, 'log'):
            continue
        if not (isinstance(st, ast.Assign) and len(st.targets) == 1 and isinstance(st.targets[0], ast.Name)):
            return None
        name, v = st.targets[0].id, st.value
        if J is None:
            if not (isinstance(v, ast.Call) and isinstance(v.func, ast.Name) and v.func.id == 'lmfit_jacobian'
                    and [ast.unparse(a) for a in v.args] == [fn_params[0], 'mask[0]', 'mask[1]']):
                return None
            kws = {k.arg: ast.unparse(k.value) for k in v.keywords}
            if kws == {'errs': 'errs'}:
                code = 1
            elif kws == {'errs': 'errs', 'B': 'B'}:
                code = 2
            else:
                return None
            J = name
        elif covar is None:
            word = _mat_word(v, J, 'C')
            if word is None or len(word) > 6:
                return None
            covar = name
        elif sig == 0:
            if not (_np_call(v, ('sqrt',)) and _np_call(v.args[0], ('diag',)) and isinstance(v.args[0].args[0], ast.Call)
                    and isinstance(v.args[0].args[0].func, ast.Name) and v.args[0].args[0].func.id == 'inv'
                    and not v.args[0].args[0].keywords and len(v.args[0].args[0].args) == 1
                    and _is_name(v.args[0].args[0].args[0], covar)):
                return None
            sig = 1
        else:
            return None
    if sig != 1:
        return None
    return code, word


def _mask_kind(fn, data):
    """which pixels of the image `data` enter: the single top-level `mask = np.where(<pred>)` of the function.
       1 = np.isfinite(data)   2 = ~np.isnan(data) / np.logical_not(np.isnan(data))   None = anything else"""
    found = [st for st in fn.body if isinstance(st, ast.Assign) and len(st.targets) == 1
             and _is_name(st.targets[0], 'mask')]
    if len(found) != 1 or not _np_call(found[0].value, ('where',)):
        return None
    pred = found[0].value.args[0]
    if _np_call(pred, ('isfinite',)) and _is_name(pred.args[0], data):
        return 1
    inner = None
    if isinstance(pred, ast.UnaryOp) and isinstance(pred.op, ast.Invert):
        inner = pred.operand
    elif _np_call(pred, ('logical_not',)):
        inner = pred.args[0]
    if inner is not None and _np_call(inner, ('isnan',)) and _is_name(inner.args[0], data):
        return 2
    return None


def _fisher_slice_text(tree):
    fn = [n for n in tree.body if isinstance(n, ast.FunctionDef) and n.name == 'covar_errors'][0]
    params = [a.arg for a in fn.args.args]
    if 'C' not in params or 'B' not in params or 'errs' not in params:
        return None
    msk = _mask_kind(fn, params[1])
    dl = [n for n in tree.body if isinstance(n, ast.FunctionDef) and n.name == 'do_lmfit']
    fmk = _mask_kind(dl[0], [a.arg for a in dl[0].args.args][0]) if dl else None
    if msk is None or fmk is None:
        return None
    branches = {}
    for st in fn.body:
        if isinstance(st, ast.If) and isinstance(st.test, ast.Compare) and _is_name(st.test.left, 'C') \
                and len(st.test.ops) == 1 and isinstance(st.test.comparators[0], ast.Constant) \
                and st.test.comparators[0].value is None and not st.orelse and len(st.body) == 1 \
                and isinstance(st.body[0], ast.Try):
            key = 'c' if isinstance(st.test.ops[0], ast.IsNot) else 'b' if isinstance(st.test.ops[0], ast.Is) else None
            if key is None or key in branches:
                return None
            branches[key] = _fisher_branch(st.body[0].body, params)
    if set(branches) != {'b', 'c'} or None in branches.values():
        return None
    (jc, wc), (jb, wb) = branches['c'], branches['b']
    out = "def fisher(k):\n    wc = 0\n    wb = 0\n"
    out += "".join(f"    if k == {i}:\n        wc = {c}\n" for i, c in enumerate(wc))
    out += "".join(f"    if k == {i}:\n        wb = {c}\n" for i, c in enumerate(wb))
    out += f"    nc = {len(wc)}\n    nb = {len(wb)}\n    jc = {jc}\n    jb = {jb}\n    sig = 1\n    msk = {msk}\n    fmk = {fmk}\n"
    return out


_S = _lmj_slice()

_P = ['x', 'y', 'amp', 'xo', 'yo', 'sx', 'sy', 'theta']
_PARAMS = {p: 'A' for p in _P}
_H = 'Aegean.Model.C04'


def _fb(name):
    return f'def {name} {{α : Type}} [R α] (x y amp xo yo sx sy theta : α) : α := {_H}.{name}Hand x y amp xo yo sx sy theta'


TARGETS = [
    dict(file='AegeanTools/fitting.py', func='elliptical_gaussian', mode='real',
         params=_PARAMS, subst={}, outputs=[], returns='gauss',
         fallback={'gauss': _fb('gauss')}, all_params=_P),
] + [
    # one target per derivative expression, so that an expression the translator cannot follow falls back to
    # its hand definition alone (the others stay regenerated).  `__row_k` is the argument of the k-th
    # `<rows>.append(...)` of `fitting.jacobian` (see `_number_rows`).
    dict(file='AegeanTools/fitting.py', func='jacobian', mode='real',
         params=_PARAMS,
         subst={f"pars[prefix + '{p}'].value": p for p in _HPARS},
         calls={'elliptical_gaussian': ('gauss', 8)},
         outputs=[(f'__row_{k}', name)],
         fallback={name: _fb(name)},
         all_params=_P)
    for k, name in enumerate(['dmds', 'dmdxo', 'dmdyo', 'dmdsx', 'dmdsy', 'dmdtheta'])
] + [
    # the amp == 0 special case of the amplitude derivative (see `_split_zero_amp`): its expression and whether the
    # source has it at all (1 / 0, as a real literal)
    dict(file='AegeanTools/fitting.py', func='jacobian', mode='real', params=_PARAMS,
         subst={f"pars[prefix + '{p}'].value": p for p in _HPARS}, calls={'elliptical_gaussian': ('gauss', 8)},
         outputs=[(var, name)], fallback={name: _fb(name)}, all_params=_P)
    for var, name in [('__amp0', 'dmds0'), ('__amp0flag', 'dmdsZero')]
] + [
    dict(file=_S, func='lmj', mode='int', params={'k': 'N'},
         outputs=[('op', 'lmjOp'), ('n', 'lmjLen'), ('src', 'lmjSrc')],
         fallback={'lmjOp': 'def lmjOp (k : Nat) : Nat := Aegean.Model.C04.lmjOpHand k',
                   'lmjLen': 'def lmjLen (k : Nat) : Nat := Aegean.Model.C04.lmjLenHand k',
                   'lmjSrc': 'def lmjSrc (k : Nat) : Nat := Aegean.Model.C04.lmjSrcHand k'},
         all_params=['k']),
    dict(file=_S, func='fisher', mode='int', params={'k': 'N'},
         outputs=[('wc', 'fisWordC'), ('wb', 'fisWordB'), ('nc', 'fisLenC'), ('nb', 'fisLenB'), ('jc', 'fisJacC'),
                  ('jb', 'fisJacB'), ('sig', 'fisSigma'), ('msk', 'fisMask'), ('fmk', 'fitMask')],
         fallback={n: f'def {n} (k : Nat) : Nat := Aegean.Model.C04.{n}Hand k'
                   for n in ['fisWordC', 'fisWordB', 'fisLenC', 'fisLenB', 'fisJacC', 'fisJacB', 'fisSigma', 'fisMask',
                             'fitMask']},
         all_params=['k']),
    # OBSERVATION ONLY (not part of the C04 verdict: the hessian is not handed to the optimiser; it feeds
    # RB_bias).  The 21 upper-triangle second-derivative expressions of `fitting.hessian`, named h_P_Q.
    # No fallback: if they become untranslatable they are simply absent and only
    # Aegean/Proofs/C04Hessian.lean (not imported by the property file) stops building.
    dict(file='AegeanTools/fitting.py', func='hessian', mode='real',
         params=_PARAMS,
         subst={f"pars[prefix + '{p}'].value": p for p in _HPARS},
         calls={'elliptical_gaussian': ('gauss', 8)},
         outputs=[(f'h_{p}_{q}', f'h_{p}_{q}') for i, p in enumerate(_HPARS) for q in _HPARS[i:]],
         fallback={}, all_params=_P),
]
