"""C04: `fitting.elliptical_gaussian` and the six derivative expressions of `fitting.jacobian`.

All eight definitions take the same explicit parameter list (x y amp xo yo sx sy theta) over
`{α} [R α]`; `theta` is in degrees, exactly as in the Python (`np.radians` is `R.radians`).
The per-component parameter look-ups `pars[prefix + 'amp'].value` are the model's inputs.
"""
import ast

import py2lean


def _with_pi(orig):
    """extension of py2lean.Translator.expr_real (AGENT_GUIDE: extended copy lives in the targets file):
    the constants `np.pi` / `math.pi` become `R.pi`.  Everything else is delegated unchanged."""
    def expr_real(self, node):
        if isinstance(node, ast.Attribute) and isinstance(node.value, ast.Name) \
                and node.value.id in ('np', 'numpy', 'math') and node.attr == 'pi':
            return '(R.pi : α)', 'A', set()
        return orig(self, node)
    expr_real._c04_pi = True
    return expr_real


if not getattr(py2lean.Translator.expr_real, '_c04_pi', False):
    py2lean.Translator.expr_real = _with_pi(py2lean.Translator.expr_real)

_P = ['x', 'y', 'amp', 'xo', 'yo', 'sx', 'sy', 'theta']
_PARAMS = {p: 'A' for p in _P}
_H = 'Aegean.Model.C04'


def _fb(name):
    return f'def {name} {{α : Type}} [R α] (x y amp xo yo sx sy theta : α) : α := {_H}.{name}Hand x y amp xo yo sx sy theta'


TARGETS = [
    dict(file='AegeanTools/fitting.py', func='elliptical_gaussian', mode='real',
         params=_PARAMS, subst={}, outputs=[], returns='gauss',
         fallback={'gauss': _fb('gauss')}, all_params=_P),
    dict(file='AegeanTools/fitting.py', func='jacobian', mode='real',
         params=_PARAMS,
         subst={f"pars[prefix + '{p}'].value": p for p in ['amp', 'xo', 'yo', 'sx', 'sy', 'theta']},
         calls={'elliptical_gaussian': ('gauss', 8)},
         outputs=[('dmds', 'dmds'), ('dmdxo', 'dmdxo'), ('dmdyo', 'dmdyo'),
                  ('dmdsx', 'dmdsx'), ('dmdsy', 'dmdsy'), ('dmdtheta', 'dmdtheta')],
         fallback={n: _fb(n) for n in ['dmds', 'dmdxo', 'dmdyo', 'dmdsx', 'dmdsy', 'dmdtheta']},
         all_params=_P),
]
