"""C15: the index arithmetic of fits_tools.compress (grid size, residuals) and of fits_tools.expand
(node coordinates).

compress: `cx, cy = data.shape[0], data.shape[1]` are the inputs `rows`, `cols`; outputs are the
final values of nx, ny (number of decimation nodes per axis, after the `if lcx > 0: nx += 1`
merge) and lcx, lcy (what is written to BN_RPX1 / BN_RPX2).

expand: `rows = (np.arange(data.shape[0]) + int(lcx/factor))*factor` is translated element-wise:
the array `np.arange(data.shape[0])` is replaced by its k-th element `k`, so `nodeRow k rpx1 rpx2 factor`
is the coordinate given to the k-th compressed row.  `lcx/factor` is Python float division and
`int(...)` truncation, so the generated definition goes through `Float` exactly as the code does;
`Properties/C15.lean` proves (kernel evaluation, all factors 1..64 and all residuals < factor) that
this offset is 0, and proves everything else for every factor about the offset-free coordinate.

Deepening round: the keyword arithmetic is regenerated too, from small Python functions that the slicers below
cut out of the AST of the tree under test and write to a scratch file:

  crpix_c / crpix_e       the assignments to header['CRPIX1'], header['CRPIX2'] of compress / expand  (real mode)
  key1_c key2_c key1_e key2_e   the `if 'CDELTi' in header ... elif 'CDi_i' in header ... else: return None` dispatch:
                          0 = neither (the code returns None), 1 = CDELTi is rescaled, 2 = CDi_i is rescaled (int mode)
  up_a1 up_b1 up_a2 up_b2 / dn_a1 ...   what the chosen branch does to the keyword's value (real mode)
  bn_c                    which value compress stores under BN_CFAC, BN_NPX1, BN_NPX2, BN_RPX1, BN_RPX2 (int mode)
  out_shape               the two upper bounds of expand's `np.mgrid[0:..., 0:...]` (rows, columns of the result)
  bn_deleted              bit mask of the BN_* keys expand deletes (1 CFAC, 2 NPX1, 4 NPX2, 8 RPX1, 16 RPX2)
  load_dispatch           load_file_or_hdu as a table: input kind (0 HDUList, 1 str, 2 pathlib.Path / os.PathLike) ->
                          0 used as is, 1 opened with fits.open, 2 wrapped in a new HDUList   (round 8)

A branch that does anything else than one update of the keyword it tested, a second assignment to a CRPIX card, a call
that is handed `header`, an mgrid that does not start at 0 ... is written as a call the translator rejects: the piece
is UNTRANSLATABLE, the `...Hand` definition of Model/C15.lean stands in and only the correspondence ties it to the code.
"""

import ast
import hashlib
import os
import tempfile

_F = 'AegeanTools/fits_tools.py'
_BN = ['BN_CFAC', 'BN_NPX1', 'BN_NPX2', 'BN_RPX1', 'BN_RPX2']


def _hkey(node):
    """'KEY' if node is header['KEY'] else None"""
    if isinstance(node, ast.Subscript) and ast.unparse(node.value) == 'header' and isinstance(node.slice, ast.Constant) \
            and isinstance(node.slice.value, str):
        return node.slice.value
    return None


class _HdrNames(ast.NodeTransformer):
    """header['KEY'] -> variable named by `table[KEY]`; any other use of `header` is left (and will be rejected)"""
    def __init__(self, table):
        self.table = table

    def visit_Subscript(self, node):
        k = _hkey(node)
        if k in self.table:
            return ast.Name(id=self.table[k], ctx=ast.Load())
        return self.generic_visit(node)


def _src(node, table):
    import copy
    return ast.unparse(ast.fix_missing_locations(_HdrNames(table).visit(copy.deepcopy(node))))


def _update_value(s, table):
    """python source of the new value of header[K] for `header[K] = e` or `header[K] op= e`; (K, src) or None"""
    if isinstance(s, ast.Assign) and len(s.targets) == 1 and _hkey(s.targets[0]):
        return _hkey(s.targets[0]), _src(s.value, table)
    if isinstance(s, ast.AugAssign) and _hkey(s.target):
        op = {ast.Sub: '-', ast.Add: '+', ast.Mult: '*', ast.Div: '/'}.get(type(s.op))
        if op is None:
            return None
        return _hkey(s.target), f"({_src(s.target, table)}) {op} ({_src(s.value, table)})"
    return None


def _header_escapes(fn):
    """`header` handed to a call (other than as the object of `in`): its cards may change where we cannot see"""
    for c in ast.walk(fn):
        if isinstance(c, ast.Call):
            for a in list(c.args) + [k.value for k in c.keywords]:
                if isinstance(a, ast.Name) and a.id == 'header':
                    if ast.unparse(c.func) not in ('is_compressed',):
                        return True
    return False


def _all_stmts(fn):
    for n in ast.walk(fn):
        if isinstance(n, ast.stmt):
            yield n


def _crpix_slice(fn, tag):
    name = 'crpix_' + tag
    head = f"def {name}(crpix1, crpix2, factor):\n"
    bad = lambda why: head + f"    crpix1 = untranslatable('{why}')\n    crpix2 = crpix1\n    return crpix1\n"   # noqa
    if _header_escapes(fn):
        return bad('header is passed to a call')
    table = {'CRPIX1': 'crpix1', 'CRPIX2': 'crpix2'}
    ups = []
    for s in _all_stmts(fn):
        u = _update_value(s, table) if isinstance(s, (ast.Assign, ast.AugAssign)) else None
        if u and u[0] in table:
            ups.append(u)
    if sorted(k for k, _ in ups) != ['CRPIX1', 'CRPIX2']:
        return bad('not exactly one update of each CRPIX card')
    # both must be top-level statements of the function (unconditional)
    top = [_update_value(s, table) for s in fn.body if isinstance(s, (ast.Assign, ast.AugAssign))]
    if sorted(k for k, _ in [t for t in top if t and t[0] in table]) != ['CRPIX1', 'CRPIX2']:
        return bad('a CRPIX update is conditional')
    return head + "".join(f"    {table[k]} = {v}\n" for k, v in ups) + "    return crpix1\n"


def _scale_slices(fn, tag):
    """per axis: the dispatch on which keyword is present, and what each branch does to it"""
    out = []
    for axis, (ka, kb) in ((1, ('CDELT1', 'CD1_1')), (2, ('CDELT2', 'CD2_2'))):
        kname, aname, bname = f"key{axis}_{tag}", f"{'up' if tag == 'c' else 'dn'}_a{axis}", f"{'up' if tag == 'c' else 'dn'}_b{axis}"
        khead = f"def {kname}(has_a, has_b):\n"
        def bad(why, kname=kname, aname=aname, bname=bname, khead=khead):
            return (khead + f"    code = untranslatable('{why}')\n    return code\n\n"
                    + f"def {aname}(v, factor):\n    v = untranslatable('{why}')\n    return v\n\n"
                    + f"def {bname}(v, factor):\n    v = untranslatable('{why}')\n    return v\n")
        chains = [s for s in fn.body if isinstance(s, ast.If) and isinstance(s.test, ast.Compare)
                  and len(s.test.ops) == 1 and isinstance(s.test.ops[0], ast.In)
                  and ast.unparse(s.test.comparators[0]) == 'header' and isinstance(s.test.left, ast.Constant)
                  and s.test.left.value in (ka, kb)]
        if len(chains) != 1 or _header_escapes(fn):
            out.append(bad(f'{len(chains)} dispatch chains on {ka}/{kb}'))
            continue
        lines, vals, s, first, ok = [khead + "    code = 0\n"], {}, chains[0], True, True
        while True:
            key = s.test.left.value if (isinstance(s.test, ast.Compare) and isinstance(s.test.left, ast.Constant)
                                        and isinstance(s.test.ops[0], ast.In)
                                        and ast.unparse(s.test.comparators[0]) == 'header') else None
            if key not in (ka, kb) or key in vals or len(s.body) != 1:
                ok = False
                break
            u = _update_value(s.body[0], {key: 'v'})
            if u is None or u[0] != key:
                ok = False
                break
            vals[key] = u[1]
            lines.append(f"    {'if' if first else 'elif'} has_{'a' if key == ka else 'b'} > 0:\n        code = {1 if key == ka else 2}\n")
            first = False
            if len(s.orelse) == 1 and isinstance(s.orelse[0], ast.If):
                s = s.orelse[0]
                continue
            # the final else must give up (return / raise), otherwise "neither keyword" is not a refusal
            if not s.orelse or not any(isinstance(x, (ast.Return, ast.Raise)) for x in s.orelse):
                ok = False
            break
        # any other statement of the function touching these two cards makes the slice unsound
        others = [x for x in _all_stmts(fn) if isinstance(x, (ast.Assign, ast.AugAssign, ast.Delete))
                  and any(_hkey(t) in (ka, kb) for t in ast.walk(x) if isinstance(t, ast.Subscript)
                          and isinstance(t.ctx, (ast.Store, ast.Del)))]
        if not ok or len(others) != len(vals):
            out.append(bad('dispatch chain not of the form: one update of the tested keyword per branch'))
            continue
        lines.append("    return code\n")
        text = "".join(lines)
        for nm, key in ((aname, ka), (bname, kb)):
            if key in vals:
                text += f"\ndef {nm}(v, factor):\n    v = {vals[key]}\n    return v\n"
            else:   # this keyword is never rescaled: value unchanged (and the dispatch never returns its code)
                text += f"\ndef {nm}(v, factor):\n    v = v + 0 * factor\n    return v\n"
        out.append(text)
    return "\n".join(out)


def _bn_write_slice(fn):
    head = "def bn_c(factor, naxis1, naxis2, lcx, lcy):\n"
    table = {'NAXIS1': 'naxis1', 'NAXIS2': 'naxis2'}
    vals = {}
    for s in _all_stmts(fn):
        if isinstance(s, ast.Assign) and len(s.targets) == 1 and _hkey(s.targets[0]) in _BN:
            k = _hkey(s.targets[0])
            v = s.value.elts[0] if isinstance(s.value, ast.Tuple) and s.value.elts else s.value   # (value, comment)
            if k in vals or s not in fn.body:
                vals = None
                break
            vals[k] = _src(v, table)
    if not vals or sorted(vals) != sorted(_BN) or _header_escapes(fn):
        w = "    cfac = untranslatable('BN_* cards not written exactly once, unconditionally')\n"
        return head + w + "    npx1 = cfac\n    npx2 = cfac\n    rpx1 = cfac\n    rpx2 = cfac\n    return cfac\n"
    return head + "".join(f"    {k[3:].lower()} = {vals[k]}\n" for k in _BN) + "    return cfac\n"


def _out_shape_slice(fn):
    head = "def out_shape(npx1, npx2):\n"
    bad = head + "    out_rows = untranslatable('np.mgrid[0:…, 0:…] not found')\n    out_cols = out_rows\n    return out_rows\n"
    grids = [n for n in ast.walk(fn) if isinstance(n, ast.Subscript) and ast.unparse(n.value) in ('np.mgrid', 'numpy.mgrid')]
    if len(grids) != 1 or not isinstance(grids[0].slice, ast.Tuple) or len(grids[0].slice.elts) != 2:
        return bad
    table = {'BN_NPX1': 'npx1', 'BN_NPX2': 'npx2'}
    ups = []
    for e in grids[0].slice.elts:
        if not isinstance(e, ast.Slice) or e.step is not None or e.upper is None or \
                (e.lower is not None and ast.unparse(e.lower) != '0'):
            return bad
        ups.append(_src(e.upper, table))
    return head + f"    out_rows = {ups[0]}\n    out_cols = {ups[1]}\n    return out_rows\n"


def _deleted_slice(fn):
    mask = 0
    for s in _all_stmts(fn):
        if isinstance(s, ast.Delete) and s in fn.body:
            for t in s.targets:
                if _hkey(t) in _BN:
                    mask |= 1 << _BN.index(_hkey(t))
    return f"def bn_deleted(dummy):\n    mask = {mask} + 0 * dummy\n    return mask\n"


_KIND_OF_CLASS = {          # which of the three input kinds (0 HDUList, 1 str, 2 pathlib.Path / other os.PathLike) a class admits
    'fits.HDUList': {0}, 'HDUList': {0}, 'str': {1},
    'os.PathLike': {2}, 'PathLike': {2}, 'pathlib.Path': {2}, 'Path': {2}, 'pathlib.PurePath': {2},
    'bytes': set(), 'fits.PrimaryHDU': set(), 'fits.ImageHDU': set(), 'PrimaryHDU': set(), 'ImageHDU': set(),
}


def _load_dispatch_slice(fn):
    """load_file_or_hdu as a table: input kind (0 an HDUList, 1 a str file name, 2 a pathlib.Path or another
    os.PathLike) -> action (0 used as it is, 1 opened with fits.open, 2 wrapped in a new HDUList, 9 = nothing assigned).
    Only `if isinstance(filename, <classes>) … elif … else …` chains whose branches are a single assignment to the
    returned name are read; anything else is UNTRANSLATABLE."""
    head = "def load_dispatch(kind):\n"
    bad = lambda why: head + f"    action = untranslatable('{why}')\n    return action\n"   # noqa
    if fn is None or len(fn.args.args) != 1:
        return bad('load_file_or_hdu not found')
    arg = fn.args.args[0].arg
    body = [s for s in fn.body if not (isinstance(s, ast.Expr) and isinstance(s.value, ast.Constant))]
    if len(body) != 2 or not isinstance(body[0], ast.If) or not isinstance(body[1], ast.Return) \
            or not isinstance(body[1].value, ast.Name):
        return bad('body is not: if-chain; return name')
    ret = body[1].value.id

    def action(stmts):
        if len(stmts) != 1 or not isinstance(stmts[0], ast.Assign) or len(stmts[0].targets) != 1 \
                or ast.unparse(stmts[0].targets[0]) != ret:
            return None
        v = stmts[0].value
        if isinstance(v, ast.Name) and v.id == arg:
            return 0
        if isinstance(v, ast.Call) and ast.unparse(v.func) in ('fits.open', 'open') and v.args \
                and ast.unparse(v.args[0]) == arg:
            return 1
        if isinstance(v, ast.Call) and ast.unparse(v.func) in ('fits.HDUList', 'HDUList') and len(v.args) == 1 \
                and ast.unparse(v.args[0]) == f'[{arg}]':
            return 2
        return None

    def kinds(test):
        if not (isinstance(test, ast.Call) and ast.unparse(test.func) == 'isinstance' and len(test.args) == 2
                and ast.unparse(test.args[0]) == arg):
            return None
        cls = test.args[1].elts if isinstance(test.args[1], ast.Tuple) else [test.args[1]]
        out = set()
        for c in cls:
            k = _KIND_OF_CLASS.get(ast.unparse(c))
            if k is None:
                return None
            out |= k
        return out

    lines, s, first = [head + "    action = 9\n"], body[0], True
    while True:
        ks, a = kinds(s.test), action(s.body)
        if ks is None or a is None:
            return bad('branch not recognised')
        cond = " or ".join(f"kind == {k}" for k in sorted(ks)) or "kind == 99"
        lines.append(f"    {'if' if first else 'elif'} {cond}:\n        action = {a}\n")
        first = False
        if len(s.orelse) == 1 and isinstance(s.orelse[0], ast.If):
            s = s.orelse[0]
            continue
        if s.orelse:
            a = action(s.orelse)
            if a is None:
                return bad('else branch not recognised')
            lines.append(f"    else:\n        action = {a}\n")
        break
    return "".join(lines) + "    return action\n"


def _slices():
    repo = os.environ.get('AEGEAN_REPO', '/repo')
    try:
        tree = ast.parse(open(os.path.join(repo, _F)).read())
        fc = [n for n in ast.walk(tree) if isinstance(n, ast.FunctionDef) and n.name == 'compress'][0]
        fe = [n for n in ast.walk(tree) if isinstance(n, ast.FunctionDef) and n.name == 'expand'][0]
        text = "\n\n".join([_crpix_slice(fc, 'c'), _crpix_slice(fe, 'e'), _scale_slices(fc, 'c'), _scale_slices(fe, 'e'),
                            _bn_write_slice(fc), _out_shape_slice(fe), _deleted_slice(fe)])
        fl = [n for n in ast.walk(tree) if isinstance(n, ast.FunctionDef) and n.name == 'load_file_or_hdu']
        text += "\n\n" + _load_dispatch_slice(fl[0] if fl else None)
    except Exception as exc:   # noqa
        text = f"# slicing failed: {exc!r}\n"
    d = os.path.join(tempfile.gettempdir(), 'verif-C15-slices')
    os.makedirs(d, exist_ok=True)
    path = os.path.join(d, 'compress_expand_' + hashlib.sha1(text.encode()).hexdigest()[:12] + '.py')
    if not os.path.exists(path):
        with open(path + '.tmp%d' % os.getpid(), 'w') as f:
            f.write(text)
        os.replace(path + '.tmp%d' % os.getpid(), path)
    return path


_S = _slices()
_M = 'Aegean.Model.C15.'


def _fbA(name, params, hand):
    return f"def {name} {{α : Type}} [R α] ({' '.join(params)} : α) : α := {_M}{hand} {' '.join(params)}"


def _fbN(name, params, hand):
    return f"def {name} ({' '.join(params)} : Nat) : Nat := {_M}{hand} {' '.join(params)}"


_CP = ['crpix1', 'crpix2', 'factor']
_VP = ['v', 'factor']
_KP = ['has_a', 'has_b']
_BP = ['factor', 'naxis1', 'naxis2', 'lcx', 'lcy']

_NEW = [
    dict(file=_S, func='crpix_c', mode='real', params={p: 'A' for p in _CP},
         outputs=[('crpix1', 'crpixC1'), ('crpix2', 'crpixC2')],
         fallback={'crpixC1': _fbA('crpixC1', _CP, 'crpixC1Hand'), 'crpixC2': _fbA('crpixC2', _CP, 'crpixC2Hand')},
         all_params=_CP),
    dict(file=_S, func='crpix_e', mode='real', params={p: 'A' for p in _CP},
         outputs=[('crpix1', 'crpixE1'), ('crpix2', 'crpixE2')],
         fallback={'crpixE1': _fbA('crpixE1', _CP, 'crpixE1Hand'), 'crpixE2': _fbA('crpixE2', _CP, 'crpixE2Hand')},
         all_params=_CP),
]
for _tag, _pre, _hand in (('c', 'up', 'upHand'), ('e', 'dn', 'dnHand')):
    for _ax in (1, 2):
        _NEW.append(dict(file=_S, func=f'key{_ax}_{_tag}', mode='int', params={p: 'N' for p in _KP},
                         outputs=[('code', f'key{_tag.upper()}{_ax}')],
                         fallback={f'key{_tag.upper()}{_ax}': _fbN(f'key{_tag.upper()}{_ax}', _KP, 'keyHand')},
                         all_params=_KP))
        for _ab in 'ab':
            _nm = f'{_pre}{_ab.upper()}{_ax}'
            _NEW.append(dict(file=_S, func=f'{_pre}_{_ab}{_ax}', mode='real', params={p: 'A' for p in _VP},
                             outputs=[('v', _nm)], fallback={_nm: _fbA(_nm, _VP, _hand)}, all_params=_VP))
_NEW += [
    dict(file=_S, func='bn_c', mode='int', params={p: 'N' for p in _BP},
         outputs=[('cfac', 'bnCfac'), ('npx1', 'bnNpx1'), ('npx2', 'bnNpx2'), ('rpx1', 'bnRpx1'), ('rpx2', 'bnRpx2')],
         fallback={'bnCfac': _fbN('bnCfac', _BP, 'bnCfacHand'), 'bnNpx1': _fbN('bnNpx1', _BP, 'bnNpx1Hand'),
                   'bnNpx2': _fbN('bnNpx2', _BP, 'bnNpx2Hand'), 'bnRpx1': _fbN('bnRpx1', _BP, 'bnRpx1Hand'),
                   'bnRpx2': _fbN('bnRpx2', _BP, 'bnRpx2Hand')},
         all_params=_BP),
    dict(file=_S, func='out_shape', mode='int', params={'npx1': 'N', 'npx2': 'N'},
         outputs=[('out_rows', 'outRows'), ('out_cols', 'outCols')],
         fallback={'outRows': _fbN('outRows', ['npx1', 'npx2'], 'outRowsHand'),
                   'outCols': _fbN('outCols', ['npx1', 'npx2'], 'outColsHand')},
         all_params=['npx1', 'npx2']),
    dict(file=_S, func='load_dispatch', mode='int', params={'kind': 'N'},
         outputs=[('action', 'loadAction')],
         fallback={'loadAction': _fbN('loadAction', ['kind'], 'loadActionHand')},
         all_params=['kind']),
    dict(file=_S, func='bn_deleted', mode='int', params={'dummy': 'N'},
         outputs=[('mask', 'bnDeleted')],
         fallback={'bnDeleted': _fbN('bnDeleted', ['dummy'], 'bnDeletedHand')},
         all_params=['dummy']),
]


TARGETS = [
    dict(file='AegeanTools/fits_tools.py', func='compress', mode='int',
         params={'rows': 'N', 'cols': 'N', 'factor': 'N'},
         subst={"data.shape[0]": 'rows', "data.shape[1]": 'cols'},
         outputs=[('nx', 'nxOf'), ('ny', 'nyOf'), ('lcx', 'lcxOf'), ('lcy', 'lcyOf')],
         fallback={'nxOf': 'def nxOf (rows cols factor : Nat) : Nat := Aegean.Model.C15.nNodesHand rows factor',
                   'nyOf': 'def nyOf (rows cols factor : Nat) : Nat := Aegean.Model.C15.nNodesHand cols factor',
                   'lcxOf': 'def lcxOf (rows cols factor : Nat) : Nat := rows % factor',
                   'lcyOf': 'def lcyOf (rows cols factor : Nat) : Nat := cols % factor'},
         all_params=['rows', 'cols', 'factor']),
    dict(file='AegeanTools/fits_tools.py', func='expand', mode='int',
         params={'k': 'N', 'rpx1': 'N', 'rpx2': 'N', 'factor': 'N'},
         subst={"np.arange(data.shape[0])": 'k', "np.arange(data.shape[1])": 'k',
                "header['BN_RPX1']": 'rpx1', "header['BN_RPX2']": 'rpx2', "header['BN_CFAC']": 'factor'},
         outputs=[('rows', 'nodeRow'), ('cols', 'nodeCol')],
         fallback={'nodeRow': 'def nodeRow (k rpx1 rpx2 factor : Nat) : Nat := Aegean.Model.C15.nodeHand k rpx2 factor',
                   'nodeCol': 'def nodeCol (k rpx1 rpx2 factor : Nat) : Nat := Aegean.Model.C15.nodeHand k rpx1 factor'},
         all_params=['k', 'rpx1', 'rpx2', 'factor']),
]
TARGETS += _NEW
