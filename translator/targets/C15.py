"""C15: the index arithmetic of fits_tools.compress (grid size, residuals) and of fits_tools.expand
(node coordinates).

compress: `cx, cy = data.shape[0], data.shape[1]` are the inputs `rows`, `cols`; outputs are the
final values of nx, ny (number of decimation nodes per axis, after the `if lcx > 0: nx += 1`
merge) and lcx, lcy (what is written to BN_RPX1 / BN_RPX2).

expand: `rows = (np.arange(data.shape[0]) + int(lcx/factor))*factor` is translated element-wise:
the array `np.arange(data.shape[0])` is replaced by its k-th element `k`, so `nodeRow k rpx1 rpx2 factor`
is the coordinate given to the k-th compressed row.  `lcx/factor` is Python float division and
`int(...)` truncation, so the generated definition goes through `Float` exactly as the code does;
`Properties/C15.lean` proves (kernel evaluation, all factors 1..64 and all residuals < factor) that
this offset is 0, and proves everything else for every factor about the offset-free coordinate.
"""
TARGETS = [
    dict(file='AegeanTools/fits_tools.py', func='compress', mode='int',
         params={'rows': 'N', 'cols': 'N', 'factor': 'N'},
         subst={"data.shape[0]": 'rows', "data.shape[1]": 'cols'},
         outputs=[('nx', 'nxOf'), ('ny', 'nyOf'), ('lcx', 'lcxOf'), ('lcy', 'lcyOf')],
         fallback={'nxOf': 'def nxOf (rows cols factor : Nat) : Nat := Aegean.Model.C15.nNodesHand rows factor',
                   'nyOf': 'def nyOf (rows cols factor : Nat) : Nat := Aegean.Model.C15.nNodesHand cols factor',
                   'lcxOf': 'def lcxOf (rows cols factor : Nat) : Nat := rows % factor',
                   'lcyOf': 'def lcyOf (rows cols factor : Nat) : Nat := cols % factor'},
         all_params=['rows', 'cols', 'factor']),
    dict(file='AegeanTools/fits_tools.py', func='expand', mode='int',
         params={'k': 'N', 'rpx1': 'N', 'rpx2': 'N', 'factor': 'N'},
         subst={"np.arange(data.shape[0])": 'k', "np.arange(data.shape[1])": 'k',
                "header['BN_RPX1']": 'rpx1', "header['BN_RPX2']": 'rpx2', "header['BN_CFAC']": 'factor'},
         outputs=[('rows', 'nodeRow'), ('cols', 'nodeCol')],
         fallback={'nodeRow': 'def nodeRow (k rpx1 rpx2 factor : Nat) : Nat := Aegean.Model.C15.nodeHand k rpx2 factor',
                   'nodeCol': 'def nodeCol (k rpx1 rpx2 factor : Nat) : Nat := Aegean.Model.C15.nodeHand k rpx1 factor'},
         all_params=['k', 'rpx1', 'rpx2', 'factor']),
]
