"""C11: the region test of source_finder.find_islands, sliced (uses the structural reader of targets/C02.py).

  probeX r c row0 col0 / probeY r c row0 col0 / probeOrigin
        the two coordinates handed to `wcs…pix2world(xy, origin)` for the pixel at offsets (r, c) (the two arrays
        returned by `np.where(<mask>)`, in that order) inside the island's box, whose first row / first column in the
        image are row0 / col0 (`boxes[i][0].start`, `boxes[i][1].start`), and the origin argument
  probeFull
        1 iff the entry point is `all_pix2world` (core WCS + SIP / distortion terms), 0 iff `wcs_pix2world` (core WCS only)
  probeScope
        1 iff `<mask>` is the island's own pixels (`labels[box] == <label>`), 0 iff it is a threshold mask of the whole box

The coordinate list may be written `list(zip(A, B))`, `np.column_stack((A, B))`, `np.array([A, B]).T`,
`np.transpose([A, B])` or `np.stack([A, B], axis=1)`; names are followed through simple aliases.  Everything else
is UNTRANSLATABLE (the hand definitions of Aegean/Model/C11.lean stand in).
"""
import ast
import copy
import importlib.util
import os

_here = os.path.dirname(os.path.abspath(__file__))
_spec = importlib.util.spec_from_file_location('targets_C02_for_C11', os.path.join(_here, 'C02.py'))
_c02 = importlib.util.module_from_spec(_spec)
_spec.loader.exec_module(_c02)
_Bad, Reader, _names = _c02._Bad, _c02.Reader, _c02._names
_F = _c02._F


def _pair(rd, node):
    """(A, B) from the recognised spellings of an N x 2 coordinate list"""
    node = rd.inline(node)
    if isinstance(node, ast.Name):
        vs = rd.assign.get(node.id, [])
        if len(vs) != 1:
            raise _Bad('coordinate list assigned more than once')
        return _pair(rd, vs[0])
    if isinstance(node, ast.Call):
        f = ast.unparse(node.func).split('.')[-1]
        if f == 'list' and len(node.args) == 1:
            return _pair(rd, node.args[0])
        if f == 'zip' and len(node.args) == 2:
            return node.args[0], node.args[1]
        if f == 'column_stack' and len(node.args) == 1 and isinstance(node.args[0], (ast.Tuple, ast.List)) and len(node.args[0].elts) == 2:
            return tuple(node.args[0].elts)
        if f == 'transpose' and len(node.args) == 1 and isinstance(node.args[0], (ast.Tuple, ast.List)) and len(node.args[0].elts) == 2:
            return tuple(node.args[0].elts)
        if f == 'stack' and len(node.args) == 1 and isinstance(node.args[0], (ast.Tuple, ast.List)) and len(node.args[0].elts) == 2 \
                and [ast.unparse(k.value) for k in node.keywords if k.arg == 'axis'] in (['1'], ['-1']):
            return tuple(node.args[0].elts)
    if isinstance(node, ast.Attribute) and node.attr == 'T' and isinstance(node.value, ast.Call) \
            and ast.unparse(node.value.func).split('.')[-1] in ('array', 'asarray') and len(node.value.args) == 1 \
            and isinstance(node.value.args[0], (ast.Tuple, ast.List)) and len(node.value.args[0].elts) == 2:
        return tuple(node.value.args[0].elts)
    raise _Bad('coordinate list not recognised: ' + ast.unparse(node)[:60])


def _box_starts(rd):
    """names holding the first row / first column of the island's box"""
    row0 = col0 = None
    for n in ast.walk(rd.loop):
        if not (isinstance(n, ast.Assign) and len(n.targets) == 1):
            continue
        tg, val = n.targets[0], n.value
        pairs = []
        if isinstance(tg, ast.Tuple) and isinstance(val, ast.Tuple) and len(tg.elts) == len(val.elts):
            pairs = list(zip(tg.elts, val.elts))
        elif isinstance(tg, ast.Name):
            pairs = [(tg, val)]
        for t, v in pairs:
            if not (isinstance(t, ast.Name) and isinstance(v, ast.Attribute) and v.attr == 'start'):
                continue
            src = ast.unparse(v.value)
            axis = None
            if rd.slices and src in rd.slices:
                axis = rd.slices.index(src)
            else:
                base = [f'{rd.boxes}[{rd.ivar}]'] if rd.boxes else []
                if rd.boxvar:
                    base.append(rd.boxvar)
                if rd.boxes and rd.start:
                    base = [f'{rd.boxes}[{rd.ivar} - {rd.start}]'] + ([rd.boxvar] if rd.boxvar else [])
                for b in base:
                    if src == f'{b}[0]':
                        axis = 0
                    elif src == f'{b}[1]':
                        axis = 1
            if axis == 0:
                row0 = t.id
            elif axis == 1:
                col0 = t.id
    if row0 is None or col0 is None:
        raise _Bad('box origin not recognised')
    return row0, col0


def _probe(rd):
    rd.need_loop()
    calls = [n for n in ast.walk(rd.loop) if isinstance(n, ast.Call) and ast.unparse(n.func).split('.')[-1].endswith('pix2world')]
    if len(calls) != 1 or len(calls[0].args) < 2:
        raise _Bad(f'{len(calls)} pix2world calls in the loop')
    call = calls[0]
    org = call.args[1]
    if not (isinstance(org, ast.Constant) and isinstance(org.value, int) and org.value >= 0):
        raise _Bad('origin is not a literal')
    A, B = _pair(rd, call.args[0])
    # r, c = np.where(mask)
    wh = None
    for n in ast.walk(rd.loop):
        if isinstance(n, ast.Assign) and len(n.targets) == 1 and isinstance(n.targets[0], ast.Tuple) \
                and len(n.targets[0].elts) == 2 and all(isinstance(e, ast.Name) for e in n.targets[0].elts) \
                and isinstance(n.value, ast.Call) and ast.unparse(n.value.func).split('.')[-1] in ('where', 'nonzero') \
                and len(n.value.args) == 1:
            names = {e.id for e in n.targets[0].elts}
            if names & (_names(A) | _names(B)):
                if wh is not None:
                    raise _Bad('two np.where calls feed the coordinates')
                wh = n
    if wh is None:
        raise _Bad('np.where(...) feeding the coordinates not found')
    rname, cname = (e.id for e in wh.targets[0].elts)
    row0, col0 = _box_starts(rd)
    allowed = {rname: 'r', cname: 'c', row0: 'row0', col0: 'col0'}
    for e in (A, B):
        extra = _names(e) - set(allowed)
        if extra:
            raise _Bad(f'coordinate expression uses {sorted(extra)}')
    px, py = _c02._rewrite(A, names=allowed), _c02._rewrite(B, names=allowed)
    # scope of the mask
    m = rd.inline(wh.value.args[0])
    if rd.is_label_select(m, ast.Eq) is not None:
        scope = 1
    elif isinstance(m, ast.Compare) and rd.flood in _names(m) and rd.labels not in _names(m):
        scope = 0
    else:
        raise _Bad('mask of the probed pixels not recognised')
    fname = ast.unparse(call.func).split('.')[-1]
    if fname not in ('all_pix2world', 'wcs_pix2world'):
        raise _Bad('pixel -> sky entry point ' + fname)
    full = 1 if fname == 'all_pix2world' else 0     # all_ = core WCS + SIP / distortions, wcs_ = core WCS only
    return px, py, org.value, scope, full


def slice_text(repo):
    try:
        import warnings
        with warnings.catch_warnings():
            warnings.simplefilter('ignore')          # the source may contain '\\s' in plain strings
            tree = ast.parse(open(os.path.join(repo, _F)).read())
        fn = [n for n in tree.body if isinstance(n, ast.FunctionDef) and n.name == 'find_islands'][0]
        px, py, org, scope, full = _probe(Reader(fn))
        body = [f"px = {px}", f"py = {py}", f"origin = {org}", f"scope = {scope}", f"full = {full}"]
    except Exception as exc:
        body = [f"px = untranslatable({str(exc)!r})", "py = px", "origin = px", "scope = px", "full = px"]
    return "def probe(r, c, row0, col0):\n" + "\n".join("    " + l for l in body) + "\n    return px\n"


_S = _c02.scratch('region_probe_', slice_text(os.environ.get('AEGEAN_REPO', '/repo')))
_M = 'Aegean.Model.C11.'
_P = ['r', 'c', 'row0', 'col0']


def _fb(name, hand):
    return f"def {name} (r c row0 col0 : Nat) : Nat := {_M}{hand} r c row0 col0"


TARGETS = [
    dict(file=_S, func='probe', mode='int', params={p: 'N' for p in _P},
         outputs=[('px', 'probeX'), ('py', 'probeY'), ('origin', 'probeOrigin'), ('scope', 'probeScope'), ('full', 'probeFull')],
         fallback={'probeX': _fb('probeX', 'probeXHand'), 'probeY': _fb('probeY', 'probeYHand'),
                   'probeOrigin': _fb('probeOrigin', 'probeOriginHand'), 'probeScope': _fb('probeScope', 'probeScopeHand'),
                   'probeFull': _fb('probeFull', 'probeFullHand')},
         all_params=_P),
]
