"""C19: the linking-length conversion at both call sites and the `resize` ratio formula.

* `CLI/AeReg.py:main`                       `eps = <expr in options.eps>`            -> Gen.C19.epsAeReg
* `source_finder.py:priorized_fit_islands`  `regroup_eps = <expr in regroup_eps>`    -> Gen.C19.epsSF
  (every read of `regroup_eps` is the model input `eps_arcmin`: the linking length in arcmin *after*
  the default `4*mean(a)/60` has been filled in)
* `cluster.py:resize`, ratio branch         `src.a = <expr>`, `src.b = <expr>`       -> Gen.C19.resizeA/B

The translator only binds plain names, and merges `if` branches; the ratio formula assigns to
attributes (`src.a = …`) inside `if ratio is not None: for …:`.  `_slice_resize` therefore cuts that
loop body out of the *current* source with `ast` (no evaluation, no rewriting of arithmetic), renames
`src.a, src.b, src.psf_a, src.psf_b` to plain names and hands the resulting three-line function to the
ordinary translator.  If the shape of the source changes so that the slice cannot be taken, the target
falls back to the hand formula and the evidence says UNTRANSLATABLE (the correspondence still ties the
function to the code).
"""
import ast
import atexit
import os
import tempfile

_H = 'Aegean.Model.C19'
_REPO = os.environ.get('AEGEAN_REPO', '/repo')


class _Rename(ast.NodeTransformer):
    def __init__(self, obj, fields):
        self.obj, self.fields = obj, fields

    def visit_Attribute(self, node):
        self.generic_visit(node)
        if isinstance(node.value, ast.Name) and node.value.id == self.obj and node.attr in self.fields:
            return ast.copy_location(ast.Name(id=node.attr, ctx=node.ctx), node)
        return node


def _slice_resize(repo):
    """body of `for i, src in enumerate(catalog)` under `if ratio is not None:` in cluster.resize,
    as a stand-alone function over plain names; '' if it cannot be found"""
    try:
        tree = ast.parse(open(os.path.join(repo, 'AegeanTools', 'cluster.py')).read())
        fn = [n for n in ast.walk(tree) if isinstance(n, ast.FunctionDef) and n.name == 'resize'][0]
        branch = [n for n in ast.walk(fn) if isinstance(n, ast.If) and ast.unparse(n.test) == 'ratio is not None'][0]
        loops = [n for n in branch.body if isinstance(n, ast.For)]
        loop = loops[0]
        # the loop variable holding the source object: `for i, src in enumerate(catalog)` or `for src in catalog`
        tgt = loop.target
        obj = tgt.elts[-1].id if isinstance(tgt, ast.Tuple) else tgt.id
        body = []
        for st in loop.body:
            if isinstance(st, ast.Assign):
                body.append(_Rename(obj, {'a', 'b', 'psf_a', 'psf_b'}).visit(st))
        # statements of the branch before the loop (e.g. a hoisted `scale = 1 - 1/ratio**2`)
        pre = [st for st in branch.body if isinstance(st, ast.Assign) and st.lineno < loop.lineno]
        f = ast.FunctionDef(name='resize_ratio_slice',
                            args=ast.arguments(posonlyargs=[], args=[ast.arg(arg=a) for a in
                                                                     ['a', 'b', 'psf_a', 'psf_b', 'ratio']],
                                               kwonlyargs=[], kw_defaults=[], defaults=[]),
                            body=pre + body + [ast.Return(value=ast.Constant(value=None))],
                            decorator_list=[], type_params=[])
        mod = ast.Module(body=[f], type_ignores=[])
        ast.fix_missing_locations(mod)
        return ast.unparse(mod) + "\n"
    except Exception:  # noqa: BLE001 - any surprise means "cannot slice", reported as UNTRANSLATABLE
        return ''


def _slice_file():
    fd, path = tempfile.mkstemp(prefix='verif-C19-slice-', suffix='.py')
    with os.fdopen(fd, 'w') as f:
        f.write("# sliced from cluster.resize (ratio branch) by translator/targets/C19.py\n" + _slice_resize(_REPO))
    atexit.register(lambda p=path: os.path.exists(p) and os.unlink(p))
    return path


def _fb(name, hand, args):
    sig = " ".join(args)
    return f'def {name} {{α : Type}} [R α] ({sig} : α) : α := {_H}.{hand}'


_RP = ['a', 'b', 'psf_a', 'psf_b', 'ratio']

TARGETS = [
    dict(file='AegeanTools/CLI/AeReg.py', func='main', mode='real',
         params={'eps_arcmin': 'A'}, subst={'options.eps': 'eps_arcmin'},
         outputs=[('eps', 'epsAeReg')],
         fallback={'epsAeReg': _fb('epsAeReg', 'epsHand eps_arcmin', ['eps_arcmin'])},
         all_params=['eps_arcmin']),
    dict(file='AegeanTools/source_finder.py', func='priorized_fit_islands', mode='real',
         params={'eps_arcmin': 'A'}, subst={'regroup_eps': 'eps_arcmin'},
         outputs=[('regroup_eps', 'epsSF')],
         fallback={'epsSF': _fb('epsSF', 'epsHand eps_arcmin', ['eps_arcmin'])},
         all_params=['eps_arcmin']),
    # absolute path: os.path.join(repo, <absolute>) is the absolute path
    dict(file=_slice_file(), func='resize_ratio_slice', mode='real',
         params={p: 'A' for p in _RP}, subst={},
         outputs=[('a', 'resizeA'), ('b', 'resizeB')],
         fallback={'resizeA': _fb('resizeA', 'resizeHand a psf_a ratio', _RP),
                   'resizeB': _fb('resizeB', 'resizeHand b psf_b ratio', _RP)},
         all_params=_RP),
]
