"""C19: the linking-length conversion at both call sites and the `resize` ratio formula.

* `CLI/AeReg.py:main`                       `eps = <expr in options.eps>`            -> Gen.C19.epsAeReg
* `source_finder.py:priorized_fit_islands`  `regroup_eps = <expr in regroup_eps>`    -> Gen.C19.epsSF
  (every read of `regroup_eps` is the model input `eps_arcmin`: the linking length in arcmin *after*
  the default `4*mean(a)/60` has been filled in)
* `cluster.py:resize`, ratio branch         `src.a = <expr>`, `src.b = <expr>`       -> Gen.C19.resizeA/B
* `cluster.py:regroup_dbscan`               the three columns of the array given to DBSCAN     -> Gen.C19.vec0/vec1/vec2
  (the unit-vector embedding of a row `(ra, dec)` in degrees; `_slice_embed` finds the variable passed to `.fit(…)`,
  the three names it is assembled from, and keeps the straight-line assignments before it, with every
  `np.array([s.ra for s in srccat])`-like column extraction replaced by the scalar inputs `ra_deg` / `dec_deg`;
  anything else — more or fewer than three columns, a cast or call wrapped around a column — is UNTRANSLATABLE)

The translator only binds plain names, and merges `if` branches; the ratio formula assigns to
attributes (`src.a = …`) inside `if ratio is not None: for …:`.  `_slice_resize` therefore cuts that
loop body out of the *current* source with `ast` (no evaluation, no rewriting of arithmetic), renames
`src.a, src.b, src.psf_a, src.psf_b` to plain names and hands the resulting three-line function to the
ordinary translator.  If the shape of the source changes so that the slice cannot be taken, the target
falls back to the hand formula and the evidence says UNTRANSLATABLE (the correspondence still ties the
function to the code).
"""
import ast
import atexit
import os
import tempfile

_H = 'Aegean.Model.C19'
_REPO = os.environ.get('AEGEAN_REPO', '/repo')


class _Rename(ast.NodeTransformer):
    def __init__(self, obj, fields):
        self.obj, self.fields = obj, fields

    def visit_Attribute(self, node):
        self.generic_visit(node)
        if isinstance(node.value, ast.Name) and node.value.id == self.obj and node.attr in self.fields:
            return ast.copy_location(ast.Name(id=node.attr, ctx=node.ctx), node)
        return node


def _slice_resize(repo):
    """body of `for i, src in enumerate(catalog)` under `if ratio is not None:` in cluster.resize,
    as a stand-alone function over plain names; '' if it cannot be found"""
    try:
        tree = ast.parse(open(os.path.join(repo, 'AegeanTools', 'cluster.py')).read())
        fn = [n for n in ast.walk(tree) if isinstance(n, ast.FunctionDef) and n.name == 'resize'][0]
        branch = [n for n in ast.walk(fn) if isinstance(n, ast.If) and ast.unparse(n.test) == 'ratio is not None'][0]
        loops = [n for n in branch.body if isinstance(n, ast.For)]
        loop = loops[0]
        # the loop variable holding the source object: `for i, src in enumerate(catalog)` or `for src in catalog`
        tgt = loop.target
        obj = tgt.elts[-1].id if isinstance(tgt, ast.Tuple) else tgt.id
        body = []
        for st in loop.body:
            if isinstance(st, ast.Assign):
                body.append(_Rename(obj, {'a', 'b', 'psf_a', 'psf_b'}).visit(st))
        # statements of the branch before the loop (e.g. a hoisted `scale = 1 - 1/ratio**2`)
        pre = [st for st in branch.body if isinstance(st, ast.Assign) and st.lineno < loop.lineno]
        f = ast.FunctionDef(name='resize_ratio_slice',
                            args=ast.arguments(posonlyargs=[], args=[ast.arg(arg=a) for a in
                                                                     ['a', 'b', 'psf_a', 'psf_b', 'ratio']],
                                               kwonlyargs=[], kw_defaults=[], defaults=[]),
                            body=pre + body + [ast.Return(value=ast.Constant(value=None))],
                            decorator_list=[], type_params=[])
        mod = ast.Module(body=[f], type_ignores=[])
        ast.fix_missing_locations(mod)
        return ast.unparse(mod) + "\n"
    except Exception:  # noqa: BLE001 - any surprise means "cannot slice", reported as UNTRANSLATABLE
        return ''



class _Columns(ast.NodeTransformer):
    """`np.array([s.ra for s in srccat])`, `np.asarray(...)`, a bare list/generator comprehension over `.ra` / `.dec`
    -> the scalar model inputs `ra_deg` / `dec_deg`"""
    MAP = {'ra': 'ra_deg', 'dec': 'dec_deg'}

    @staticmethod
    def _comp_attr(node):
        if isinstance(node, (ast.ListComp, ast.GeneratorExp)) and len(node.generators) == 1 \
                and not node.generators[0].ifs and isinstance(node.elt, ast.Attribute) \
                and isinstance(node.elt.value, ast.Name) and isinstance(node.generators[0].target, ast.Name) \
                and node.elt.value.id == node.generators[0].target.id and node.elt.attr in _Columns.MAP:
            return _Columns.MAP[node.elt.attr]
        return None

    def visit_Call(self, node):
        f = node.func
        if isinstance(f, ast.Attribute) and isinstance(f.value, ast.Name) and f.value.id in ('np', 'numpy') \
                and f.attr in ('array', 'asarray', 'fromiter') and node.args and not node.keywords:
            nm = self._comp_attr(node.args[0])
            if nm and len(node.args) == 1:
                return ast.copy_location(ast.Name(id=nm, ctx=ast.Load()), node)
        self.generic_visit(node)
        return node

    def visit_ListComp(self, node):
        nm = self._comp_attr(node)
        return ast.copy_location(ast.Name(id=nm, ctx=ast.Load()), node) if nm else node


def _column_names(rhs):
    """names of the per-row columns an `np.hstack([x[:, None], …])` / `np.column_stack((x, y, z))` /
    `np.array([x, y, z]).T` right-hand side is assembled from; None if the shape is not recognised"""
    node = rhs
    if isinstance(node, ast.Attribute) and node.attr == 'T':
        node = node.value
    if not (isinstance(node, ast.Call) and isinstance(node.func, ast.Attribute) and isinstance(node.func.value, ast.Name)
            and node.func.value.id in ('np', 'numpy') and node.func.attr in ('hstack', 'column_stack', 'stack', 'array', 'vstack')
            and len(node.args) >= 1 and isinstance(node.args[0], (ast.List, ast.Tuple))):
        return None
    if node.func.attr in ('array', 'vstack') and not (isinstance(rhs, ast.Attribute) and rhs.attr == 'T'):
        return None                      # rows, not columns
    for kw in node.keywords:
        if not (kw.arg == 'axis' and isinstance(kw.value, ast.Constant) and kw.value.value in (1, -1)):
            return None
    if node.func.attr == 'stack' and not node.keywords:
        return None
    names = []
    for e in node.args[0].elts:
        if isinstance(e, ast.Subscript) and isinstance(e.value, ast.Name):       # x[:, None]
            sl = e.slice
            ok = isinstance(sl, ast.Tuple) and len(sl.elts) == 2 and isinstance(sl.elts[0], ast.Slice) \
                and sl.elts[0].lower is None and sl.elts[0].upper is None and sl.elts[0].step is None \
                and ((isinstance(sl.elts[1], ast.Constant) and sl.elts[1].value is None)
                     or (isinstance(sl.elts[1], ast.Attribute) and sl.elts[1].attr == 'newaxis'))
            if not ok:
                return None
            names.append(e.value.id)
        elif isinstance(e, ast.Name):
            names.append(e.id)
        else:
            return None                  # a call / cast / arithmetic wrapped around a column: refuse
    return names


def _straight_prefix(stmts):
    """the Assign/AugAssign statements of a straight-line prefix (docstrings, logging and guard clauses skipped);
    None if anything else (loop, try, with, branching assignment) occurs"""
    body = []
    for st in stmts:
        if isinstance(st, (ast.Assign, ast.AugAssign)):
            body.append(st)
        elif isinstance(st, ast.Expr):
            continue
        elif isinstance(st, ast.If) and all(isinstance(b, (ast.Return, ast.Raise, ast.Expr)) for b in st.body) and not st.orelse:
            continue
        else:
            return None
    return body


def _single_assignment(stmts, var):
    """(index, rhs) of the only top-level assignment to `var` in stmts, which must not be stored to anywhere else"""
    idx = [k for k, st in enumerate(stmts) if isinstance(st, ast.Assign) and len(st.targets) == 1
           and isinstance(st.targets[0], ast.Name) and st.targets[0].id == var]
    stores = [n for st in stmts for n in ast.walk(st) if isinstance(n, ast.Name) and n.id == var and isinstance(n.ctx, ast.Store)]
    if len(idx) != 1 or len(stores) != 1:
        return None
    return idx[0], stmts[idx[0]].value


def _slice_embed(repo):
    """the straight-line code that builds the array `regroup_dbscan` gives to DBSCAN, as a function of one row
    (ra_deg, dec_deg) whose last three assignments name the three columns; '' if it cannot be cut out.
    Recognised: the array assembled in regroup_dbscan itself, or by a straight-line module-level helper called as
    `X = helper(srccat)` / `.fit(helper(srccat))` that ends in `return <stack>` or `X = <stack>; return X`."""
    try:
        tree = ast.parse(open(os.path.join(repo, 'AegeanTools', 'cluster.py')).read())
        funcs = {n.name: n for n in tree.body if isinstance(n, ast.FunctionDef)}
        fn = funcs['regroup_dbscan']
        fits = [n for n in ast.walk(fn) if isinstance(n, ast.Call) and isinstance(n.func, ast.Attribute)
                and n.func.attr in ('fit', 'fit_predict') and len(n.args) == 1]
        if len(fits) != 1:
            return ''
        arg = fits[0].args[0]
        stmts = list(fn.body)
        if isinstance(arg, ast.Name):
            r = _single_assignment(stmts, arg.id)
            if r is None:
                return ''                # assembled in a branch, re-assigned (e.g. cast afterwards), …: refuse
            pre, rhs = stmts[:r[0]], r[1]
        else:
            pre, rhs = [], arg
        if isinstance(rhs, ast.Call) and isinstance(rhs.func, ast.Name) and rhs.func.id in funcs \
                and len(rhs.args) == 1 and isinstance(rhs.args[0], ast.Name) and not rhs.keywords:
            helper = funcs[rhs.func.id]
            if len(helper.args.args) != 1 or helper.args.vararg or helper.args.kwarg or helper.decorator_list:
                return ''
            hb = [st for st in helper.body if not (isinstance(st, ast.Expr) and isinstance(st.value, ast.Constant))]
            if not hb or not isinstance(hb[-1], ast.Return) or hb[-1].value is None:
                return ''
            if any(isinstance(n, ast.Return) for st in hb[:-1] for n in ast.walk(st) if not isinstance(st, ast.If)):
                return ''
            ret = hb[-1].value
            if isinstance(ret, ast.Name):
                r = _single_assignment(hb[:-1], ret.id)
                if r is None:
                    return ''
                pre, rhs = hb[:r[0]], r[1]
            else:
                pre, rhs = hb[:-1], ret
        cols = _column_names(rhs)
        if cols is None or len(cols) != 3:
            return ''
        body = _straight_prefix(pre)
        if body is None:
            return ''
        body = [_Columns().visit(st) for st in body]
        for k, c in enumerate(cols):
            body.append(ast.Assign(targets=[ast.Name(id=f'col{k}', ctx=ast.Store())], value=ast.Name(id=c, ctx=ast.Load())))
        f = ast.FunctionDef(name='embed_slice',
                            args=ast.arguments(posonlyargs=[], args=[ast.arg(arg='ra_deg'), ast.arg(arg='dec_deg')],
                                               kwonlyargs=[], kw_defaults=[], defaults=[]),
                            body=body + [ast.Return(value=ast.Constant(value=None))], decorator_list=[], type_params=[])
        mod = ast.Module(body=[f], type_ignores=[])
        ast.fix_missing_locations(mod)
        return ast.unparse(mod) + "\n"
    except Exception:  # noqa: BLE001
        return ''


def _slice_file2():
    fd, path = tempfile.mkstemp(prefix='verif-C19-embed-', suffix='.py')
    with os.fdopen(fd, 'w') as f:
        f.write("# sliced from cluster.regroup_dbscan by translator/targets/C19.py\n" + _slice_embed(_REPO))
    atexit.register(lambda p=path: os.path.exists(p) and os.unlink(p))
    return path


def _slice_file():
    fd, path = tempfile.mkstemp(prefix='verif-C19-slice-', suffix='.py')
    with os.fdopen(fd, 'w') as f:
        f.write("# sliced from cluster.resize (ratio branch) by translator/targets/C19.py\n" + _slice_resize(_REPO))
    atexit.register(lambda p=path: os.path.exists(p) and os.unlink(p))
    return path


def _fb(name, hand, args):
    sig = " ".join(args)
    return f'def {name} {{α : Type}} [R α] ({sig} : α) : α := {_H}.{hand}'


_RP = ['a', 'b', 'psf_a', 'psf_b', 'ratio']

TARGETS = [
    dict(file='AegeanTools/CLI/AeReg.py', func='main', mode='real',
         params={'eps_arcmin': 'A'}, subst={'options.eps': 'eps_arcmin'},
         outputs=[('eps', 'epsAeReg')],
         fallback={'epsAeReg': _fb('epsAeReg', 'epsHand eps_arcmin', ['eps_arcmin'])},
         all_params=['eps_arcmin']),
    dict(file='AegeanTools/source_finder.py', func='priorized_fit_islands', mode='real',
         params={'eps_arcmin': 'A'}, subst={'regroup_eps': 'eps_arcmin'},
         outputs=[('regroup_eps', 'epsSF')],
         fallback={'epsSF': _fb('epsSF', 'epsHand eps_arcmin', ['eps_arcmin'])},
         all_params=['eps_arcmin']),
    # absolute path: os.path.join(repo, <absolute>) is the absolute path
    dict(file=_slice_file(), func='resize_ratio_slice', mode='real',
         params={p: 'A' for p in _RP}, subst={},
         outputs=[('a', 'resizeA'), ('b', 'resizeB')],
         fallback={'resizeA': _fb('resizeA', 'resizeHand a psf_a ratio', _RP),
                   'resizeB': _fb('resizeB', 'resizeHand b psf_b ratio', _RP)},
         all_params=_RP),
    dict(file=_slice_file2(), func='embed_slice', mode='real',
         params={'ra_deg': 'A', 'dec_deg': 'A'}, subst={},
         outputs=[('col0', 'vec0'), ('col1', 'vec1'), ('col2', 'vec2')],
         fallback={'vec0': _fb('vec0', 'vec0Hand ra_deg dec_deg', ['ra_deg', 'dec_deg']),
                   'vec1': _fb('vec1', 'vec1Hand ra_deg dec_deg', ['ra_deg', 'dec_deg']),
                   'vec2': _fb('vec2', 'vec2Hand ra_deg dec_deg', ['ra_deg', 'dec_deg'])},
         all_params=['ra_deg', 'dec_deg']),
]
