"""C03 translation targets (int mode): the island-numbering arithmetic of priorized fitting.

* `source_finder.py:priorized_fit_islands`   `group_size = <literal>`                       -> Gen.C03.groupSize
* `source_finder.py:priorized_fit_islands`   `self._refit_islands(g, …, istart=<expr>)`     -> Gen.C03.istart i group_size

`istart` is a keyword argument of a call, not an assignment, and the translator only binds plain
names.  `_slice_istart` therefore cuts the keyword's expression out of the *current* source with `ast`
(no evaluation, no rewriting of the arithmetic), renames the loop variable of the enclosing
`for <i>, g in enumerate(island_groups)` to `i`, and hands the two-line function

    def istart_slice(i, group_size):
        istart = <expr>

to the ordinary translator.  If the shape of the source changes so that the slice cannot be taken (no
such call, positional argument, expression over other names) the target falls back to the hand
formula `i * group_size` and the evidence says UNTRANSLATABLE; the correspondence (ids observed in
real priorized runs with > 20 groups) still ties the numbering to the code.
"""
import ast
import atexit
import os
import tempfile

_REPO = os.environ.get('AEGEAN_REPO', '/repo')
_SF = 'AegeanTools/source_finder.py'


class _RenameVar(ast.NodeTransformer):
    def __init__(self, old, new):
        self.old, self.new = old, new

    def visit_Name(self, node):
        if node.id == self.old:
            return ast.copy_location(ast.Name(id=self.new, ctx=node.ctx), node)
        return node


def _slice_istart(repo):
    try:
        tree = ast.parse(open(os.path.join(repo, _SF)).read())
        fn = [n for n in ast.walk(tree) if isinstance(n, ast.FunctionDef) and n.name == 'priorized_fit_islands'][0]
        hit = None
        for loop in [n for n in ast.walk(fn) if isinstance(n, ast.For)]:
            for call in [c for c in ast.walk(loop) if isinstance(c, ast.Call)]:
                f = call.func
                if isinstance(f, ast.Attribute) and f.attr == '_refit_islands':
                    hit = (loop, call)
        loop, call = hit
        kws = [k for k in call.keywords if k.arg == 'istart']
        expr = kws[0].value if kws else call.args[3]
        # loop variable that counts the batches: `for i, g in enumerate(island_groups)`
        tgt = loop.target
        var = tgt.elts[0].id if isinstance(tgt, ast.Tuple) else tgt.id
        expr = _RenameVar(var, 'i').visit(expr)
        # statements inside the loop, before the call, that assign plain names (e.g. `istart = i * group_size`)
        pre = [_RenameVar(var, 'i').visit(st) for st in loop.body
               if isinstance(st, ast.Assign) and st.lineno < call.lineno]
        body = pre + [ast.Assign(targets=[ast.Name(id='istart__', ctx=ast.Store())], value=expr),
                      ast.Return(value=ast.Constant(value=None))]
        f = ast.FunctionDef(name='istart_slice',
                            args=ast.arguments(posonlyargs=[], args=[ast.arg(arg='i'), ast.arg(arg='group_size')],
                                               kwonlyargs=[], kw_defaults=[], defaults=[]),
                            body=body, decorator_list=[], type_params=[])
        mod = ast.Module(body=[f], type_ignores=[])
        ast.fix_missing_locations(mod)
        return ast.unparse(mod) + "\n"
    except Exception:  # noqa: BLE001 - any surprise means "cannot slice", reported as UNTRANSLATABLE
        return ''


def _slice_file():
    fd, path = tempfile.mkstemp(prefix='verif-C03-slice-', suffix='.py')
    with os.fdopen(fd, 'w') as f:
        f.write("# sliced from source_finder.priorized_fit_islands by translator/targets/C03.py\n" + _slice_istart(_REPO))
    atexit.register(lambda p=path: os.path.exists(p) and os.unlink(p))
    return path


# ------------------------------------------------------------------------------------------------
# range helpers: pa_limit (two while loops), fix_shape (attribute swaps under an if), the RA wrap and the
# int_flux expression of result_to_components, WCSHelper.get_beamarea_pix.
#
# The translator handles straight-line arithmetic over plain names.  `_slice_ranges` cuts the arithmetic out of
# the *current* source with `ast` (no evaluation, no rewriting of the arithmetic):
#   * `while pa <cmp> <bound>: pa <op>= <step>`  ->  `<which>_bound = <bound>` and `<which>_next = pa <op> <step>`;
#     the comparison operator is recorded as a literal (1 = closed: <= / >=, 0 = strict: < / >) — the loop itself
#     is re-assembled in Lean (Model/C03Gen.lean: fuel-indexed recursion on these pieces);
#   * `if source.a < source.b: <swaps>; source.pa += 90`  ->  the swapped branch over plain names a, b, pa, err_a, err_b;
#   * `if source.ra < 0: source.ra += 360`  (first occurrence in result_to_components)  ->  wrap_bound, wrap_next;
#   * `source.int_flux = …; source.int_flux /= <…>.get_beamarea_pix(…)`  ->  int_flux over peak_flux, sx, sy, CC2FHWM,
#     `pi_` (np.pi, a parameter: `R.pi` is substituted in the theorems) and beam_area_pix (the call's result);
#   * `return a * b * np.pi` of get_beamarea_pix  ->  beam_area over a, b, pi_.
# Anything of another shape makes the slice empty for that piece -> UNTRANSLATABLE -> hand fallback + correspondence.

def _fn(tree, name):
    return [n for n in ast.walk(tree) if isinstance(n, ast.FunctionDef) and n.name == name][0]


class _Attr2Name(ast.NodeTransformer):
    """source.x -> x ; np.pi / math.pi -> pi_ ; <anything>.get_beamarea_pix(...) -> beam_area_pix"""

    def visit_Call(self, node):
        self.generic_visit(node)
        if isinstance(node.func, ast.Attribute) and node.func.attr == 'get_beamarea_pix':
            return ast.copy_location(ast.Name(id='beam_area_pix', ctx=ast.Load()), node)
        return node

    def visit_Attribute(self, node):
        self.generic_visit(node)
        if isinstance(node.value, ast.Name) and node.value.id == 'source':
            return ast.copy_location(ast.Name(id=node.attr, ctx=node.ctx), node)
        if isinstance(node.value, ast.Name) and node.value.id in ('np', 'numpy', 'math') and node.attr == 'pi':
            return ast.copy_location(ast.Name(id='pi_', ctx=ast.Load()), node)
        return node


def _assign(name, value):
    return ast.Assign(targets=[ast.Name(id=name, ctx=ast.Store())], value=value)


def _mkfn(name, args, body):
    return ast.FunctionDef(name=name, args=ast.arguments(posonlyargs=[], args=[ast.arg(arg=a) for a in args], kwonlyargs=[],
                                                         kw_defaults=[], defaults=[]),
                           body=body + [ast.Return(value=ast.Constant(value=None))], decorator_list=[], type_params=[])


def _loop_piece(w, which, var):
    """`while var <cmp> bound: var <op>= step` -> ([bound assign, next assign], closed literal)"""
    t = w.test
    assert isinstance(t, ast.Compare) and len(t.ops) == 1 and isinstance(t.left, ast.Name) and t.left.id == var
    want = (ast.LtE, ast.Lt) if which == 'up' else (ast.GtE, ast.Gt)
    assert isinstance(t.ops[0], want)
    closed = 1 if isinstance(t.ops[0], (ast.LtE, ast.GtE)) else 0
    assert len(w.body) == 1 and isinstance(w.body[0], ast.AugAssign) and w.body[0].target.id == var and not w.orelse
    nxt = ast.BinOp(left=ast.Name(id=var, ctx=ast.Load()), op=w.body[0].op, right=w.body[0].value)
    return [_assign(which + '_bound', t.comparators[0]), _assign(which + '_next', nxt)], closed


def _slice_ranges(repo):
    """python source of the slice functions; pieces that cannot be cut are simply absent"""
    fns, lits = [], {}
    try:
        tree = ast.parse(open(os.path.join(repo, _SF)).read())
    except Exception:  # noqa: BLE001
        return ''
    try:    # pa_limit
        f = _fn(tree, 'pa_limit')
        var = f.args.args[0].arg
        loops = [n for n in f.body if isinstance(n, ast.While)]
        assert len(loops) == 2 and not any(isinstance(n, (ast.If, ast.For)) for n in f.body)
        ret = [n for n in f.body if isinstance(n, ast.Return)]
        assert len(ret) == 1 and isinstance(ret[0].value, ast.Name) and ret[0].value.id == var
        b1, c1 = _loop_piece(loops[0], 'up', var)
        b2, c2 = _loop_piece(loops[1], 'down', var)
        body = [_RenameVar(var, 'pa').visit(st) for st in b1 + b2]
        fns.append(_mkfn('pa_limit_slice', ['pa'], body))
        lits['pa_up_closed'], lits['pa_down_closed'] = c1, c2
    except Exception:  # noqa: BLE001
        pass
    try:    # fix_shape
        f = _fn(tree, 'fix_shape')
        ifs = [n for n in f.body if isinstance(n, ast.If)]
        assert len(ifs) == 1 and not ifs[0].orelse
        t = _Attr2Name().visit(ifs[0].test)
        assert isinstance(t, ast.Compare) and len(t.ops) == 1 and isinstance(t.ops[0], (ast.Lt, ast.LtE))
        assert t.left.id == 'a' and t.comparators[0].id == 'b'
        lits['fix_closed'] = 1 if isinstance(t.ops[0], ast.LtE) else 0
        body = [_Attr2Name().visit(st) for st in ifs[0].body]
        assert all(isinstance(st, (ast.Assign, ast.AugAssign)) for st in body)
        fns.append(_mkfn('fix_shape_slice', ['a', 'b', 'pa', 'err_a', 'err_b'], body))
    except Exception:  # noqa: BLE001
        pass
    try:    # RA wrap and int_flux in result_to_components (component loop = the first for loop)
        f = _fn(tree, 'result_to_components')
        loop = [n for n in f.body if isinstance(n, ast.For)][0]
        wr = [n for n in ast.walk(loop) if isinstance(n, ast.If) and ast.unparse(n.test).startswith('source.ra ')]
        t = wr[0].test
        assert isinstance(t.ops[0], (ast.Lt, ast.LtE)) and len(wr[0].body) == 1 and isinstance(wr[0].body[0], ast.AugAssign)
        assert ast.unparse(wr[0].body[0].target) == 'source.ra' and not wr[0].orelse
        lits['wrap_closed'] = 1 if isinstance(t.ops[0], ast.LtE) else 0
        nxt = ast.BinOp(left=ast.Name(id='ra', ctx=ast.Load()), op=wr[0].body[0].op, right=wr[0].body[0].value)
        fns.append(_mkfn('ra_wrap_slice', ['ra'], [_assign('wrap_bound', t.comparators[0]), _assign('wrap_next', nxt)]))
    except Exception:  # noqa: BLE001
        pass
    try:
        f = _fn(tree, 'result_to_components')
        loop = [n for n in f.body if isinstance(n, ast.For)][0]
        sts = [n for n in ast.walk(loop) if isinstance(n, (ast.Assign, ast.AugAssign))
               and ast.unparse(n.targets[0] if isinstance(n, ast.Assign) else n.target) == 'source.int_flux']
        assert sts
        fns.append(_mkfn('int_flux_slice', ['peak_flux', 'sx', 'sy', 'CC2FHWM', 'pi_', 'beam_area_pix'],
                         [_Attr2Name().visit(st) for st in sorted(sts, key=lambda n: n.lineno)]))
    except Exception:  # noqa: BLE001
        pass
    try:
        wtree = ast.parse(open(os.path.join(repo, 'AegeanTools/wcs_helpers.py')).read())
        f = _fn(wtree, 'get_beamarea_pix')
        ret = [n for n in f.body if isinstance(n, ast.Return)][0]
        fns.append(_mkfn('beam_area_slice', ['a', 'b', 'pi_'], [_assign('beam_area', _Attr2Name().visit(ret.value))]))
    except Exception:  # noqa: BLE001
        pass
    if lits:
        fns.append(_mkfn('cmp_slice', [], [_assign(k, ast.Constant(value=v)) for k, v in sorted(lits.items())]))
    mod = ast.Module(body=fns, type_ignores=[])
    ast.fix_missing_locations(mod)
    return ast.unparse(mod) + "\n"


def _ranges_file():
    fd, path = tempfile.mkstemp(prefix='verif-C03-ranges-', suffix='.py')
    with os.fdopen(fd, 'w') as f:
        f.write("# sliced from source_finder.py / wcs_helpers.py by translator/targets/C03.py\n" + _slice_ranges(_REPO))
    atexit.register(lambda p=path: os.path.exists(p) and os.unlink(p))
    return path


# ------------------------------------------------------------------------------------------------
# flag data-flow: flags.py constants, the small-island / max_summits logic of estimate_lmfit_parinfo, the fit outcome
# flags of _fit_island, the component flag word of result_to_components, the PRIORIZED / FIXED2PSF marking of
# _refit_islands, and the "not fit" mask of fitting.errors.
#
# py2lean's int mode has no bit operators; `_wrap_bits` adds `|` and `&` on naturals (Lean `|||`, `&&&`).  The
# slicer normalises, without touching the arithmetic: `flags.X` -> the parameter `X`; `a <= b <= c` -> `a <= b and
# b <= c`; an integer used as a truth value (`x & F` in a test, operands of `or`) -> `(...) != 0`; `not <int>` ->
# `<int> == 0`; names that stand for things outside the model (`min(data.shape)`, `result.errorbars`, …) -> parameters.
# A block is refused (UNTRANSLATABLE -> hand fallback) when a statement that is dropped assigns the tracked variable.

import py2lean as _p2l


def _wrap_bits(orig):
    def expr_int(self, node):
        if isinstance(node, ast.BinOp) and isinstance(node.op, (ast.BitOr, ast.BitAnd)):
            a, ta, da = self.expr(node.left)
            b, tb, db = self.expr(node.right)
            if ta != 'N' or tb != 'N':
                raise _p2l.Untranslatable('bit operator on non-naturals')
            return f"({a} {'|||' if isinstance(node.op, ast.BitOr) else '&&&'} {b})", 'N', da | db
        return orig(self, node)
    expr_int._c03bits = True
    return expr_int


if not getattr(_p2l.Translator.expr_int, '_c03bits', False):
    _p2l.Translator.expr_int = _wrap_bits(_p2l.Translator.expr_int)


class _FlagNorm(ast.NodeTransformer):
    """flags.X -> X ; chained comparisons -> and ; renames given as {unparsed expr: name}"""

    def __init__(self, renames=None):
        self.renames = renames or {}

    def visit(self, node):
        if isinstance(node, ast.expr):
            key = ast.unparse(node)
            if key in self.renames:
                return ast.copy_location(ast.Name(id=self.renames[key], ctx=ast.Load()), node)
        return super().visit(node)

    def visit_Attribute(self, node):
        self.generic_visit(node)
        if isinstance(node.value, ast.Name) and node.value.id == 'flags':
            return ast.copy_location(ast.Name(id=node.attr, ctx=node.ctx), node)
        return node

    def visit_Compare(self, node):
        self.generic_visit(node)
        if len(node.ops) > 1:
            parts, left = [], node.left
            for op, right in zip(node.ops, node.comparators):
                parts.append(ast.Compare(left=left, ops=[op], comparators=[right]))
                left = right
            return ast.BoolOp(op=ast.And(), values=parts)
        return node


def _truth(e):
    """an expression used as a condition: comparisons / and / or / not stay, an integer becomes `!= 0`"""
    if isinstance(e, ast.BoolOp):
        return ast.BoolOp(op=e.op, values=[_truth(v) for v in e.values])
    if isinstance(e, ast.UnaryOp) and isinstance(e.op, ast.Not):
        inner = e.operand
        if isinstance(inner, (ast.Compare, ast.BoolOp)):
            raise ValueError('negated comparison')       # not needed by the anchored code: refuse
        return ast.Compare(left=inner, ops=[ast.Eq()], comparators=[ast.Constant(value=0)])
    if isinstance(e, ast.Compare):
        # `x & F > 0` parses as x & (F > 0) in nobody's code but `(x & F) > 0` is fine as it is
        return e
    return ast.Compare(left=e, ops=[ast.NotEq()], comparators=[ast.Constant(value=0)])


def _assigns_to(node, var):
    for n in ast.walk(node):
        if isinstance(n, ast.Assign) and any(ast.unparse(t) == var for t in n.targets):
            return True
        if isinstance(n, ast.AugAssign) and ast.unparse(n.target) == var:
            return True
    return False


def _only(body, var):
    """the statements of `body` that assign `var`; refuse if a dropped compound statement assigns it"""
    keep = []
    for st in body:
        if isinstance(st, (ast.Assign, ast.AugAssign)):
            if _assigns_to(st, var):
                keep.append(st)
        elif _assigns_to(st, var):
            raise ValueError(f'{var} assigned inside a statement the slice would drop')
    return keep


def _cond(test, body, var, norm, orelse=None):
    b = _only(body, var)
    o = _only(orelse, var) if orelse else []
    return ast.If(test=_truth(norm.visit(test)), body=[norm.visit(x) for x in b] or [ast.Pass()],
                  orelse=[norm.visit(x) for x in o])


def _rename_target(st, old, new):
    st = ast.parse(ast.unparse(st).replace(old, new)).body[0]
    return st


def _slice_flags(repo):
    fns = []
    try:    # flags.py constants
        ftree = ast.parse(open(os.path.join(repo, 'AegeanTools/flags.py')).read())
        body = [st for st in ftree.body if isinstance(st, ast.Assign) and len(st.targets) == 1 and isinstance(st.targets[0], ast.Name)
                and st.targets[0].id.isupper() and isinstance(st.value, ast.Constant) and isinstance(st.value.value, int)]
        assert body
        fns.append(_mkfn('flag_consts', [], body))
    except Exception:  # noqa: BLE001
        pass
    try:
        tree = ast.parse(open(os.path.join(repo, _SF)).read())
    except Exception:  # noqa: BLE001
        tree = None
    try:    # estimate_lmfit_parinfo: island-level flag
        f = _fn(tree, 'estimate_lmfit_parinfo')
        norm = _FlagNorm({'min(data.shape)': 'min_shape'})
        ifs = [n for n in f.body if isinstance(n, ast.If)]
        small = [n for n in ifs if 'non_nan_pix' in ast.unparse(n.test)][0]
        tiny = [n for n in ifs if 'min(data.shape)' in ast.unparse(n.test)][0]
        assert small.lineno < tiny.lineno and not _assigns_to(ast.Module(body=tiny.orelse, type_ignores=[]), 'is_flag')
        between = [n for n in f.body if small.lineno < n.lineno < tiny.lineno]
        assert not any(_assigns_to(n, 'is_flag') for n in between)

        def chain(n):     # if / elif / else on is_flag only
            orelse = n.orelse
            if len(orelse) == 1 and isinstance(orelse[0], ast.If):
                o = [chain(orelse[0])]
            else:
                o = [norm.visit(x) for x in _only(orelse, 'is_flag')]
            return ast.If(test=_truth(norm.visit(n.test)), body=[norm.visit(x) for x in _only(n.body, 'is_flag')] or [ast.Pass()],
                          orelse=o)
        body = [_assign('is_flag', ast.Constant(value=0)), chain(small), _cond(tiny.test, tiny.body, 'is_flag', norm)]
        fns.append(_mkfn('estimate_is_flag', ['non_nan_pix', 'min_shape', 'FIXED2PSF', 'FITERRSMALL'], body))
    except Exception:  # noqa: BLE001
        pass
    try:    # estimate_lmfit_parinfo: per-summit flag when max_summits is given
        f = _fn(tree, 'estimate_lmfit_parinfo')
        loop = [n for n in f.body if isinstance(n, ast.For) and 'summit' in ast.unparse(n.target)][0]
        norm = _FlagNorm()
        init = [n for n in loop.body if isinstance(n, ast.Assign) and ast.unparse(n.targets[0]) == 'summit_flag'][0]
        assert ast.unparse(init.value) == 'is_flag'
        mx = [n for n in loop.body if isinstance(n, ast.If) and 'max_summits' in ast.unparse(n.test)][0]
        assert ast.unparse(mx.test) == 'max_summits is not None' and ast.unparse(mx.orelse[0]) == 'maxxed = False'
        cmp_ = mx.body[0].value
        assert isinstance(mx.body[0], ast.Assign) and ast.unparse(mx.body[0].targets[0]) == 'maxxed' and isinstance(cmp_, ast.Compare)
        use = [n for n in loop.body if isinstance(n, ast.If) and ast.unparse(n.test) == 'maxxed'][0]
        others = [n for n in loop.body if n not in (init, use) and _assigns_to(n, 'summit_flag')]
        assert not others and not use.orelse
        body = [_assign('summit_flag', ast.Name(id='is_flag', ctx=ast.Load())), _cond(cmp_, use.body, 'summit_flag', norm)]
        fns.append(_mkfn('summit_flag_slice', ['is_flag', 'i', 'max_summits', 'NOTFIT', 'FIXED2PSF'], body))
    except Exception:  # noqa: BLE001
        pass
    try:    # _fit_island: fit decision and outcome
        f = _fn(tree, '_fit_island')
        norm = _FlagNorm({'result.errorbars': 'errorbars', 'result.success': 'success'})
        dec = [n for n in f.body if isinstance(n, ast.If) and 'non_blank_pix' in ast.unparse(n.test)][0]
        inner = []
        for st in dec.orelse:
            if isinstance(st, ast.If) and _assigns_to(st, 'is_flag'):
                assert not st.orelse
                inner.append(_cond(st.test, st.body, 'is_flag', norm))
            elif not isinstance(st, (ast.Assign, ast.AugAssign, ast.Expr, ast.Try)) and _assigns_to(st, 'is_flag'):
                raise ValueError('is_flag assigned in a compound statement')
            elif isinstance(st, ast.Try):
                # the repaired tree wraps do_lmfit: the handler returns early with is_flag | FITERR; the body must not touch is_flag
                assert not _assigns_to(ast.Module(body=st.body, type_ignores=[]), 'is_flag')
        top = ast.If(test=_truth(norm.visit(dec.test)), body=[norm.visit(x) for x in _only(dec.body, 'is_flag')] or [ast.Pass()],
                     orelse=inner)
        fns.append(_mkfn('fit_is_flag', ['non_blank_pix', 'free_vars', 'errorbars', 'success', 'NOTFIT', 'FITERR'],
                         [_assign('is_flag', ast.Constant(value=0)), top]))
    except Exception:  # noqa: BLE001
        pass
    try:    # result_to_components: the component's flag word
        f = _fn(tree, 'result_to_components')
        loop = [n for n in f.body if isinstance(n, ast.For)][0]
        sts = [n for n in loop.body if _assigns_to(n, 'src_flags')]
        norm = _FlagNorm()
        body = []
        for st in sts:
            if isinstance(st, ast.Assign):
                assert ast.unparse(st.value) == 'is_flag'
                body.append(st)
            elif isinstance(st, ast.AugAssign):
                assert isinstance(st.op, ast.BitOr) and 'flags' in ast.unparse(st.value) and 'model[' in ast.unparse(st.value)
                body.append(ast.AugAssign(target=st.target, op=st.op, value=ast.Name(id='model_flags', ctx=ast.Load())))
            elif isinstance(st, ast.If):
                assert 'isfinite' in ast.unparse(st.test) and isinstance(st.test, ast.UnaryOp) and not st.orelse
                body.append(ast.If(test=ast.Compare(left=ast.Name(id='wcs_finite', ctx=ast.Load()), ops=[ast.Eq()],
                                                    comparators=[ast.Constant(value=0)]),
                                   body=[norm.visit(x) for x in _only(st.body, 'src_flags')], orelse=[]))
            else:
                raise ValueError('src_flags in an unexpected statement')
        fns.append(_mkfn('component_flags', ['is_flag', 'model_flags', 'wcs_finite', 'WCSERR'], body))
    except Exception:  # noqa: BLE001
        pass
    try:    # _refit_islands: marking of refitted rows
        f = _fn(tree, '_refit_islands')
        loop = [n for n in ast.walk(f) if isinstance(n, ast.For) and ast.unparse(n.iter).startswith('zip(new_src')][0]
        obj = loop.target.elts[0].id
        norm = _FlagNorm()
        body = []
        for st in loop.body:
            if isinstance(st, ast.AugAssign) and ast.unparse(st.target) == obj + '.flags':
                body.append(_rename_target(norm.visit(st), obj + '.flags', 'row_flags'))
            elif isinstance(st, ast.If) and _assigns_to(st, obj + '.flags'):
                assert not st.orelse
                body.append(ast.If(test=_truth(norm.visit(st.test)),
                                   body=[_rename_target(norm.visit(x), obj + '.flags', 'row_flags') for x in _only(st.body, obj + '.flags')],
                                   orelse=[]))
            elif _assigns_to(st, obj + '.flags'):
                raise ValueError('flags assigned in an unexpected statement')
        assert body
        fns.append(_mkfn('refit_mark', ['row_flags', 'stage', 'PRIORIZED', 'FIXED2PSF'], body))
    except Exception:  # noqa: BLE001
        pass
    try:    # fitting.errors: which flag bits mean "no uncertainties"
        etree = ast.parse(open(os.path.join(repo, 'AegeanTools/fitting.py')).read())
        f = _fn(etree, 'errors')
        first = [n for n in f.body if isinstance(n, ast.If)][0]
        t = first.test
        assert isinstance(t, ast.BinOp) and isinstance(t.op, ast.BitAnd) and ast.unparse(t.left) == 'source.flags'
        assert isinstance(first.body[-1], ast.Return)
        fns.append(_mkfn('err_mask_slice', ['NOTFIT', 'FITERR'], [_assign('err_mask', _FlagNorm().visit(t.right))]))
    except Exception:  # noqa: BLE001
        pass
    mod = ast.Module(body=fns, type_ignores=[])
    ast.fix_missing_locations(mod)
    return ast.unparse(mod) + "\n"


def _flags_file():
    fd, path = tempfile.mkstemp(prefix='verif-C03-flags-', suffix='.py')
    with os.fdopen(fd, 'w') as f:
        f.write("# sliced from flags.py / source_finder.py / fitting.py by translator/targets/C03.py\n" + _slice_flags(_REPO))
    atexit.register(lambda p=path: os.path.exists(p) and os.unlink(p))
    return path


_FF = _flags_file()


def _int(func, params, var, ln):
    sig = ' '.join(f'({p} : Nat)' for p in params)
    return dict(file=_FF, func=func, mode='int', params={p: 'N' for p in params}, subst={}, outputs=[(var, ln)], all_params=params,
                fallback={ln: f'def {ln} {sig} : Nat := Aegean.Model.C03.{ln}Hand ' + ' '.join(params)})


_FLAGNAMES = ['FITERRSMALL', 'FITERR', 'FIXED2PSF', 'FIXEDCIRCULAR', 'NOTFIT', 'WCSERR', 'PRIORIZED']

_RF = _ranges_file()
_M = 'Aegean.Model.C03'


def _real(func, params, outs, hands):
    sig = ' '.join(f'({p} : α)' for p in params)
    return dict(file=_RF, func=func, mode='real', params={p: 'A' for p in params}, subst={},
                outputs=outs, all_params=params,
                fallback={ln: f'def {ln} {{α : Type}} [R α] {sig} : α := {_M}.{hands[ln]}' for _, ln in outs})


_FS = ['a', 'b', 'pa', 'err_a', 'err_b']
_IF = ['peak_flux', 'sx', 'sy', 'CC2FHWM', 'pi_', 'beam_area_pix']

TARGETS = [
    dict(file=_SF, func='priorized_fit_islands', mode='int', params={}, subst={},
         outputs=[('group_size', 'groupSize')],
         fallback={'groupSize': 'def groupSize : Nat := Aegean.Model.C03.groupSizeHand'},
         all_params=[]),
    # absolute path: os.path.join(repo, <absolute>) is the absolute path
    dict(file=_slice_file(), func='istart_slice', mode='int',
         params={'i': 'N', 'group_size': 'N'}, subst={},
         outputs=[('istart__', 'istart')],
         fallback={'istart': 'def istart (i : Nat) (group_size : Nat) : Nat := Aegean.Model.C03.istartHand i group_size'},
         all_params=['i', 'group_size']),
    _real('pa_limit_slice', ['pa'], [('up_bound', 'paUpBound'), ('up_next', 'paUpNext'), ('down_bound', 'paDownBound'),
                                     ('down_next', 'paDownNext')],
          dict(paUpBound='paUpBoundHand pa', paUpNext='paUpNextHand pa', paDownBound='paDownBoundHand pa',
               paDownNext='paDownNextHand pa')),
    _real('fix_shape_slice', _FS, [('a', 'fixA'), ('b', 'fixB'), ('pa', 'fixPa'), ('err_a', 'fixErrA'), ('err_b', 'fixErrB')],
          dict(fixA='fixAHand a b pa err_a err_b', fixB='fixBHand a b pa err_a err_b', fixPa='fixPaHand a b pa err_a err_b',
               fixErrA='fixErrAHand a b pa err_a err_b', fixErrB='fixErrBHand a b pa err_a err_b')),
    _real('ra_wrap_slice', ['ra'], [('wrap_bound', 'raWrapBound'), ('wrap_next', 'raWrapNext')],
          dict(raWrapBound='raWrapBoundHand ra', raWrapNext='raWrapNextHand ra')),
    _real('int_flux_slice', _IF, [('int_flux', 'intFluxG')], dict(intFluxG='intFluxGHand peak_flux sx sy CC2FHWM pi_ beam_area_pix')),
    _real('beam_area_slice', ['a', 'b', 'pi_'], [('beam_area', 'beamAreaG')], dict(beamAreaG='beamAreaGHand a b pi_')),
] + [_int('flag_consts', [], n, 'flag' + n) for n in _FLAGNAMES] + [
    _int('estimate_is_flag', ['non_nan_pix', 'min_shape', 'FIXED2PSF', 'FITERRSMALL'], 'is_flag', 'estimateIsFlagG'),
    _int('summit_flag_slice', ['is_flag', 'i', 'max_summits', 'NOTFIT', 'FIXED2PSF'], 'summit_flag', 'summitFlagG'),
    _int('fit_is_flag', ['non_blank_pix', 'free_vars', 'errorbars', 'success', 'NOTFIT', 'FITERR'], 'is_flag', 'fitIsFlagG'),
    _int('component_flags', ['is_flag', 'model_flags', 'wcs_finite', 'WCSERR'], 'src_flags', 'componentFlagsG'),
    _int('refit_mark', ['row_flags', 'stage', 'PRIORIZED', 'FIXED2PSF'], 'row_flags', 'refitMarkG'),
    _int('err_mask_slice', ['NOTFIT', 'FITERR'], 'err_mask', 'errMaskG'),
] + [
    dict(file=_RF, func='cmp_slice', mode='int', params={}, subst={}, outputs=[(var, ln)],
         fallback={ln: f'def {ln} : Nat := {_M}.{ln}Hand'}, all_params=[])
    for var, ln in (('pa_up_closed', 'paUpClosed'), ('pa_down_closed', 'paDownClosed'), ('fix_closed', 'fixClosed'),
                    ('wrap_closed', 'wrapClosed'))
]
