"""C03 translation targets (int mode): the island-numbering arithmetic of priorized fitting.

* `source_finder.py:priorized_fit_islands`   `group_size = <literal>`                       -> Gen.C03.groupSize
* `source_finder.py:priorized_fit_islands`   `self._refit_islands(g, …, istart=<expr>)`     -> Gen.C03.istart i group_size

`istart` is a keyword argument of a call, not an assignment, and the translator only binds plain
names.  `_slice_istart` therefore cuts the keyword's expression out of the *current* source with `ast`
(no evaluation, no rewriting of the arithmetic), renames the loop variable of the enclosing
`for <i>, g in enumerate(island_groups)` to `i`, and hands the two-line function

    def istart_slice(i, group_size):
        istart = <expr>

to the ordinary translator.  If the shape of the source changes so that the slice cannot be taken (no
such call, positional argument, expression over other names) the target falls back to the hand
formula `i * group_size` and the evidence says UNTRANSLATABLE; the correspondence (ids observed in
real priorized runs with > 20 groups) still ties the numbering to the code.
"""
import ast
import atexit
import os
import tempfile

_REPO = os.environ.get('AEGEAN_REPO', '/repo')
_SF = 'AegeanTools/source_finder.py'


class _RenameVar(ast.NodeTransformer):
    def __init__(self, old, new):
        self.old, self.new = old, new

    def visit_Name(self, node):
        if node.id == self.old:
            return ast.copy_location(ast.Name(id=self.new, ctx=node.ctx), node)
        return node


def _slice_istart(repo):
    try:
        tree = ast.parse(open(os.path.join(repo, _SF)).read())
        fn = [n for n in ast.walk(tree) if isinstance(n, ast.FunctionDef) and n.name == 'priorized_fit_islands'][0]
        hit = None
        for loop in [n for n in ast.walk(fn) if isinstance(n, ast.For)]:
            for call in [c for c in ast.walk(loop) if isinstance(c, ast.Call)]:
                f = call.func
                if isinstance(f, ast.Attribute) and f.attr == '_refit_islands':
                    hit = (loop, call)
        loop, call = hit
        kws = [k for k in call.keywords if k.arg == 'istart']
        expr = kws[0].value if kws else call.args[3]
        # loop variable that counts the batches: `for i, g in enumerate(island_groups)`
        tgt = loop.target
        var = tgt.elts[0].id if isinstance(tgt, ast.Tuple) else tgt.id
        expr = _RenameVar(var, 'i').visit(expr)
        # statements inside the loop, before the call, that assign plain names (e.g. `istart = i * group_size`)
        pre = [_RenameVar(var, 'i').visit(st) for st in loop.body
               if isinstance(st, ast.Assign) and st.lineno < call.lineno]
        body = pre + [ast.Assign(targets=[ast.Name(id='istart__', ctx=ast.Store())], value=expr),
                      ast.Return(value=ast.Constant(value=None))]
        f = ast.FunctionDef(name='istart_slice',
                            args=ast.arguments(posonlyargs=[], args=[ast.arg(arg='i'), ast.arg(arg='group_size')],
                                               kwonlyargs=[], kw_defaults=[], defaults=[]),
                            body=body, decorator_list=[], type_params=[])
        mod = ast.Module(body=[f], type_ignores=[])
        ast.fix_missing_locations(mod)
        return ast.unparse(mod) + "\n"
    except Exception:  # noqa: BLE001 - any surprise means "cannot slice", reported as UNTRANSLATABLE
        return ''


def _slice_file():
    fd, path = tempfile.mkstemp(prefix='verif-C03-slice-', suffix='.py')
    with os.fdopen(fd, 'w') as f:
        f.write("# sliced from source_finder.priorized_fit_islands by translator/targets/C03.py\n" + _slice_istart(_REPO))
    atexit.register(lambda p=path: os.path.exists(p) and os.unlink(p))
    return path


TARGETS = [
    dict(file=_SF, func='priorized_fit_islands', mode='int', params={}, subst={},
         outputs=[('group_size', 'groupSize')],
         fallback={'groupSize': 'def groupSize : Nat := Aegean.Model.C03.groupSizeHand'},
         all_params=[]),
    # absolute path: os.path.join(repo, <absolute>) is the absolute path
    dict(file=_slice_file(), func='istart_slice', mode='int',
         params={'i': 'N', 'group_size': 'N'}, subst={},
         outputs=[('istart__', 'istart')],
         fallback={'istart': 'def istart (i : Nat) (group_size : Nat) : Nat := Aegean.Model.C03.istartHand i group_size'},
         all_params=['i', 'group_size']),
]
