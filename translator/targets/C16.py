"""C16 translation targets (real mode, values in `α` with `[R α]`).

angle_tools (the same source functions as C17, regenerated into C16's own namespace so that the C16 check
does not depend on another property's generated file):
  gcd        -> gcdSep   the haversine branch `sep` (the value returned for separations <= 90 deg; every
                         separation that occurs in C16 is below 1 deg)
  bear       -> bear
  translate  -> translateRa, translateDec
wcs_helpers.WCSHelper (the arithmetic leaves; the WCS calls `self.sky2pix(..)`/`self.pix2sky(..)` and the
tuple-valued offset points are outside the whitelist: their results become the *inputs* of the
regenerated definitions, in the order of first assignment in the source):
  Each element of the function's returned tuple becomes one definition (so a permuted return is seen):
  sky2pix_vec      -> s2pVecX (x), s2pVecY (y), s2pVecLen, s2pVecAng (x y x_off y_off)
  sky2pix_ellipse  -> s2pEllX, s2pEllY, s2pEllSx, s2pEllAng (x y x_off y_off),
                      s2pEllSy (pi x y x_off y_off x_off' y_off');
                      `np.pi` is substituted by the explicit parameter `pi` (the model passes `R.pi`)
  pix2sky_ellipse  -> p2sEllRa, p2sEllDec, p2sEllMajor, p2sEllPa (ra dec ra2 dec2),
                      p2sEllMinor (ra dec ra2 dec2 ra2' dec2'), over the regenerated gcdSep / bear
  pix2sky_vec      -> p2sVecRa, p2sVecDec, p2sVecLen, p2sVecPa (ra1 dec1 ra2 dec2)
"""
_A4 = ['ra1', 'dec1', 'ra2', 'dec2']
_T4 = ['ra', 'dec', 'r', 'theta']
_F = 'AegeanTools/angle_tools.py'
_W = 'AegeanTools/wcs_helpers.py'
_H = 'Aegean.Model.C16Hand'


def _fb(name, params, hand=None):
    return (f"def {name} {{α : Type}} [R α] ({' '.join(params)} : α) : α := "
            f"{_H}.{hand or name} {' '.join(params)}")


_P4 = ['x', 'y', 'x_off', 'y_off']
_S4 = ['ra', 'dec', 'ra2', 'dec2']
_CALLS = {'gcd': ('gcdSep', 4), 'bear': ('bear', 4)}

TARGETS = [
    dict(file=_F, func='gcd', mode='real', params={p: 'A' for p in _A4},
         outputs=[('sep', 'gcdSep')], fallback={'gcdSep': _fb('gcdSep', _A4)}, all_params=_A4,
         fallback_imports=[_H]),
    dict(file=_F, func='bear', mode='real', params={p: 'A' for p in _A4},
         returns='bear', fallback={'bear': _fb('bear', _A4)}, all_params=_A4, fallback_imports=[_H]),
    dict(file=_F, func='translate', mode='real', params={p: 'A' for p in _T4},
         returns=['translateRa', 'translateDec'],
         fallback={'translateRa': _fb('translateRa', _T4), 'translateDec': _fb('translateDec', _T4)},
         all_params=_T4, fallback_imports=[_H]),
    dict(file=_W, func='WCSHelper.sky2pix_vec', mode='real', params={},
         returns=['s2pVecX', 's2pVecY', 's2pVecLen', 's2pVecAng'],
         fallback={'s2pVecX': _fb('s2pVecX', ['x'], 'idHand'), 's2pVecY': _fb('s2pVecY', ['y'], 'idHand'),
                   's2pVecLen': _fb('s2pVecLen', _P4), 's2pVecAng': _fb('s2pVecAng', _P4)},
         fallback_imports=[_H]),
    dict(file=_W, func='WCSHelper.sky2pix_ellipse', mode='real', params={'pi': 'A'}, subst={'np.pi': 'pi'},
         returns=['s2pEllX', 's2pEllY', 's2pEllSx', 's2pEllSy', 's2pEllAng'],
         fallback={'s2pEllX': _fb('s2pEllX', ['x'], 'idHand'), 's2pEllY': _fb('s2pEllY', ['y'], 'idHand'),
                   's2pEllSx': _fb('s2pEllSx', _P4), 's2pEllAng': _fb('s2pEllAng', _P4),
                   's2pEllSy': _fb('s2pEllSy', ['pi'] + _P4 + ['x_off2', 'y_off2'])},
         fallback_imports=[_H]),
    dict(file=_W, func='WCSHelper.pix2sky_ellipse', mode='real', params={}, calls=_CALLS,
         returns=['p2sEllRa', 'p2sEllDec', 'p2sEllMajor', 'p2sEllMinor', 'p2sEllPa'],
         fallback={'p2sEllRa': _fb('p2sEllRa', ['ra'], 'idHand'), 'p2sEllDec': _fb('p2sEllDec', ['dec'], 'idHand'),
                   'p2sEllMajor': _fb('p2sEllMajor', _S4), 'p2sEllPa': _fb('p2sEllPa', _S4),
                   'p2sEllMinor': _fb('p2sEllMinor', _S4 + ['ra3', 'dec3'])},
         fallback_imports=[_H]),
    dict(file=_W, func='WCSHelper.pix2sky_vec', mode='real', params={}, calls=_CALLS,
         returns=['p2sVecRa', 'p2sVecDec', 'p2sVecLen', 'p2sVecPa'],
         fallback={'p2sVecRa': _fb('p2sVecRa', ['ra'], 'idHand'), 'p2sVecDec': _fb('p2sVecDec', ['dec'], 'idHand'),
                   'p2sVecLen': _fb('p2sVecLen', _S4), 'p2sVecPa': _fb('p2sVecPa', _S4)},
         fallback_imports=[_H]),
]
