"""C16 translation targets (real mode, values in `α` with `[R α]`).

angle_tools (the same source functions as C17, regenerated into C16's own namespace so that the C16 check
does not depend on another property's generated file):
  gcd        -> gcdSep   the haversine branch `sep` (the value returned for separations <= 90 deg; every
                         separation that occurs in C16 is below 1 deg)
  bear       -> bear
  translate  -> translateRa, translateDec
wcs_helpers.WCSHelper (the arithmetic leaves; the WCS calls `self.sky2pix(..)`/`self.pix2sky(..)` and the
tuple-valued offset points are outside the whitelist: their results become the *inputs* of the
regenerated definitions, in the order of first assignment in the source):
  Each element of the function's returned tuple becomes one definition (so a permuted return is seen):
  sky2pix_vec      -> s2pVecX (x), s2pVecY (y), s2pVecLen, s2pVecAng (x y x_off y_off)
  sky2pix_ellipse  -> s2pEllX, s2pEllY, s2pEllSx, s2pEllAng (x y x_off y_off),
                      s2pEllSy (pi x y x_off y_off x_off' y_off');
                      `np.pi` is substituted by the explicit parameter `pi` (the model passes `R.pi`)
  pix2sky_ellipse  -> p2sEllRa, p2sEllDec, p2sEllMajor, p2sEllPa (ra dec ra2 dec2),
                      p2sEllMinor (ra dec ra2 dec2 ra2' dec2'), over the regenerated gcdSep / bear
  pix2sky_vec      -> p2sVecRa, p2sVecDec, p2sVecLen, p2sVecPa (ra1 dec1 ra2 dec2)
"""

# ---------------------------------------------------------------------------------------------------------------
# Source normalisation (an extension of the shared translator, kept here because targets files may carry one):
# PRIVATE HELPER METHODS ARE INLINED.  `targets = self._helper(args)` inside a translated method is replaced by the
# helper's body when — and only when — the helper is a method of the same class whose name starts with `_`, takes
# positional parameters only, never re-binds a parameter, and consists of nothing but a docstring, plain assignments to
# names / tuples of names, and ONE final `return`.  Anything else (loops, branches, augmented or subscript assignment,
# calls as statements — i.e. anything that could mutate state) is left as an opaque call, whose results become inputs
# of the regenerated definitions as before.  Parameters are substituted by the argument expressions, helper locals are
# renamed apart.  The public WCS entry points (sky2pix, pix2sky, ...) are never inlined: their results ARE the inputs.
# The normalised source is written next to the system temp dir and the targets point at it; if anything at all goes
# wrong the original file is used.
# ---------------------------------------------------------------------------------------------------------------
import ast as _ast
import copy as _copy
import hashlib as _hashlib
import os as _os
import sys as _sys
import tempfile as _tempfile


def _repo_root():
    if len(_sys.argv) >= 3 and _os.path.basename(_sys.argv[0]) == 'py2lean.py':
        return _sys.argv[2]
    return _os.environ.get('AEGEAN_REPO', '/repo')


def _simple_helper(fn):
    """(params, body statements, return expr) if `fn` is inlinable, else None"""
    a = fn.args
    if a.vararg or a.kwarg or a.kwonlyargs or a.defaults or a.posonlyargs:
        return None
    deco = [d.id for d in fn.decorator_list if isinstance(d, _ast.Name)]
    if len(deco) != len(fn.decorator_list) or any(d != 'staticmethod' for d in deco):
        return None
    params = [x.arg for x in a.args]
    if 'staticmethod' not in deco:
        if not params or params[0] != 'self':
            return None
        params = params[1:]
    body = list(fn.body)
    if body and isinstance(body[0], _ast.Expr) and isinstance(body[0].value, _ast.Constant) and isinstance(body[0].value.value, str):
        body = body[1:]
    if not body or not isinstance(body[-1], _ast.Return) or body[-1].value is None:
        return None
    assigned = set()
    for st in body[:-1]:
        if not (isinstance(st, _ast.Assign) and len(st.targets) == 1):
            return None
        t = st.targets[0]
        names = [t] if isinstance(t, _ast.Name) else (list(t.elts) if isinstance(t, _ast.Tuple) else None)
        if names is None or not all(isinstance(n, _ast.Name) for n in names):
            return None
        assigned |= {n.id for n in names}
    if assigned & set(params):
        return None
    for node in _ast.walk(fn):
        if isinstance(node, (_ast.Lambda, _ast.ListComp, _ast.GeneratorExp, _ast.DictComp, _ast.SetComp, _ast.NamedExpr,
                             _ast.Yield, _ast.YieldFrom, _ast.Await, _ast.Starred)):
            return None
    return params, body[:-1], body[-1].value, assigned


class _Subst(_ast.NodeTransformer):
    def __init__(self, mapping):
        self.mapping = mapping

    def visit_Name(self, node):
        if node.id in self.mapping:
            new = self.mapping[node.id]
            if isinstance(new, str):
                return _ast.copy_location(_ast.Name(id=new, ctx=node.ctx), node)
            return _copy.deepcopy(new)
        return node


def _inline_class(cls):
    helpers = {}
    for st in cls.body:
        if isinstance(st, _ast.FunctionDef) and st.name.startswith('_') and not st.name.startswith('__'):
            h = _simple_helper(st)
            if h is not None:
                helpers[st.name] = h
    counter = [0]

    def expand(stmts, depth=0):
        out = []
        for st in stmts:
            call = st.value if isinstance(st, _ast.Assign) and len(st.targets) == 1 else None
            if (depth < 4 and isinstance(call, _ast.Call) and isinstance(call.func, _ast.Attribute)
                    and isinstance(call.func.value, _ast.Name) and call.func.value.id == 'self'
                    and call.func.attr in helpers and not call.keywords
                    and len(call.args) == len(helpers[call.func.attr][0])):
                params, body, ret, assigned = helpers[call.func.attr]
                counter[0] += 1
                mapping = {v: '_h%d_%s' % (counter[0], v) for v in assigned}
                mapping.update({p: a for p, a in zip(params, call.args)})
                sub = _Subst(mapping)
                new = [sub.visit(_copy.deepcopy(b)) for b in body]
                new.append(_ast.Assign(targets=[st.targets[0]], value=sub.visit(_copy.deepcopy(ret))))
                out += expand(new, depth + 1)
            else:
                out.append(st)
        return out

    changed = False
    for st in cls.body:
        if isinstance(st, _ast.FunctionDef) and st.name not in helpers:
            new = expand(st.body)
            if len(new) != len(st.body):
                st.body = new
                _propagate_tuples(st)
                changed = True
    return changed


def _propagate_tuples(fn):
    """`c = (a, b)` ... `u, v = c`  becomes  `u, v = (a, b)` when `c`, `a`, `b` are each bound exactly once in the function
    (straight-line top-level statements only), so that a tuple handed to an inlined helper is seen through"""
    count = {}
    for node in _ast.walk(fn):
        if isinstance(node, _ast.Name) and isinstance(node.ctx, _ast.Store):
            count[node.id] = count.get(node.id, 0) + 1
        elif isinstance(node, _ast.arg):
            count[node.arg] = count.get(node.arg, 0) + 1
    env = {}
    for st in fn.body:
        if isinstance(st, _ast.Assign) and len(st.targets) == 1:
            t, v = st.targets[0], st.value
            if isinstance(t, _ast.Tuple) and isinstance(v, _ast.Name) and v.id in env and len(env[v.id].elts) == len(t.elts):
                st.value = _copy.deepcopy(env[v.id])
            elif (isinstance(t, _ast.Name) and isinstance(v, _ast.Tuple) and count.get(t.id) == 1
                  and all(isinstance(e, _ast.Name) and count.get(e.id, 0) <= 1 for e in v.elts)):
                env[t.id] = v



# ---- deepening round: the plumbing around the WCS calls is made visible to the translator ------------------------------
# (a) `a, b = P` for a function parameter P (each of a, b, P bound once): the statement is dropped and a, b are renamed
#     P_0, P_1 — the targets declare those as parameters, so every regenerated definition has the SAME fixed parameter list
#     and which component goes where is visible in its body.
# (b) call-argument capture: before a top-level statement containing the k-th call of `self.pix2sky`,
#     `self.wcs.all_pix2world`, `self.wcs.all_world2pix`, each positional argument that is READABLE (names, numbers,
#     + - * /, unary minus, np.sin/cos/radians/degrees of readable; a tuple / list / [[..]] of readable; or a name currently
#     bound to such a tuple) is bound to `cap_<callee>_<k>_<i>[_<j>]`.  An argument that is not readable (e.g. the result of
#     a helper call) gets no capture, the output is then "never assigned" and the target falls back to the hand copy.
# (c) `return [A[0][i], A[0][j]]` with A bound from `self.wcs.all_world2pix(...)` becomes `return (w2p_i, w2p_j)`.
_CAPTURE = {'pix2sky': ('self',), 'all_pix2world': ('self', 'wcs'), 'all_world2pix': ('self', 'wcs')}
_NPFUN = {'sin', 'cos', 'radians', 'degrees'}


def _attr_chain(node):
    out = []
    while isinstance(node, _ast.Attribute):
        out.append(node.attr)
        node = node.value
    if isinstance(node, _ast.Name):
        out.append(node.id)
        return tuple(reversed(out))
    return None


def _readable(e):
    if isinstance(e, _ast.Name):
        return True
    if isinstance(e, _ast.Constant):
        return isinstance(e.value, (int, float)) and not isinstance(e.value, bool)
    if isinstance(e, _ast.BinOp) and isinstance(e.op, (_ast.Add, _ast.Sub, _ast.Mult, _ast.Div)):
        return _readable(e.left) and _readable(e.right)
    if isinstance(e, _ast.UnaryOp) and isinstance(e.op, (_ast.USub, _ast.UAdd)):
        return _readable(e.operand)
    if isinstance(e, _ast.Call) and not e.keywords and len(e.args) == 1:
        ch = _attr_chain(e.func)
        return ch is not None and len(ch) == 2 and ch[0] in ('np', 'math', 'numpy') and ch[1] in _NPFUN and _readable(e.args[0])
    return False


def _names_in(e):
    return {n.id for n in _ast.walk(e) if isinstance(n, _ast.Name)}


def _unpack_params(fn):
    params = [a.arg for a in fn.args.args if a.arg != 'self']
    count = {}
    for node in _ast.walk(fn):
        if isinstance(node, _ast.Name) and isinstance(node.ctx, _ast.Store):
            count[node.id] = count.get(node.id, 0) + 1
    ren = {}
    keep = []
    for st in fn.body:
        if (isinstance(st, _ast.Assign) and len(st.targets) == 1 and isinstance(st.targets[0], _ast.Tuple)
                and isinstance(st.value, _ast.Name) and st.value.id in params and count.get(st.value.id, 0) == 0
                and all(isinstance(t, _ast.Name) and count.get(t.id) == 1 for t in st.targets[0].elts)):
            for i, t in enumerate(st.targets[0].elts):
                ren[t.id] = '%s_%d' % (st.value.id, i)
            continue
        keep.append(st)
    if ren:
        fn.body = keep
        sub = _Subst(ren)
        fn.body = [sub.visit(b) for b in fn.body]
    return bool(ren)


def _capture_calls(fn):
    env = {}          # name -> Tuple currently bound (straight-line, top level only)
    counter = {}
    out = []
    w2p_names = set()
    for st in fn.body:
        simple = isinstance(st, (_ast.Assign, _ast.Return, _ast.Expr, _ast.AugAssign))
        if not simple:
            env.clear()
            out.append(st)
            continue
        calls = [n for n in _ast.walk(st) if isinstance(n, _ast.Call) and isinstance(n.func, _ast.Attribute)
                 and n.func.attr in _CAPTURE and _attr_chain(n.func) == _CAPTURE[n.func.attr] + (n.func.attr,)]
        calls.sort(key=lambda n: (n.lineno, n.col_offset))
        for c in calls:
            name = c.func.attr
            counter[name] = counter.get(name, 0) + 1
            k = counter[name]
            for i, a in enumerate(c.args):
                if isinstance(a, _ast.Name) and a.id in env:
                    a = env[a.id]
                if isinstance(a, _ast.List) and len(a.elts) == 1 and isinstance(a.elts[0], (_ast.List, _ast.Tuple)):
                    a = a.elts[0]
                if isinstance(a, (_ast.Tuple, _ast.List)):
                    if all(_readable(e) for e in a.elts):
                        for j, e in enumerate(a.elts):
                            out.append(_ast.Assign(targets=[_ast.Name(id='cap_%s_%d_%d_%d' % (name, k, i, j), ctx=_ast.Store())],
                                                   value=_copy.deepcopy(e)))
                elif _readable(a) and not isinstance(a, _ast.Name):
                    out.append(_ast.Assign(targets=[_ast.Name(id='cap_%s_%d_%d' % (name, k, i), ctx=_ast.Store())],
                                           value=_copy.deepcopy(a)))
        if isinstance(st, _ast.Assign) and len(st.targets) == 1:
            t = st.targets[0]
            bound = {t.id} if isinstance(t, _ast.Name) else ({e.id for e in t.elts if isinstance(e, _ast.Name)}
                                                              if isinstance(t, _ast.Tuple) else set())
            for nm in list(env):
                if nm in bound or (_names_in(env[nm]) & bound):
                    del env[nm]
            if isinstance(t, _ast.Name) and isinstance(st.value, _ast.Tuple) and not (_names_in(st.value) & {t.id}):
                env[t.id] = st.value
            if (isinstance(t, _ast.Name) and isinstance(st.value, _ast.Call) and isinstance(st.value.func, _ast.Attribute)
                    and st.value.func.attr == 'all_world2pix'):
                w2p_names.add(t.id)
            elif isinstance(t, _ast.Name):
                w2p_names.discard(t.id)
        elif isinstance(st, _ast.AugAssign):
            env.clear()
        if isinstance(st, _ast.Return) and isinstance(st.value, (_ast.List, _ast.Tuple)) and w2p_names:
            elts = []
            for e in st.value.elts:
                ok = (isinstance(e, _ast.Subscript) and isinstance(e.value, _ast.Subscript)
                      and isinstance(e.value.value, _ast.Name) and e.value.value.id in w2p_names
                      and isinstance(e.value.slice, _ast.Constant) and e.value.slice.value == 0
                      and isinstance(e.slice, _ast.Constant) and e.slice.value in (0, 1))
                if not ok:
                    elts = None
                    break
                elts.append(_ast.Name(id='w2p_%d' % e.slice.value, ctx=_ast.Load()))
            if elts is not None:
                st = _ast.Return(value=_ast.Tuple(elts=elts, ctx=_ast.Load()))
        out.append(st)
    fn.body = out


def _entry_points(fn):
    """(d) WHICH astropy entry points a method uses: `cap_entry_all = 1` when every pixel<->world call in the method goes
    through `all_pix2world` / `all_world2pix` (core WCS + SIP + look-up-table distortions) and there is at least one,
    `0` when any call uses the core-only `wcs_pix2world` / `wcs_world2pix` (in any branch).  Inserted as the first statement."""
    n_all = n_core = 0
    for node in _ast.walk(fn):
        if isinstance(node, _ast.Attribute):
            if node.attr in ('all_pix2world', 'all_world2pix'):
                n_all += 1
            elif node.attr in ('wcs_pix2world', 'wcs_world2pix'):
                n_core += 1
    if n_all + n_core:
        fn.body.insert(0, _ast.Assign(targets=[_ast.Name(id='cap_entry_all', ctx=_ast.Store())],
                                      value=_ast.Constant(value=1 if n_core == 0 else 0)))


def _plumbing(cls):
    helpers = {st.name for st in cls.body if isinstance(st, _ast.FunctionDef) and st.name.startswith('_')}
    for st in cls.body:
        if isinstance(st, _ast.FunctionDef) and st.name not in helpers:
            try:
                saved = _copy.deepcopy(st.body)
                _unpack_params(st)
                _capture_calls(st)
                _entry_points(st)
            except Exception:
                st.body = saved


def _normalised(relpath):
    """path of the helper-inlined copy of <repo>/<relpath> (or relpath itself when there is nothing to inline)"""
    try:
        src = _os.path.join(_repo_root(), relpath)
        text = open(src).read()
        import warnings as _warnings
        with _warnings.catch_warnings():
            _warnings.simplefilter('ignore')
            tree = _ast.parse(text)
        changed = False
        for node in tree.body:
            if isinstance(node, _ast.ClassDef):
                changed = _inline_class(node) or changed
                _plumbing(node)
                changed = True
        if not changed:
            return relpath
        for node in _ast.walk(tree):      # docstrings are not needed and their backslashes only produce warnings
            if isinstance(node, (_ast.FunctionDef, _ast.ClassDef, _ast.Module)) and len(node.body) > 1 \
                    and isinstance(node.body[0], _ast.Expr) and isinstance(node.body[0].value, _ast.Constant) \
                    and isinstance(node.body[0].value.value, str):
                node.body = node.body[1:]
        _ast.fix_missing_locations(tree)
        out = _ast.unparse(tree)
        import warnings as _warnings
        with _warnings.catch_warnings():
            _warnings.simplefilter('ignore')
            _ast.parse(out)
        d = _os.path.join(_tempfile.gettempdir(), 'verif-C16-normalised')
        _os.makedirs(d, exist_ok=True)
        path = _os.path.join(d, _hashlib.sha1((src + text + open(__file__).read()).encode()).hexdigest()[:16] + '_' + _os.path.basename(relpath))
        if not _os.path.exists(path):
            tmp = path + '.%d' % _os.getpid()
            with open(tmp, 'w') as f:
                f.write(out)
            _os.replace(tmp, path)
        return path
    except Exception:
        return relpath


_A4 = ['ra1', 'dec1', 'ra2', 'dec2']
_T4 = ['ra', 'dec', 'r', 'theta']
_F = 'AegeanTools/angle_tools.py'
_W = _normalised('AegeanTools/wcs_helpers.py')
_H = 'Aegean.Model.C16Hand'


def _fb(name, params, hand=None):
    return (f"def {name} {{α : Type}} [R α] ({' '.join(params)} : α) : α := "
            f"{_H}.{hand or name} {' '.join(params)}")


_P4 = ['x', 'y', 'x_off', 'y_off']
_S4 = ['ra', 'dec', 'ra2', 'dec2']
_CALLS = {'gcd': ('gcdSep', 4), 'bear': ('bear', 4)}

_PX = ['pixel_0', 'pixel_1']


def _fbp(name, params):
    if not params:
        return f"def {name} {{α : Type}} [R α] : α := {_H}.{name}"
    return _fb(name, params)


_PLUMBING = [
    # WCSHelper.pix2sky: which caller coordinate is handed to the WCS as FITS axis 1 / axis 2, and the `origin` argument
    dict(file=_W, func='WCSHelper.pix2sky', mode='real', params={p: 'A' for p in _PX},
         outputs=[('cap_all_pix2world_1_0_0', 'pix2skyP1'), ('cap_all_pix2world_1_0_1', 'pix2skyP2')],
         fallback={'pix2skyP1': _fbp('pix2skyP1', _PX), 'pix2skyP2': _fbp('pix2skyP2', _PX)}, all_params=_PX,
         fallback_imports=[_H]),
    dict(file=_W, func='WCSHelper.pix2sky', mode='real', params={}, outputs=[('cap_all_pix2world_1_1', 'pix2skyOrigin')],
         fallback={'pix2skyOrigin': _fbp('pix2skyOrigin', [])}, all_params=[], fallback_imports=[_H]),
    # WCSHelper.sky2pix: which WCS pixel coordinate is returned first / second, and the `origin` argument
    dict(file=_W, func='WCSHelper.sky2pix', mode='real', params={'w2p_0': 'A', 'w2p_1': 'A'},
         returns=['sky2pixX', 'sky2pixY'],
         fallback={'sky2pixX': _fbp('sky2pixX', ['w2p_0', 'w2p_1']), 'sky2pixY': _fbp('sky2pixY', ['w2p_0', 'w2p_1'])},
         all_params=['w2p_0', 'w2p_1'], fallback_imports=[_H]),
    dict(file=_W, func='WCSHelper.sky2pix', mode='real', params={}, outputs=[('cap_all_world2pix_1_1', 'sky2pixOrigin')],
         fallback={'sky2pixOrigin': _fbp('sky2pixOrigin', [])}, all_params=[], fallback_imports=[_H]),
    # which astropy entry point: all_* (the header's full WCS: core + SIP + look-up tables) everywhere
    dict(file=_W, func='WCSHelper.pix2sky', mode='real', params={}, outputs=[('cap_entry_all', 'pix2skyEntryAll')],
         fallback={'pix2skyEntryAll': _fbp('pix2skyEntryAll', [])}, all_params=[], fallback_imports=[_H]),
    dict(file=_W, func='WCSHelper.sky2pix', mode='real', params={}, outputs=[('cap_entry_all', 'sky2pixEntryAll')],
         fallback={'sky2pixEntryAll': _fbp('sky2pixEntryAll', [])}, all_params=[], fallback_imports=[_H]),
    # the offset point handed to the second (and third) pix2sky call of pix2sky_vec / pix2sky_ellipse
    dict(file=_W, func='WCSHelper.pix2sky_vec', mode='real', params={p: 'A' for p in _PX + ['r', 'theta']},
         outputs=[('cap_pix2sky_2_0_0', 'p2sVecOffX'), ('cap_pix2sky_2_0_1', 'p2sVecOffY')],
         fallback={n: _fbp(n, _PX + ['r', 'theta']) for n in ('p2sVecOffX', 'p2sVecOffY')},
         all_params=_PX + ['r', 'theta'], fallback_imports=[_H]),
    dict(file=_W, func='WCSHelper.pix2sky_ellipse', mode='real', params={p: 'A' for p in _PX + ['sx', 'sy', 'theta']},
         outputs=[('cap_pix2sky_2_0_0', 'p2sEllOff1X'), ('cap_pix2sky_2_0_1', 'p2sEllOff1Y'),
                  ('cap_pix2sky_3_0_0', 'p2sEllOff2X'), ('cap_pix2sky_3_0_1', 'p2sEllOff2Y')],
         fallback={n: _fbp(n, _PX + ['sx', 'sy', 'theta']) for n in ('p2sEllOff1X', 'p2sEllOff1Y', 'p2sEllOff2X', 'p2sEllOff2Y')},
         all_params=_PX + ['sx', 'sy', 'theta'], fallback_imports=[_H]),
]

TARGETS = [
    dict(file=_F, func='gcd', mode='real', params={p: 'A' for p in _A4},
         outputs=[('sep', 'gcdSep')], fallback={'gcdSep': _fb('gcdSep', _A4)}, all_params=_A4,
         fallback_imports=[_H]),
    dict(file=_F, func='bear', mode='real', params={p: 'A' for p in _A4},
         returns='bear', fallback={'bear': _fb('bear', _A4)}, all_params=_A4, fallback_imports=[_H]),
    dict(file=_F, func='translate', mode='real', params={p: 'A' for p in _T4},
         returns=['translateRa', 'translateDec'],
         fallback={'translateRa': _fb('translateRa', _T4), 'translateDec': _fb('translateDec', _T4)},
         all_params=_T4, fallback_imports=[_H]),
    dict(file=_W, func='WCSHelper.sky2pix_vec', mode='real', params={},
         returns=['s2pVecX', 's2pVecY', 's2pVecLen', 's2pVecAng'],
         fallback={'s2pVecX': _fb('s2pVecX', ['x'], 'idHand'), 's2pVecY': _fb('s2pVecY', ['y'], 'idHand'),
                   's2pVecLen': _fb('s2pVecLen', _P4), 's2pVecAng': _fb('s2pVecAng', _P4)},
         fallback_imports=[_H]),
    dict(file=_W, func='WCSHelper.sky2pix_ellipse', mode='real', params={'pi': 'A'}, subst={'np.pi': 'pi'},
         returns=['s2pEllX', 's2pEllY', 's2pEllSx', 's2pEllSy', 's2pEllAng'],
         fallback={'s2pEllX': _fb('s2pEllX', ['x'], 'idHand'), 's2pEllY': _fb('s2pEllY', ['y'], 'idHand'),
                   's2pEllSx': _fb('s2pEllSx', _P4), 's2pEllAng': _fb('s2pEllAng', _P4),
                   's2pEllSy': _fb('s2pEllSy', ['pi'] + _P4 + ['x_off2', 'y_off2'])},
         fallback_imports=[_H]),
    dict(file=_W, func='WCSHelper.pix2sky_ellipse', mode='real', params={}, calls=_CALLS,
         returns=['p2sEllRa', 'p2sEllDec', 'p2sEllMajor', 'p2sEllMinor', 'p2sEllPa'],
         fallback={'p2sEllRa': _fb('p2sEllRa', ['ra'], 'idHand'), 'p2sEllDec': _fb('p2sEllDec', ['dec'], 'idHand'),
                   'p2sEllMajor': _fb('p2sEllMajor', _S4), 'p2sEllPa': _fb('p2sEllPa', _S4),
                   'p2sEllMinor': _fb('p2sEllMinor', _S4 + ['ra3', 'dec3'])},
         fallback_imports=[_H]),
    dict(file=_W, func='WCSHelper.pix2sky_vec', mode='real', params={}, calls=_CALLS,
         returns=['p2sVecRa', 'p2sVecDec', 'p2sVecLen', 'p2sVecPa'],
         fallback={'p2sVecRa': _fb('p2sVecRa', ['ra'], 'idHand'), 'p2sVecDec': _fb('p2sVecDec', ['dec'], 'idHand'),
                   'p2sVecLen': _fb('p2sVecLen', _S4), 'p2sVecPa': _fb('p2sVecPa', _S4)},
         fallback_imports=[_H]),
] + _PLUMBING
