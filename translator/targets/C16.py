"""C16 translation targets (real mode, values in `α` with `[R α]`).

angle_tools (the same source functions as C17, regenerated into C16's own namespace so that the C16 check
does not depend on another property's generated file):
  gcd        -> gcdSep   the haversine branch `sep` (the value returned for separations <= 90 deg; every
                         separation that occurs in C16 is below 1 deg)
  bear       -> bear
  translate  -> translateRa, translateDec
wcs_helpers.WCSHelper (the arithmetic leaves; the WCS calls `self.sky2pix(..)`/`self.pix2sky(..)` and the
tuple-valued offset points are outside the whitelist: their results become the *inputs* of the
regenerated definitions, in the order of first assignment in the source):
  Each element of the function's returned tuple becomes one definition (so a permuted return is seen):
  sky2pix_vec      -> s2pVecX (x), s2pVecY (y), s2pVecLen, s2pVecAng (x y x_off y_off)
  sky2pix_ellipse  -> s2pEllX, s2pEllY, s2pEllSx, s2pEllAng (x y x_off y_off),
                      s2pEllSy (pi x y x_off y_off x_off' y_off');
                      `np.pi` is substituted by the explicit parameter `pi` (the model passes `R.pi`)
  pix2sky_ellipse  -> p2sEllRa, p2sEllDec, p2sEllMajor, p2sEllPa (ra dec ra2 dec2),
                      p2sEllMinor (ra dec ra2 dec2 ra2' dec2'), over the regenerated gcdSep / bear
  pix2sky_vec      -> p2sVecRa, p2sVecDec, p2sVecLen, p2sVecPa (ra1 dec1 ra2 dec2)
"""

# ---------------------------------------------------------------------------------------------------------------
# Source normalisation (an extension of the shared translator, kept here because targets files may carry one):
# PRIVATE HELPER METHODS ARE INLINED.  `targets = self._helper(args)` inside a translated method is replaced by the
# helper's body when — and only when — the helper is a method of the same class whose name starts with `_`, takes
# positional parameters only, never re-binds a parameter, and consists of nothing but a docstring, plain assignments to
# names / tuples of names, and ONE final `return`.  Anything else (loops, branches, augmented or subscript assignment,
# calls as statements — i.e. anything that could mutate state) is left as an opaque call, whose results become inputs
# of the regenerated definitions as before.  Parameters are substituted by the argument expressions, helper locals are
# renamed apart.  The public WCS entry points (sky2pix, pix2sky, ...) are never inlined: their results ARE the inputs.
# The normalised source is written next to the system temp dir and the targets point at it; if anything at all goes
# wrong the original file is used.
# ---------------------------------------------------------------------------------------------------------------
import ast as _ast
import copy as _copy
import hashlib as _hashlib
import os as _os
import sys as _sys
import tempfile as _tempfile


def _repo_root():
    if len(_sys.argv) >= 3 and _os.path.basename(_sys.argv[0]) == 'py2lean.py':
        return _sys.argv[2]
    return _os.environ.get('AEGEAN_REPO', '/repo')


def _simple_helper(fn):
    """(params, body statements, return expr) if `fn` is inlinable, else None"""
    a = fn.args
    if a.vararg or a.kwarg or a.kwonlyargs or a.defaults or a.posonlyargs:
        return None
    deco = [d.id for d in fn.decorator_list if isinstance(d, _ast.Name)]
    if len(deco) != len(fn.decorator_list) or any(d != 'staticmethod' for d in deco):
        return None
    params = [x.arg for x in a.args]
    if 'staticmethod' not in deco:
        if not params or params[0] != 'self':
            return None
        params = params[1:]
    body = list(fn.body)
    if body and isinstance(body[0], _ast.Expr) and isinstance(body[0].value, _ast.Constant) and isinstance(body[0].value.value, str):
        body = body[1:]
    if not body or not isinstance(body[-1], _ast.Return) or body[-1].value is None:
        return None
    assigned = set()
    for st in body[:-1]:
        if not (isinstance(st, _ast.Assign) and len(st.targets) == 1):
            return None
        t = st.targets[0]
        names = [t] if isinstance(t, _ast.Name) else (list(t.elts) if isinstance(t, _ast.Tuple) else None)
        if names is None or not all(isinstance(n, _ast.Name) for n in names):
            return None
        assigned |= {n.id for n in names}
    if assigned & set(params):
        return None
    for node in _ast.walk(fn):
        if isinstance(node, (_ast.Lambda, _ast.ListComp, _ast.GeneratorExp, _ast.DictComp, _ast.SetComp, _ast.NamedExpr,
                             _ast.Yield, _ast.YieldFrom, _ast.Await, _ast.Starred)):
            return None
    return params, body[:-1], body[-1].value, assigned


class _Subst(_ast.NodeTransformer):
    def __init__(self, mapping):
        self.mapping = mapping

    def visit_Name(self, node):
        if node.id in self.mapping:
            new = self.mapping[node.id]
            if isinstance(new, str):
                return _ast.copy_location(_ast.Name(id=new, ctx=node.ctx), node)
            return _copy.deepcopy(new)
        return node


def _inline_class(cls):
    helpers = {}
    for st in cls.body:
        if isinstance(st, _ast.FunctionDef) and st.name.startswith('_') and not st.name.startswith('__'):
            h = _simple_helper(st)
            if h is not None:
                helpers[st.name] = h
    counter = [0]

    def expand(stmts, depth=0):
        out = []
        for st in stmts:
            call = st.value if isinstance(st, _ast.Assign) and len(st.targets) == 1 else None
            if (depth < 4 and isinstance(call, _ast.Call) and isinstance(call.func, _ast.Attribute)
                    and isinstance(call.func.value, _ast.Name) and call.func.value.id == 'self'
                    and call.func.attr in helpers and not call.keywords
                    and len(call.args) == len(helpers[call.func.attr][0])):
                params, body, ret, assigned = helpers[call.func.attr]
                counter[0] += 1
                mapping = {v: '_h%d_%s' % (counter[0], v) for v in assigned}
                mapping.update({p: a for p, a in zip(params, call.args)})
                sub = _Subst(mapping)
                new = [sub.visit(_copy.deepcopy(b)) for b in body]
                new.append(_ast.Assign(targets=[st.targets[0]], value=sub.visit(_copy.deepcopy(ret))))
                out += expand(new, depth + 1)
            else:
                out.append(st)
        return out

    changed = False
    for st in cls.body:
        if isinstance(st, _ast.FunctionDef) and st.name not in helpers:
            new = expand(st.body)
            if len(new) != len(st.body):
                st.body = new
                _propagate_tuples(st)
                changed = True
    return changed


def _propagate_tuples(fn):
    """`c = (a, b)` ... `u, v = c`  becomes  `u, v = (a, b)` when `c`, `a`, `b` are each bound exactly once in the function
    (straight-line top-level statements only), so that a tuple handed to an inlined helper is seen through"""
    count = {}
    for node in _ast.walk(fn):
        if isinstance(node, _ast.Name) and isinstance(node.ctx, _ast.Store):
            count[node.id] = count.get(node.id, 0) + 1
        elif isinstance(node, _ast.arg):
            count[node.arg] = count.get(node.arg, 0) + 1
    env = {}
    for st in fn.body:
        if isinstance(st, _ast.Assign) and len(st.targets) == 1:
            t, v = st.targets[0], st.value
            if isinstance(t, _ast.Tuple) and isinstance(v, _ast.Name) and v.id in env and len(env[v.id].elts) == len(t.elts):
                st.value = _copy.deepcopy(env[v.id])
            elif (isinstance(t, _ast.Name) and isinstance(v, _ast.Tuple) and count.get(t.id) == 1
                  and all(isinstance(e, _ast.Name) and count.get(e.id, 0) <= 1 for e in v.elts)):
                env[t.id] = v


def _normalised(relpath):
    """path of the helper-inlined copy of <repo>/<relpath> (or relpath itself when there is nothing to inline)"""
    try:
        src = _os.path.join(_repo_root(), relpath)
        text = open(src).read()
        tree = _ast.parse(text)
        changed = False
        for node in tree.body:
            if isinstance(node, _ast.ClassDef):
                changed = _inline_class(node) or changed
        if not changed:
            return relpath
        _ast.fix_missing_locations(tree)
        out = _ast.unparse(tree)
        _ast.parse(out)
        d = _os.path.join(_tempfile.gettempdir(), 'verif-C16-normalised')
        _os.makedirs(d, exist_ok=True)
        path = _os.path.join(d, _hashlib.sha1((src + text + open(__file__).read()).encode()).hexdigest()[:16] + '_' + _os.path.basename(relpath))
        if not _os.path.exists(path):
            tmp = path + '.%d' % _os.getpid()
            with open(tmp, 'w') as f:
                f.write(out)
            _os.replace(tmp, path)
        return path
    except Exception:
        return relpath


_A4 = ['ra1', 'dec1', 'ra2', 'dec2']
_T4 = ['ra', 'dec', 'r', 'theta']
_F = 'AegeanTools/angle_tools.py'
_W = _normalised('AegeanTools/wcs_helpers.py')
_H = 'Aegean.Model.C16Hand'


def _fb(name, params, hand=None):
    return (f"def {name} {{α : Type}} [R α] ({' '.join(params)} : α) : α := "
            f"{_H}.{hand or name} {' '.join(params)}")


_P4 = ['x', 'y', 'x_off', 'y_off']
_S4 = ['ra', 'dec', 'ra2', 'dec2']
_CALLS = {'gcd': ('gcdSep', 4), 'bear': ('bear', 4)}

TARGETS = [
    dict(file=_F, func='gcd', mode='real', params={p: 'A' for p in _A4},
         outputs=[('sep', 'gcdSep')], fallback={'gcdSep': _fb('gcdSep', _A4)}, all_params=_A4,
         fallback_imports=[_H]),
    dict(file=_F, func='bear', mode='real', params={p: 'A' for p in _A4},
         returns='bear', fallback={'bear': _fb('bear', _A4)}, all_params=_A4, fallback_imports=[_H]),
    dict(file=_F, func='translate', mode='real', params={p: 'A' for p in _T4},
         returns=['translateRa', 'translateDec'],
         fallback={'translateRa': _fb('translateRa', _T4), 'translateDec': _fb('translateDec', _T4)},
         all_params=_T4, fallback_imports=[_H]),
    dict(file=_W, func='WCSHelper.sky2pix_vec', mode='real', params={},
         returns=['s2pVecX', 's2pVecY', 's2pVecLen', 's2pVecAng'],
         fallback={'s2pVecX': _fb('s2pVecX', ['x'], 'idHand'), 's2pVecY': _fb('s2pVecY', ['y'], 'idHand'),
                   's2pVecLen': _fb('s2pVecLen', _P4), 's2pVecAng': _fb('s2pVecAng', _P4)},
         fallback_imports=[_H]),
    dict(file=_W, func='WCSHelper.sky2pix_ellipse', mode='real', params={'pi': 'A'}, subst={'np.pi': 'pi'},
         returns=['s2pEllX', 's2pEllY', 's2pEllSx', 's2pEllSy', 's2pEllAng'],
         fallback={'s2pEllX': _fb('s2pEllX', ['x'], 'idHand'), 's2pEllY': _fb('s2pEllY', ['y'], 'idHand'),
                   's2pEllSx': _fb('s2pEllSx', _P4), 's2pEllAng': _fb('s2pEllAng', _P4),
                   's2pEllSy': _fb('s2pEllSy', ['pi'] + _P4 + ['x_off2', 'y_off2'])},
         fallback_imports=[_H]),
    dict(file=_W, func='WCSHelper.pix2sky_ellipse', mode='real', params={}, calls=_CALLS,
         returns=['p2sEllRa', 'p2sEllDec', 'p2sEllMajor', 'p2sEllMinor', 'p2sEllPa'],
         fallback={'p2sEllRa': _fb('p2sEllRa', ['ra'], 'idHand'), 'p2sEllDec': _fb('p2sEllDec', ['dec'], 'idHand'),
                   'p2sEllMajor': _fb('p2sEllMajor', _S4), 'p2sEllPa': _fb('p2sEllPa', _S4),
                   'p2sEllMinor': _fb('p2sEllMinor', _S4 + ['ra3', 'dec3'])},
         fallback_imports=[_H]),
    dict(file=_W, func='WCSHelper.pix2sky_vec', mode='real', params={}, calls=_CALLS,
         returns=['p2sVecRa', 'p2sVecDec', 'p2sVecLen', 'p2sVecPa'],
         fallback={'p2sVecRa': _fb('p2sVecRa', ['ra'], 'idHand'), 'p2sVecDec': _fb('p2sVecDec', ['dec'], 'idHand'),
                   'p2sVecLen': _fb('p2sVecLen', _S4), 'p2sVecPa': _fb('p2sVecPa', _S4)},
         fallback_imports=[_H]),
]
