"""C14: `fitting.elliptical_gaussian` (own copy, Gen.C14.gauss) and the arithmetic leaves of
`AeRes.make_model` that fit the translator:

  xoff, yoff : the window half-widths  factor*(|sx cos phi| + |sy sin phi|), factor*(|sx sin phi| + |sy cos phi|)
  modelVal   : the call  fitting.elliptical_gaussian(x, y, src.peak_flux, xo-1, yo-1, sx*FWHM2CC, sy*FWHM2CC, theta)
               i.e. the xo-1 / yo-1 convention, the FWHM -> sigma scaling and the argument order.

`xo, yo, sx, sy, theta` (the tuple returned by `wcshelper.sky2pix_ellipse`) and `x, y` (np.mgrid)
have right-hand sides outside the whitelist, so the translator turns them into inputs of the
generated definitions, in order of first assignment:  xoff/yoff (sx sy theta),
modelVal (FWHM2CC peak xo yo sx sy theta x y).  `src.peak_flux` is substituted by the parameter
`peak`; the module constant `FWHM2CC` is a parameter (its value is checked by the harness).

The call is written `fitting.elliptical_gaussian(...)` in the source; py2lean's `callee_name`
only resolves bare names and np./math. attributes and returns None for anything else, so the
`calls` table maps that None (and the bare name, should the source ever import it directly) to
`gauss` with arity 8.  Every other unresolved callee in make_model has a different arity or
keyword arguments and stays untranslatable (its target becomes an input), as intended.

floor / ceil / clip / the skip rule / mask thresholds involve `max`, `min`, comparisons and
indexing: outside real mode; they are hand-modelled in Aegean/Model/C14.lean and tied by
harness/corr_C14.py.
"""
_H = 'Aegean.Model.C14'
_G = ['x', 'y', 'amp', 'xo', 'yo', 'sx', 'sy', 'theta']

TARGETS = [
    dict(file='AegeanTools/fitting.py', func='elliptical_gaussian', mode='real',
         params={p: 'A' for p in _G}, subst={}, outputs=[], returns='gauss',
         fallback={'gauss': 'def gauss {α : Type} [R α] (x y amp xo yo sx sy theta : α) : α := '
                            f'{_H}.gaussHand x y amp xo yo sx sy theta'},
         all_params=_G),
    dict(file='AegeanTools/AeRes.py', func='make_model', mode='real',
         params={'FWHM2CC': 'A', 'peak': 'A'},
         subst={'src.peak_flux': 'peak'},
         calls={None: ('gauss', 8), 'elliptical_gaussian': ('gauss', 8)},
         outputs=[('xoff', 'xoff'), ('yoff', 'yoff'), ('model', 'modelVal')],
         fallback={'xoff': f'def xoff {{α : Type}} [R α] (sx sy theta : α) : α := {_H}.xoffHand sx sy theta',
                   'yoff': f'def yoff {{α : Type}} [R α] (sx sy theta : α) : α := {_H}.yoffHand sx sy theta',
                   'modelVal': 'def modelVal {α : Type} [R α] (FWHM2CC peak xo yo sx sy theta x y : α) : α := '
                               f'{_H}.modelValHand FWHM2CC peak xo yo sx sy theta x y'}),
]
