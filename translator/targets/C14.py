"""C14: `fitting.elliptical_gaussian` (own copy, Gen.C14.gauss) and the arithmetic leaves of
`AeRes.make_model` that fit the translator:

  xoff, yoff : the window half-widths  factor*(|sx cos phi| + |sy sin phi|), factor*(|sx sin phi| + |sy cos phi|)
  modelVal   : the call  fitting.elliptical_gaussian(x, y, src.peak_flux, xo-1, yo-1, sx*FWHM2CC, sy*FWHM2CC, theta)
               i.e. the xo-1 / yo-1 convention, the FWHM -> sigma scaling and the argument order.

`xo, yo, sx, sy, theta` (the tuple returned by `wcshelper.sky2pix_ellipse`) and `x, y` (np.mgrid)
have right-hand sides outside the whitelist, so the translator turns them into inputs of the
generated definitions, in order of first assignment:  xoff/yoff (sx sy theta),
modelVal (FWHM2CC peak xo yo sx sy theta x y).  `src.peak_flux` is substituted by the parameter
`peak`; the module constant `FWHM2CC` is a parameter (its value is checked by the harness).

The call is written `fitting.elliptical_gaussian(...)` in the source; py2lean's `callee_name`
only resolves bare names and np./math. attributes and returns None for anything else, so the
`calls` table maps that None (and the bare name, should the source ever import it directly) to
`gauss` with arity 8.  Every other unresolved callee in make_model has a different arity or
keyword arguments and stays untranslatable (its target becomes an input), as intended.

Each of xoff, yoff, modelVal is its own target, so that one of them leaving the whitelist (e.g. the half-widths
moved into a helper function, which the translator does not inline) is reported UNTRANSLATABLE and replaced by
its hand definition alone; the property proofs unfold the hand definitions too, so they still compile on that
fallback and the correspondence (frac = 0 masks show the window exactly) ties that piece.

floor / ceil / clip / the skip rule / mask thresholds involve `max`, `min`, comparisons and
indexing: outside real mode; they are hand-modelled in Aegean/Model/C14.lean and tied by
harness/corr_C14.py.
"""
_H = 'Aegean.Model.C14'
_G = ['x', 'y', 'amp', 'xo', 'yo', 'sx', 'sy', 'theta']


def _gauss_result_name():
    """The local name that make_model binds to the `…elliptical_gaussian(…)` call (`model` on the pinned tree).
    Looked up in the tree under test ($AEGEAN_REPO, default /repo — the same rule as harness/common.py) so that
    renaming that local does not look like a change of meaning.  Exactly one such assignment must exist, otherwise
    the pinned name is kept and the target is reported UNTRANSLATABLE (hand definition + correspondence)."""
    import ast
    import os
    try:
        src = open(os.path.join(os.environ.get('AEGEAN_REPO', '/repo'), 'AegeanTools', 'AeRes.py')).read()
        fn = [n for n in ast.walk(ast.parse(src)) if isinstance(n, ast.FunctionDef) and n.name == 'make_model'][0]
        names = []
        for n in ast.walk(fn):
            if isinstance(n, ast.Assign) and len(n.targets) == 1 and isinstance(n.targets[0], ast.Name) \
                    and isinstance(n.value, ast.Call):
                f = n.value.func
                callee = f.attr if isinstance(f, ast.Attribute) else getattr(f, 'id', None)
                if callee == 'elliptical_gaussian':
                    names.append(n.targets[0].id)
        return names[0] if len(names) == 1 else 'model'
    except Exception:
        return 'model'


def _mm(pyvar, lean, fallback):
    """one output of make_model per target: a piece that leaves the whitelist falls back alone"""
    return dict(file='AegeanTools/AeRes.py', func='make_model', mode='real',
                params={'FWHM2CC': 'A', 'peak': 'A'},
                subst={'src.peak_flux': 'peak'},
                calls={None: ('gauss', 8), 'elliptical_gaussian': ('gauss', 8)},
                outputs=[(pyvar, lean)], fallback={lean: fallback})



# ---------------------------------------------------------------------------------------------------------------
# Slices of AeRes.py written as small Python functions inside the translator's whitelist (scratch file), from the
# AST of the tree under test.  Anything a slicer does not recognise is written as a call the translator rejects, so
# that piece is reported UNTRANSLATABLE and its hand definition stands in (every target below fixes its parameter
# list with `all_params`, so an unreadable right-hand side can never turn silently into an input).
#
#   skip_x / skip_y   `if not LO <= xo < HI: continue` (in make_model, or in a straight-line helper it calls as
#                     `if not helper(xo, yo, shape): … continue`): LO, HI as real expressions of n = shape[axis]
#   skip_ops          the two comparison operators of each chain: 2*[first is <=] + [second is <=]   (<=, <  ->  2)
#   thr               the right-hand sides of `model >= …` in the `frac is not None` / else branches (written in
#                     place or through a temporary)
#   mask_op           the comparison itself: 1 for >=, 0 for >
#   resid             `if TEST: residual = data + model  else: residual = data - model` as  plus(add, mask) in {0,1}
#   fwhm              the module constant FWHM2CC with np.log(2) / math.log(2) as the parameter ln2
import ast as _ast
import copy as _copy
import hashlib as _hashlib
import os as _os
import tempfile as _tempfile


def _bad(head, names, why):
    first = names[0]
    body = [f"    {first} = untranslatable({why!r})"] + [f"    {n} = {first}" for n in names[1:]]
    return head + "\n".join(body) + "\n"


class _Sub(_ast.NodeTransformer):
    """replace sub-expressions (by their unparsed text) with names"""

    def __init__(self, table):
        self.table = table

    def generic_visit(self, node):
        if isinstance(node, _ast.expr):
            key = _ast.unparse(node)
            if key in self.table:
                return _ast.Name(id=self.table[key], ctx=_ast.Load())
        return super().generic_visit(node)


def _sub(node, table):
    return _ast.unparse(_ast.fix_missing_locations(_Sub(table).visit(_copy.deepcopy(node))))


def _func(tree, name):
    for n in tree.body:
        if isinstance(n, _ast.FunctionDef) and n.name == name:
            return n
    return None


def _centre_names(fn):
    """names of the 1-based row / column centre: the first two of the five names unpacked from sky2pix_ellipse
    (directly, or from a temporary bound to that call)"""
    temps = set()
    for n in _ast.walk(fn):
        if isinstance(n, _ast.Assign) and len(n.targets) == 1 and isinstance(n.value, _ast.Call) \
                and _ast.unparse(n.value.func).endswith('sky2pix_ellipse') and isinstance(n.targets[0], _ast.Name):
            temps.add(n.targets[0].id)
    for n in _ast.walk(fn):
        if isinstance(n, _ast.Assign) and len(n.targets) == 1 and isinstance(n.targets[0], _ast.Tuple) \
                and len(n.targets[0].elts) == 5 and all(isinstance(e, _ast.Name) for e in n.targets[0].elts):
            v = n.value
            if (isinstance(v, _ast.Call) and _ast.unparse(v.func).endswith('sky2pix_ellipse')) or \
                    (isinstance(v, _ast.Name) and v.id in temps):
                return n.targets[0].elts[0].id, n.targets[0].elts[1].id
    return None


def _chains(stmts, xname, yname, shape, leave):
    """`if not A <= v < B: <leave>` statements for v in (xname, yname); `leave` tests the last statement of the body"""
    out = {}
    for st in stmts:
        if isinstance(st, _ast.If) and isinstance(st.test, _ast.UnaryOp) and isinstance(st.test.op, _ast.Not) \
                and isinstance(st.test.operand, _ast.Compare) and len(st.test.operand.ops) == 2 \
                and not st.orelse and st.body and leave(st.body[-1]):
            c = st.test.operand
            mid = c.comparators[0]
            if isinstance(mid, _ast.Name) and mid.id in (xname, yname):
                axis = 0 if mid.id == xname else 1
                if axis in out:
                    return None                      # two tests on the same coordinate: not the shape we know
                out[axis] = (c.left, c.ops, c.comparators[1], shape)
    return out if len(out) == 2 else None


def _skip_slices(tree, fn):
    heads = ["def skip_x(n):\n", "def skip_y(n):\n", "def skip_ops():\n"]
    bad = _bad(heads[0], ['lo', 'hi'], 'skip rule not recognised') + "\n\n" + \
        _bad(heads[1], ['lo', 'hi'], 'skip rule not recognised') + "\n\n" + \
        _bad(heads[2], ['ox', 'oy'], 'skip rule not recognised')
    names = _centre_names(fn)
    if names is None:
        return bad
    loops = [n for n in _ast.walk(fn) if isinstance(n, _ast.For)]
    found = None
    for lp in loops:
        found = _chains(lp.body, names[0], names[1], 'shape', lambda s: isinstance(s, _ast.Continue))
        if found:
            break
        # `if not helper(xo, yo, shape): … continue` with a straight-line helper of the same shape
        for st in lp.body:
            if isinstance(st, _ast.If) and isinstance(st.test, _ast.UnaryOp) and isinstance(st.test.op, _ast.Not) \
                    and isinstance(st.test.operand, _ast.Call) and isinstance(st.test.operand.func, _ast.Name) \
                    and st.body and isinstance(st.body[-1], _ast.Continue) and not st.test.operand.keywords:
                call = st.test.operand
                h = _func(tree, call.func.id)
                args = [a.id if isinstance(a, _ast.Name) else None for a in call.args]
                if h is None or len(h.args.args) != len(args) or names[0] not in args or names[1] not in args \
                        or 'shape' not in args or h.args.defaults or h.args.kwonlyargs:
                    continue
                par = [a.arg for a in h.args.args]
                body = [b for b in h.body if not (isinstance(b, _ast.Expr) and isinstance(b.value, _ast.Constant))]
                ret_false = lambda s: isinstance(s, _ast.Return) and isinstance(s.value, _ast.Constant) and s.value.value is False
                ok_tail = body and isinstance(body[-1], _ast.Return) and isinstance(body[-1].value, _ast.Constant) \
                    and body[-1].value.value is True and all(isinstance(b, _ast.If) for b in body[:-1])
                if ok_tail:
                    found = _chains(body[:-1], par[args.index(names[0])], par[args.index(names[1])],
                                    par[args.index('shape')], ret_false)
                if found:
                    break
        if found:
            break
    if not found:
        return bad
    opcode = {_ast.LtE: 1, _ast.Lt: 0}
    texts, codes = [], []
    for axis in (0, 1):
        lo, ops, hi, shape = found[axis]
        if type(ops[0]) not in opcode or type(ops[1]) not in opcode:
            return bad
        table = {f"{shape}[{axis}]": 'n'}
        if f"{shape}[{1 - axis}]" in _ast.unparse(hi) or f"{shape}[{1 - axis}]" in _ast.unparse(lo):
            return bad                                # the bound of one axis written with the other axis' length
        texts.append(heads[axis] + f"    lo = {_sub(lo, table)}\n    hi = {_sub(hi, table)}\n")
        codes.append(2 * opcode[type(ops[0])] + opcode[type(ops[1])])
    return texts[0] + "\n\n" + texts[1] + "\n\n" + heads[2] + f"    ox = {codes[0]}\n    oy = {codes[1]}\n"


def _gauss_names(fn):
    return [n.targets[0].id for n in _ast.walk(fn)
            if isinstance(n, _ast.Assign) and len(n.targets) == 1 and isinstance(n.targets[0], _ast.Name)
            and isinstance(n.value, _ast.Call)
            and (n.value.func.attr if isinstance(n.value.func, _ast.Attribute) else getattr(n.value.func, 'id', None)) == 'elliptical_gaussian']


def _thr_slices(fn):
    heads = ["def thr(frac, sigma, peak, rms):\n", "def mask_op():\n"]
    bad = _bad(heads[0], ['tf', 'ts'], 'mask thresholds not recognised') + "\n\n" + _bad(heads[1], ['code'], 'mask comparison not recognised')
    g = _gauss_names(fn)
    if len(g) != 1:
        return bad
    g = g[0]
    sites = [n for n in _ast.walk(fn) if isinstance(n, _ast.If) and _ast.unparse(n.test) == 'frac is not None' and n.orelse]
    if len(sites) != 1:
        return bad
    site = sites[0]
    cmps = [n for n in _ast.walk(fn) if isinstance(n, _ast.Compare) and isinstance(n.left, _ast.Name) and n.left.id == g]
    if not cmps or any(len(c.ops) != 1 or type(c.ops[0]) not in (_ast.GtE, _ast.Gt) for c in cmps) \
            or len({type(c.ops[0]) for c in cmps}) != 1:
        return bad
    code = 1 if isinstance(cmps[0].ops[0], _ast.GtE) else 0

    def branch(stmts):
        inside = [c for st in stmts for c in _ast.walk(st) if c in cmps]
        if len(inside) == 1:
            return inside[0].comparators[0]
        if inside:
            return None
        # through a temporary: the branch assigns t = <expr>, and (one) comparison `g >= t` follows the if
        asg = [st for st in stmts if isinstance(st, _ast.Assign) and len(st.targets) == 1 and isinstance(st.targets[0], _ast.Name)]
        if len(stmts) != 1 or len(asg) != 1:
            return None
        outside = [c for c in cmps if isinstance(c.comparators[0], _ast.Name) and c.comparators[0].id == asg[0].targets[0].id]
        if len(outside) != 1 or len(cmps) != 1:
            return None
        return asg[0].value
    ef, es = branch(site.body), branch(site.orelse)
    if ef is None or es is None:
        return bad
    table = {'src.peak_flux': 'peak', 'src.local_rms': 'rms'}
    return heads[0] + f"    tf = {_sub(ef, table)}\n    ts = {_sub(es, table)}\n" + "\n\n" + heads[1] + f"    code = {code}\n"


class _Bools(_ast.NodeTransformer):
    """add / mask in boolean position -> (add == 1); `not add` -> (add == 0)"""

    def visit_UnaryOp(self, node):
        if isinstance(node.op, _ast.Not) and isinstance(node.operand, _ast.Name) and node.operand.id in ('add', 'mask'):
            return _ast.Compare(left=node.operand, ops=[_ast.Eq()], comparators=[_ast.Constant(0)])
        return self.generic_visit(node)

    def visit_Name(self, node):
        if node.id in ('add', 'mask'):
            return _ast.Compare(left=node, ops=[_ast.Eq()], comparators=[_ast.Constant(1)])
        return node


def _resid_slice(fn):
    head = "def resid(add, mask):\n"
    bad = _bad(head, ['plus'], 'add / subtract dispatch not recognised')

    def sign(stmts):
        if len(stmts) == 1 and isinstance(stmts[0], _ast.Assign) and isinstance(stmts[0].value, _ast.BinOp) \
                and isinstance(stmts[0].value.left, _ast.Name) and isinstance(stmts[0].value.right, _ast.Name) \
                and stmts[0].value.left.id == 'data' and stmts[0].value.right.id == 'model':
            return {_ast.Add: 1, _ast.Sub: 0}.get(type(stmts[0].value.op))
        return None
    sites = [n for n in _ast.walk(fn) if isinstance(n, _ast.If) and sign(n.body) is not None and sign(n.orelse) is not None]
    if len(sites) != 1 or sign(sites[0].body) == sign(sites[0].orelse):
        return bad
    test = _ast.unparse(_ast.fix_missing_locations(_Bools().visit(_copy.deepcopy(sites[0].test))))
    a, b = sign(sites[0].body), sign(sites[0].orelse)
    return head + f"    plus = {a} if ({test}) else {b}\n"


def _fwhm_slice(tree):
    head = "def fwhm(ln2):\n"
    bad = _bad(head, ['k'], 'FWHM2CC not recognised')
    asg = [n for n in tree.body if isinstance(n, _ast.Assign) and len(n.targets) == 1
           and isinstance(n.targets[0], _ast.Name) and n.targets[0].id == 'FWHM2CC']
    if len(asg) != 1:
        return bad
    return head + f"    k = {_sub(asg[0].value, {'np.log(2)': 'ln2', 'math.log(2)': 'ln2', 'np.log(2.0)': 'ln2'})}\n"


def _slices():
    repo = _os.environ.get('AEGEAN_REPO', '/repo')
    try:
        tree = _ast.parse(open(_os.path.join(repo, 'AegeanTools', 'AeRes.py')).read())
        mm, mr = _func(tree, 'make_model'), _func(tree, 'make_residual')
        text = "\n\n".join([_skip_slices(tree, mm), _thr_slices(mm), _resid_slice(mr), _fwhm_slice(tree)])
    except Exception as exc:
        text = f"# slicing failed: {exc!r}\n"
    d = _os.path.join(_tempfile.gettempdir(), 'verif-C14-slices')
    _os.makedirs(d, exist_ok=True)
    path = _os.path.join(d, 'AeRes_' + _hashlib.sha1(text.encode()).hexdigest()[:12] + '.py')
    if not _os.path.exists(path):
        with open(path + '.tmp%d' % _os.getpid(), 'w') as f:
            f.write(text)
        _os.replace(path + '.tmp%d' % _os.getpid(), path)
    return path


_S = _slices()


def _fbA(name, params, hand):
    return f"def {name} {{α : Type}} [R α] ({' '.join(params)} : α) : α := {_H}.{hand} {' '.join(params)}"


def _real(func, outs, params):
    return dict(file=_S, func=func, mode='real', params={q: 'A' for q in params}, outputs=[(v, l) for v, l, _ in outs],
                fallback={l: _fbA(l, params, h) for _, l, h in outs}, all_params=params)


TARGETS = [
    dict(file='AegeanTools/fitting.py', func='elliptical_gaussian', mode='real',
         params={p: 'A' for p in _G}, subst={}, outputs=[], returns='gauss',
         fallback={'gauss': 'def gauss {α : Type} [R α] (x y amp xo yo sx sy theta : α) : α := '
                            f'{_H}.gaussHand x y amp xo yo sx sy theta'},
         all_params=_G),
    _mm('xoff', 'xoff', f'def xoff {{α : Type}} [R α] (sx sy theta : α) : α := {_H}.xoffHand sx sy theta'),
    _mm('yoff', 'yoff', f'def yoff {{α : Type}} [R α] (sx sy theta : α) : α := {_H}.yoffHand sx sy theta'),
    _mm(_gauss_result_name(), 'modelVal',
        'def modelVal {α : Type} [R α] (FWHM2CC peak xo yo sx sy theta x y : α) : α := '
        f'{_H}.modelValHand FWHM2CC peak xo yo sx sy theta x y'),
    _real('skip_x', [('lo', 'skipLoX', 'skipLoHand'), ('hi', 'skipHiX', 'skipHiHand')], ['n']),
    _real('skip_y', [('lo', 'skipLoY', 'skipLoHand'), ('hi', 'skipHiY', 'skipHiHand')], ['n']),
    dict(file=_S, func='skip_ops', mode='int', params={}, outputs=[('ox', 'skipOpsX'), ('oy', 'skipOpsY')],
         fallback={'skipOpsX': f'def skipOpsX : Nat := {_H}.skipOpsHand', 'skipOpsY': f'def skipOpsY : Nat := {_H}.skipOpsHand'},
         all_params=[]),
    _real('thr', [('tf', 'thrFrac', 'thrFracHand'), ('ts', 'thrSigma', 'thrSigmaHand')], ['frac', 'sigma', 'peak', 'rms']),
    dict(file=_S, func='mask_op', mode='int', params={}, outputs=[('code', 'maskOp')],
         fallback={'maskOp': f'def maskOp : Nat := {_H}.maskOpHand'}, all_params=[]),
    dict(file=_S, func='resid', mode='int', params={'add': 'N', 'mask': 'N'}, outputs=[('plus', 'residPlus')],
         fallback={'residPlus': f'def residPlus (add mask : Nat) : Nat := {_H}.residPlusHand add mask'},
         all_params=['add', 'mask']),
    _real('fwhm', [('k', 'fwhm2ccOf', 'fwhm2ccOfHand')], ['ln2']),
]
