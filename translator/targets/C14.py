"""C14: `fitting.elliptical_gaussian` (own copy, Gen.C14.gauss) and the arithmetic leaves of
`AeRes.make_model` that fit the translator:

  xoff, yoff : the window half-widths  factor*(|sx cos phi| + |sy sin phi|), factor*(|sx sin phi| + |sy cos phi|)
  modelVal   : the call  fitting.elliptical_gaussian(x, y, src.peak_flux, xo-1, yo-1, sx*FWHM2CC, sy*FWHM2CC, theta)
               i.e. the xo-1 / yo-1 convention, the FWHM -> sigma scaling and the argument order.

`xo, yo, sx, sy, theta` (the tuple returned by `wcshelper.sky2pix_ellipse`) and `x, y` (np.mgrid)
have right-hand sides outside the whitelist, so the translator turns them into inputs of the
generated definitions, in order of first assignment:  xoff/yoff (sx sy theta),
modelVal (FWHM2CC peak xo yo sx sy theta x y).  `src.peak_flux` is substituted by the parameter
`peak`; the module constant `FWHM2CC` is a parameter (its value is checked by the harness).

The call is written `fitting.elliptical_gaussian(...)` in the source; py2lean's `callee_name`
only resolves bare names and np./math. attributes and returns None for anything else, so the
`calls` table maps that None (and the bare name, should the source ever import it directly) to
`gauss` with arity 8.  Every other unresolved callee in make_model has a different arity or
keyword arguments and stays untranslatable (its target becomes an input), as intended.

Each of xoff, yoff, modelVal is its own target, so that one of them leaving the whitelist (e.g. the half-widths
moved into a helper function, which the translator does not inline) is reported UNTRANSLATABLE and replaced by
its hand definition alone; the property proofs unfold the hand definitions too, so they still compile on that
fallback and the correspondence (frac = 0 masks show the window exactly) ties that piece.

floor / ceil / clip / the skip rule / mask thresholds involve `max`, `min`, comparisons and
indexing: outside real mode; they are hand-modelled in Aegean/Model/C14.lean and tied by
harness/corr_C14.py.
"""
_H = 'Aegean.Model.C14'
_G = ['x', 'y', 'amp', 'xo', 'yo', 'sx', 'sy', 'theta']


def _gauss_result_name():
    """The local name that make_model binds to the `…elliptical_gaussian(…)` call (`model` on the pinned tree).
    Looked up in the tree under test ($AEGEAN_REPO, default /repo — the same rule as harness/common.py) so that
    renaming that local does not look like a change of meaning.  Exactly one such assignment must exist, otherwise
    the pinned name is kept and the target is reported UNTRANSLATABLE (hand definition + correspondence)."""
    import ast
    import os
    try:
        src = open(os.path.join(os.environ.get('AEGEAN_REPO', '/repo'), 'AegeanTools', 'AeRes.py')).read()
        fn = [n for n in ast.walk(ast.parse(src)) if isinstance(n, ast.FunctionDef) and n.name == 'make_model'][0]
        names = []
        for n in ast.walk(fn):
            if isinstance(n, ast.Assign) and len(n.targets) == 1 and isinstance(n.targets[0], ast.Name) \
                    and isinstance(n.value, ast.Call):
                f = n.value.func
                callee = f.attr if isinstance(f, ast.Attribute) else getattr(f, 'id', None)
                if callee == 'elliptical_gaussian':
                    names.append(n.targets[0].id)
        return names[0] if len(names) == 1 else 'model'
    except Exception:
        return 'model'


def _mm(pyvar, lean, fallback):
    """one output of make_model per target: a piece that leaves the whitelist falls back alone"""
    return dict(file='AegeanTools/AeRes.py', func='make_model', mode='real',
                params={'FWHM2CC': 'A', 'peak': 'A'},
                subst={'src.peak_flux': 'peak'},
                calls={None: ('gauss', 8), 'elliptical_gaussian': ('gauss', 8)},
                outputs=[(pyvar, lean)], fallback={lean: fallback})


TARGETS = [
    dict(file='AegeanTools/fitting.py', func='elliptical_gaussian', mode='real',
         params={p: 'A' for p in _G}, subst={}, outputs=[], returns='gauss',
         fallback={'gauss': 'def gauss {α : Type} [R α] (x y amp xo yo sx sy theta : α) : α := '
                            f'{_H}.gaussHand x y amp xo yo sx sy theta'},
         all_params=_G),
    _mm('xoff', 'xoff', f'def xoff {{α : Type}} [R α] (sx sy theta : α) : α := {_H}.xoffHand sx sy theta'),
    _mm('yoff', 'yoff', f'def yoff {{α : Type}} [R α] (sx sy theta : α) : α := {_H}.yoffHand sx sy theta'),
    _mm(_gauss_result_name(), 'modelVal',
        'def modelVal {α : Type} [R α] (FWHM2CC peak xo yo sx sy theta x y : α) : α := '
        f'{_H}.modelValHand FWHM2CC peak xo yo sx sy theta x y'),
]
