"""C17 translation targets.

real mode (values in `α` with `[R α]`):
  gcd        -> havA (the haversine argument a), gcdNear (the arcsin branch `sep`), gcdFar (the
                antipodal branch `far`) in real mode, and gcdSelect: the final `return` (the selection
                `np.where(cond, x, y)[()]`, or `np.select([c1, c2, …], [v1, v2, …])`) sliced out of the
                source, rewritten as a conditional expression over the names a / far / sep and translated
                in int mode at Float (comparisons live there; the class R has no order).  The obligation
                `gcd_select_total` (for EVERY double a the result is far or sep) is about this definition.
  bear       -> bear
  translate  -> translateRa, translateDec
  dec2dec    -> dec2decNeg (the branch for negative angles,  d - m/60 - s/3600  on the three parsed fields:
                the translator binds the LAST return in ast.walk order, which is the nested one; the
                non-negative branch is the hand model Model.C17.dec2decPosHand)
  ra2dec     -> ra2decScale (the factor 15)
int mode (Nat):
  dec2dms    -> dmsD, dmsM, dmsCs   as functions of n = hundredths of an arcsecond
  dec2hms    -> hmsH, hmsM, hmsCs   as functions of n = hundredths of a second of time (after wrap)
"""

_A4 = ['ra1', 'dec1', 'ra2', 'dec2']
_T4 = ['ra', 'dec', 'r', 'theta']
_F = 'AegeanTools/angle_tools.py'


def _fb(name, params, hand, ty='α'):
    if ty == 'α':
        return f"def {name} {{α : Type}} [R α] ({' '.join(params)} : α) : α := Aegean.Model.C17.{hand} {' '.join(params)}"
    return f"def {name} ({' '.join(params)} : {ty}) : {ty} := Aegean.Model.C17.{hand} {' '.join(params)}"




def _select_slice():
    """Write the selection expression of gcd's final `return` as a tiny Python function in the translator's int-mode
    whitelist (a conditional expression) and return the path of that file.  np.where(c, x, y) -> (x if c else y);
    np.select([c1..ck], [v1..vk], default=d) -> v1 if c1 else (v2 if c2 else ... d), d = 0.0 as numpy's default;
    a trailing [()] is dropped.  Anything else is written as is (and is then reported UNTRANSLATABLE).
    The source tree is $AEGEAN_REPO (default /repo), the same tree every caller of generate() passes."""
    import ast
    import hashlib
    import os
    import tempfile
    repo = os.environ.get('AEGEAN_REPO', '/repo')
    try:
        tree = ast.parse(open(os.path.join(repo, _F)).read())
        fn = [n for n in ast.walk(tree) if isinstance(n, ast.FunctionDef) and n.name == 'gcd'][0]
        ret = [n for n in fn.body if isinstance(n, ast.Return)][-1].value

        def conv(e):
            if isinstance(e, ast.Subscript) and ast.unparse(e.slice) == '()':
                return conv(e.value)
            if isinstance(e, ast.Call) and ast.unparse(e.func) in ('np.where', 'numpy.where') and len(e.args) == 3:
                return f"({conv(e.args[1])} if {ast.unparse(e.args[0])} else {conv(e.args[2])})"
            if isinstance(e, ast.Call) and ast.unparse(e.func) in ('np.select', 'numpy.select') and len(e.args) >= 2 \
                    and isinstance(e.args[0], (ast.List, ast.Tuple)) and isinstance(e.args[1], (ast.List, ast.Tuple)) \
                    and len(e.args[0].elts) == len(e.args[1].elts):
                default = e.args[2] if len(e.args) > 2 else None
                for kw in e.keywords:
                    if kw.arg == 'default':
                        default = kw.value
                out = ast.unparse(default) if default is not None else '0.0'
                for c, v in reversed(list(zip(e.args[0].elts, e.args[1].elts))):
                    out = f"({conv(v)} if {ast.unparse(c)} else {out})"
                return out
            return ast.unparse(e)
        body = conv(ret)
    except Exception as exc:           # no gcd / no return: leave something the translator rejects
        body = f"untranslatable({str(exc)!r})"
    text = "def gcd_select(a, far, sep):\n    sel = " + body + "\n    return sel\n"
    d = os.path.join(tempfile.gettempdir(), 'verif-C17-slices')
    os.makedirs(d, exist_ok=True)
    path = os.path.join(d, 'gcd_select_' + hashlib.sha1(text.encode()).hexdigest()[:12] + '.py')
    if not os.path.exists(path):
        with open(path + '.tmp%d' % os.getpid(), 'w') as f:
            f.write(text)
        os.replace(path + '.tmp%d' % os.getpid(), path)
    return path


TARGETS = [
    dict(file=_F, func='gcd', mode='real', params={p: 'A' for p in _A4},
         outputs=[('a', 'havA'), ('sep', 'gcdNear'), ('far', 'gcdFar')],
         fallback={'havA': _fb('havA', _A4, 'havAHand'), 'gcdNear': _fb('gcdNear', _A4, 'gcdNearHand'),
                   'gcdFar': _fb('gcdFar', _A4, 'gcdFarHand')},
         all_params=_A4),
    # the selection: absolute path, so os.path.join(repo, file) is this file whatever `repo` is
    dict(file=_select_slice(), func='gcd_select', mode='int', params={'a': 'F', 'far': 'F', 'sep': 'F'},
         outputs=[('sel', 'gcdSelect')],
         fallback={'gcdSelect': 'def gcdSelect (a far sep : Float) : Float := Aegean.Model.C17.gcdSelect a far sep'},
         all_params=['a', 'far', 'sep']),
    dict(file=_F, func='bear', mode='real', params={p: 'A' for p in _A4},
         returns='bear', fallback={'bear': _fb('bear', _A4, 'bearHand')}, all_params=_A4),
    dict(file=_F, func='translate', mode='real', params={p: 'A' for p in _T4},
         returns=['translateRa', 'translateDec'],
         fallback={'translateRa': _fb('translateRa', _T4, 'translateRaHand'),
                   'translateDec': _fb('translateDec', _T4, 'translateDecHand')},
         all_params=_T4),
    dict(file=_F, func='dec2dec', mode='real', params={'d0': 'A', 'd1': 'A', 'd2': 'A'},
         subst={'float(d[0])': 'd0', 'float(d[1])': 'd1', 'float(d[2])': 'd2',
                'd[0]': 'd0', 'd[1]': 'd1', 'd[2]': 'd2'},   # also when the fields are converted once, up front
         returns='dec2decNeg', fallback={'dec2decNeg': _fb('dec2decNeg', ['d0', 'd1', 'd2'], 'dec2decNegHand')},
         all_params=['d0', 'd1', 'd2']),
    dict(file=_F, func='ra2dec', mode='real', params={'v': 'A'}, subst={'dec2dec(ra)': 'v'},
         returns='ra2decScale', fallback={'ra2decScale': _fb('ra2decScale', ['v'], 'ra2decScaleHand')},
         all_params=['v']),
    # the formatters: `n = int(round(...))` is outside the whitelist, so `n` becomes the input of the
    # regenerated field arithmetic (Nat).  On a tree without the integer formulation (the pinned one)
    # `n`/`cs` do not exist and the hand model is used instead.
    dict(file=_F, func='dec2dms', mode='int', params={},
         outputs=[('d', 'dmsD'), ('m', 'dmsM'), ('cs', 'dmsCs')],
         fallback={'dmsD': _fb('dmsD', ['n'], 'fldHi', 'Nat'), 'dmsM': _fb('dmsM', ['n'], 'fldM', 'Nat'),
                   'dmsCs': _fb('dmsCs', ['n'], 'fldCs', 'Nat')}),
    dict(file=_F, func='dec2hms', mode='int', params={},
         outputs=[('h', 'hmsH'), ('m', 'hmsM'), ('cs', 'hmsCs')],
         fallback={'hmsH': _fb('hmsH', ['n'], 'fldHi', 'Nat'), 'hmsM': _fb('hmsM', ['n'], 'fldM', 'Nat'),
                   'hmsCs': _fb('hmsCs', ['n'], 'fldCs', 'Nat')}),
]
