"""C17 translation targets.

real mode (values in `α` with `[R α]`):
  gcd        -> havA (the haversine argument a), gcdNear (the arcsin branch `sep`), gcdFar (the
                antipodal branch `far`) in real mode, and gcdSelect: the final `return` (the selection
                `np.where(cond, x, y)[()]`, or `np.select([c1, c2, …], [v1, v2, …])`) sliced out of the
                source, rewritten as a conditional expression over the names a / far / sep and translated
                in int mode at Float (comparisons live there; the class R has no order).  The obligation
                `gcd_select_total` (for EVERY double a the result is far or sep) is about this definition.
  bear       -> bear
  translate  -> translateRa, translateDec
  dec2dec    -> dec2decNeg (the branch for negative angles,  d - m/60 - s/3600  on the three parsed fields:
                the translator binds the LAST return in ast.walk order, which is the nested one; the
                non-negative branch is the hand model Model.C17.dec2decPosHand)
  ra2dec     -> ra2decScale (the factor 15)
  dec2dec    -> dec2decPos too (slice dec2dec__pos: the function without its `if negative: return` statement)
  dec2dms    -> dmsScaled   the quantity that is rounded, abs(float(x)) * 360000  (slice dec2dms__scaled)
  dec2hms    -> hmsScaled   float(x) * 24000; hmsWrapZ (int mode, Int): k % 8640000 (slice dec2hms__wrap)
int mode (Nat):
  dec2dms    -> dmsD, dmsM, dmsCs   as functions of n = hundredths of an arcsecond
  dec2hms    -> hmsH, hmsM, hmsCs   as functions of n = hundredths of a second of time (after wrap)
"""

_A4 = ['ra1', 'dec1', 'ra2', 'dec2']
_T4 = ['ra', 'dec', 'r', 'theta']
_F = 'AegeanTools/angle_tools.py'


def _fb(name, params, hand, ty='α'):
    if ty == 'α':
        return f"def {name} {{α : Type}} [R α] ({' '.join(params)} : α) : α := Aegean.Model.C17.{hand} {' '.join(params)}"
    return f"def {name} ({' '.join(params)} : {ty}) : {ty} := Aegean.Model.C17.{hand} {' '.join(params)}"


# ---------------------------------------------------------------------------------------------------------------
# Source normalisation (behaviour-preserving refactors must not fall out of the translator's whitelist).
#
# The targets below do not read angle_tools.py directly but a NORMALISED COPY of it written to a temp file:
#   (1) a call to a module-level helper whose body is a single `return <expr>` is replaced by that expression with
#       the arguments substituted (e.g. `_archav_deg(hav)`);
#   (2) `q, r = divmod(x, y)` becomes `q = x // y; r = x % y`;
#   (3) `t1, …, tk = helper(args)` where the helper is straight-line (assignments and (2) only) and ends in
#       `return e1, …, ek` is replaced by the helper's body with its locals prefixed, then `ti = ei`;
#   (5) the constant np.pi / math.pi is written np.radians(180) (= pi over the reals; the whitelist has no pi);
#   (4) in gcd the local names are renamed by ROLE, read off the final `return np.where(<x> > c, <f>, <s>)[()]`:
#       the compared name becomes `a`, the branch assigned from `180 - …` (or called `far`) becomes `far`, the other
#       `sep`.
# Only pure, straight-line helpers are inlined (anything with a branch, a loop, a global or an attribute store is
# left alone and the target is then UNTRANSLATABLE -> hand fallback); if any step is not clearly applicable the
# function is left exactly as it is.  The tree is $AEGEAN_REPO (default /repo), as for every caller of generate().
# ---------------------------------------------------------------------------------------------------------------
def _extra_slices(ast, copy, funcs):
    """Synthesised slice functions appended to the normalised module (each only when its shape is recognised without
    doubt; a missing slice makes its target UNTRANSLATABLE -> hand fallback):
      dec2dec__pos(dec)     dec2dec without the `if <negative>: return …` statement: its last return is the branch for
                            non-negative angles (the stock translator binds only the nested, negative, return);
      dec2dms__scaled(x)    the argument of the single round(...) call of dec2dms  (abs(float(x)) * 360000);
      dec2hms__scaled(x)    the same for dec2hms                                    (float(x) * 24000);
      dec2hms__wrap(k)      `k % M` where the source has  int(round(...)) % M  with a constant M."""
    out = []

    def fdef(name, params, body):
        return ast.FunctionDef(name=name, args=ast.arguments(posonlyargs=[], args=[ast.arg(arg=p) for p in params], kwonlyargs=[],
                                                              kw_defaults=[], defaults=[]), body=body, decorator_list=[], type_params=[])

    def assigned_names(fn):
        names = set()
        for n in ast.walk(fn):
            if isinstance(n, (ast.Assign, ast.AugAssign, ast.AnnAssign)):
                for t in (n.targets if isinstance(n, ast.Assign) else [n.target]):
                    names |= {m.id for m in ast.walk(t) if isinstance(m, ast.Name)}
        return names

    # --- dec2dec, branch for non-negative angles
    fn = funcs.get('dec2dec')
    if fn is not None:
        ifs = [st for st in fn.body if isinstance(st, ast.If) and st.body and isinstance(st.body[-1], ast.Return) and not st.orelse
               and any(isinstance(n, ast.Return) for n in st.body)]
        ret_ifs = [st for st in ifs if len(st.body) == 1]
        if len(ret_ifs) == 1 and isinstance(fn.body[-1], ast.Return) and fn.body.index(ret_ifs[0]) == len(fn.body) - 2:
            g = copy.deepcopy(fn)
            g.name = 'dec2dec__pos'
            g.body = [st for st in g.body if not (isinstance(st, ast.If) and ast.dump(st) == ast.dump(ret_ifs[0]))]
            out.append(g)

    # --- the quantity that is rounded, and the wrap
    for name in ('dec2dms', 'dec2hms'):
        fn = funcs.get(name)
        if fn is None or len(fn.args.args) != 1:
            continue
        par = fn.args.args[0].arg
        if par in assigned_names(fn):            # the parameter is rebound somewhere: the slice would not mean what it says
            continue
        rounds = [n for n in ast.walk(fn) if isinstance(n, ast.Call) and isinstance(n.func, ast.Name) and n.func.id == 'round'
                  and len(n.args) == 1 and not n.keywords]
        if len(rounds) != 1:
            continue
        e = rounds[0].args[0]
        free = {n.id for n in ast.walk(e) if isinstance(n, ast.Name)}
        if free <= {par, 'abs', 'float'}:
            out.append(fdef(name + '__scaled', [par],
                            [ast.Assign(targets=[ast.Name(id='scaled', ctx=ast.Store())], value=copy.deepcopy(e)),
                             ast.Return(value=ast.Name(id='scaled', ctx=ast.Load()))]))
        if name == 'dec2hms':
            def is_rounded_int(x):
                return x is rounds[0] or (isinstance(x, ast.Call) and isinstance(x.func, ast.Name) and x.func.id == 'int'
                                          and len(x.args) == 1 and x.args[0] is rounds[0])
            mods = [n for n in ast.walk(fn) if isinstance(n, ast.BinOp) and isinstance(n.op, ast.Mod) and is_rounded_int(n.left)]
            if len(mods) == 1 and not any(isinstance(n, (ast.Name, ast.Call, ast.Attribute)) for n in ast.walk(mods[0].right)):
                out.append(fdef('dec2hms__wrap', ['k'],
                                [ast.Assign(targets=[ast.Name(id='wrapped', ctx=ast.Store())],
                                            value=ast.BinOp(ast.Name(id='k', ctx=ast.Load()), ast.Mod(), copy.deepcopy(mods[0].right))),
                                 ast.Return(value=ast.Name(id='wrapped', ctx=ast.Load()))]))
    return out



def _normalised_module():
    import ast
    import copy
    import hashlib
    import os
    import tempfile
    repo = os.environ.get('AEGEAN_REPO', '/repo')
    try:
        tree = ast.parse(open(os.path.join(repo, _F)).read())
    except Exception:
        return _F
    funcs = {n.name: n for n in tree.body if isinstance(n, ast.FunctionDef)}

    def body_wo_doc(fn):
        b = list(fn.body)
        if b and isinstance(b[0], ast.Expr) and isinstance(getattr(b[0], 'value', None), ast.Constant) \
                and isinstance(b[0].value.value, str):
            b = b[1:]
        return b

    def plain_params(fn):
        a = fn.args
        if a.vararg or a.kwarg or a.kwonlyargs or a.defaults or a.posonlyargs:
            return None
        return [x.arg for x in a.args]

    class Subst(ast.NodeTransformer):
        def __init__(self, m):
            self.m = m

        def visit_Name(self, node):
            if isinstance(node.ctx, ast.Load) and node.id in self.m:
                return copy.deepcopy(self.m[node.id])
            return node

    class Rename(ast.NodeTransformer):
        def __init__(self, m):
            self.m = m

        def visit_Name(self, node):
            if node.id in self.m:
                return ast.copy_location(ast.Name(id=self.m[node.id], ctx=node.ctx), node)
            return node

    def is_pure_expr(e):
        for n in ast.walk(e):
            if isinstance(n, (ast.Lambda, ast.Await, ast.Yield, ast.YieldFrom, ast.NamedExpr, ast.Starred)):
                return False
        return True

    expr_helpers = {}
    for name, fn in funcs.items():
        ps, b = plain_params(fn), body_wo_doc(fn)
        if ps is not None and len(b) == 1 and isinstance(b[0], ast.Return) and b[0].value is not None \
                and not isinstance(b[0].value, ast.Tuple) and is_pure_expr(b[0].value) \
                and not any(isinstance(n, ast.Call) and isinstance(n.func, ast.Name) and n.func.id in funcs
                            for n in ast.walk(b[0].value)):
            expr_helpers[name] = (ps, b[0].value)

    class PiConst(ast.NodeTransformer):
        """np.pi / numpy.pi / math.pi  ->  np.radians(180): the translator's whitelist has no constant pi, and over the
        reals radians(180) = 180 * (pi / 180) IS pi (at Float it may differ by an ulp, far inside the 1e-10 tolerance)"""
        def visit_Attribute(self, node):
            if isinstance(node.ctx, ast.Load) and node.attr == 'pi' and isinstance(node.value, ast.Name) \
                    and node.value.id in ('np', 'numpy', 'math'):
                return ast.copy_location(ast.Call(func=ast.Attribute(value=ast.Name(id='np', ctx=ast.Load()), attr='radians', ctx=ast.Load()),
                                                  args=[ast.Constant(value=180)], keywords=[]), node)
            return self.generic_visit(node)

    class InlineExpr(ast.NodeTransformer):
        def visit_Call(self, node):
            self.generic_visit(node)
            if isinstance(node.func, ast.Name) and node.func.id in expr_helpers and not node.keywords:
                ps, e = expr_helpers[node.func.id]
                if len(ps) == len(node.args):
                    return Subst(dict(zip(ps, node.args))).visit(copy.deepcopy(e))
            return node

    def divmod_split(st):
        """q, r = divmod(x, y)  ->  [q = x // y, r = x % y]   (None if st is not of that shape)"""
        if isinstance(st, ast.Assign) and len(st.targets) == 1 and isinstance(st.targets[0], ast.Tuple) \
                and len(st.targets[0].elts) == 2 and all(isinstance(t, ast.Name) for t in st.targets[0].elts) \
                and isinstance(st.value, ast.Call) and isinstance(st.value.func, ast.Name) and st.value.func.id == 'divmod' \
                and len(st.value.args) == 2 and not st.value.keywords and is_pure_expr(st.value):
            x, y = st.value.args
            q, r = st.targets[0].elts
            if q.id == r.id or any(isinstance(n, ast.Name) and n.id in (q.id, r.id) for n in ast.walk(st.value)):
                return None
            return [ast.Assign(targets=[ast.Name(id=q.id, ctx=ast.Store())], value=ast.BinOp(copy.deepcopy(x), ast.FloorDiv(), copy.deepcopy(y))),
                    ast.Assign(targets=[ast.Name(id=r.id, ctx=ast.Store())], value=ast.BinOp(copy.deepcopy(x), ast.Mod(), copy.deepcopy(y)))]
        return None

    def block_helper(fn):
        """(params, straight-line statements, return elements) or None"""
        ps, b = plain_params(fn), body_wo_doc(fn)
        if ps is None or not b or not isinstance(b[-1], ast.Return) or not isinstance(b[-1].value, ast.Tuple):
            return None
        stmts = []
        for st in b[:-1]:
            dm = divmod_split(st)
            if dm is not None:
                stmts += dm
            elif isinstance(st, ast.Assign) and len(st.targets) == 1 and isinstance(st.targets[0], ast.Name) and is_pure_expr(st.value) \
                    and not any(isinstance(n, ast.Call) and isinstance(n.func, ast.Name) and n.func.id in funcs for n in ast.walk(st.value)):
                stmts.append(st)
            else:
                return None
        if not all(is_pure_expr(e) for e in b[-1].value.elts):
            return None
        return ps, stmts, list(b[-1].value.elts)

    def inline_blocks(fn):
        out = []
        for st in fn.body:
            dm = divmod_split(st)
            if dm is not None:
                out += dm
                continue
            if isinstance(st, ast.Assign) and len(st.targets) == 1 and isinstance(st.targets[0], ast.Tuple) \
                    and all(isinstance(t, ast.Name) for t in st.targets[0].elts) and isinstance(st.value, ast.Call) \
                    and isinstance(st.value.func, ast.Name) and st.value.func.id in funcs and not st.value.keywords:
                h = block_helper(funcs[st.value.func.id])
                if h is not None and len(h[0]) == len(st.value.args) and len(h[2]) == len(st.targets[0].elts):
                    ps, stmts, rets = h
                    pre = '_' + st.value.func.id.strip('_') + '_'
                    local = set(ps) | {s2.targets[0].id for s2 in stmts}
                    ren = Rename({v: pre + v for v in local})
                    for pname, arg in zip(ps, st.value.args):
                        out.append(ast.Assign(targets=[ast.Name(id=pre + pname, ctx=ast.Store())], value=copy.deepcopy(arg)))
                    for s2 in stmts:
                        out.append(ren.visit(copy.deepcopy(s2)))
                    for tgt, e in zip(st.targets[0].elts, rets):
                        out.append(ast.Assign(targets=[ast.Name(id=tgt.id, ctx=ast.Store())], value=ren.visit(copy.deepcopy(e))))
                    continue
            out.append(st)
        fn.body = out

    def gcd_roles(fn):
        rets = [n for n in fn.body if isinstance(n, ast.Return)]
        if not rets:
            return
        e = rets[-1].value
        if isinstance(e, ast.Subscript):
            e = e.value
        if not (isinstance(e, ast.Call) and ast.unparse(e.func) in ('np.where', 'numpy.where') and len(e.args) == 3
                and isinstance(e.args[1], ast.Name) and isinstance(e.args[2], ast.Name) and isinstance(e.args[0], ast.Compare)):
            return
        cn = [n.id for n in ast.walk(e.args[0]) if isinstance(n, ast.Name)]
        if len(set(cn)) != 1:
            return
        x, y = e.args[1].id, e.args[2].id

        def from_180(v):
            asg = [s for s in fn.body if isinstance(s, ast.Assign) and len(s.targets) == 1 and isinstance(s.targets[0], ast.Name)
                   and s.targets[0].id == v]
            return bool(asg) and isinstance(asg[-1].value, ast.BinOp) and isinstance(asg[-1].value.op, ast.Sub) \
                and isinstance(asg[-1].value.left, ast.Constant) and asg[-1].value.left.value == 180
        far = x if (x == 'far' or (y != 'far' and from_180(x) and not from_180(y))) else \
            y if (y == 'far' or (from_180(y) and not from_180(x))) else None
        if far is None or x == y:
            return
        sep = y if far == x else x
        m = {cn[0]: 'a', far: 'far', sep: 'sep'}
        if len(set(m)) != 3:
            return
        used = {n.id for n in ast.walk(fn) if isinstance(n, ast.Name)} | {a.arg for a in fn.args.args}
        if any(new in used and new not in m for new in m.values()):      # a canonical name is already taken by another local
            return
        Rename(m).visit(fn)

    try:
        new = copy.deepcopy(tree)
        for n in new.body:
            if isinstance(n, ast.FunctionDef) and n.name in ('gcd', 'bear', 'translate', 'dec2dms', 'dec2hms'):
                PiConst().visit(n)
                InlineExpr().visit(n)
                inline_blocks(n)
                if n.name == 'gcd':
                    gcd_roles(n)
        new.body += _extra_slices(ast, copy, funcs)
        ast.fix_missing_locations(new)
        text = ast.unparse(new) + "\n"
        ast.parse(text)
    except Exception:
        return _F
    d = os.path.join(tempfile.gettempdir(), 'verif-C17-slices')
    os.makedirs(d, exist_ok=True)
    path = os.path.join(d, 'angle_tools_norm_' + hashlib.sha1(text.encode()).hexdigest()[:12] + '.py')
    if not os.path.exists(path):
        with open(path + '.tmp%d' % os.getpid(), 'w') as f:
            f.write(text)
        os.replace(path + '.tmp%d' % os.getpid(), path)
    return path


_N = _normalised_module()          # absolute path: os.path.join(repo, _N) is _N whatever `repo` is


def _select_slice():
    """Write the selection expression of gcd's final `return` as a tiny Python function in the translator's int-mode
    whitelist (a conditional expression) and return the path of that file.  np.where(c, x, y) -> (x if c else y);
    np.select([c1..ck], [v1..vk], default=d) -> v1 if c1 else (v2 if c2 else ... d), d = 0.0 as numpy's default;
    a trailing [()] is dropped.  Anything else is written as is (and is then reported UNTRANSLATABLE).
    The source tree is $AEGEAN_REPO (default /repo), the same tree every caller of generate() passes."""
    import ast
    import hashlib
    import os
    import tempfile
    repo = os.environ.get('AEGEAN_REPO', '/repo')
    try:
        tree = ast.parse(open(os.path.join(repo, _N)).read())
        fn = [n for n in ast.walk(tree) if isinstance(n, ast.FunctionDef) and n.name == 'gcd'][0]
        ret = [n for n in fn.body if isinstance(n, ast.Return)][-1].value

        def conv(e):
            if isinstance(e, ast.Subscript) and ast.unparse(e.slice) == '()':
                return conv(e.value)
            if isinstance(e, ast.Call) and ast.unparse(e.func) in ('np.where', 'numpy.where') and len(e.args) == 3:
                return f"({conv(e.args[1])} if {ast.unparse(e.args[0])} else {conv(e.args[2])})"
            if isinstance(e, ast.Call) and ast.unparse(e.func) in ('np.select', 'numpy.select') and len(e.args) >= 2 \
                    and isinstance(e.args[0], (ast.List, ast.Tuple)) and isinstance(e.args[1], (ast.List, ast.Tuple)) \
                    and len(e.args[0].elts) == len(e.args[1].elts):
                default = e.args[2] if len(e.args) > 2 else None
                for kw in e.keywords:
                    if kw.arg == 'default':
                        default = kw.value
                out = ast.unparse(default) if default is not None else '0.0'
                for c, v in reversed(list(zip(e.args[0].elts, e.args[1].elts))):
                    out = f"({conv(v)} if {ast.unparse(c)} else {out})"
                return out
            return ast.unparse(e)
        body = conv(ret)
    except Exception as exc:           # no gcd / no return: leave something the translator rejects
        body = f"untranslatable({str(exc)!r})"
    text = "def gcd_select(a, far, sep):\n    sel = " + body + "\n    return sel\n"
    d = os.path.join(tempfile.gettempdir(), 'verif-C17-slices')
    os.makedirs(d, exist_ok=True)
    path = os.path.join(d, 'gcd_select_' + hashlib.sha1(text.encode()).hexdigest()[:12] + '.py')
    if not os.path.exists(path):
        with open(path + '.tmp%d' % os.getpid(), 'w') as f:
            f.write(text)
        os.replace(path + '.tmp%d' % os.getpid(), path)
    return path


TARGETS = [
    dict(file=_N, func='gcd', mode='real', params={p: 'A' for p in _A4},
         outputs=[('a', 'havA'), ('sep', 'gcdNear'), ('far', 'gcdFar')],
         fallback={'havA': _fb('havA', _A4, 'havAHand'), 'gcdNear': _fb('gcdNear', _A4, 'gcdNearHand'),
                   'gcdFar': _fb('gcdFar', _A4, 'gcdFarHand')},
         all_params=_A4),
    # the selection: absolute path, so os.path.join(repo, file) is this file whatever `repo` is
    dict(file=_select_slice(), func='gcd_select', mode='int', params={'a': 'F', 'far': 'F', 'sep': 'F'},
         outputs=[('sel', 'gcdSelect')],
         fallback={'gcdSelect': 'def gcdSelect (a far sep : Float) : Float := Aegean.Model.C17.gcdSelect a far sep'},
         all_params=['a', 'far', 'sep']),
    dict(file=_N, func='bear', mode='real', params={p: 'A' for p in _A4},
         returns='bear', fallback={'bear': _fb('bear', _A4, 'bearHand')}, all_params=_A4),
    dict(file=_N, func='translate', mode='real', params={p: 'A' for p in _T4},
         returns=['translateRa', 'translateDec'],
         fallback={'translateRa': _fb('translateRa', _T4, 'translateRaHand'),
                   'translateDec': _fb('translateDec', _T4, 'translateDecHand')},
         all_params=_T4),
    dict(file=_N, func='dec2dec', mode='real', params={'d0': 'A', 'd1': 'A', 'd2': 'A'},
         subst={'float(d[0])': 'd0', 'float(d[1])': 'd1', 'float(d[2])': 'd2',
                'd[0]': 'd0', 'd[1]': 'd1', 'd[2]': 'd2'},   # also when the fields are converted once, up front
         returns='dec2decNeg', fallback={'dec2decNeg': _fb('dec2decNeg', ['d0', 'd1', 'd2'], 'dec2decNegHand')},
         all_params=['d0', 'd1', 'd2']),
    dict(file=_N, func='ra2dec', mode='real', params={'v': 'A'}, subst={'dec2dec(ra)': 'v'},
         returns='ra2decScale', fallback={'ra2decScale': _fb('ra2decScale', ['v'], 'ra2decScaleHand')},
         all_params=['v']),
    # the formatters: `n = int(round(...))` is outside the whitelist, so `n` becomes the input of the
    # regenerated field arithmetic (Nat).  On a tree without the integer formulation (the pinned one)
    # `n`/`cs` do not exist and the hand model is used instead.
    # --- deepening round: the non-negative branch of dec2dec, the quantities that are rounded, the RA wrap
    dict(file=_N, func='dec2dec__pos', mode='real', params={'d0': 'A', 'd1': 'A', 'd2': 'A'},
         subst={'float(d[0])': 'd0', 'float(d[1])': 'd1', 'float(d[2])': 'd2', 'd[0]': 'd0', 'd[1]': 'd1', 'd[2]': 'd2'},
         returns='dec2decPos', fallback={'dec2decPos': _fb('dec2decPos', ['d0', 'd1', 'd2'], 'dec2decPosHand')},
         all_params=['d0', 'd1', 'd2']),
    dict(file=_N, func='dec2dms__scaled', mode='real', params={'x': 'A'}, subst={'float(x)': 'x'},
         returns='dmsScaled', fallback={'dmsScaled': _fb('dmsScaled', ['x'], 'dmsScaledHand')}, all_params=['x']),
    dict(file=_N, func='dec2hms__scaled', mode='real', params={'x': 'A'}, subst={'float(x)': 'x'},
         returns='hmsScaled', fallback={'hmsScaled': _fb('hmsScaled', ['x'], 'hmsScaledHand')}, all_params=['x']),
    dict(file=_N, func='dec2hms__wrap', mode='int', params={'k': 'Z'}, returns='hmsWrapZ',
         fallback={'hmsWrapZ': 'def hmsWrapZ (k : Int) : Int := Aegean.Model.C17.hmsWrapZHand k'}, all_params=['k']),
    # one target per printed field, so that a field whose variable disappears in a refactor falls back alone
    dict(file=_N, func='dec2dms', mode='int', params={}, outputs=[('d', 'dmsD')],
         fallback={'dmsD': _fb('dmsD', ['n'], 'fldHi', 'Nat')}),
    dict(file=_N, func='dec2dms', mode='int', params={}, outputs=[('m', 'dmsM')],
         fallback={'dmsM': _fb('dmsM', ['n'], 'fldM', 'Nat')}),
    dict(file=_N, func='dec2dms', mode='int', params={}, outputs=[('cs', 'dmsCs')],
         fallback={'dmsCs': _fb('dmsCs', ['n'], 'fldCs', 'Nat')}),
    dict(file=_N, func='dec2hms', mode='int', params={}, outputs=[('h', 'hmsH')],
         fallback={'hmsH': _fb('hmsH', ['n'], 'fldHi', 'Nat')}),
    dict(file=_N, func='dec2hms', mode='int', params={}, outputs=[('m', 'hmsM')],
         fallback={'hmsM': _fb('hmsM', ['n'], 'fldM', 'Nat')}),
    dict(file=_N, func='dec2hms', mode='int', params={}, outputs=[('cs', 'hmsCs')],
         fallback={'hmsCs': _fb('hmsCs', ['n'], 'fldCs', 'Nat')}),
]
