"""C17 translation targets.

real mode (values in `α` with `[R α]`):
  gcd        -> havA (the haversine argument a), gcdNear (the arcsin branch `sep`), gcdFar (the
                antipodal branch `far`).  The final `np.where(a > 0.5, far, sep)` selection is outside the
                arithmetic whitelist (R has no order); it is hand-modelled (Model.C17.gcdSelect) and
                the theorems hold for BOTH branches, so any selection rule is covered.
  bear       -> bear
  translate  -> translateRa, translateDec
  dec2dec    -> dec2decNeg (the branch for negative angles,  d - m/60 - s/3600  on the three parsed fields:
                the translator binds the LAST return in ast.walk order, which is the nested one; the
                non-negative branch is the hand model Model.C17.dec2decPosHand)
  ra2dec     -> ra2decScale (the factor 15)
int mode (Nat):
  dec2dms    -> dmsD, dmsM, dmsCs   as functions of n = hundredths of an arcsecond
  dec2hms    -> hmsH, hmsM, hmsCs   as functions of n = hundredths of a second of time (after wrap)
"""

_A4 = ['ra1', 'dec1', 'ra2', 'dec2']
_T4 = ['ra', 'dec', 'r', 'theta']
_F = 'AegeanTools/angle_tools.py'


def _fb(name, params, hand, ty='α'):
    if ty == 'α':
        return f"def {name} {{α : Type}} [R α] ({' '.join(params)} : α) : α := Aegean.Model.C17.{hand} {' '.join(params)}"
    return f"def {name} ({' '.join(params)} : {ty}) : {ty} := Aegean.Model.C17.{hand} {' '.join(params)}"


TARGETS = [
    dict(file=_F, func='gcd', mode='real', params={p: 'A' for p in _A4},
         outputs=[('a', 'havA'), ('sep', 'gcdNear'), ('far', 'gcdFar')],
         fallback={'havA': _fb('havA', _A4, 'havAHand'), 'gcdNear': _fb('gcdNear', _A4, 'gcdNearHand'),
                   'gcdFar': _fb('gcdFar', _A4, 'gcdFarHand')},
         all_params=_A4),
    dict(file=_F, func='bear', mode='real', params={p: 'A' for p in _A4},
         returns='bear', fallback={'bear': _fb('bear', _A4, 'bearHand')}, all_params=_A4),
    dict(file=_F, func='translate', mode='real', params={p: 'A' for p in _T4},
         returns=['translateRa', 'translateDec'],
         fallback={'translateRa': _fb('translateRa', _T4, 'translateRaHand'),
                   'translateDec': _fb('translateDec', _T4, 'translateDecHand')},
         all_params=_T4),
    dict(file=_F, func='dec2dec', mode='real', params={'d0': 'A', 'd1': 'A', 'd2': 'A'},
         subst={'float(d[0])': 'd0', 'float(d[1])': 'd1', 'float(d[2])': 'd2',
                'd[0]': 'd0', 'd[1]': 'd1', 'd[2]': 'd2'},   # also when the fields are converted once, up front
         returns='dec2decNeg', fallback={'dec2decNeg': _fb('dec2decNeg', ['d0', 'd1', 'd2'], 'dec2decNegHand')},
         all_params=['d0', 'd1', 'd2']),
    dict(file=_F, func='ra2dec', mode='real', params={'v': 'A'}, subst={'dec2dec(ra)': 'v'},
         returns='ra2decScale', fallback={'ra2decScale': _fb('ra2decScale', ['v'], 'ra2decScaleHand')},
         all_params=['v']),
    # the formatters: `n = int(round(...))` is outside the whitelist, so `n` becomes the input of the
    # regenerated field arithmetic (Nat).  On a tree without the integer formulation (the pinned one)
    # `n`/`cs` do not exist and the hand model is used instead.
    dict(file=_F, func='dec2dms', mode='int', params={},
         outputs=[('d', 'dmsD'), ('m', 'dmsM'), ('cs', 'dmsCs')],
         fallback={'dmsD': _fb('dmsD', ['n'], 'fldHi', 'Nat'), 'dmsM': _fb('dmsM', ['n'], 'fldM', 'Nat'),
                   'dmsCs': _fb('dmsCs', ['n'], 'fldCs', 'Nat')}),
    dict(file=_F, func='dec2hms', mode='int', params={},
         outputs=[('h', 'hmsH'), ('m', 'hmsM'), ('cs', 'hmsCs')],
         fallback={'hmsH': _fb('hmsH', ['n'], 'fldHi', 'Nat'), 'hmsM': _fb('hmsM', ['n'], 'fldM', 'Nat'),
                   'hmsCs': _fb('hmsCs', ['n'], 'fldCs', 'Nat')}),
]
