"""C01: the arithmetic leaves of the closed loop  inject -> fit -> report, regenerated from source.

  gauss                 fitting.elliptical_gaussian                                   (the pixel model)
  cc2fwhm, fwhm2cc      the module constants CC2FHWM / FWHM2CC of source_finder.py     (sigma <-> FWHM)
  fwhm2ccRes            the module constant FWHM2CC of AeRes.py
  xPix, yPix            result_to_components:  x_pix = xo + xmin + 1,  y_pix = yo + ymin + 1
  p2sArgX .. p2sArgTheta  the five arguments handed to wcshelper.pix2sky_ellipse((x_pix, y_pix), sx*CC2FHWM, sy*CC2FHWM, theta)
                        (argument ORDER and scaling are part of the regenerated model)
  aArcsec, bArcsec      source.a *= 3600, source.b *= 3600
  intFlux               source.int_flux = peak_flux*sx*sy*CC2FHWM**2*pi ; source.int_flux /= get_beamarea_pix(ra, dec)
  beamAreaPix           WCSHelper.get_beamarea_pix:  a * b * pi  (a, b = the pixel psf returned by get_psf_sky2pix)
  s2pArgA, s2pArgB, s2pArgPa   AeRes.make_model: the arguments handed to wcshelper.sky2pix_ellipse([ra, dec], a/3600, b/3600, pa)
  renderVal             AeRes.make_model: elliptical_gaussian(x, y, peak, xo-1, yo-1, sx*FWHM2CC, sy*FWHM2CC, theta)

Extensions of py2lean that live here (AGENT_GUIDE: an extended copy/wrapper may live in the targets file).
All of them are inert for other properties' targets:

  * `find_function` understands two pseudo names:
      '<module>'                      the module body itself (for module-level constants)
      'A.b#c01'                       function A.b after the AST rewrite below
      'A.b#c01loop'                   the same, with the body cut down to its FIRST `for` loop (result_to_components
                                      re-binds `source` to an IslandSource after the component loop)
    the rewrite, applied BEFORE translation (other properties' targets never carry the '#c01' tag):
      - `source.x` / `src.x`                       ->  the plain variable `source_x` / `src_x`
      - `<anything>.get_beamarea_pix(...)`          ->  the variable `beam_area_pix` (an input of the model)
      - `lhs = <anything>.pix2sky_ellipse((p, q), s, t, u)` is preceded by  p2s_arg_x = p; p2s_arg_y = q; p2s_arg_sx = s; …
      - `lhs = <anything>.sky2pix_ellipse([p, q], a, b, pa)` is preceded by  s2p_arg_ra = p; …; s2p_arg_pa = pa
  * `Translator.expr_real`:  np.pi / math.pi -> R.pi;  np.log(2) / math.log(2) -> the parameter `ln2`
    (only when the target declares a parameter called `ln2`; `R` has no logarithm — ln 2 is modelled as a
    positive parameter, instantiated with `Real.log 2` in the proofs and 0x3fe62e42fefa39ef in the driver).
"""
import ast
import copy

import py2lean

_H = 'Aegean.Model.C01'

# ------------------------------------------------------------------------------------------------
# extensions


class _Rewrite(ast.NodeTransformer):
    def visit_Attribute(self, node):
        self.generic_visit(node)
        if isinstance(node.value, ast.Name) and node.value.id in ('source', 'src'):
            return ast.copy_location(ast.Name(id=f'{node.value.id}_{node.attr}', ctx=node.ctx), node)
        return node

    def visit_Call(self, node):
        self.generic_visit(node)
        if isinstance(node.func, ast.Attribute) and node.func.attr == 'get_beamarea_pix':
            return ast.copy_location(ast.Name(id='beam_area_pix', ctx=ast.Load()), node)
        return node


class _Branch(ast.NodeTransformer):
    """`if amp > 0: A else: B`  ->  A (positive) or B (negative): real mode has no comparisons, so the two sign
    branches of the amplitude bounds are regenerated as two sets of definitions"""

    def __init__(self, positive):
        self.positive = positive

    def visit_If(self, node):
        self.generic_visit(node)
        if ast.unparse(node.test) == 'amp > 0':
            return node.body if self.positive else node.orelse
        return node


def _expose_args(body):
    """prepend `p2s_arg_* = …` / `s2p_arg_* = …` before calls of pix2sky_ellipse / sky2pix_ellipse"""
    out = []
    for s in body:
        for fld in ('body', 'orelse', 'finalbody'):
            if hasattr(s, fld) and isinstance(getattr(s, fld), list):
                setattr(s, fld, _expose_args(getattr(s, fld)))
        if isinstance(s, ast.Assign) and isinstance(s.value, ast.Call) and isinstance(s.value.func, ast.Attribute) \
                and not s.value.keywords:
            attr, args = s.value.func.attr, s.value.args
            names = None
            if attr == 'pix2sky_ellipse' and len(args) == 4 and isinstance(args[0], (ast.Tuple, ast.List)) \
                    and len(args[0].elts) == 2:
                names = ['p2s_arg_x', 'p2s_arg_y', 'p2s_arg_sx', 'p2s_arg_sy', 'p2s_arg_theta']
            if attr == 'sky2pix_ellipse' and len(args) == 4 and isinstance(args[0], (ast.Tuple, ast.List)) \
                    and len(args[0].elts) == 2:
                names = ['s2p_arg_ra', 's2p_arg_dec', 's2p_arg_a', 's2p_arg_b', 's2p_arg_pa']
            if names:
                vals = list(args[0].elts) + list(args[1:])
                for n, v in zip(names, vals):
                    out.append(ast.Assign(targets=[ast.Name(id=n, ctx=ast.Store())], value=copy.deepcopy(v), lineno=s.lineno))
        out.append(s)
    return out




# ------------------------------------------------------------------------------------------------
# a small partial evaluator for the bounds slice of estimate_lmfit_parinfo
#
# Real mode has no comparisons, so the two sign branches (`amp > 0` / otherwise) are regenerated separately under the
# ASSUMPTION of the sign.  To survive ordinary refactorings the function is normalised first:
#   * `if X is None: X = Y` defaulting prologues are dropped (the model takes the effective value as input);
#   * chained assignments `a = b = e` become `b = e; a = b`;
#   * `p, q = sorted(data.shape)` becomes `p = min(data.shape[0], data.shape[1]); q = max(...)`; `min(data.shape)` and
#     `max(data.shape)` get their two arguments spelled out;
#   * a call `T = self.helper(args)` / `T = helper(args)` of a helper defined in the same class / module whose body is
#     assignments, `if`s and `return`s only is INLINED (parameters substituted by the pure argument expressions, locals
#     renamed); anything else about a helper (loops, keyword arguments, a parameter that is re-assigned, a return that
#     survives in the middle) is refused -> UNTRANSLATABLE, never guessed;
#   * comparisons decided by the assumption, comparisons between known constants, `abs(x)` of a signed x, conditional
#     expressions and `if` statements with a decided test are folded; names bound to numeric constants are propagated
#     (invalidated by any later or loop-carried assignment).


class _Refuse(Exception):
    pass


def _assigned_names(stmts):
    out = set()
    for s in stmts:
        for n in ast.walk(s):
            if isinstance(n, ast.Name) and isinstance(n.ctx, ast.Store):
                out.add(n.id)
    return out


class _ExprFold(ast.NodeTransformer):
    def __init__(self, consts, assume, signs):
        self.consts, self.assume, self.signs = consts, assume, signs

    def visit_Name(self, node):
        if isinstance(node.ctx, ast.Load) and node.id in self.consts:
            return ast.copy_location(ast.Constant(value=self.consts[node.id]), node)
        return node

    def visit_Compare(self, node):
        key = ast.unparse(node)
        if key in self.assume:
            return ast.copy_location(ast.Constant(value=self.assume[key]), node)
        self.generic_visit(node)
        if len(node.ops) == 1 and isinstance(node.left, ast.Constant) and isinstance(node.comparators[0], ast.Constant) \
                and all(isinstance(v.value, (int, float)) and not isinstance(v.value, bool) for v in (node.left, node.comparators[0])):
            a, b = node.left.value, node.comparators[0].value
            op = node.ops[0]
            table = {ast.Lt: a < b, ast.LtE: a <= b, ast.Gt: a > b, ast.GtE: a >= b, ast.Eq: a == b, ast.NotEq: a != b}
            if type(op) in table:
                return ast.copy_location(ast.Constant(value=table[type(op)]), node)
        return node

    def visit_UnaryOp(self, node):
        self.generic_visit(node)
        if isinstance(node.op, ast.USub) and isinstance(node.operand, ast.Constant) \
                and isinstance(node.operand.value, (int, float)) and not isinstance(node.operand.value, bool):
            return ast.copy_location(ast.Constant(value=-node.operand.value), node)
        if isinstance(node.op, ast.Not) and isinstance(node.operand, ast.Constant) and isinstance(node.operand.value, bool):
            return ast.copy_location(ast.Constant(value=not node.operand.value), node)
        return node

    def visit_IfExp(self, node):
        self.generic_visit(node)
        if isinstance(node.test, ast.Constant) and isinstance(node.test.value, bool):
            return node.body if node.test.value else node.orelse
        return node

    def visit_Call(self, node):
        self.generic_visit(node)
        if isinstance(node.func, ast.Name) and node.func.id == 'abs' and len(node.args) == 1 and not node.keywords:
            key = ast.unparse(node.args[0])
            if key in self.signs:
                return node.args[0] if self.signs[key] > 0 else ast.copy_location(
                    ast.UnaryOp(op=ast.USub(), operand=node.args[0]), node)
        return node


def _fold_block(stmts, consts, assume, signs):
    """-> (statements, every path returned)"""
    out = []
    for s in stmts:
        if isinstance(s, (ast.For, ast.While)):
            carried = _assigned_names([s])
            for n in carried:
                consts.pop(n, None)
            s.body, _ = _fold_block(s.body, dict(consts), assume, signs)
            out.append(s)
            continue
        if isinstance(s, (ast.With, ast.Try)):
            for n in _assigned_names([s]):
                consts.pop(n, None)
            s.body, _ = _fold_block(s.body, dict(consts), assume, signs)
            out.append(s)
            continue
        if isinstance(s, ast.If):
            s.test = _ExprFold(consts, assume, signs).visit(s.test)
            if isinstance(s.test, ast.Constant) and isinstance(s.test.value, bool):
                blk, ret = _fold_block(s.body if s.test.value else s.orelse, consts, assume, signs)
                out += blk
                if ret:
                    return out, True
                continue
            b1, r1 = _fold_block(s.body, dict(consts), assume, signs)
            b2, r2 = _fold_block(s.orelse, dict(consts), assume, signs)
            for n in _assigned_names(s.body) | _assigned_names(s.orelse):
                consts.pop(n, None)
            s.body, s.orelse = b1 or [ast.Pass()], b2
            out.append(s)
            if r1 and r2:
                return out, True
            continue
        if isinstance(s, (ast.FunctionDef, ast.ClassDef)):
            out.append(s)
            continue
        s = _ExprFold(consts, assume, signs).visit(s) if not isinstance(s, (ast.Assign, ast.AugAssign)) else s
        if isinstance(s, ast.Assign):
            s.value = _ExprFold(consts, assume, signs).visit(s.value)
            for n in _assigned_names([s]):
                consts.pop(n, None)
            if len(s.targets) == 1 and isinstance(s.targets[0], ast.Name) and isinstance(s.value, ast.Constant) \
                    and isinstance(s.value.value, (int, float)) and not isinstance(s.value.value, bool):
                consts[s.targets[0].id] = s.value.value
        elif isinstance(s, ast.AugAssign):
            s.value = _ExprFold(consts, assume, signs).visit(s.value)
            for n in _assigned_names([s]):
                consts.pop(n, None)
        out.append(s)
        if isinstance(s, ast.Return):
            return out, True
    return out, False


class _Subst(ast.NodeTransformer):
    def __init__(self, params, rename):
        self.params, self.rename = params, rename

    def visit_Name(self, node):
        if node.id in self.params and isinstance(node.ctx, ast.Load):
            return copy.deepcopy(self.params[node.id])
        if node.id in self.rename:
            return ast.copy_location(ast.Name(id=self.rename[node.id], ctx=node.ctx), node)
        return node


def _pure(e):
    return all(isinstance(n, (ast.Name, ast.Constant, ast.Attribute, ast.Subscript, ast.UnaryOp, ast.USub, ast.UAdd, ast.Load,
                              ast.Tuple, ast.BinOp, ast.Add, ast.Sub, ast.Mult, ast.Div, ast.Index if hasattr(ast, 'Index') else ast.Load))
               for n in ast.walk(e))


def _find_helper(tree, fn, name):
    for cls in ast.walk(tree):
        if isinstance(cls, ast.ClassDef) and any(ch is fn or (isinstance(ch, ast.FunctionDef) and ch.name == fn.name) for ch in cls.body):
            for ch in cls.body:
                if isinstance(ch, ast.FunctionDef) and ch.name == name:
                    return ch, not any(isinstance(d, ast.Name) and d.id == 'staticmethod' for d in ch.decorator_list)
    for ch in tree.body:
        if isinstance(ch, ast.FunctionDef) and ch.name == name:
            return ch, False
    return None, False


def _inline_helpers(tree, fn, body, assume, signs, counter):
    out = []
    for s in body:
        for fld in ('body', 'orelse', 'finalbody'):
            if hasattr(s, fld) and isinstance(getattr(s, fld), list) and not isinstance(s, (ast.FunctionDef, ast.ClassDef)):
                setattr(s, fld, _inline_helpers(tree, fn, getattr(s, fld), assume, signs, counter))
        call = s.value if isinstance(s, ast.Assign) and isinstance(s.value, ast.Call) else None
        name = None
        if call is not None:
            f = call.func
            if isinstance(f, ast.Name):
                name = f.id
            elif isinstance(f, ast.Attribute) and isinstance(f.value, ast.Name) and f.value.id in ('self', 'cls', 'SourceFinder'):
                name = f.attr
        hd, has_self = _find_helper(tree, fn, name) if name else (None, False)
        if hd is None or hd is fn:
            out.append(s)
            continue
        # from here on the call IS to a helper of ours: inline it or refuse
        a = hd.args
        if call.keywords or a.vararg or a.kwarg or a.kwonlyargs or a.defaults or a.posonlyargs:
            raise _Refuse(f'helper {name}: unsupported signature / keyword arguments')
        pnames = [x.arg for x in a.args][(1 if has_self else 0):]
        if len(pnames) != len(call.args) or not all(_pure(e) for e in call.args):
            raise _Refuse(f'helper {name}: arity or impure argument')
        hbody = [copy.deepcopy(x) for x in hd.body
                 if not (isinstance(x, ast.Expr) and isinstance(x.value, ast.Constant) and isinstance(x.value.value, str))]
        for x in hbody:
            for n in ast.walk(x):
                if not isinstance(n, (ast.Assign, ast.AugAssign, ast.If, ast.Return, ast.expr, ast.expr_context, ast.operator, ast.unaryop,
                                      ast.cmpop, ast.boolop, ast.keyword)):
                    raise _Refuse(f'helper {name}: statement {type(n).__name__} outside the inlinable subset')
        assigned = _assigned_names(hbody)
        if assigned & set(pnames):
            raise _Refuse(f'helper {name}: re-assigns a parameter')
        counter[0] += 1
        ren = {v: f'_h{counter[0]}_{v}' for v in assigned}
        sub = _Subst(dict(zip(pnames, call.args)), ren)
        hbody = [sub.visit(x) for x in hbody]
        hbody, _ = _fold_block(hbody, {}, assume, signs)
        rets = [n for x in hbody for n in ast.walk(x) if isinstance(n, ast.Return)]
        if len(rets) != 1 or hbody[-1] is not rets[0] or rets[0].value is None:
            raise _Refuse(f'helper {name}: does not reduce to straight-line code with one final return under the sign assumption')
        out += hbody[:-1]
        out.append(ast.copy_location(ast.Assign(targets=s.targets, value=rets[0].value, lineno=s.lineno), s))
    return out


def _normalise(body):
    out = []
    for s in body:
        for fld in ('body', 'orelse', 'finalbody'):
            if hasattr(s, fld) and isinstance(getattr(s, fld), list) and not isinstance(s, (ast.FunctionDef, ast.ClassDef)):
                setattr(s, fld, _normalise(getattr(s, fld)))
        # `if X is None: X = Y`
        if isinstance(s, ast.If) and not s.orelse and isinstance(s.test, ast.Compare) and len(s.test.ops) == 1 \
                and isinstance(s.test.ops[0], ast.Is) and isinstance(s.test.left, ast.Name) \
                and isinstance(s.test.comparators[0], ast.Constant) and s.test.comparators[0].value is None \
                and len(s.body) == 1 and isinstance(s.body[0], ast.Assign) and len(s.body[0].targets) == 1 \
                and isinstance(s.body[0].targets[0], ast.Name) and s.body[0].targets[0].id == s.test.left.id:
            continue
        if isinstance(s, ast.Assign) and len(s.targets) > 1 and all(isinstance(t, ast.Name) for t in s.targets):
            last = s.targets[-1]
            out.append(ast.copy_location(ast.Assign(targets=[last], value=s.value, lineno=s.lineno), s))
            for t in reversed(s.targets[:-1]):
                out.append(ast.copy_location(ast.Assign(targets=[t], value=ast.Name(id=last.id, ctx=ast.Load()), lineno=s.lineno), s))
            continue
        if isinstance(s, ast.Assign) and len(s.targets) == 1 and isinstance(s.targets[0], ast.Tuple) and len(s.targets[0].elts) == 2 \
                and all(isinstance(t, ast.Name) for t in s.targets[0].elts) and isinstance(s.value, ast.Call) \
                and isinstance(s.value.func, ast.Name) and s.value.func.id == 'sorted' and len(s.value.args) == 1 \
                and not s.value.keywords and ast.unparse(s.value.args[0]) == 'data.shape':
            for t, fn_ in zip(s.targets[0].elts, ('min', 'max')):
                out.append(ast.copy_location(ast.Assign(targets=[t], value=ast.parse(f'{fn_}(data.shape[0], data.shape[1])', mode='eval').body,
                                                        lineno=s.lineno), s))
            continue
        out.append(s)
    return out


class _ShapeMinMax(ast.NodeTransformer):
    def visit_Call(self, node):
        self.generic_visit(node)
        if isinstance(node.func, ast.Name) and node.func.id in ('min', 'max') and len(node.args) == 1 and not node.keywords \
                and ast.unparse(node.args[0]) == 'data.shape':
            return ast.copy_location(ast.parse(f'{node.func.id}(data.shape[0], data.shape[1])', mode='eval').body, node)
        return node


def _expose_params_add(body):
    """before `params.add(prefix + 'NAME', value=v, min=lo, max=hi, ...)` insert `padd_NAME_value = v; padd_NAME_min = lo; …`
    (a `float(...)` wrapper is dropped): WHICH limit is handed to WHICH lmfit parameter becomes part of the regenerated model"""
    out = []
    for s in body:
        for fld in ('body', 'orelse', 'finalbody'):
            if hasattr(s, fld) and isinstance(getattr(s, fld), list) and not isinstance(s, (ast.FunctionDef, ast.ClassDef)):
                setattr(s, fld, _expose_params_add(getattr(s, fld)))
        c = s.value if isinstance(s, ast.Expr) and isinstance(s.value, ast.Call) else None
        if c is not None and isinstance(c.func, ast.Attribute) and c.func.attr == 'add' and isinstance(c.func.value, ast.Name) \
                and c.func.value.id == 'params' and len(c.args) == 1 and isinstance(c.args[0], ast.BinOp) \
                and isinstance(c.args[0].op, ast.Add) and isinstance(c.args[0].left, ast.Name) and c.args[0].left.id == 'prefix' \
                and isinstance(c.args[0].right, ast.Constant) and isinstance(c.args[0].right.value, str):
            name = c.args[0].right.value
            for kw in c.keywords:
                if kw.arg in ('value', 'min', 'max'):
                    v = kw.value
                    if isinstance(v, ast.Call) and isinstance(v.func, ast.Name) and v.func.id == 'float' and len(v.args) == 1:
                        v = v.args[0]
                    out.append(ast.Assign(targets=[ast.Name(id=f'padd_{name}_{kw.arg}', ctx=ast.Store())], value=copy.deepcopy(v),
                                          lineno=s.lineno))
        out.append(s)
    return out


def _prepare_bounds(tree, fn, positive):
    assume = {'amp > 0': positive, '0 < amp': positive, 'amp >= 0': positive, 'amp <= 0': not positive, 'amp < 0': not positive,
              '0 > amp': not positive}
    signs = {'amp': 1 if positive else -1}
    fn = copy.deepcopy(fn)
    try:
        fn = _ShapeMinMax().visit(fn)
        fn.body = _normalise(fn.body)
        fn.body = _inline_helpers(tree, fn, fn.body, assume, signs, [0])
        fn.body = _normalise(fn.body)
        fn.body, _ = _fold_block(fn.body, {}, assume, signs)
        fn.body = _expose_params_add(fn.body)
    except _Refuse as e:
        raise py2lean.Untranslatable(str(e))
    ast.fix_missing_locations(fn)
    return fn


_ENTRY = {'all_pix2world': 1, 'wcs_pix2world': 2, 'all_world2pix': 1, 'wcs_world2pix': 2}


def _wcs_entry(fn):
    """which astropy entry point a WCSHelper conversion calls on `self.wcs`, as a code (1 = the `all_` transform including
    SIP / distortion tables, 2 = the core-only `wcs_` transform), and the `origin` argument; exactly one such call or refuse"""
    calls = [n for n in ast.walk(fn) if isinstance(n, ast.Call) and isinstance(n.func, ast.Attribute)
             and isinstance(n.func.value, ast.Attribute) and n.func.value.attr == 'wcs'
             and isinstance(n.func.value.value, ast.Name) and n.func.value.value.id == 'self']
    if len(calls) != 1 or calls[0].func.attr not in _ENTRY or len(calls[0].args) < 2 \
            or not (isinstance(calls[0].args[1], ast.Constant) and isinstance(calls[0].args[1].value, int)
                    and not isinstance(calls[0].args[1].value, bool) and calls[0].args[1].value >= 0):
        raise py2lean.Untranslatable(f'{fn.name}: not exactly one recognised self.wcs.<transform>(points, <origin>) call')
    body = [ast.Assign(targets=[ast.Name(id='entry', ctx=ast.Store())], value=ast.Constant(value=_ENTRY[calls[0].func.attr]), lineno=1),
            ast.Assign(targets=[ast.Name(id='origin', ctx=ast.Store())], value=ast.Constant(value=calls[0].args[1].value), lineno=1)]
    new = ast.FunctionDef(name=fn.name, args=fn.args, body=body, decorator_list=[], lineno=1)
    ast.fix_missing_locations(new)
    return new


def _wrap_find(orig):
    def find_function(tree, qualname):
        if qualname == '<module>':
            return tree
        if '#c01' not in qualname:
            return orig(tree, qualname)
        base, tag = qualname.split('#', 1)
        cut = 'loop' in tag
        fn = orig(tree, base)
        if tag in ('c01bpos', 'c01bneg'):
            return _prepare_bounds(tree, fn, tag == 'c01bpos')
        if tag == 'c01entry':
            return _wcs_entry(fn)
        if True:
            fn = copy.deepcopy(fn)
            if tag.endswith('pos') or tag.endswith('neg'):
                fn = _Branch(tag.endswith('pos')).visit(fn)
            if cut:
                loops = [s for s in fn.body if isinstance(s, ast.For)]
                if not loops:
                    raise py2lean.Untranslatable(f'{qualname}: no for loop')
                fn.body = [loops[0]]
            fn = _Rewrite().visit(fn)
            fn.body = _expose_args(fn.body)
            ast.fix_missing_locations(fn)
        return fn
    find_function._c01 = True
    return find_function


def _wrap_expr(orig):
    def expr_real(self, node):
        if isinstance(node, ast.Attribute) and isinstance(node.value, ast.Name) \
                and node.value.id in ('np', 'numpy', 'math') and node.attr == 'pi':
            return '(R.pi : α)', 'A', set()
        if 'ln2' in self.params and isinstance(node, ast.Call) and self.callee_name(node.func) == 'log' \
                and len(node.args) == 1 and not node.keywords and isinstance(node.args[0], ast.Constant) \
                and node.args[0].value in (2, 2.0) and not isinstance(node.args[0].value, bool):
            ssa, t = self.env['ln2']
            return ssa, t, {ssa}
        if 'ln2' in self.params and isinstance(node, ast.BinOp) and isinstance(node.op, ast.Pow) \
                and isinstance(node.left, ast.Constant) and node.left.value in (2, 2.0) \
                and not isinstance(node.left.value, bool) and not isinstance(node.right, ast.Constant):
            # 2.0 ** e  =  exp(ln 2 * e)
            c, _, d = self.expr(node.right)
            ssa, _t = self.env['ln2']
            return f"(R.exp ({ssa} * {c}))", 'A', d | {ssa}
        if 'ln2' in self.params and isinstance(node, ast.Call) and isinstance(node.func, ast.Name) \
                and node.func.id in ('min', 'max') and len(node.args) == 2 and not node.keywords:
            a, _, da = self.expr(node.args[0])
            b, _, db = self.expr(node.args[1])
            return f"({'R.min' if node.func.id == 'min' else 'R.max'} {a} {b})", 'A', da | db
        return orig(self, node)
    expr_real._c01 = True
    return expr_real


if not getattr(py2lean.find_function, '_c01', False):
    py2lean.find_function = _wrap_find(py2lean.find_function)
if not getattr(py2lean.Translator.expr_real, '_c01', False):
    py2lean.Translator.expr_real = _wrap_expr(py2lean.Translator.expr_real)

# ------------------------------------------------------------------------------------------------
# targets

_G = ['x', 'y', 'amp', 'xo', 'yo', 'sx', 'sy', 'theta']


def _fb(name, params, hand=None):
    sig = ' '.join(f'({p} : α)' for p in params)
    return f'def {name} {{α : Type}} [R α] {sig} : α := {_H}.{hand or name + "Hand"} ' + ' '.join(params)


_RTC = ['amp', 'xo', 'yo', 'sx', 'sy', 'theta', 'xmin', 'ymin', 'CC2FHWM', 'beam_area_pix']
_RTC_OUT = [('x_pix', 'xPix', ['xo', 'xmin']), ('y_pix', 'yPix', ['yo', 'ymin']),
            ('p2s_arg_x', 'p2sArgX', ['xo', 'yo', 'xmin', 'ymin']), ('p2s_arg_y', 'p2sArgY', ['xo', 'yo', 'xmin', 'ymin']),
            ('p2s_arg_sx', 'p2sArgSx', ['sx', 'sy', 'CC2FHWM']), ('p2s_arg_sy', 'p2sArgSy', ['sx', 'sy', 'CC2FHWM']),
            ('p2s_arg_theta', 'p2sArgTheta', ['theta']),
            ('source_int_flux', 'intFlux', ['amp', 'sx', 'sy', 'CC2FHWM', 'beam_area_pix'])]


def _mk_rtc():
    """one target per output so that every generated def has a fixed, explicit parameter list"""
    out = []
    for var, lname, ps in _RTC_OUT:
        out.append(dict(
            file='AegeanTools/source_finder.py', func='SourceFinder.result_to_components#c01loop', mode='real',
            params={p: 'A' for p in ps},
            subst={f"model[prefix + '{p}'].value": p for p in ['amp', 'xo', 'yo', 'sx', 'sy', 'theta'] if p in ps},
            outputs=[(var, lname)], fallback={lname: _fb(lname, ps)}, all_params=ps))
    return out


_BP = ['ln2', 'FWHM2CC', 'amp0', 'rms', 'innerclip', 'outerclip', 'pbA', 'pbB', 'xsize', 'ysize']
_BSUB = {'amp': 'amp0', 'rmsimg[xo, yo]': 'rms', 'pixbeam.a': 'pbA', 'pixbeam.b': 'pbB',
         'data.shape[0]': 'xsize', 'data.shape[1]': 'ysize'}


def _mk_bounds():
    """the bounds `estimate_lmfit_parinfo` puts on a component (one target per output: fixed parameter lists)"""
    out = []
    pos = [('sampling', 'sampling'), ('amp_min', 'ampMinPos'), ('amp_max', 'ampMaxPos'), ('xo_lim', 'xoLim'),
           ('sx', 'sxInit'), ('sy', 'syInit'), ('sx_min', 'sxMin'), ('sx_max', 'sxMax'), ('sy_min', 'syMin'), ('sy_max', 'syMax')]
    neg = [('amp_min', 'ampMinNeg'), ('amp_max', 'ampMaxNeg')]
    for tag, lst in (('pos', pos), ('neg', neg)):
        for var, lname in lst:
            out.append(dict(file='AegeanTools/source_finder.py', func='SourceFinder.estimate_lmfit_parinfo#c01b' + tag,
                            mode='real', params={p: 'A' for p in _BP}, subst=_BSUB, outputs=[(var, lname)],
                            fallback={lname: _fb(lname, _BP)}, all_params=_BP))
    return out


_BP2 = _BP + ['xo0', 'yo0']
_BSUB2 = dict(_BSUB, xo='xo0', yo='yo0')


def _mk_padd():
    """what `params.add` receives for each of the five bounded parameters (theta gets no min/max)"""
    out = []
    for tag in ('pos', 'neg'):
        for name in ('amp', 'xo', 'yo', 'sx', 'sy'):
            if tag == 'neg' and name != 'amp':
                continue
            for kw in ('value', 'min', 'max'):
                lname = 'p' + name.capitalize() + kw.capitalize() + ('Neg' if (tag == 'neg') else ('Pos' if name == 'amp' else ''))
                out.append(dict(file='AegeanTools/source_finder.py', func='SourceFinder.estimate_lmfit_parinfo#c01b' + tag,
                                mode='real', params={p: 'A' for p in _BP2}, subst=_BSUB2, outputs=[(f'padd_{name}_{kw}', lname)],
                                fallback={lname: _fb(lname, _BP2)}, all_params=_BP2))
    return out


def _mk_entry():
    out = []
    for meth, pre in (('pix2sky', 'pix2sky'), ('sky2pix', 'sky2pix')):
        for var, suf in (('entry', 'Entry'), ('origin', 'Origin')):
            out.append(dict(file='AegeanTools/wcs_helpers.py', func=f'WCSHelper.{meth}#c01entry', mode='int', params={},
                            outputs=[(var, pre + suf)], fallback={pre + suf: f'def {pre + suf} : Nat := 1'}))
    return out


TARGETS = _mk_bounds() + _mk_padd() + _mk_entry() + [
    dict(file='AegeanTools/fitting.py', func='elliptical_gaussian', mode='real',
         params={p: 'A' for p in _G}, subst={}, outputs=[], returns='gauss',
         fallback={'gauss': _fb('gauss', _G)}, all_params=_G),
    dict(file='AegeanTools/source_finder.py', func='<module>', mode='real', params={'ln2': 'A'},
         outputs=[('CC2FHWM', 'cc2fwhm'), ('FWHM2CC', 'fwhm2cc')],
         fallback={'cc2fwhm': _fb('cc2fwhm', ['ln2']), 'fwhm2cc': _fb('fwhm2cc', ['ln2'])}, all_params=['ln2']),
    dict(file='AegeanTools/AeRes.py', func='<module>', mode='real', params={'ln2': 'A'},
         outputs=[('FWHM2CC', 'fwhm2ccRes')],
         fallback={'fwhm2ccRes': _fb('fwhm2ccRes', ['ln2'], 'fwhm2ccHand')}, all_params=['ln2']),
] + _mk_rtc() + [
    dict(file='AegeanTools/source_finder.py', func='SourceFinder.result_to_components#c01loop', mode='real',
         params={}, outputs=[('source_a', 'aArcsec')],
         fallback={'aArcsec': 'def aArcsec {α : Type} [R α] (source_a : α) : α := ' + _H + '.arcsecHand source_a'}),
    dict(file='AegeanTools/source_finder.py', func='SourceFinder.result_to_components#c01loop', mode='real',
         params={}, outputs=[('source_b', 'bArcsec')],
         fallback={'bArcsec': 'def bArcsec {α : Type} [R α] (source_b : α) : α := ' + _H + '.arcsecHand source_b'}),
    dict(file='AegeanTools/wcs_helpers.py', func='WCSHelper.get_beamarea_pix', mode='real', params={},
         outputs=[], returns='beamAreaPix',
         fallback={'beamAreaPix': 'def beamAreaPix {α : Type} [R α] (a b : α) : α := ' + _H + '.beamAreaPixHand a b'}),
    dict(file='AegeanTools/AeRes.py', func='make_model#c01', mode='real',
         params={'src_ra': 'A', 'src_dec': 'A', 'src_a': 'A', 'src_b': 'A', 'src_pa': 'A'},
         outputs=[('s2p_arg_ra', 's2pArgRa'), ('s2p_arg_dec', 's2pArgDec'), ('s2p_arg_a', 's2pArgA'),
                  ('s2p_arg_b', 's2pArgB'), ('s2p_arg_pa', 's2pArgPa')],
         fallback={n: _fb(n, ['src_ra', 'src_dec', 'src_a', 'src_b', 'src_pa'])
                   for n in ['s2pArgRa', 's2pArgDec', 's2pArgA', 's2pArgB', 's2pArgPa']},
         all_params=['src_ra', 'src_dec', 'src_a', 'src_b', 'src_pa']),
    dict(file='AegeanTools/AeRes.py', func='make_model#c01', mode='real',
         params={'FWHM2CC': 'A', 'src_peak_flux': 'A'},
         calls={None: ('gauss', 8), 'elliptical_gaussian': ('gauss', 8)},
         outputs=[('model', 'renderVal')],
         fallback={'renderVal': 'def renderVal {α : Type} [R α] (FWHM2CC src_peak_flux xo yo sx sy theta x y : α) : α := '
                                f'{_H}.renderValHand FWHM2CC src_peak_flux xo yo sx sy theta x y'}),
]
