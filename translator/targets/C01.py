"""C01: the arithmetic leaves of the closed loop  inject -> fit -> report, regenerated from source.

  gauss                 fitting.elliptical_gaussian                                   (the pixel model)
  cc2fwhm, fwhm2cc      the module constants CC2FHWM / FWHM2CC of source_finder.py     (sigma <-> FWHM)
  fwhm2ccRes            the module constant FWHM2CC of AeRes.py
  xPix, yPix            result_to_components:  x_pix = xo + xmin + 1,  y_pix = yo + ymin + 1
  p2sArgX .. p2sArgTheta  the five arguments handed to wcshelper.pix2sky_ellipse((x_pix, y_pix), sx*CC2FHWM, sy*CC2FHWM, theta)
                        (argument ORDER and scaling are part of the regenerated model)
  aArcsec, bArcsec      source.a *= 3600, source.b *= 3600
  intFlux               source.int_flux = peak_flux*sx*sy*CC2FHWM**2*pi ; source.int_flux /= get_beamarea_pix(ra, dec)
  beamAreaPix           WCSHelper.get_beamarea_pix:  a * b * pi  (a, b = the pixel psf returned by get_psf_sky2pix)
  s2pArgA, s2pArgB, s2pArgPa   AeRes.make_model: the arguments handed to wcshelper.sky2pix_ellipse([ra, dec], a/3600, b/3600, pa)
  renderVal             AeRes.make_model: elliptical_gaussian(x, y, peak, xo-1, yo-1, sx*FWHM2CC, sy*FWHM2CC, theta)

Extensions of py2lean that live here (AGENT_GUIDE: an extended copy/wrapper may live in the targets file).
All of them are inert for other properties' targets:

  * `find_function` understands two pseudo names:
      '<module>'                      the module body itself (for module-level constants)
      'A.b#c01'                       function A.b after the AST rewrite below
      'A.b#c01loop'                   the same, with the body cut down to its FIRST `for` loop (result_to_components
                                      re-binds `source` to an IslandSource after the component loop)
    the rewrite, applied BEFORE translation (other properties' targets never carry the '#c01' tag):
      - `source.x` / `src.x`                       ->  the plain variable `source_x` / `src_x`
      - `<anything>.get_beamarea_pix(...)`          ->  the variable `beam_area_pix` (an input of the model)
      - `lhs = <anything>.pix2sky_ellipse((p, q), s, t, u)` is preceded by  p2s_arg_x = p; p2s_arg_y = q; p2s_arg_sx = s; …
      - `lhs = <anything>.sky2pix_ellipse([p, q], a, b, pa)` is preceded by  s2p_arg_ra = p; …; s2p_arg_pa = pa
  * `Translator.expr_real`:  np.pi / math.pi -> R.pi;  np.log(2) / math.log(2) -> the parameter `ln2`
    (only when the target declares a parameter called `ln2`; `R` has no logarithm — ln 2 is modelled as a
    positive parameter, instantiated with `Real.log 2` in the proofs and 0x3fe62e42fefa39ef in the driver).
"""
import ast
import copy

import py2lean

_H = 'Aegean.Model.C01'

# ------------------------------------------------------------------------------------------------
# extensions


class _Rewrite(ast.NodeTransformer):
    def visit_Attribute(self, node):
        self.generic_visit(node)
        if isinstance(node.value, ast.Name) and node.value.id in ('source', 'src'):
            return ast.copy_location(ast.Name(id=f'{node.value.id}_{node.attr}', ctx=node.ctx), node)
        return node

    def visit_Call(self, node):
        self.generic_visit(node)
        if isinstance(node.func, ast.Attribute) and node.func.attr == 'get_beamarea_pix':
            return ast.copy_location(ast.Name(id='beam_area_pix', ctx=ast.Load()), node)
        return node


class _Branch(ast.NodeTransformer):
    """`if amp > 0: A else: B`  ->  A (positive) or B (negative): real mode has no comparisons, so the two sign
    branches of the amplitude bounds are regenerated as two sets of definitions"""

    def __init__(self, positive):
        self.positive = positive

    def visit_If(self, node):
        self.generic_visit(node)
        if ast.unparse(node.test) == 'amp > 0':
            return node.body if self.positive else node.orelse
        return node


def _expose_args(body):
    """prepend `p2s_arg_* = …` / `s2p_arg_* = …` before calls of pix2sky_ellipse / sky2pix_ellipse"""
    out = []
    for s in body:
        for fld in ('body', 'orelse', 'finalbody'):
            if hasattr(s, fld) and isinstance(getattr(s, fld), list):
                setattr(s, fld, _expose_args(getattr(s, fld)))
        if isinstance(s, ast.Assign) and isinstance(s.value, ast.Call) and isinstance(s.value.func, ast.Attribute) \
                and not s.value.keywords:
            attr, args = s.value.func.attr, s.value.args
            names = None
            if attr == 'pix2sky_ellipse' and len(args) == 4 and isinstance(args[0], (ast.Tuple, ast.List)) \
                    and len(args[0].elts) == 2:
                names = ['p2s_arg_x', 'p2s_arg_y', 'p2s_arg_sx', 'p2s_arg_sy', 'p2s_arg_theta']
            if attr == 'sky2pix_ellipse' and len(args) == 4 and isinstance(args[0], (ast.Tuple, ast.List)) \
                    and len(args[0].elts) == 2:
                names = ['s2p_arg_ra', 's2p_arg_dec', 's2p_arg_a', 's2p_arg_b', 's2p_arg_pa']
            if names:
                vals = list(args[0].elts) + list(args[1:])
                for n, v in zip(names, vals):
                    out.append(ast.Assign(targets=[ast.Name(id=n, ctx=ast.Store())], value=copy.deepcopy(v), lineno=s.lineno))
        out.append(s)
    return out




def _wrap_find(orig):
    def find_function(tree, qualname):
        if qualname == '<module>':
            return tree
        if '#c01' not in qualname:
            return orig(tree, qualname)
        base, tag = qualname.split('#', 1)
        cut = 'loop' in tag
        fn = orig(tree, base)
        if True:
            fn = copy.deepcopy(fn)
            if tag.endswith('pos') or tag.endswith('neg'):
                fn = _Branch(tag.endswith('pos')).visit(fn)
            if cut:
                loops = [s for s in fn.body if isinstance(s, ast.For)]
                if not loops:
                    raise py2lean.Untranslatable(f'{qualname}: no for loop')
                fn.body = [loops[0]]
            fn = _Rewrite().visit(fn)
            fn.body = _expose_args(fn.body)
            ast.fix_missing_locations(fn)
        return fn
    find_function._c01 = True
    return find_function


def _wrap_expr(orig):
    def expr_real(self, node):
        if isinstance(node, ast.Attribute) and isinstance(node.value, ast.Name) \
                and node.value.id in ('np', 'numpy', 'math') and node.attr == 'pi':
            return '(R.pi : α)', 'A', set()
        if 'ln2' in self.params and isinstance(node, ast.Call) and self.callee_name(node.func) == 'log' \
                and len(node.args) == 1 and not node.keywords and isinstance(node.args[0], ast.Constant) \
                and node.args[0].value in (2, 2.0) and not isinstance(node.args[0].value, bool):
            ssa, t = self.env['ln2']
            return ssa, t, {ssa}
        if 'ln2' in self.params and isinstance(node, ast.BinOp) and isinstance(node.op, ast.Pow) \
                and isinstance(node.left, ast.Constant) and node.left.value in (2, 2.0) \
                and not isinstance(node.left.value, bool) and not isinstance(node.right, ast.Constant):
            # 2.0 ** e  =  exp(ln 2 * e)
            c, _, d = self.expr(node.right)
            ssa, _t = self.env['ln2']
            return f"(R.exp ({ssa} * {c}))", 'A', d | {ssa}
        if 'ln2' in self.params and isinstance(node, ast.Call) and isinstance(node.func, ast.Name) \
                and node.func.id in ('min', 'max') and len(node.args) == 2 and not node.keywords:
            a, _, da = self.expr(node.args[0])
            b, _, db = self.expr(node.args[1])
            return f"({'R.min' if node.func.id == 'min' else 'R.max'} {a} {b})", 'A', da | db
        return orig(self, node)
    expr_real._c01 = True
    return expr_real


if not getattr(py2lean.find_function, '_c01', False):
    py2lean.find_function = _wrap_find(py2lean.find_function)
if not getattr(py2lean.Translator.expr_real, '_c01', False):
    py2lean.Translator.expr_real = _wrap_expr(py2lean.Translator.expr_real)

# ------------------------------------------------------------------------------------------------
# targets

_G = ['x', 'y', 'amp', 'xo', 'yo', 'sx', 'sy', 'theta']


def _fb(name, params, hand=None):
    sig = ' '.join(f'({p} : α)' for p in params)
    return f'def {name} {{α : Type}} [R α] {sig} : α := {_H}.{hand or name + "Hand"} ' + ' '.join(params)


_RTC = ['amp', 'xo', 'yo', 'sx', 'sy', 'theta', 'xmin', 'ymin', 'CC2FHWM', 'beam_area_pix']
_RTC_OUT = [('x_pix', 'xPix', ['xo', 'xmin']), ('y_pix', 'yPix', ['yo', 'ymin']),
            ('p2s_arg_x', 'p2sArgX', ['xo', 'yo', 'xmin', 'ymin']), ('p2s_arg_y', 'p2sArgY', ['xo', 'yo', 'xmin', 'ymin']),
            ('p2s_arg_sx', 'p2sArgSx', ['sx', 'sy', 'CC2FHWM']), ('p2s_arg_sy', 'p2sArgSy', ['sx', 'sy', 'CC2FHWM']),
            ('p2s_arg_theta', 'p2sArgTheta', ['theta']),
            ('source_int_flux', 'intFlux', ['amp', 'sx', 'sy', 'CC2FHWM', 'beam_area_pix'])]


def _mk_rtc():
    """one target per output so that every generated def has a fixed, explicit parameter list"""
    out = []
    for var, lname, ps in _RTC_OUT:
        out.append(dict(
            file='AegeanTools/source_finder.py', func='SourceFinder.result_to_components#c01loop', mode='real',
            params={p: 'A' for p in ps},
            subst={f"model[prefix + '{p}'].value": p for p in ['amp', 'xo', 'yo', 'sx', 'sy', 'theta'] if p in ps},
            outputs=[(var, lname)], fallback={lname: _fb(lname, ps)}, all_params=ps))
    return out


_BP = ['ln2', 'FWHM2CC', 'amp0', 'rms', 'innerclip', 'outerclip', 'pbA', 'pbB', 'xsize', 'ysize']
_BSUB = {'amp': 'amp0', 'rmsimg[xo, yo]': 'rms', 'pixbeam.a': 'pbA', 'pixbeam.b': 'pbB',
         'data.shape[0]': 'xsize', 'data.shape[1]': 'ysize'}


def _mk_bounds():
    """the bounds `estimate_lmfit_parinfo` puts on a component (one target per output: fixed parameter lists)"""
    out = []
    pos = [('sampling', 'sampling'), ('amp_min', 'ampMinPos'), ('amp_max', 'ampMaxPos'), ('xo_lim', 'xoLim'),
           ('sx', 'sxInit'), ('sy', 'syInit'), ('sx_min', 'sxMin'), ('sx_max', 'sxMax'), ('sy_min', 'syMin'), ('sy_max', 'syMax')]
    neg = [('amp_min', 'ampMinNeg'), ('amp_max', 'ampMaxNeg')]
    for tag, lst in (('pos', pos), ('neg', neg)):
        for var, lname in lst:
            out.append(dict(file='AegeanTools/source_finder.py', func='SourceFinder.estimate_lmfit_parinfo#c01loop' + tag,
                            mode='real', params={p: 'A' for p in _BP}, subst=_BSUB, outputs=[(var, lname)],
                            fallback={lname: _fb(lname, _BP)}, all_params=_BP))
    return out


TARGETS = _mk_bounds() + [
    dict(file='AegeanTools/fitting.py', func='elliptical_gaussian', mode='real',
         params={p: 'A' for p in _G}, subst={}, outputs=[], returns='gauss',
         fallback={'gauss': _fb('gauss', _G)}, all_params=_G),
    dict(file='AegeanTools/source_finder.py', func='<module>', mode='real', params={'ln2': 'A'},
         outputs=[('CC2FHWM', 'cc2fwhm'), ('FWHM2CC', 'fwhm2cc')],
         fallback={'cc2fwhm': _fb('cc2fwhm', ['ln2']), 'fwhm2cc': _fb('fwhm2cc', ['ln2'])}, all_params=['ln2']),
    dict(file='AegeanTools/AeRes.py', func='<module>', mode='real', params={'ln2': 'A'},
         outputs=[('FWHM2CC', 'fwhm2ccRes')],
         fallback={'fwhm2ccRes': _fb('fwhm2ccRes', ['ln2'], 'fwhm2ccHand')}, all_params=['ln2']),
] + _mk_rtc() + [
    dict(file='AegeanTools/source_finder.py', func='SourceFinder.result_to_components#c01loop', mode='real',
         params={}, outputs=[('source_a', 'aArcsec')],
         fallback={'aArcsec': 'def aArcsec {α : Type} [R α] (source_a : α) : α := ' + _H + '.arcsecHand source_a'}),
    dict(file='AegeanTools/source_finder.py', func='SourceFinder.result_to_components#c01loop', mode='real',
         params={}, outputs=[('source_b', 'bArcsec')],
         fallback={'bArcsec': 'def bArcsec {α : Type} [R α] (source_b : α) : α := ' + _H + '.arcsecHand source_b'}),
    dict(file='AegeanTools/wcs_helpers.py', func='WCSHelper.get_beamarea_pix', mode='real', params={},
         outputs=[], returns='beamAreaPix',
         fallback={'beamAreaPix': 'def beamAreaPix {α : Type} [R α] (a b : α) : α := ' + _H + '.beamAreaPixHand a b'}),
    dict(file='AegeanTools/AeRes.py', func='make_model#c01', mode='real',
         params={'src_ra': 'A', 'src_dec': 'A', 'src_a': 'A', 'src_b': 'A', 'src_pa': 'A'},
         outputs=[('s2p_arg_ra', 's2pArgRa'), ('s2p_arg_dec', 's2pArgDec'), ('s2p_arg_a', 's2pArgA'),
                  ('s2p_arg_b', 's2pArgB'), ('s2p_arg_pa', 's2pArgPa')],
         fallback={n: _fb(n, ['src_ra', 'src_dec', 'src_a', 'src_b', 'src_pa'])
                   for n in ['s2pArgRa', 's2pArgDec', 's2pArgA', 's2pArgB', 's2pArgPa']},
         all_params=['src_ra', 'src_dec', 'src_a', 'src_b', 'src_pa']),
    dict(file='AegeanTools/AeRes.py', func='make_model#c01', mode='real',
         params={'FWHM2CC': 'A', 'src_peak_flux': 'A'},
         calls={None: ('gauss', 8), 'elliptical_gaussian': ('gauss', 8)},
         outputs=[('model', 'renderVal')],
         fallback={'renderVal': 'def renderVal {α : Type} [R α] (FWHM2CC src_peak_flux xo yo sx sy theta x y : α) : α := '
                                f'{_H}.renderValHand FWHM2CC src_peak_flux xo yo sx sy theta x y'}),
]
