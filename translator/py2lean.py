#!/usr/bin/env python3
"""
py2lean: regenerate Lean 4 definitions from the *current* Python source of AegeanTools.

A deliberately small translator for straight-line arithmetic: it parses a named function
with `ast`, walks its statements in order (recursing into for/with/try bodies, merging the
branches of `if` statements), keeps every assignment as an SSA `let`, and prints one Lean
`def` per requested output variable, containing exactly the lets that output depends on.

Two modes
  real : every numeric value lives in a type `α` with an instance of the class `R`
         (Aegean/Num.lean).  + - * / unary-minus, `**` with a literal natural exponent,
         np./math. sin cos radians degrees sqrt exp arcsin arctan2 minimum maximum hypot abs.
  int  : Python integer code.  Values are typed N (Nat), Z (Int), F (Float, IEEE double,
         as Python's `/` produces), LN (List Nat).  `//` on naturals is Nat division, `-` on
         naturals goes to Int, `/` goes to Float, `int(float)` truncates.

Anything outside the whitelist raises Untranslatable; the caller reports
`UNTRANSLATABLE <function>: <reason>` and the check falls back to the hand model +
correspondence for that function.

The translator is part of the trusted base; every generated definition is also validated
numerically against the Python function it came from by the correspondence harness.
"""
import ast
import sys
from decimal import Decimal


class Untranslatable(Exception):
    pass


REAL_FUNCS1 = {
    'sin': 'R.sin', 'cos': 'R.cos', 'radians': 'R.radians', 'degrees': 'R.degrees',
    'sqrt': 'R.sqrt', 'exp': 'R.exp', 'arcsin': 'R.asin', 'asin': 'R.asin',
    'abs': 'R.abs', 'fabs': 'R.abs',
}
REAL_FUNCS2 = {
    'arctan2': 'R.atan2', 'atan2': 'R.atan2', 'minimum': 'R.min', 'maximum': 'R.max',
    'hypot': 'R.hypot',
}


def lean_ident(name):
    # avoid Lean keywords / clashes
    if name in ('from', 'at', 'in', 'end', 'fun', 'let', 'have', 'show', 'exp', 'then', 'else',
                'if', 'do', 'by', 'with', 'open', 'local', 'theta_', 'λ', 'Type', 'Prop', 'Sort'):
        return name + '_'
    return name


class Translator:
    def __init__(self, mode, params, subst=None, calls=None, opaque_ok=True):
        """
        params: ordered dict name -> type ('A' in real mode; 'N','Z','F','LN' in int mode)
        subst : dict  ast.unparse(expr) -> parameter name  (e.g. "header['NAXIS2']" -> 'rows')
        calls : dict  python callee name -> (lean name, arity)
        """
        self.mode = mode
        self.params = dict(params)
        self.subst = subst or {}
        self.calls = calls or {}
        self.lets = []          # (ssa_name, lean_expr, type, deps:set)
        self.env = {}           # python var -> (ssa_name, type)
        self.counter = {}
        self.auto_params = []   # variables that became parameters (untranslatable RHS)
        self.opaque_ok = opaque_ok
        for p, t in self.params.items():
            self.env[p] = (lean_ident(p), t)

    # ---------------- expressions -----------------
    def fresh(self, var):
        k = self.counter.get(var, 0)
        self.counter[var] = k + 1
        base = lean_ident(var)
        if var in self.params or var in [a for a, _ in self.auto_params]:
            k += 1
            self.counter[var] = k + 1 if k + 1 > self.counter[var] else self.counter[var]
        return base if k == 0 else f"{base}_{k}"

    def lit_real(self, v):
        if isinstance(v, bool):
            raise Untranslatable(f"bool literal {v}")
        if isinstance(v, int):
            if v < 0:
                return f"(-(R.ofNat {-v} : α))"
            return f"(R.ofNat {v} : α)"
        if isinstance(v, float):
            if v != v or v in (float('inf'), float('-inf')):
                raise Untranslatable("non-finite literal")
            if v == int(v) and abs(v) < 2**53:
                return self.lit_real(int(v))
            d = Decimal(repr(v))
            sign, digits, exp = d.as_tuple()
            m = int(''.join(map(str, digits)))
            if exp >= 0:
                s = f"(R.ofSci {m} false {exp} : α)"
            else:
                s = f"(R.ofSci {m} true {-exp} : α)"
            return f"(-{s})" if sign else s
        raise Untranslatable(f"literal {v!r}")

    def expr(self, node):
        """returns (lean_code, type, deps)"""
        key = ast.unparse(node)
        if key in self.subst:
            p = self.subst[key]
            ssa, t = self.env[p]
            return ssa, t, {ssa}
        if self.mode == 'real':
            return self.expr_real(node)
        return self.expr_int(node)

    def callee_name(self, f):
        if isinstance(f, ast.Name):
            return f.id
        if isinstance(f, ast.Attribute) and isinstance(f.value, ast.Name) and f.value.id in ('np', 'math', 'numpy'):
            return f.attr
        return None

    def expr_real(self, node):
        if isinstance(node, ast.Constant):
            return self.lit_real(node.value), 'A', set()
        if isinstance(node, ast.Name):
            if node.id not in self.env:
                raise Untranslatable(f"unknown name {node.id}")
            ssa, t = self.env[node.id]
            if ssa.startswith('?opaque?'):
                raise Untranslatable(f"{node.id} is opaque")
            return ssa, t, {ssa}
        if isinstance(node, ast.UnaryOp) and isinstance(node.op, ast.USub):
            c, t, d = self.expr(node.operand)
            return f"(-{c})", t, d
        if isinstance(node, ast.UnaryOp) and isinstance(node.op, ast.UAdd):
            return self.expr(node.operand)
        if isinstance(node, ast.BinOp):
            if isinstance(node.op, ast.Pow):
                if isinstance(node.right, ast.Constant) and isinstance(node.right.value, int) and node.right.value >= 0:
                    c, t, d = self.expr(node.left)
                    return f"(R.npow {c} {node.right.value})", 'A', d
                raise Untranslatable(f"power with non-literal exponent: {ast.unparse(node)}")
            ops = {ast.Add: '+', ast.Sub: '-', ast.Mult: '*', ast.Div: '/'}
            for k, sym in ops.items():
                if isinstance(node.op, k):
                    a, _, da = self.expr(node.left)
                    b, _, db = self.expr(node.right)
                    return f"({a} {sym} {b})", 'A', da | db
            raise Untranslatable(f"operator {type(node.op).__name__}")
        if isinstance(node, ast.Call):
            name = self.callee_name(node.func)
            if node.keywords:
                raise Untranslatable(f"keyword arguments in call {ast.unparse(node)}")
            if name in self.calls:
                lname, arity = self.calls[name]
                if len(node.args) != arity:
                    raise Untranslatable(f"arity of {name}")
                parts, deps = [], set()
                for a in node.args:
                    c, _, d = self.expr(a)
                    parts.append(c)
                    deps |= d
                return f"({lname} " + " ".join(parts) + ")", 'A', deps
            if name in REAL_FUNCS1 and len(node.args) == 1:
                c, _, d = self.expr(node.args[0])
                return f"({REAL_FUNCS1[name]} {c})", 'A', d
            if name in REAL_FUNCS2 and len(node.args) == 2:
                a, _, da = self.expr(node.args[0])
                b, _, db = self.expr(node.args[1])
                return f"({REAL_FUNCS2[name]} {a} {b})", 'A', da | db
            raise Untranslatable(f"call {ast.unparse(node.func)}")
        raise Untranslatable(f"expression {type(node).__name__}: {ast.unparse(node)}")

    # int mode helpers
    @staticmethod
    def to_Z(c, t):
        if t == 'Z':
            return c
        if t == 'N':
            return f"(({c} : Nat) : Int)"
        raise Untranslatable(f"cannot view {t} as Int")

    @staticmethod
    def to_F(c, t):
        if t == 'F':
            return c
        if t == 'N':
            return f"(Float.ofNat {c})"
        if t == 'Z':
            return f"(Float.ofInt {c})"
        raise Untranslatable(f"cannot view {t} as Float")

    def expr_int(self, node):
        if isinstance(node, ast.Constant):
            v = node.value
            if isinstance(v, bool):
                raise Untranslatable("bool literal")
            if isinstance(v, int):
                if v >= 0:
                    return f"({v} : Nat)", 'N', set()
                return f"({v} : Int)", 'Z', set()
            if isinstance(v, float):
                return f"({v!r} : Float)", 'F', set()
            raise Untranslatable(f"literal {v!r}")
        if isinstance(node, ast.Name):
            if node.id not in self.env:
                raise Untranslatable(f"unknown name {node.id}")
            ssa, t = self.env[node.id]
            if ssa.startswith('?opaque?'):
                raise Untranslatable(f"{node.id} is opaque")
            return ssa, t, {ssa}
        if isinstance(node, ast.UnaryOp) and isinstance(node.op, ast.USub):
            c, t, d = self.expr(node.operand)
            if t == 'F':
                return f"(-{c})", 'F', d
            return f"(-{self.to_Z(c, t)})", 'Z', d
        if isinstance(node, ast.BinOp):
            a, ta, da = self.expr(node.left)
            b, tb, db = self.expr(node.right)
            deps = da | db
            op = node.op
            if 'LN' in (ta, tb):
                raise Untranslatable("list arithmetic")
            if isinstance(op, ast.Div):
                return f"({self.to_F(a, ta)} / {self.to_F(b, tb)})", 'F', deps
            if 'F' in (ta, tb):
                sym = {ast.Add: '+', ast.Sub: '-', ast.Mult: '*'}.get(type(op))
                if sym is None:
                    raise Untranslatable(f"float operator {type(op).__name__}")
                return f"({self.to_F(a, ta)} {sym} {self.to_F(b, tb)})", 'F', deps
            if isinstance(op, (ast.Add, ast.Mult)):
                sym = '+' if isinstance(op, ast.Add) else '*'
                if ta == 'N' and tb == 'N':
                    return f"({a} {sym} {b})", 'N', deps
                return f"({self.to_Z(a, ta)} {sym} {self.to_Z(b, tb)})", 'Z', deps
            if isinstance(op, ast.Sub):
                return f"({self.to_Z(a, ta)} - {self.to_Z(b, tb)})", 'Z', deps
            if isinstance(op, ast.FloorDiv):
                if ta == 'N' and tb == 'N':
                    return f"({a} / {b})", 'N', deps
                return f"(Int.fdiv {self.to_Z(a, ta)} {self.to_Z(b, tb)})", 'Z', deps
            if isinstance(op, ast.Mod):
                if ta == 'N' and tb == 'N':
                    return f"({a} % {b})", 'N', deps
                return f"(Int.fmod {self.to_Z(a, ta)} {self.to_Z(b, tb)})", 'Z', deps
            if isinstance(op, ast.Pow):
                if ta == 'N' and tb == 'N':
                    return f"({a} ^ {b})", 'N', deps
                if ta == 'Z' and tb == 'N':
                    return f"({a} ^ {b})", 'Z', deps
                raise Untranslatable("power with non-natural exponent")
            raise Untranslatable(f"operator {type(op).__name__}")
        if isinstance(node, ast.Compare) and len(node.ops) == 1:
            a, ta, da = self.expr(node.left)
            b, tb, db = self.expr(node.comparators[0])
            sym = {ast.Lt: '<', ast.LtE: '≤', ast.Gt: '>', ast.GtE: '≥', ast.Eq: '=', ast.NotEq: '≠'}.get(type(node.ops[0]))
            if sym is None:
                raise Untranslatable("comparison operator")
            if 'F' in (ta, tb):
                if sym in ('=', '≠'):
                    sym = {'=': '==', '≠': '!='}[sym]
                return f"({self.to_F(a, ta)} {sym} {self.to_F(b, tb)})", 'B', da | db
            if ta == 'N' and tb == 'N':
                return f"({a} {sym} {b})", 'B', da | db
            return f"({self.to_Z(a, ta)} {sym} {self.to_Z(b, tb)})", 'B', da | db
        if isinstance(node, ast.BoolOp):
            parts, deps = [], set()
            for v in node.values:
                c, t, d = self.expr(v)
                if t != 'B':
                    raise Untranslatable("non-boolean in bool op")
                parts.append(c)
                deps |= d
            sym = ' ∧ ' if isinstance(node.op, ast.And) else ' ∨ '
            return "(" + sym.join(parts) + ")", 'B', deps
        if isinstance(node, ast.IfExp):
            c, tc, dc = self.expr(node.test)
            a, ta, da = self.expr(node.body)
            b, tb, db = self.expr(node.orelse)
            if tc != 'B':
                raise Untranslatable("non-boolean test")
            a, b, t = self.unify(a, ta, b, tb)
            return f"(if {c} then {a} else {b})", t, dc | da | db
        if isinstance(node, ast.List):
            parts, deps = [], set()
            for e in node.elts:
                c, t, d = self.expr(e)
                if t != 'N':
                    raise Untranslatable("list of non-naturals")
                parts.append(c)
                deps |= d
            return "([" + ", ".join(parts) + "] : List Nat)", 'LN', deps
        if isinstance(node, ast.Call):
            name = self.callee_name(node.func)
            if node.keywords:
                raise Untranslatable("keyword arguments")
            args = [self.expr(a) for a in node.args]
            deps = set().union(*[d for _, _, d in args]) if args else set()
            if name == 'int' and len(args) == 1:
                c, t, _ = args[0]
                if t in ('N', 'Z'):
                    return c, t, deps
                if t == 'F':
                    # valid for 0 <= c < 2^64 (row / pixel counts); NaN and negatives map to 0
                    return f"(Float.toUInt64 {c}).toNat", 'N', deps
            if name in ('max', 'min') and len(args) == 2:
                (a, ta, _), (b, tb, _) = args
                # Python: max(a, b) = b if b > a else a ; min(a, b) = b if b < a else a
                cmp = '>' if name == 'max' else '<'
                if 'F' in (ta, tb):
                    a, b = self.to_F(a, ta), self.to_F(b, tb)
                    return f"(if {b} {cmp} {a} then {b} else {a})", 'F', deps
                a2, b2, t = self.unify(a, ta, b, tb)
                return f"(if {b2} {cmp} {a2} then {b2} else {a2})", t, deps
            if name == 'abs' and len(args) == 1:
                c, t, _ = args[0]
                if t == 'N':
                    return c, 'N', deps
                if t == 'Z':
                    return f"(Int.natAbs {c})", 'N', deps
                if t == 'F':
                    return f"(Float.abs {c})", 'F', deps
            if name == 'range' and 1 <= len(args) <= 3 and all(t == 'N' for _, t, _ in args):
                cs = [c for c, _, _ in args]
                if len(cs) == 1:
                    cs = ['0', cs[0], '1']
                elif len(cs) == 2:
                    cs = [cs[0], cs[1], '1']
                return f"(Py.range {cs[0]} {cs[1]} {cs[2]})", 'LN', deps
            if name == 'list' and len(args) == 1 and args[0][1] == 'LN':
                return args[0][0], 'LN', deps
            if name == 'len' and len(args) == 1 and args[0][1] == 'LN':
                return f"({args[0][0]}).length", 'N', deps
            if name in self.calls:
                lname, arity = self.calls[name]
                if isinstance(arity, tuple):
                    arity, rtype = arity
                else:
                    rtype = 'N'
                if len(args) != arity:
                    raise Untranslatable(f"arity of {name}")
                return f"({lname} " + " ".join(c for c, _, _ in args) + ")", rtype, deps
            raise Untranslatable(f"call {ast.unparse(node.func)}")
        raise Untranslatable(f"expression {type(node).__name__}: {ast.unparse(node)}")

    def unify(self, a, ta, b, tb):
        if ta == tb:
            return a, b, ta
        if 'F' in (ta, tb):
            return self.to_F(a, ta), self.to_F(b, tb), 'F'
        if {ta, tb} <= {'N', 'Z'}:
            return self.to_Z(a, ta), self.to_Z(b, tb), 'Z'
        raise Untranslatable(f"cannot unify {ta} and {tb}")

    # ---------------- statements -----------------
    def bind(self, var, code, t, deps):
        ssa = self.fresh(var)
        self.lets.append((ssa, code, t, deps))
        self.env[var] = (ssa, t)

    def make_param(self, var):
        """the RHS is outside the whitelist: the variable becomes an input of the model"""
        if not self.opaque_ok:
            raise Untranslatable(f"opaque right-hand side for {var}")
        t = 'A' if self.mode == 'real' else 'N'
        ssa = self.fresh(var)
        self.auto_params.append((ssa, t))
        self.env[var] = (ssa, t)

    def assign(self, target, value):
        if isinstance(target, ast.Name):
            try:
                c, t, d = self.expr(value)
            except Untranslatable:
                self.make_param(target.id)
                return
            self.bind(target.id, c, t, d)
        elif isinstance(target, ast.Tuple) and isinstance(value, ast.Tuple) and len(target.elts) == len(value.elts):
            vals = []
            for tg, v in zip(target.elts, value.elts):
                if not isinstance(tg, ast.Name):
                    return
                try:
                    vals.append((tg.id, self.expr(v)))
                except Untranslatable:
                    vals.append((tg.id, None))
            for name, r in vals:
                if r is None:
                    self.make_param(name)
                else:
                    self.bind(name, *r)
        elif isinstance(target, ast.Tuple):
            for tg in target.elts:
                if isinstance(tg, ast.Name):
                    self.make_param(tg.id)
        # other targets (attributes, subscripts) are side effects outside the model

    def stmts(self, body):
        for s in body:
            self.stmt(s)

    def stmt(self, s):
        if isinstance(s, ast.Assign) and len(s.targets) == 1:
            self.assign(s.targets[0], s.value)
        elif isinstance(s, ast.AugAssign) and isinstance(s.target, ast.Name):
            fake = ast.BinOp(left=ast.Name(id=s.target.id, ctx=ast.Load()), op=s.op, right=s.value)
            try:
                c, t, d = self.expr(fake)
            except Untranslatable as e:
                if s.target.id in self.env:
                    # an in-place update we cannot express: the variable (and whatever is
                    # computed from it later) is no longer translatable
                    self.env[s.target.id] = ('?opaque?' + s.target.id, self.env[s.target.id][1])
                return
            self.bind(s.target.id, c, t, d)
        elif isinstance(s, ast.Expr) and isinstance(s.value, ast.Call) and isinstance(s.value.func, ast.Attribute) \
                and s.value.func.attr == 'append' and isinstance(s.value.func.value, ast.Name) \
                and s.value.func.value.id in self.env and self.env[s.value.func.value.id][1] == 'LN':
            var = s.value.func.value.id
            c, t, d = self.expr(s.value.args[0])
            if t != 'N':
                raise Untranslatable("append of non-natural")
            ssa, _ = self.env[var]
            self.bind(var, f"({ssa} ++ [{c}])", 'LN', d | {ssa})
        elif isinstance(s, ast.If):
            self.if_stmt(s)
        elif isinstance(s, (ast.For, ast.While)):
            self.stmts(s.body)
        elif isinstance(s, ast.With):
            self.stmts(s.body)
        elif isinstance(s, ast.Try):
            self.stmts(s.body)
        # everything else (return, expression statements, raise, …) has no bindings

    def if_stmt(self, s):
        try:
            c, tc, dc = self.expr(s.test)
            if tc != 'B':
                raise Untranslatable("non-boolean test")
            test = (c, dc)
        except Untranslatable:
            test = None
        before = dict(self.env)
        self.stmts(s.body)
        after_body = dict(self.env)
        self.env = dict(before)
        self.stmts(s.orelse)
        after_else = dict(self.env)
        merged = dict(before)
        for var in set(after_body) | set(after_else):
            vb = after_body.get(var)
            ve = after_else.get(var)
            v0 = before.get(var)
            if vb == ve:
                merged[var] = vb
                continue
            # assigned differently in the two branches
            if vb is None or ve is None:
                # defined in one branch only and not before: keep that definition
                merged[var] = vb if vb is not None else ve
                continue
            if test is None:
                if vb != v0 and ve != v0 or True:
                    # conditional re-definition under an untranslatable test
                    merged[var] = ('?opaque?' + var, vb[1])
                continue
            (sb, tb), (se, te) = vb, ve
            a, b, t = self.unify(sb, tb, se, te) if tb != te else (sb, se, tb)
            ssa = self.fresh(var)
            self.lets.append((ssa, f"(if {test[0]} then {a} else {b})", t, test[1] | {sb, se}))
            merged[var] = (ssa, t)
        self.env = merged

    # ---------------- output -----------------
    def closure(self, ssa):
        """lets (in order) and params needed by ssa"""
        need = {ssa}
        keep = []
        for name, code, t, deps in reversed(self.lets):
            if name in need:
                keep.append((name, code, t))
                need |= deps
        keep.reverse()
        return keep, need

    LEAN_T = {'N': 'Nat', 'Z': 'Int', 'F': 'Float', 'LN': 'List Nat', 'A': 'α', 'B': 'Bool'}

    def emit(self, lean_name, var, all_params=None):
        if var not in self.env:
            raise Untranslatable(f"output variable {var} is never assigned")
        ssa, t = self.env[var]
        if ssa.startswith('?opaque?'):
            raise Untranslatable(f"{var} is re-defined under a condition the translator cannot express")
        keep, need = self.closure(ssa)
        for n in need:
            if n.startswith('?opaque?'):
                raise Untranslatable(f"{var} depends on {n[8:]}, re-defined under an untranslatable condition")
        plist = [(lean_ident(p), pt) for p, pt in self.params.items()] + list(self.auto_params)
        if all_params is None:
            plist = [(p, pt) for p, pt in plist if p in need]
        sig = " ".join(f"({p} : {self.LEAN_T[pt]})" for p, pt in plist)
        head = f"def {lean_name} " + ("{α : Type} [R α] " if self.mode == 'real' else "") + sig + f" : {self.LEAN_T[t]} :="
        lines = [head]
        for name, code, lt in keep:
            lines.append(f"  let {name} : {self.LEAN_T[lt]} := {code}")
        lines.append(f"  {ssa}")
        return "\n".join(lines), [p for p, _ in plist]


def find_function(tree, qualname):
    parts = qualname.split('.')
    node = tree
    for p in parts:
        found = None
        for ch in ast.walk(node) if node is tree else ast.iter_child_nodes(node):
            if isinstance(ch, (ast.FunctionDef, ast.ClassDef)) and ch.name == p:
                found = ch
                break
        if found is None:
            raise Untranslatable(f"function {qualname} not found")
        node = found
    return node


def translate_function(src_path, qualname, outputs, mode, params, subst=None, calls=None,
                       returns=None, lean_prefix=None):
    """
    outputs: list of (python variable, lean def name).  If `returns` is given (a lean def name),
    the function's last `return <expr>` is bound to the pseudo-variable __return__.
    Returns (lean_text, info) where info maps lean name -> parameter list.
    """
    tree = ast.parse(open(src_path).read())
    fn = find_function(tree, qualname)
    tr = Translator(mode, params, subst, calls)
    body = list(fn.body)
    tr.stmts(body)
    if returns:
        rets = [n for n in ast.walk(fn) if isinstance(n, ast.Return) and n.value is not None]
        if not rets:
            raise Untranslatable(f"{qualname} has no return value")
        last = rets[-1]
        if isinstance(last.value, ast.Tuple) and isinstance(returns, (list, tuple)):
            if len(last.value.elts) != len(returns):
                raise Untranslatable("return arity")
            for e, name in zip(last.value.elts, returns):
                c, t, d = tr.expr(e)
                tr.bind('__ret_' + name, c, t, d)
                outputs = list(outputs) + [('__ret_' + name, name)]
        else:
            c, t, d = tr.expr(last.value)
            tr.bind('__return__', c, t, d)
            outputs = list(outputs) + [('__return__', returns)]
    texts, info = [], {}
    for var, lname in outputs:
        text, plist = tr.emit(lname, var)
        texts.append(text)
        info[lname] = plist
    return "\n\n".join(texts), info


if __name__ == '__main__':
    import importlib.util
    import json
    import os
    here = os.path.dirname(os.path.abspath(__file__))
    spec = importlib.util.spec_from_file_location('targets', os.path.join(here, 'targets.py'))
    targets = importlib.util.module_from_spec(spec)
    spec.loader.exec_module(targets)
    prop = sys.argv[1]
    repo = sys.argv[2]
    out = sys.argv[3]
    status = targets.generate(prop, repo, out)
    print(json.dumps(status))
