#!/bin/bash
# Mutation self-test for C17.  Usage: selftest/C17/run.sh [patch ...]   (default: all patches here)
# Each patch is applied to a scratch copy of the REPAIRED tree ($BASE if given, else a temporary copy of
# /repo with fixes/C17-0*.patch applied where they are not yet); the repo's own unit tests that touch angle_tools are run on the copy,
# then ./check C17 --tier quick.  Expected: M* -> exit 1 with a replay, harmless-* -> exit 0 (the naming convention of tools/selftest.sh).
V=$(cd "$(dirname "$0")/../.." && pwd)
cd "$V"
if [ -z "${BASE:-}" ]; then
  # build the repaired tree: /repo (or $AEGEAN_REPO) + every fixes/C17-0*.patch that is not applied yet
  BASE=$(mktemp -d /var/tmp/wt-C17-base.XXXXXX); MADE_BASE=1
  rsync -a --exclude .git "${AEGEAN_REPO:-/repo}"/ "$BASE"/
  for f in fixes/C17-0*.patch; do
    (cd "$BASE" && patch -p1 -s -N --dry-run < "$V/$f" >/dev/null 2>&1 && patch -p1 -s -N < "$V/$f")
  done
fi
trap '[ -n "${MADE_BASE:-}" ] && rm -rf "$BASE"' EXIT
[ $# -eq 0 ] && set -- selftest/C17/*.patch
for p in "$@"; do
  W=$(mktemp -d /var/tmp/wt-C17-mut.XXXXXX)
  rsync -a --exclude .git "$BASE"/ "$W"/
  if ! (cd "$W" && patch -p1 -s < "$V/$p"); then echo "$(basename $p): PATCH FAILED"; rm -rf "$W"; continue; fi
  t=$(cd "$W" && PYTHONPATH="$W" /venv/bin/python -m pytest -q -p no:cacheprovider tests/unit/test_angle_tools.py tests/unit/test_cluster.py tests/unit/test_wcs_helpers.py 2>&1 | tail -1)
  out=$(AEGEAN_REPO="$W" ./check C17 --tier quick 2>&1); rc=$?
  echo "== $(basename $p): exit=$rc  repo-tests: $t"
  echo "$out" | grep -E "^VIOLATION|no longer check|BROKEN" | head -6
  for r in $(echo "$out" | grep -oE "replay=[^ ]+" | cut -d= -f2 | head -3); do
    /venv/bin/python -c "import json,sys; r=json.load(open('$r')); print('   ', r['kind'], r.get('signature'), str(r['detail'])[:160])"
  done
  rm -rf "$W"
done
