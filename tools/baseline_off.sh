#!/bin/bash
# Run the repository's pinned baseline test-suite with the verification guard OFF,
# on a scratch copy of /repo (the repo's own tests write into the tree), and compare
# with BASELINE.json stable_pass.  Exit 0 iff every stable_pass test passes.
set -u
REPO=${AEGEAN_REPO:-/repo}
SCR=$(mktemp -d /var/tmp/aegean-baseline.XXXXXX)
trap 'rm -rf "$SCR"' EXIT
rsync -a --exclude .git "$REPO"/ "$SCR"/repo/
cd "$SCR/repo"
unset AEGEAN_VERIF
export OMP_NUM_THREADS=1 OPENBLAS_NUM_THREADS=1 MKL_NUM_THREADS=1
PYTHONPATH="$SCR/repo" /venv/bin/python -m pytest -q -p no:cacheprovider --timeout=900 \
   --continue-on-collection-errors --junitxml="$SCR/junit.xml" "$@" >"$SCR/log" 2>&1
tail -3 "$SCR/log"
/venv/bin/python - "$SCR/junit.xml" <<'PY'
import sys, json, xml.etree.ElementTree as ET
base = json.load(open('/root/.vp/BASELINE.json'))
want = set(base['stable_pass'])
passed = set()
for tc in ET.parse(sys.argv[1]).getroot().iter('testcase'):
    name = tc.get('classname') + '::' + tc.get('name')
    if not any(ch.tag in ('failure', 'error', 'skipped') for ch in tc):
        passed.add(name)
missing = sorted(want - passed)
print(f"baseline: {len(want & passed)}/{len(want)} stable tests pass; extra passing: {len(passed - want)}")
for m in missing:
    print("MISSING", m)
sys.exit(1 if missing else 0)
PY
