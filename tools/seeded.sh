#!/bin/bash
# tools/seeded.sh Cxx <srcdir> <id> : confirm a seeded change (patch.diff, demo.py, meta.json in <srcdir>)
# on scratch copies of /repo, run the property's quick check against it, and file it under /verif/seeded/<id>/.
#   confirmed = patch applies, demo passes on clean tree, demo fails on mutated tree, baseline suite passes on mutated tree
set -u
prop=$1; src=$(realpath $2); id=$3
dst=/verif/seeded/$id; mkdir -p $dst
W=$(mktemp -d /var/tmp/seeded-$id.XXXXXX)
rsync -a --exclude .git /repo/ $W/clean/
rsync -a --exclude .git /repo/ $W/mut/
export OMP_NUM_THREADS=1 OPENBLAS_NUM_THREADS=1
applies=yes
(cd $W/mut && patch -p1 -s --no-backup-if-mismatch < $src/patch.diff) || applies=no
demo_clean=NA; demo_mut=NA; base=NA; chk=NA; vline=""
if [ $applies = yes ]; then
  (cd $W && PYTHONPATH=$W/clean timeout 900 /venv/bin/python $src/demo.py >$W/demo_clean.log 2>&1); demo_clean=$?
  (cd $W && PYTHONPATH=$W/mut timeout 900 /venv/bin/python $src/demo.py >$W/demo_mut.log 2>&1); demo_mut=$?
  AEGEAN_REPO=$W/mut /verif/tools/baseline_off.sh >$W/base.log 2>&1; base=$?
  (cd /verif && AEGEAN_REPO=$W/mut timeout 3000 ./check $prop --tier quick >$W/check.log 2>&1); chk=$?
  vline=$(grep -m1 '^VIOLATION' $W/check.log)
  if [ -n "$vline" ]; then rp=$(echo "$vline" | sed 's/.*replay=\([^ ]*\).*/\1/'); [ -f "$rp" ] && cp "$rp" $dst/replay.json; fi
  tail -n 3 $W/check.log > $dst/check_tail.txt
fi
cp $src/patch.diff $src/demo.py $dst/ 2>/dev/null
/venv/bin/python - "$src/meta.json" "$dst/meta.json" <<PY
import json, sys
try: m = json.load(open(sys.argv[1]))
except Exception: m = {}
m.update(dict(property="$prop", seeded_id="$id", patch_applies="$applies", demo_exit_clean="$demo_clean",
  demo_exit_mutated="$demo_mut", baseline_suite_exit_on_mutated="$base", quick_check_exit="$chk",
  violation_line="""$vline""".strip(),
  confirmed=("$applies"=="yes" and "$demo_clean"=="0" and "$demo_mut" not in ("0","NA") and "$base"=="0"),
  detected=("$chk"=="1"),
  ran=["patch -p1 < patch.diff on a scratch copy of /repo", "PYTHONPATH=<copy> /venv/bin/python demo.py (clean and mutated)",
       "AEGEAN_REPO=<mutated> tools/baseline_off.sh", "AEGEAN_REPO=<mutated> ./check $prop --tier quick"]))
json.dump(m, open(sys.argv[2], 'w'), indent=1)
print("$id", "applies=$applies demo_clean=$demo_clean demo_mut=$demo_mut baseline=$base check=$chk", m['violation_line'][:120])
PY
rm -rf $W
cd /verif && python3 translator/py2lean.py $prop /repo lean/Aegean/Generated/$prop.lean >/dev/null 2>&1 || true
