#!/bin/bash
# tools/selftest.sh Cxx <patch>... : apply each patch to a scratch copy of /repo and run the quick check
# against it; prints one line per patch: <patch> exit=<rc> <first VIOLATION line>.
# Patches named harmless-*.patch are expected to give exit 0, all others exit 1.
prop=$1; shift
for p in "$@"; do
  p=$(realpath "$p")
  W=$(mktemp -d /var/tmp/selftest-$prop.XXXXXX)
  rsync -a --exclude .git /repo/ $W/
  if ! (cd $W && patch -p1 -s --no-backup-if-mismatch < "$p"); then echo "$p: DOES NOT APPLY"; rm -rf $W; continue; fi
  out=$(cd /verif && AEGEAN_REPO=$W ./check $prop --tier quick 2>&1); rc=$?
  v=$(echo "$out" | grep -m1 '^VIOLATION')
  exp=1; case "$(basename $p)" in harmless-*) exp=0;; esac
  [ $rc = $exp ] && verdict=OK || verdict=UNEXPECTED
  echo "$(basename $p): exit=$rc expected=$exp $verdict $v"
  rm -rf $W
done
# restore Generated/ for the real tree
cd /verif && python3 translator/py2lean.py $prop /repo lean/Aegean/Generated/$prop.lean >/dev/null 2>&1 || true
