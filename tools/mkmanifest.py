#!/usr/bin/env python3
"""Assemble /verif/MANIFEST.json from manifest.d/Cxx.json fragments and known_findings.json from
known_findings.d/Cxx.json.  Properties without a fragment are listed under not_applicable with the
reason recorded in manifest.d/_unclaimed.json."""
import json, os, glob
V = os.path.dirname(os.path.dirname(os.path.abspath(__file__)))
props = [json.loads(l)['id'] for l in open(os.path.join(V, 'properties.jsonl'))]
integrated = set(open(os.path.join(V, 'manifest.d', '_integrated.txt')).read().split())
checks = []
for p in props:
    fn = os.path.join(V, 'manifest.d', p + '.json')
    if os.path.exists(fn) and p in integrated:
        c = json.load(open(fn))
        c.setdefault('property_id', p)
        c.setdefault('quick_cmd', f'./check {p} --tier quick')
        c.setdefault('thorough_cmd', f'./check {p} --tier thorough')
        c.setdefault('evidence_file', f'/verif/evidence/{p}.json')
        c.setdefault('replay_cmd_template', f'./check {p} --replay {{path}}')
        c.setdefault('engine', 'lean4-proof+correspondence')
        checks.append(c)
unc = json.load(open(os.path.join(V, 'manifest.d', '_unclaimed.json')))
na = [dict(property_id=p, reason=unc.get(p, unc['_default'])) for p in props if p not in {c['property_id'] for c in checks}]
hooks = json.load(open(os.path.join(V, 'manifest.d', '_hooks.json')))
man = dict(
    version=1,
    setup_cmd='tools/setup.sh',
    hooks=hooks,
    engines=[dict(name='lean4-proof+correspondence', path='/verif/check',
                  serves_properties=[c['property_id'] for c in checks],
                  kind_free_text='Lean 4 theorems about a model (regenerated from source by translator/py2lean.py '
                                 'and/or hand-written) + differential correspondence of the model\'s executable '
                                 'definitions against the Python implementation through a line protocol')],
    checks=checks,
    not_applicable=na,
    notes='See DESIGN.md. Exit 2 from a check means the check itself is broken (toolchain/audit/harness), not a violation.',
)
json.dump(man, open(os.path.join(V, 'MANIFEST.json'), 'w'), indent=1)
kf = []
for fn in sorted(glob.glob(os.path.join(V, 'known_findings.d', 'C*.json'))):
    kf += json.load(open(fn))
json.dump(dict(comment='Read-only at run time. status=open entries suppress exactly the failures whose minimised '
                       'signature matches; status=fixed entries suppress nothing.', findings=kf),
          open(os.path.join(V, 'known_findings.json'), 'w'), indent=1)
print(f"{len(checks)} checks, {len(na)} not_applicable, {len(kf)} findings")
