#!/bin/bash
# tools/applyfix.sh fixes/Cxx-NN-slug  : apply the patch to /repo and commit with its message
set -e
base=$1
cd /repo
git apply --3way "/verif/$base.patch" 2>/dev/null || git apply "/verif/$base.patch"
git add -A
git commit -q -F "/verif/$base.msg"
echo "$(basename $base) $(git log --format=%h -1)"
