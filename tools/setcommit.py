#!/usr/bin/env python3
"""tools/setcommit.py Cxx id=commit [id=commit ...] : fill commit ids of fixed entries in known_findings.d/Cxx.json
and rewrite the description to start with 'fixed: property=Cxx <commit> '."""
import json, sys, re
prop = sys.argv[1]
m = dict(a.split('=') for a in sys.argv[2:])
fn = f'/verif/known_findings.d/{prop}.json'
es = json.load(open(fn))
for e in es:
    if e.get('id') in m:
        c = m[e['id']]
        e['commit'] = c
        e['status'] = 'fixed'
        d = re.sub(r'^fixed:\s*property=\S+\s+\S+\s*', '', e.get('description', ''))
        e['description'] = f"fixed: property={prop} {c} {d}"
json.dump(es, open(fn, 'w'), indent=1)
print([ (e['id'], e.get('commit')) for e in es])
