#!/bin/bash
# tools/benign.sh Cxx <srcdir> <id> : evaluate a change that is meant NOT to break the property (patch.diff, demo.py,
# meta.json in <srcdir>) on scratch copies of /repo: the demo must pass on both trees (same DIGEST for kinds refactor/perf),
# the baseline suite must pass, and the property's quick check must stay quiet (exit 0).  Filed under /verif/benign/<id>/.
set -u
prop=$1; src=$(realpath $2); id=$3
dst=/verif/benign/$id; mkdir -p $dst
W=$(mktemp -d /var/tmp/benign-$id.XXXXXX)
rsync -a --exclude .git /repo/ $W/clean/
rsync -a --exclude .git /repo/ $W/mut/
export OMP_NUM_THREADS=1 OPENBLAS_NUM_THREADS=1
applies=yes
(cd $W/mut && patch -p1 -s --no-backup-if-mismatch < $src/patch.diff) || applies=no
demo_clean=NA; demo_mut=NA; base=NA; chk=NA; vline=""; dg_clean=""; dg_mut=""
if [ $applies = yes ]; then
  (cd $W && PYTHONPATH=$W/clean timeout 900 /venv/bin/python $src/demo.py >$W/demo_clean.log 2>&1); demo_clean=$?
  (cd $W && PYTHONPATH=$W/mut timeout 900 /venv/bin/python $src/demo.py >$W/demo_mut.log 2>&1); demo_mut=$?
  dg_clean=$(grep -m1 '^DIGEST' $W/demo_clean.log | awk '{print $2}'); dg_mut=$(grep -m1 '^DIGEST' $W/demo_mut.log | awk '{print $2}')
  AEGEAN_REPO=$W/mut /verif/tools/baseline_off.sh >$W/base.log 2>&1; base=$?
  (cd /verif && AEGEAN_REPO=$W/mut VERIF_SEED=${VERIF_SEED:-0} timeout 3000 ./check $prop --tier quick >$W/check.log 2>&1); chk=$?
  vline=$(grep -m1 '^VIOLATION' $W/check.log)
  if [ -n "$vline" ]; then rp=$(echo "$vline" | sed 's/.*replay=\([^ ]*\).*/\1/'); [ -f "$rp" ] && cp "$rp" $dst/replay.json; fi
  tail -n 4 $W/check.log > $dst/check_tail.txt
fi
cp $src/patch.diff $src/demo.py $dst/ 2>/dev/null
/venv/bin/python - "$src/meta.json" "$dst/meta.json" <<PY
import json, sys
try: m = json.load(open(sys.argv[1]))
except Exception: m = {}
m.update(dict(property="$prop", benign_id="$id", patch_applies="$applies", demo_exit_clean="$demo_clean",
  demo_exit_changed="$demo_mut", digest_clean="$dg_clean", digest_changed="$dg_mut",
  baseline_suite_exit_on_changed="$base", quick_check_exit="$chk", violation_line="""$vline""".strip(),
  quiet=("$chk"=="0"),
  ran=["patch -p1 < patch.diff on a scratch copy of /repo", "PYTHONPATH=<copy> /venv/bin/python demo.py (clean and changed)",
       "AEGEAN_REPO=<changed> tools/baseline_off.sh", "AEGEAN_REPO=<changed> ./check $prop --tier quick"]))
json.dump(m, open(sys.argv[2], 'w'), indent=1)
print("$id", "applies=$applies demo_clean=$demo_clean demo_changed=$demo_mut digest_same=%s baseline=$base check=$chk" % ("$dg_clean"=="$dg_mut"), m['violation_line'][:140])
PY
rm -rf $W
cd /verif && python3 translator/py2lean.py $prop /repo lean/Aegean/Generated/$prop.lean >/dev/null 2>&1 || true
