#!/bin/bash
# MANIFEST.setup_cmd: build the Lean framework from files on disk only (offline).
# 1. regenerate every translated definition from /repo's current source (Generated/ is never committed)
# 2. write the root module importing every model/spec/proof/property/driver module
# 3. lake build (cold: several minutes; Mathlib itself is pre-compiled)
set -e
cd "$(dirname "$0")/.."
REPO=${AEGEAN_REPO:-/repo}
mkdir -p lean/Aegean/Generated evidence replays
for f in translator/targets/C*.py; do
  p=$(basename "$f" .py)
  python3 translator/py2lean.py "$p" "$REPO" "lean/Aegean/Generated/$p.lean" >/dev/null
done
( cd lean
  { for d in Model Spec Proofs Properties Driver Generated; do
      for f in Aegean/$d/*.lean; do [ -e "$f" ] && echo "import Aegean.$d.$(basename "$f" .lean)"; done
    done; echo "import Aegean.Num"; echo "import Aegean.Py"; } | sort -u > Aegean.lean
  lake build 2>&1 | grep -v '^✔\|^ℹ' | tail -40
  lake build >/dev/null 2>&1 || echo "warning: some Lean modules do not build; each check rebuilds and reports its own" )
# driver smoke test
out=$(cd lean && printf 'bounds 10 3 1\n' | lake env lean --run Driver/MainC20.lean)
[ "$out" = "3 6" ] || { echo "driver smoke test failed: $out"; exit 1; }
echo "setup ok"
