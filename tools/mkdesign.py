#!/usr/bin/env python3
"""Regenerate the data-driven part of DESIGN.md (everything after the marker line) from evidence/, known_findings.d/,
seeded/*/meta.json, manifest.d/ and design.d/."""
import json, os, glob, re
V = os.path.dirname(os.path.dirname(os.path.abspath(__file__)))
MARK = "<!-- GENERATED BELOW BY tools/mkdesign.py — do not edit by hand -->"
props = [json.loads(l) for l in open(os.path.join(V, 'properties.jsonl'))]
out = [MARK, "", "### 10.2 Per-property status (from the last run of each check on /repo)", "",
       "| id | level | obligations (theorems+lemmas) | property theorems | partial (not theorems) | translator | quick: cases / non-trivial / wall | notes |",
       "|---|---|---|---|---|---|---|---|"]
for p in props:
    pid = p['id']
    ev = {}
    try:
        ev = json.load(open(os.path.join(V, 'evidence', pid + '.json')))
    except Exception:
        pass
    cov = ev.get('coverage', {})
    man = {}
    try:
        man = json.load(open(os.path.join(V, 'manifest.d', pid + '.json')))
    except Exception:
        pass
    tr = cov.get('translator') or {}
    ntr = sum(1 for v in tr.values() if v == 'translated')
    trs = f"{ntr}/{len(tr)} defs regenerated" if tr else "hand model + correspondence"
    out.append(f"| {pid} | {man.get('level_claimed', {}).get('category', '?')} | {cov.get('obligations', '?')} | "
               f"{len(cov.get('theorems', []))} | {len(cov.get('partial', []))} | {trs} | "
               f"{cov.get('evaluations', '?')} / {cov.get('distinct_nontrivial', '?')} / {ev.get('wall_s', '?')} s ({ev.get('tier', '?')}) | "
               f"[design.d/{pid}.md](design.d/{pid}.md), [selftest/{pid}.md](selftest/{pid}.md) |")
out += ["", "What is *partial* for each property (clauses that are sampled, not proved) is listed verbatim in "
        "`evidence/Cxx.json` → `coverage.partial` and explained in `design.d/Cxx.md`.", ""]
# fixes and findings
fixed, openf = [], []
for fn in sorted(glob.glob(os.path.join(V, 'known_findings.d', 'C*.json'))):
    for e in json.load(open(fn)):
        (fixed if e.get('status') == 'fixed' else openf).append(e)
out += ["### 10.3 Genuine defects repaired in /repo (one `fix:` commit each; `fixed` entries suppress nothing)", "",
        "| property | finding id | commit | what failed |", "|---|---|---|---|"]
for e in fixed:
    d = re.sub(r'^fixed:\s*property=\S+\s+\S+\s*', '', e.get('description', ''))
    out.append(f"| {e['property']} | {e.get('id')} | {e.get('commit')} | {d[:300].replace('|', '/')} |")
out += ["", "Also repaired before any check existed (environment breakage, DESIGN §6 items 0a–0c): 9d8ceb3 (np.isin), "
        "3d5b972 (lmfit float values), 101e06c (np.nan / np.linalg.LinAlgError).", "",
        "### 10.4 Open known findings (genuine defects recorded, not repaired: the repair is not small and safe)", "",
        "| property | finding id | signature (matched against the minimised failing case) | description |", "|---|---|---|---|"]
for e in openf:
    out.append(f"| {e['property']} | {e.get('id')} | `{json.dumps(e.get('signature'))}` | {e.get('description', '')[:400].replace('|', '/')} |")
# seeded
hist = json.load(open(os.path.join(V, 'seeded', '_history.json')))
out += ["", "### 10.5 Seeded changes (written by independent sub-agents that saw only the property text) and which check catches them", "",
        "Each change was confirmed here before being kept: the patch applies to /repo, its demonstration passes on the "
        "clean tree and fails on the changed tree, and the repository's 153 baseline tests pass with it "
        "(`tools/seeded.sh`).  `quick check` is the exit code of `AEGEAN_REPO=<changed tree> ./check Cxx --tier quick`.", "",
        "| id | what / where | needs | quick check now | how it is caught | history |", "|---|---|---|---|---|---|"]
for d in sorted(glob.glob(os.path.join(V, 'seeded', 'C*'))):
    try:
        m = json.load(open(os.path.join(d, 'meta.json')))
    except Exception:
        continue
    sid = m.get('seeded_id', os.path.basename(d))
    how = ''
    try:
        r = json.load(open(os.path.join(d, 'replay.json')))
        how = f"{r.get('kind')}: " + str(r.get('detail'))[:160].replace('|', '/').replace('\n', ' ')
    except Exception:
        pass
    vl = m.get('violation_line', '')
    status = ('exit 1' + (' (no-failing-input-found)' if 'no-failing-input-found' in vl else ', concrete replay')) if m.get('detected') else f"exit {m.get('quick_check_exit')} — MISSED"
    if m.get('out_of_range_note') and not m.get('detected'):
        status = "exit 0 — judged OUTSIDE the property's range: " + str(m.get('out_of_range_note'))[:300].replace('|', '/')
    elif m.get('obsolete'):
        status = 'exit 0 — rightly quiet: the change no longer breaks the property on the current /repo (see meta.json confirmed_note)'
    elif not m.get('confirmed') or str(m.get('confirmed')) == 'False':
        status += ' [not confirmed]'
    out.append(f"| {sid} | {str(m.get('summary', ''))[:220].replace('|', '/')} ({m.get('site', '')}) | {str(m.get('needs', ''))[:200].replace('|', '/')} | {status} | {how} | {hist.get(sid, 'caught by the first version of the check')} |")
# benign
bh = {}
try:
    bh = json.load(open(os.path.join(V, 'benign', '_history.json')))
except Exception:
    pass
out += ["", "### 10.5b Harmless changes (round 6: written by independent sub-agents asked NOT to break the property) and what the checks say", "",
        "Three per property: a behaviour-preserving refactor of the core code, a perf/robustness change with bit-identical "
        "results, and an observable change the property does not forbid.  Each was confirmed here (`tools/benign.sh`): the patch "
        "applies, its demonstration passes on both trees (same digest for the first two kinds), the repository's baseline tests pass.  "
        "A check that exits 1 on one of these raises an alarm on code where the property holds; `history` says what was done about it.", "",
        "| id | kind | what / where | observable difference | quick check now | history |", "|---|---|---|---|---|---|"]
for d in sorted(glob.glob(os.path.join(V, 'benign', 'C*'))):
    try:
        m = json.load(open(os.path.join(d, 'meta.json')))
    except Exception:
        continue
    bid = m.get('benign_id', os.path.basename(d))
    vl = m.get('violation_line', '')
    status = 'exit 0 (quiet)' if m.get('quiet') else ('exit ' + str(m.get('quick_check_exit')) + (' (no-failing-input-found)' if 'no-failing-input-found' in vl else ' ALARM'))
    out.append(f"| {bid} | {m.get('kind', '')} | {str(m.get('summary', ''))[:260].replace('|', '/')} ({m.get('site', '')}) | "
               f"{str(m.get('observable_difference', ''))[:160].replace('|', '/')} | {status} | {bh.get(bid, 'quiet with the checks as they were')} |")
fa = os.path.join(V, 'design.d', '_false_alarms.md')
if os.path.exists(fa):
    out += ["", open(fa).read()]
text = open(os.path.join(V, 'DESIGN.md')).read()
if MARK in text:
    text = text[:text.index(MARK)]
text = text.rstrip() + "\n\n" + "\n".join(out) + "\n"
open(os.path.join(V, 'DESIGN.md'), 'w').write(text)
print("DESIGN.md regenerated:", len(text), "bytes")
