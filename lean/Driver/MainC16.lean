import Aegean.Driver.C16
def main : IO Unit := Drv.run Drv.C16.handle
