import Aegean.Driver.C10
def main : IO Unit := Drv.run Drv.C10.handle
