import Aegean.Driver.C19
def main : IO Unit := Drv.run Drv.C19.handle
