import Aegean.Driver.C04
def main : IO Unit := Drv.run Drv.C04.handle
