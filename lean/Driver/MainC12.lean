import Aegean.Driver.C12
def main : IO Unit := Drv.run Drv.C12.handle
