import Aegean.Driver.C13
def main : IO Unit := Drv.run Drv.C13.handle
