import Aegean.Driver.C02
def main : IO Unit := Drv.run Drv.C02.handle
