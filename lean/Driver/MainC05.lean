import Aegean.Driver.C05
def main : IO Unit := Drv.run Drv.C05.handle
