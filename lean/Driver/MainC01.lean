import Aegean.Driver.C01
def main : IO Unit := Drv.run Drv.C01.handle
