import Aegean.Driver.C18
def main : IO Unit := Drv.run Drv.C18.handle
