import Aegean.Driver.C03
def main : IO Unit := Drv.run Drv.C03.handle
