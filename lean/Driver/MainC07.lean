import Aegean.Driver.C07
def main : IO Unit := Drv.run Drv.C07.handle
