import Aegean.Driver.C17
def main : IO Unit := Drv.run Drv.C17.handle
