import Aegean.Driver.C11
def main : IO Unit := Drv.run Drv.C11.handle
