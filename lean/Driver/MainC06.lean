import Aegean.Driver.C06
def main : IO Unit := Drv.run Drv.C06.handle
