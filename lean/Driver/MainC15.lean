import Aegean.Driver.C15
def main : IO Unit := Drv.run Drv.C15.handle
