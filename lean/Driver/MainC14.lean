import Aegean.Driver.C14
def main : IO Unit := Drv.run Drv.C14.handle
