import Aegean.Driver.C08
def main : IO Unit := Drv.run Drv.C08.handle
