import Aegean.Driver.C09
def main : IO Unit := Drv.run Drv.C09.handle
