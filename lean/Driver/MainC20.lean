import Aegean.Driver.C20
def main : IO Unit := Drv.run Drv.C20.handle
