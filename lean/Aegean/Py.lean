/-
  Small prelude of Python built-ins used by generated (translated) definitions.  Mathlib-free.
-/
namespace Py

/-- `list(range(start, stop, step))` for naturals; `step = 0` (a ValueError in Python) gives `[]`. -/
def range (start stop step : Nat) : List Nat :=
  if step = 0 then [] else
    (List.range ((stop - start + step - 1) / step)).map (fun k => start + k * step)

end Py
