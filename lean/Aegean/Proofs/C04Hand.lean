/-
  C04 — the hand-written formulas of `Aegean/Model/C04.lean` (`gaussHand`, `dmdsHand … dmdthetaHand`)
  are the true partial derivatives.  Independent of the source under test: these theorems always
  hold, so the failing-input search may use the hand formulas, evaluated at `Float` by the
  driver (`tleaf`, `tjac`, `tlmjac`), as the verified reference when an obligation about the
  regenerated definitions no longer checks.
-/
import Aegean.Proofs.C04Real

set_option linter.unusedVariables false
set_option linter.unusedSimpArgs false

attribute [-instance] R.toAdd R.toSub R.toMul R.toDiv R.toNeg

namespace Aegean.C04Hand
open Aegean.Model.C04 Aegean.C04Canon Aegean.C04Real

theorem gaussHand_eq (x y amp xo yo sx sy th : ℝ) :
    gaussHand x y amp xo yo sx sy th = G x y amp xo yo sx sy th := by
  simp only [gaussHand, r_add, r_sub, r_mul, r_div, r_neg, r_radians, R.real_sin, R.real_cos, R.real_exp,
    R.real_npow, R.real_ofNat, R.real_pi, Nat.cast_ofNat, Nat.cast_one]
  unfold G E U W rad
  ring_nf

private theorem feq {f g : ℝ → ℝ} (h : ∀ v, f v = g v) : f = g := funext h

theorem hand_amp (x y amp xo yo sx sy th : ℝ) (hamp : amp ≠ 0) :
    HasDerivAt (fun v => gaussHand x y v xo yo sx sy th) (dmdsHand x y amp xo yo sx sy th) amp := by
  rw [feq (fun v => gaussHand_eq x y v xo yo sx sy th)]
  refine (hasDerivAt_G_amp x y amp xo yo sx sy th).congr_deriv ?_
  simp only [dmdsHand, r_div]
  rw [gaussHand_eq]; unfold D_amp G; field_simp

theorem hand_xo (x y amp xo yo sx sy th : ℝ) (hsx : sx ≠ 0) (hsy : sy ≠ 0) :
    HasDerivAt (fun v => gaussHand x y amp v yo sx sy th) (dmdxoHand x y amp xo yo sx sy th) xo := by
  rw [feq (fun v => gaussHand_eq x y amp v yo sx sy th)]
  refine (hasDerivAt_G_xo x y amp xo yo sx sy th).congr_deriv ?_
  simp only [dmdxoHand, r_add, r_sub, r_mul, r_div, r_neg, r_radians, R.real_sin, R.real_cos, R.real_npow]
  rw [gaussHand_eq]; unfold D_xo U W rad; field_simp

theorem hand_yo (x y amp xo yo sx sy th : ℝ) (hsx : sx ≠ 0) (hsy : sy ≠ 0) :
    HasDerivAt (fun v => gaussHand x y amp xo v sx sy th) (dmdyoHand x y amp xo yo sx sy th) yo := by
  rw [feq (fun v => gaussHand_eq x y amp xo v sx sy th)]
  refine (hasDerivAt_G_yo x y amp xo yo sx sy th).congr_deriv ?_
  simp only [dmdyoHand, r_add, r_sub, r_mul, r_div, r_neg, r_radians, R.real_sin, R.real_cos, R.real_npow]
  rw [gaussHand_eq]; unfold D_yo U W rad; field_simp

theorem hand_sx (x y amp xo yo sx sy th : ℝ) (hsx : sx ≠ 0) :
    HasDerivAt (fun v => gaussHand x y amp xo yo v sy th) (dmdsxHand x y amp xo yo sx sy th) sx := by
  rw [feq (fun v => gaussHand_eq x y amp xo yo v sy th)]
  refine (hasDerivAt_G_sx x y amp xo yo sx sy th hsx).congr_deriv ?_
  simp only [dmdsxHand, r_add, r_sub, r_mul, r_div, r_neg, r_radians, R.real_sin, R.real_cos, R.real_npow]
  rw [gaussHand_eq]; unfold D_sx U rad; field_simp

theorem hand_sy (x y amp xo yo sx sy th : ℝ) (hsy : sy ≠ 0) :
    HasDerivAt (fun v => gaussHand x y amp xo yo sx v th) (dmdsyHand x y amp xo yo sx sy th) sy := by
  rw [feq (fun v => gaussHand_eq x y amp xo yo sx v th)]
  refine (hasDerivAt_G_sy x y amp xo yo sx sy th hsy).congr_deriv ?_
  simp only [dmdsyHand, r_add, r_sub, r_mul, r_div, r_neg, r_radians, R.real_sin, R.real_cos, R.real_npow]
  rw [gaussHand_eq]; unfold D_sy W rad; field_simp

theorem hand_theta (x y amp xo yo sx sy th : ℝ) (hsx : sx ≠ 0) (hsy : sy ≠ 0) :
    HasDerivAt (fun v => gaussHand x y amp xo yo sx sy v) (dmdthetaHand x y amp xo yo sx sy th) th := by
  rw [feq (fun v => gaussHand_eq x y amp xo yo sx sy v)]
  refine (hasDerivAt_G_theta x y amp xo yo sx sy th).congr_deriv ?_
  simp only [dmdthetaHand, r_add, r_sub, r_mul, r_div, r_neg, r_radians, R.real_sin, R.real_cos, R.real_npow,
    R.real_pi, R.real_ofNat, Nat.cast_ofNat]
  rw [gaussHand_eq]; unfold D_theta U W rad; field_simp

/-! ### the hand formulas equal the canonical closed forms (used by the property file when a regenerated
    definition fell back to its hand definition: UNTRANSLATABLE source) -/

theorem dmdsHand_eq_canon (x y amp xo yo sx sy th : ℝ) (hamp : amp ≠ 0) :
    D_amp x y amp xo yo sx sy th = dmdsHand x y amp xo yo sx sy th := by
  simp only [dmdsHand, r_div]
  rw [gaussHand_eq]; unfold D_amp G; field_simp

theorem dmds0Hand_eq_canon (x y amp xo yo sx sy th : ℝ) :
    D_amp x y amp xo yo sx sy th = dmds0Hand x y amp xo yo sx sy th := by
  simp only [dmds0Hand, R.real_ofNat, Nat.cast_one]
  rw [gaussHand_eq]; unfold D_amp G; ring

theorem dmdxoHand_eq_canon (x y amp xo yo sx sy th : ℝ) (hsx : sx ≠ 0) (hsy : sy ≠ 0) :
    D_xo x y amp xo yo sx sy th = dmdxoHand x y amp xo yo sx sy th := by
  simp only [dmdxoHand, r_add, r_sub, r_mul, r_div, r_neg, r_radians, R.real_sin, R.real_cos, R.real_npow]
  rw [gaussHand_eq]; unfold D_xo U W rad; field_simp

theorem dmdyoHand_eq_canon (x y amp xo yo sx sy th : ℝ) (hsx : sx ≠ 0) (hsy : sy ≠ 0) :
    D_yo x y amp xo yo sx sy th = dmdyoHand x y amp xo yo sx sy th := by
  simp only [dmdyoHand, r_add, r_sub, r_mul, r_div, r_neg, r_radians, R.real_sin, R.real_cos, R.real_npow]
  rw [gaussHand_eq]; unfold D_yo U W rad; field_simp

theorem dmdsxHand_eq_canon (x y amp xo yo sx sy th : ℝ) (hsx : sx ≠ 0) :
    D_sx x y amp xo yo sx sy th = dmdsxHand x y amp xo yo sx sy th := by
  simp only [dmdsxHand, r_add, r_sub, r_mul, r_div, r_neg, r_radians, R.real_sin, R.real_cos, R.real_npow]
  rw [gaussHand_eq]; unfold D_sx U rad; field_simp

theorem dmdsyHand_eq_canon (x y amp xo yo sx sy th : ℝ) (hsy : sy ≠ 0) :
    D_sy x y amp xo yo sx sy th = dmdsyHand x y amp xo yo sx sy th := by
  simp only [dmdsyHand, r_add, r_sub, r_mul, r_div, r_neg, r_radians, R.real_sin, R.real_cos, R.real_npow]
  rw [gaussHand_eq]; unfold D_sy W rad; field_simp

theorem dmdthetaHand_eq_canon (x y amp xo yo sx sy th : ℝ) (hsx : sx ≠ 0) (hsy : sy ≠ 0) :
    D_theta x y amp xo yo sx sy th = dmdthetaHand x y amp xo yo sx sy th := by
  simp only [dmdthetaHand, r_add, r_sub, r_mul, r_div, r_neg, r_radians, R.real_sin, R.real_cos, R.real_npow,
    R.real_pi, R.real_ofNat, Nat.cast_ofNat]
  rw [gaussHand_eq]; unfold D_theta U W rad; field_simp

end Aegean.C04Hand
