/-
  C04 — the calculus, on a hand-written canonical elliptical Gaussian over ℝ.

  This file is pure Mathlib (it does NOT import `Aegean.Proofs.Real`, so `+ - * /` on ℝ are
  Mathlib's own instances here).  `G` is the textbook model

      G(x, y; amp, xo, yo, sx, sy, θ) = amp · exp( −( u²/sx² + w²/sy² ) / 2 )
      u = (x−xo)·cos(θ·π/180) + (y−yo)·sin(θ·π/180),   w = (x−xo)·sin(θ·π/180) − (y−yo)·cos(θ·π/180)

  with θ in DEGREES.  For each of the six parameters the partial derivative is established with
  Mathlib's `HasDerivAt` calculus and closed by `ring`/`field_simp`; the value of each derivative
  is given by the canonical closed forms `D_amp … D_theta`.  `Aegean/Properties/C04.lean` then
  shows that the definitions regenerated from `fitting.py` are equal to these (algebra only).
-/
import Mathlib.Analysis.SpecialFunctions.Trigonometric.Basic
import Mathlib.Analysis.SpecialFunctions.Trigonometric.Deriv
import Mathlib.Analysis.SpecialFunctions.ExpDeriv
import Mathlib.Tactic.FieldSimp
import Mathlib.Tactic.Ring

set_option linter.unusedVariables false

namespace Aegean.C04Canon

/-- degrees → radians -/
noncomputable def rad (th : ℝ) : ℝ := th * (Real.pi / 180)

/-- rotated offset along the major axis -/
noncomputable def U (x y xo yo th : ℝ) : ℝ := (x - xo) * Real.cos (rad th) + (y - yo) * Real.sin (rad th)
/-- rotated offset along the minor axis -/
noncomputable def W (x y xo yo th : ℝ) : ℝ := (x - xo) * Real.sin (rad th) - (y - yo) * Real.cos (rad th)

/-- the exponent -/
noncomputable def E (x y xo yo sx sy th : ℝ) : ℝ :=
  -((U x y xo yo th) ^ 2 / sx ^ 2 + (W x y xo yo th) ^ 2 / sy ^ 2) / 2

/-- the canonical elliptical Gaussian, θ in degrees -/
noncomputable def G (x y amp xo yo sx sy th : ℝ) : ℝ := amp * Real.exp (E x y xo yo sx sy th)

/-! ### canonical closed forms of the six partial derivatives -/

noncomputable def D_amp (x y amp xo yo sx sy th : ℝ) : ℝ := Real.exp (E x y xo yo sx sy th)
noncomputable def D_xo (x y amp xo yo sx sy th : ℝ) : ℝ :=
  G x y amp xo yo sx sy th * (U x y xo yo th * Real.cos (rad th) / sx ^ 2 + W x y xo yo th * Real.sin (rad th) / sy ^ 2)
noncomputable def D_yo (x y amp xo yo sx sy th : ℝ) : ℝ :=
  G x y amp xo yo sx sy th * (U x y xo yo th * Real.sin (rad th) / sx ^ 2 - W x y xo yo th * Real.cos (rad th) / sy ^ 2)
noncomputable def D_sx (x y amp xo yo sx sy th : ℝ) : ℝ :=
  G x y amp xo yo sx sy th * (U x y xo yo th) ^ 2 / sx ^ 3
noncomputable def D_sy (x y amp xo yo sx sy th : ℝ) : ℝ :=
  G x y amp xo yo sx sy th * (W x y xo yo th) ^ 2 / sy ^ 3
/-- per DEGREE: carries the chain-rule factor π/180 -/
noncomputable def D_theta (x y amp xo yo sx sy th : ℝ) : ℝ :=
  G x y amp xo yo sx sy th * (Real.pi / 180) * (U x y xo yo th) * (W x y xo yo th) * (1 / sx ^ 2 - 1 / sy ^ 2)

/-! ### building blocks -/

theorem hasDerivAt_rad (th : ℝ) : HasDerivAt rad (Real.pi / 180) th := by
  unfold rad
  simpa using (hasDerivAt_id th).mul_const (Real.pi / 180)

theorem hasDerivAt_U_theta (x y xo yo th : ℝ) :
    HasDerivAt (fun v => U x y xo yo v) (-(Real.pi / 180) * W x y xo yo th) th := by
  have hc := (hasDerivAt_rad th).cos
  have hs := (hasDerivAt_rad th).sin
  have h := (hc.const_mul (x - xo)).fun_add (hs.const_mul (y - yo))
  unfold U W
  exact h.congr_deriv (by ring)

theorem hasDerivAt_W_theta (x y xo yo th : ℝ) :
    HasDerivAt (fun v => W x y xo yo v) ((Real.pi / 180) * U x y xo yo th) th := by
  have hc := (hasDerivAt_rad th).cos
  have hs := (hasDerivAt_rad th).sin
  have h := (hs.const_mul (x - xo)).fun_sub (hc.const_mul (y - yo))
  unfold U W
  exact h.congr_deriv (by ring)

theorem hasDerivAt_U_xo (x y xo yo th : ℝ) :
    HasDerivAt (fun v => U x y v yo th) (-Real.cos (rad th)) xo := by
  have h := (((hasDerivAt_id xo).const_sub x).mul_const (Real.cos (rad th))).add_const ((y - yo) * Real.sin (rad th))
  unfold U
  exact h.congr_deriv (by simp)

theorem hasDerivAt_W_xo (x y xo yo th : ℝ) :
    HasDerivAt (fun v => W x y v yo th) (-Real.sin (rad th)) xo := by
  have h := (((hasDerivAt_id xo).const_sub x).mul_const (Real.sin (rad th))).sub_const ((y - yo) * Real.cos (rad th))
  unfold W
  exact h.congr_deriv (by simp)

theorem hasDerivAt_U_yo (x y xo yo th : ℝ) :
    HasDerivAt (fun v => U x y xo v th) (-Real.sin (rad th)) yo := by
  have h := (((hasDerivAt_id yo).const_sub y).mul_const (Real.sin (rad th))).const_add ((x - xo) * Real.cos (rad th))
  unfold U
  exact h.congr_deriv (by simp)

theorem hasDerivAt_W_yo (x y xo yo th : ℝ) :
    HasDerivAt (fun v => W x y xo v th) (Real.cos (rad th)) yo := by
  have h := (((hasDerivAt_id yo).const_sub y).mul_const (Real.cos (rad th))).const_sub ((x - xo) * Real.sin (rad th))
  unfold W
  exact h.congr_deriv (by simp)

/-- exponent as a function of (u, w): the chain rule for any differentiable u(v), w(v) -/
theorem hasDerivAt_E_of {u w : ℝ → ℝ} {u' w' v₀ : ℝ} (sx sy : ℝ)
    (hu : HasDerivAt u u' v₀) (hw : HasDerivAt w w' v₀) :
    HasDerivAt (fun v => -((u v) ^ 2 / sx ^ 2 + (w v) ^ 2 / sy ^ 2) / 2)
      (-(u v₀ * u' / sx ^ 2 + w v₀ * w' / sy ^ 2)) v₀ := by
  have h := ((((hu.fun_pow 2).div_const (sx ^ 2)).fun_add ((hw.fun_pow 2).div_const (sy ^ 2))).fun_neg).div_const 2
  refine h.congr_deriv ?_
  simp only [Nat.cast_ofNat, Nat.add_one_sub_one, pow_one]
  ring

/-! ### the six partial derivatives of the canonical Gaussian -/

theorem hasDerivAt_G_amp (x y amp xo yo sx sy th : ℝ) :
    HasDerivAt (fun v => G x y v xo yo sx sy th) (D_amp x y amp xo yo sx sy th) amp := by
  unfold G D_amp
  simpa using (hasDerivAt_id amp).mul_const (Real.exp (E x y xo yo sx sy th))

theorem hasDerivAt_G_xo (x y amp xo yo sx sy th : ℝ) :
    HasDerivAt (fun v => G x y amp v yo sx sy th) (D_xo x y amp xo yo sx sy th) xo := by
  have hE := hasDerivAt_E_of sx sy (hasDerivAt_U_xo x y xo yo th) (hasDerivAt_W_xo x y xo yo th)
  have hG := hE.exp.const_mul amp
  unfold G D_xo E G E
  exact hG.congr_deriv (by ring)

theorem hasDerivAt_G_yo (x y amp xo yo sx sy th : ℝ) :
    HasDerivAt (fun v => G x y amp xo v sx sy th) (D_yo x y amp xo yo sx sy th) yo := by
  have hE := hasDerivAt_E_of sx sy (hasDerivAt_U_yo x y xo yo th) (hasDerivAt_W_yo x y xo yo th)
  have hG := hE.exp.const_mul amp
  unfold G D_yo E G E
  exact hG.congr_deriv (by ring)

theorem hasDerivAt_G_theta (x y amp xo yo sx sy th : ℝ) :
    HasDerivAt (fun v => G x y amp xo yo sx sy v) (D_theta x y amp xo yo sx sy th) th := by
  have hE := hasDerivAt_E_of sx sy (hasDerivAt_U_theta x y xo yo th) (hasDerivAt_W_theta x y xo yo th)
  have hG := hE.exp.const_mul amp
  unfold G D_theta E G E
  exact hG.congr_deriv (by ring)

theorem hasDerivAt_G_sx (x y amp xo yo sx sy th : ℝ) (hsx : sx ≠ 0) :
    HasDerivAt (fun v => G x y amp xo yo v sy th) (D_sx x y amp xo yo sx sy th) sx := by
  have hp : HasDerivAt (fun v : ℝ => v ^ 2) (2 * sx) sx := by
    simpa using (hasDerivAt_id sx).fun_pow 2
  have hq := (hasDerivAt_const sx ((U x y xo yo th) ^ 2)).fun_div hp (pow_ne_zero 2 hsx)
  have hE := (((hq.add_const ((W x y xo yo th) ^ 2 / sy ^ 2))).fun_neg).div_const 2
  have hG := hE.exp.const_mul amp
  unfold G D_sx E G E
  refine hG.congr_deriv ?_
  field_simp
  ring

theorem hasDerivAt_G_sy (x y amp xo yo sx sy th : ℝ) (hsy : sy ≠ 0) :
    HasDerivAt (fun v => G x y amp xo yo sx v th) (D_sy x y amp xo yo sx sy th) sy := by
  have hp : HasDerivAt (fun v : ℝ => v ^ 2) (2 * sy) sy := by
    simpa using (hasDerivAt_id sy).fun_pow 2
  have hq := (hasDerivAt_const sy ((W x y xo yo th) ^ 2)).fun_div hp (pow_ne_zero 2 hsy)
  have hE := (((hq.const_add ((U x y xo yo th) ^ 2 / sx ^ 2))).fun_neg).div_const 2
  have hG := hE.exp.const_mul amp
  unfold G D_sy E G E
  refine hG.congr_deriv ?_
  field_simp
  ring

end Aegean.C04Canon
