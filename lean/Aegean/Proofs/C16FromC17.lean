/-
  C16 — `SphereLaws` discharged.  The two geometric fields come from C17's lemmas about the sphere
  (Aegean/Proofs/C17Sphere.lean, C17Translate.lean: `sphDist_translate`, `bearHand_translate`), the
  other three are proved in Aegean/Proofs/C16Sphere.lean.  Also the two "meaning" corollaries: the
  length returned by pix2sky_vec / pix2sky_ellipse is the great-circle distance (`sphDist`,
  = (180/π)·angle between the unit vectors) and the angle is the East-of-North position angle
  (`paVec` = atan2 (v₂·East₁, v₂·North₁)).
-/
import Aegean.Proofs.C16Sphere
import Aegean.Proofs.C17Sphere
import Aegean.Proofs.C17Translate

namespace Aegean.C16
open Aegean.Model

theorem hand_gcd_eq_c17 (ra1 dec1 ra2 dec2 : ℝ) :
    C16Hand.gcdSep ra1 dec1 ra2 dec2 = C17.gcdNearHand ra1 dec1 ra2 dec2 := rfl
theorem hand_bear_eq_c17 (ra1 dec1 ra2 dec2 : ℝ) :
    C16Hand.bear ra1 dec1 ra2 dec2 = C17.bearHand ra1 dec1 ra2 dec2 := rfl
theorem hand_translateDec_eq_c17 (ra dec r t : ℝ) :
    C16Hand.translateDec ra dec r t = C17.translateDecHand ra dec r t := by
  simp only [C16Hand.translateDec, C17.translateDecHand, R.real_asin, R.real_min, R.real_max, R.real_ofNat,
    Nat.cast_one, arcsin_clamp]
theorem hand_translateRa_eq_c17 (ra dec r t : ℝ) :
    C16Hand.translateRa ra dec r t = C17.translateRaHand ra dec r t := by
  simp only [C16Hand.translateRa, C17.translateRaHand, hand_translateDec_eq_c17]

/-- the regenerated `gcd` (haversine branch) is the great-circle distance between the two points -/
theorem gcdSep_eq_sphDist (ra1 dec1 ra2 dec2 : ℝ) :
    Gen.C16.gcdSep ra1 dec1 ra2 dec2 = Aegean.C17.sphDist ra1 dec1 ra2 dec2 := by
  rw [gcdSep_eq_hand, hand_gcd_eq_c17, Aegean.C17.gcdNearHand_eq_sphDist]

/-- the regenerated `bear` is the East-of-North position angle in the tangent plane at point 1 -/
theorem bear_eq_paVec (ra1 dec1 ra2 dec2 : ℝ) :
    Gen.C16.bear ra1 dec1 ra2 dec2 = C17.paVec ra1 dec1 ra2 dec2 := by
  rw [bear_eq_hand, hand_bear_eq_c17, Aegean.C17.bearHand_eq_paVec]

theorem sphereLaws : SphereLaws where
  gcd_translate ra dec r t hd0 hd1 h0 h1 := by
    rw [gcdSep_eq_sphDist, translateRa_eq_hand, translateDec_eq_hand, hand_translateRa_eq_c17,
      hand_translateDec_eq_c17]
    exact Aegean.C17.sphDist_translate ra dec r t hd0 hd1 h0 h1
  bear_translate ra dec r t h0 h1 hd := by
    rw [bear_eq_hand, translateRa_eq_hand, translateDec_eq_hand, hand_bear_eq_c17, hand_translateRa_eq_c17,
      hand_translateDec_eq_c17]
    exact Aegean.C17.bearHand_translate ra dec r t h0 h1 hd
  gcd_periodic := gcd_periodic
  bear_periodic := bear_periodic
  bear_range := bear_range

end Aegean.C16
