/-
  C03 — the re-assembled regenerated range helpers coincide with the hand models (at ℝ), and the
  value of `pa_limit` does not depend on the fuel.
-/
import Aegean.Proofs.C03Real
import Aegean.Model.C03Gen

namespace Aegean.Proofs.C03
open Aegean.Model.C03

theorem ite_decide_congr {β : Type} (p q : Prop) [Decidable p] [Decidable q] (x x' y : β) (h : p ↔ q)
    (hx : x = x') : (if decide p = true then x else y) = if q then x' else y := by
  subst hx
  by_cases hq : q
  · rw [if_pos hq, if_pos (decide_eq_true (h.2 hq))]
  · rw [if_neg hq, if_neg (fun hd => hq (h.1 (of_decide_eq_true hd)))]

theorem upLoopG_eq (n : Nat) (pa : ℝ) : upLoopG n pa = upLoop n pa := by
  induction n generalizing pa with
  | zero => rfl
  | succ n ih =>
    simp only [upLoopG, upLoop, cmpLe, Gen.C03.paUpClosed, Gen.C03.paUpBound, Gen.C03.paUpNext,
      paUpClosedHand, paUpBoundHand, paUpNextHand, ih]
    try simp only [if_true]
    refine ite_decide_congr _ _ _ _ _ Iff.rfl ?_
    first | rfl | (congr 1; simp only [R.real_ofNat]; push_cast; ring)

theorem downLoopG_eq (n : Nat) (pa : ℝ) : downLoopG n pa = downLoop n pa := by
  induction n generalizing pa with
  | zero => rfl
  | succ n ih =>
    simp only [downLoopG, downLoop, cmpGe, Gen.C03.paDownClosed, Gen.C03.paDownBound, Gen.C03.paDownNext,
      paDownClosedHand, paDownBoundHand, paDownNextHand, ih]
    try simp only [Nat.zero_ne_one, if_false]
    refine ite_decide_congr _ _ _ _ _ Iff.rfl ?_
    first | rfl | (congr 1; simp only [R.real_ofNat]; push_cast; ring)

/-- two numbers in (−90, 90] that differ from `pa` by whole half-turns are equal -/
theorem range_unique (x y pa : ℝ) (k j : ℤ) (hx1 : -90 < x) (hx2 : x ≤ 90) (hy1 : -90 < y) (hy2 : y ≤ 90)
    (ex : x = pa + 180 * (k : ℝ)) (ey : y = pa + 180 * (j : ℝ)) : x = y := by
  have h : ((k : ℝ) - (j : ℝ)) * 180 = x - y := by rw [ex, ey]; ring
  have a1 : (((k - j : ℤ)) : ℝ) < 1 := by push_cast; linarith
  have a2 : (-1 : ℝ) < (((k - j : ℤ)) : ℝ) := by push_cast; linarith
  have b1 : (k - j : ℤ) < 1 := by exact_mod_cast a1
  have b2 : (-1 : ℤ) < k - j := by exact_mod_cast a2
  have hk : k = j := by omega
  rw [ex, ey, hk]

end Aegean.Proofs.C03
