/-
  C19 — the chord / angle conversion used by `cluster.regroup_dbscan`.

  DBSCAN runs on the unit-vector embedding and compares the Euclidean (chord) distance with
  `eps`.  A pair at great-circle separation `θ` has chord `2 sin(θ/2)`, so the linking length
  `ε` (an angle) has to be converted with `ε ↦ 2 sin(ε/2)`; then `chord ≤ eps ↔ θ ≤ ε`.
  The pinned conversion `sin ε` is strictly smaller for `0 < ε < π`, so it drops pairs whose
  separation is below the linking length.

  All statements are at `α := ℝ`.
-/
import Aegean.Proofs.Real
import Aegean.Model.C19
import Mathlib.Analysis.SpecialFunctions.Trigonometric.Inverse
import Mathlib.Analysis.SpecialFunctions.Sqrt
import Mathlib.Analysis.InnerProductSpace.Basic
import Mathlib.Geometry.Euclidean.Angle.Unoriented.Basic
import Mathlib.Tactic.Ring
import Mathlib.Tactic.Linarith
import Mathlib.Tactic.LinearCombination
import Mathlib.Tactic.Positivity
import Mathlib.Tactic.NormNum

namespace Aegean.C19
open Aegean.Model.C19

/-! ### 1. The scalar statement -/

/-- half-angle identity: `2 − 2 cos θ = (2 sin(θ/2))²` -/
theorem two_sub_two_cos (θ : ℝ) : 2 - 2 * Real.cos θ = (2 * Real.sin (θ / 2)) ^ 2 := by
  have h := Real.cos_two_mul_eq_one_sub (θ / 2)
  have e : 2 * (θ / 2) = θ := by ring
  rw [e] at h
  rw [h]; ring

theorem sin_half_nonneg (θ : ℝ) (h0 : 0 ≤ θ) (hπ : θ ≤ Real.pi) : 0 ≤ Real.sin (θ / 2) :=
  Real.sin_nonneg_of_nonneg_of_le_pi (by linarith) (by linarith [Real.pi_pos])

theorem sqrt_two_sub_two_cos (θ : ℝ) (h0 : 0 ≤ θ) (hπ : θ ≤ Real.pi) :
    Real.sqrt (2 - 2 * Real.cos θ) = 2 * Real.sin (θ / 2) := by
  rw [two_sub_two_cos]
  apply Real.sqrt_sq
  have := sin_half_nonneg θ h0 hπ
  linarith

theorem half_mem_Icc (θ : ℝ) (h0 : 0 ≤ θ) (hπ : θ ≤ Real.pi) :
    θ / 2 ∈ Set.Icc (-(Real.pi / 2)) (Real.pi / 2) := by
  constructor <;> linarith [Real.pi_pos]

/-- on `[0, π]`, `θ ↦ 2 sin(θ/2)` is an order embedding -/
theorem two_sin_half_le_iff (θ ε : ℝ) (hθ0 : 0 ≤ θ) (hθπ : θ ≤ Real.pi)
    (h0 : 0 ≤ ε) (hπ : ε ≤ Real.pi) :
    2 * Real.sin (θ / 2) ≤ 2 * Real.sin (ε / 2) ↔ θ ≤ ε := by
  have key := Real.strictMonoOn_sin.le_iff_le (half_mem_Icc θ hθ0 hθπ) (half_mem_Icc ε h0 hπ)
  constructor
  · intro h
    have h' : Real.sin (θ / 2) ≤ Real.sin (ε / 2) := by linarith
    have := key.1 h'
    linarith
  · intro h
    have := key.2 (by linarith)
    linarith

/-- on `[0, π]`, `θ ↦ 2 sin(θ/2)` is strictly monotone -/
theorem two_sin_half_lt_iff (θ ε : ℝ) (hθ0 : 0 ≤ θ) (hθπ : θ ≤ Real.pi)
    (h0 : 0 ≤ ε) (hπ : ε ≤ Real.pi) :
    2 * Real.sin (θ / 2) < 2 * Real.sin (ε / 2) ↔ θ < ε := by
  have key := Real.strictMonoOn_sin.lt_iff_lt (half_mem_Icc θ hθ0 hθπ) (half_mem_Icc ε h0 hπ)
  constructor
  · intro h
    have h' : Real.sin (θ / 2) < Real.sin (ε / 2) := by linarith
    have := key.1 h'
    linarith
  · intro h
    have := key.2 (by linarith)
    linarith

theorem sqrt_two_sub_two_mul (c : ℝ) (hc1 : -1 ≤ c) (hc2 : c ≤ 1) :
    Real.sqrt (2 - 2 * c) = 2 * Real.sin (Real.arccos c / 2) := by
  have h := sqrt_two_sub_two_cos (Real.arccos c) (Real.arccos_nonneg c) (Real.arccos_le_pi c)
  rwa [Real.cos_arccos hc1 hc2] at h

theorem chord_scalar (c ε : ℝ) (hc1 : -1 ≤ c) (hc2 : c ≤ 1) (h0 : 0 ≤ ε) (hπ : ε ≤ Real.pi) :
    Real.sqrt (2 - 2 * c) ≤ 2 * Real.sin (ε / 2) ↔ Real.arccos c ≤ ε := by
  rw [sqrt_two_sub_two_mul c hc1 hc2]
  exact two_sin_half_le_iff _ _ (Real.arccos_nonneg c) (Real.arccos_le_pi c) h0 hπ

/-! ### 3. Coordinate versions for the model's definitions -/

theorem unitVec_unit (ra dec : ℝ) : dot (unitVec ra dec) (unitVec ra dec) = 1 := by
  simp only [dot, unitVec, R.real_sin, R.real_cos]
  have h1 := Real.sin_sq_add_cos_sq ra
  have h2 := Real.sin_sq_add_cos_sq dec
  linear_combination (Real.cos dec) ^ 2 * h1 + h2

/-- spherical law of cosines: `arccos` of this is the great-circle separation -/
theorem dot_unitVec (r1 d1 r2 d2 : ℝ) :
    dot (unitVec r1 d1) (unitVec r2 d2)
      = Real.sin d1 * Real.sin d2 + Real.cos d1 * Real.cos d2 * Real.cos (r1 - r2) := by
  simp only [dot, unitVec, R.real_sin, R.real_cos]
  rw [Real.cos_sub]
  ring

theorem unitVecDeg_unit (ra dec : ℝ) : dot (unitVecDeg ra dec) (unitVecDeg ra dec) = 1 :=
  unitVec_unit _ _

theorem chordSq_unit (u v : V3 ℝ) (hu : dot u u = 1) (hv : dot v v = 1) :
    chordSq u v = 2 - 2 * dot u v := by
  simp only [dot, chordSq] at *
  linear_combination hu + hv

theorem chordSq_nonneg (u v : V3 ℝ) : 0 ≤ chordSq u v := by
  simp only [chordSq]
  nlinarith [mul_self_nonneg (u.x - v.x), mul_self_nonneg (u.y - v.y),
    mul_self_nonneg (u.z - v.z)]

theorem dot_le_one (u v : V3 ℝ) (hu : dot u u = 1) (hv : dot v v = 1) : dot u v ≤ 1 := by
  have h := chordSq_nonneg u v
  rw [chordSq_unit u v hu hv] at h
  linarith

theorem neg_one_le_dot (u v : V3 ℝ) (hu : dot u u = 1) (hv : dot v v = 1) : -1 ≤ dot u v := by
  simp only [dot] at *
  nlinarith [mul_self_nonneg (u.x + v.x), mul_self_nonneg (u.y + v.y),
    mul_self_nonneg (u.z + v.z)]

theorem dot_mem (u v : V3 ℝ) (hu : dot u u = 1) (hv : dot v v = 1) :
    -1 ≤ dot u v ∧ dot u v ≤ 1 :=
  ⟨neg_one_le_dot u v hu hv, dot_le_one u v hu hv⟩

theorem chordOfAngle_real (ε : ℝ) : chordOfAngle ε = 2 * Real.sin (ε / 2) := by
  simp [chordOfAngle]

theorem epsHand_real (x : ℝ) : epsHand x = 2 * Real.sin (x / 60 * (Real.pi / 180) / 2) := by
  simp [epsHand, chordOfAngle_real, R.real_radians]

theorem chord_real (u v : V3 ℝ) : chord u v = Real.sqrt (chordSq u v) := rfl

theorem chord_unit (u v : V3 ℝ) (hu : dot u u = 1) (hv : dot v v = 1) :
    chord u v = 2 * Real.sin (Real.arccos (dot u v) / 2) := by
  rw [chord_real, chordSq_unit u v hu hv]
  exact sqrt_two_sub_two_mul _ (neg_one_le_dot u v hu hv) (dot_le_one u v hu hv)

theorem chord_le_iff_sep (u v : V3 ℝ) (hu : dot u u = 1) (hv : dot v v = 1) (ε : ℝ)
    (h0 : 0 ≤ ε) (hπ : ε ≤ Real.pi) :
    chord u v ≤ chordOfAngle ε ↔ Real.arccos (dot u v) ≤ ε := by
  rw [chord_real, chordSq_unit u v hu hv, chordOfAngle_real]
  exact chord_scalar _ ε (neg_one_le_dot u v hu hv) (dot_le_one u v hu hv) h0 hπ

theorem chordSq_symm (u v : V3 ℝ) : chordSq u v = chordSq v u := by
  simp only [chordSq]; ring

theorem chord_symm (u v : V3 ℝ) : chord u v = chord v u := by
  rw [chord_real, chord_real, chordSq_symm]

/-! ### 5. resize algebra on the hand formula -/

theorem resizeHand_real (a p r : ℝ) :
    resizeHand a p r = Real.sqrt (a ^ 2 + p ^ 2 * (1 - 1 / r ^ 2)) := by
  simp [resizeHand]

theorem resize_scalar_one (a p : ℝ) (ha : 0 ≤ a) :
    Real.sqrt (a ^ 2 + p ^ 2 * (1 - 1 / (1:ℝ) ^ 2)) = a := by
  have e : a ^ 2 + p ^ 2 * (1 - 1 / (1:ℝ) ^ 2) = a ^ 2 := by norm_num
  rw [e]
  exact Real.sqrt_sq ha

theorem resize_scalar_ge (a p r : ℝ) (ha : 0 ≤ a) (hr : 1 ≤ r) :
    a ≤ Real.sqrt (a ^ 2 + p ^ 2 * (1 - 1 / r ^ 2)) := by
  have hr2 : (1:ℝ) ≤ r ^ 2 := by nlinarith
  have hinv : 1 / r ^ 2 ≤ 1 := by
    rw [div_le_one (by linarith)]
    exact hr2
  have hp : 0 ≤ p ^ 2 * (1 - 1 / r ^ 2) := mul_nonneg (sq_nonneg p) (by linarith)
  calc a = Real.sqrt (a ^ 2) := (Real.sqrt_sq ha).symm
    _ ≤ Real.sqrt (a ^ 2 + p ^ 2 * (1 - 1 / r ^ 2)) := Real.sqrt_le_sqrt (by linarith)

theorem resize_scalar_mono (a p r₁ r₂ : ℝ) (h1 : 0 < r₁) (h12 : r₁ ≤ r₂) :
    Real.sqrt (a ^ 2 + p ^ 2 * (1 - 1 / r₁ ^ 2)) ≤ Real.sqrt (a ^ 2 + p ^ 2 * (1 - 1 / r₂ ^ 2)) := by
  apply Real.sqrt_le_sqrt
  have hsq : r₁ ^ 2 ≤ r₂ ^ 2 := by nlinarith
  have hpos : 0 < r₁ ^ 2 := by positivity
  have hinv : 1 / r₂ ^ 2 ≤ 1 / r₁ ^ 2 := one_div_le_one_div_of_le hpos hsq
  have hp : p ^ 2 * (1 - 1 / r₁ ^ 2) ≤ p ^ 2 * (1 - 1 / r₂ ^ 2) :=
    mul_le_mul_of_nonneg_left (by linarith) (sq_nonneg p)
  linarith

/-! ### 2. The generic statement in a real inner product space -/

section generic
variable {V : Type*} [NormedAddCommGroup V] [InnerProductSpace ℝ V]

theorem chord_eq_two_sin_half_angle (u v : V) (hu : ‖u‖ = 1) (hv : ‖v‖ = 1) :
    ‖u - v‖ = 2 * Real.sin (InnerProductGeometry.angle u v / 2) := by
  have hcos : Real.cos (InnerProductGeometry.angle u v) = inner ℝ u v := by
    rw [InnerProductGeometry.cos_angle, hu, hv]; simp
  have hsq : ‖u - v‖ ^ 2 = 2 - 2 * Real.cos (InnerProductGeometry.angle u v) := by
    rw [norm_sub_sq_real, hu, hv, hcos]; ring
  rw [← Real.sqrt_sq (norm_nonneg (u - v)), hsq]
  exact sqrt_two_sub_two_cos _ (InnerProductGeometry.angle_nonneg u v)
    (InnerProductGeometry.angle_le_pi u v)

theorem chord_iff_angle (u v : V) (hu : ‖u‖ = 1) (hv : ‖v‖ = 1) (ε : ℝ) (h0 : 0 ≤ ε)
    (hπ : ε ≤ Real.pi) :
    ‖u - v‖ ≤ 2 * Real.sin (ε / 2) ↔ InnerProductGeometry.angle u v ≤ ε := by
  rw [chord_eq_two_sin_half_angle u v hu hv]
  exact two_sin_half_le_iff _ _ (InnerProductGeometry.angle_nonneg u v)
    (InnerProductGeometry.angle_le_pi u v) h0 hπ

end generic

/-! ### 4. Why the pinned conversion `sin ε` is wrong -/

theorem sin_lt_chord (ε : ℝ) (h0 : 0 < ε) (hπ : ε < Real.pi) :
    Real.sin ε < 2 * Real.sin (ε / 2) := by
  have e : ε = 2 * (ε / 2) := by ring
  have hsin : Real.sin ε = 2 * Real.sin (ε / 2) * Real.cos (ε / 2) := by
    conv_lhs => rw [e]
    exact Real.sin_two_mul (ε / 2)
  have hs : 0 < Real.sin (ε / 2) :=
    Real.sin_pos_of_pos_of_lt_pi (by linarith) (by linarith)
  have hc : Real.cos (ε / 2) < 1 := by
    have := Real.cos_lt_cos_of_nonneg_of_le_pi_div_two (le_refl 0)
      (by linarith : ε / 2 ≤ Real.pi / 2) (by linarith : (0:ℝ) < ε / 2)
    rwa [Real.cos_zero] at this
  rw [hsin]
  nlinarith

/-- A separation `θ` strictly below the linking length `ε` whose chord exceeds `sin ε`:
    a pair at separation `θ` is not linked when `eps = sin ε` is used. -/
theorem sin_conversion_splits (ε : ℝ) (h0 : 0 < ε) (hπ : ε ≤ Real.pi / 2) :
    ∃ θ : ℝ, 0 < θ ∧ θ < ε ∧ Real.sin ε < 2 * Real.sin (θ / 2) := by
  have hπ' : ε < Real.pi := by linarith [Real.pi_pos]
  have hlt := sin_lt_chord ε h0 hπ'
  have hs : 0 < Real.sin ε := Real.sin_pos_of_pos_of_lt_pi h0 hπ'
  have hle1 : Real.sin (ε / 2) ≤ 1 := Real.sin_le_one _
  -- the midpoint between `sin ε` and `2 sin(ε/2)`, halved
  set m : ℝ := (Real.sin ε + 2 * Real.sin (ε / 2)) / 4 with hm
  have hm0 : 0 < m := by rw [hm]; linarith
  have hmlt : m < Real.sin (ε / 2) := by rw [hm]; linarith
  have hmgt : Real.sin ε < 2 * m := by rw [hm]; linarith
  have hmem : m ∈ Set.Icc (-1 : ℝ) 1 := ⟨by linarith, by linarith⟩
  refine ⟨2 * Real.arcsin m, ?_, ?_, ?_⟩
  · have := Real.arcsin_pos.2 hm0
    linarith
  · have := (Real.arcsin_lt_iff_lt_sin hmem
      (half_mem_Icc ε h0.le hπ'.le)).2 hmlt
    linarith
  · have e : 2 * Real.arcsin m / 2 = Real.arcsin m := by ring
    rw [e, Real.sin_arcsin' hmem]
    exact hmgt

theorem sin_conversion_splits_weak (ε : ℝ) (h0 : 0 < ε) (hπ : ε ≤ Real.pi / 2) :
    ∃ θ : ℝ, 0 ≤ θ ∧ θ ≤ ε ∧ Real.sin ε < 2 * Real.sin (θ / 2) :=
  ⟨ε, h0.le, le_refl ε, sin_lt_chord ε h0 (by linarith [Real.pi_pos])⟩

end Aegean.C19
