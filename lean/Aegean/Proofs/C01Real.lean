/-
  C01 — bridge between the `R ℝ` interpretation of the model / regenerated leaves and plain
  Mathlib real arithmetic, and the helper lemmas behind the property theorems:
  lists (mask, residual, sum of squares), the `pa_limit` loops, trigonometric shifts.

  `Aegean.Proofs.Real` makes `R.toAdd … R.toNeg` instances on ℝ; they are definitionally
  Mathlib's but not syntactically, which blinds `ring`/`field_simp`.  Here those projections are
  switched off and the `r_*` lemmas (all `rfl`) rewrite a term into ordinary Mathlib syntax.
-/
import Mathlib.Analysis.SpecialFunctions.Trigonometric.Basic
import Mathlib.Analysis.SpecialFunctions.Log.Basic
import Mathlib.Analysis.SpecialFunctions.Sqrt
import Mathlib.Algebra.Order.Archimedean.Basic
import Mathlib.Tactic.Ring
import Mathlib.Tactic.FieldSimp
import Mathlib.Tactic.Linarith
import Mathlib.Tactic.Positivity
import Aegean.Proofs.Real
import Aegean.Model.C01

set_option linter.unusedVariables false
set_option linter.unusedSimpArgs false

attribute [-instance] R.toAdd R.toSub R.toMul R.toDiv R.toNeg

namespace Aegean.C01Real
open Aegean.Model.C01

theorem r_add (a b : ℝ) : @HAdd.hAdd ℝ ℝ ℝ (@instHAdd ℝ (@R.toAdd ℝ instRReal)) a b = a + b := rfl
theorem r_sub (a b : ℝ) : @HSub.hSub ℝ ℝ ℝ (@instHSub ℝ (@R.toSub ℝ instRReal)) a b = a - b := rfl
theorem r_mul (a b : ℝ) : @HMul.hMul ℝ ℝ ℝ (@instHMul ℝ (@R.toMul ℝ instRReal)) a b = a * b := rfl
theorem r_div (a b : ℝ) : @HDiv.hDiv ℝ ℝ ℝ (@instHDiv ℝ (@R.toDiv ℝ instRReal)) a b = a / b := rfl
theorem r_neg (a : ℝ) : @Neg.neg ℝ (@R.toNeg ℝ instRReal) a = -a := rfl
theorem r_radians (x : ℝ) : R.radians x = x * (Real.pi / 180) := by
  simp only [R.radians, r_mul, r_div, R.real_pi, R.real_ofNat, Nat.cast_ofNat]

/-- rewrite every `R ℝ` operation into Mathlib syntax -/
macro "rsimp" : tactic =>
  `(tactic| simp only [r_add, r_sub, r_mul, r_div, r_neg, r_radians, R.real_sin, R.real_cos, R.real_exp,
      R.real_sqrt, R.real_npow, R.real_ofNat, R.real_ofSci, R.real_pi, R.real_min, R.real_max, R.real_abs, Nat.cast_ofNat, Nat.cast_one, Nat.cast_zero])
macro "rsimp" "at" h:ident : tactic =>
  `(tactic| simp only [r_add, r_sub, r_mul, r_div, r_neg, r_radians, R.real_sin, R.real_cos, R.real_exp,
      R.real_sqrt, R.real_npow, R.real_ofNat, R.real_ofSci, R.real_pi, R.real_min, R.real_max, R.real_abs, Nat.cast_ofNat, Nat.cast_one, Nat.cast_zero] at $h:ident)

/-- normal form for a constant written `sqrt(8 x)` instead of `2 sqrt(2 x)` -/
theorem sqrt_eight_mul (x : ℝ) : Real.sqrt (8 * x) = 2 * Real.sqrt (2 * x) := by
  have h : (8 : ℝ) * x = 2 ^ 2 * (2 * x) := by ring
  rw [h, Real.sqrt_mul (by norm_num), Real.sqrt_sq (by norm_num)]

/-- `−min(x, −a) = max(−x, a)`: the faint amplitude limit written with a sign factor (`0.95 · sign · min(oc·rms, |amp|)`,
    sign = −1) is the one written with `max` -/
theorem neg_min_neg (x a : ℝ) : -(min x (-a)) = max (-x) a := by
  rw [← max_neg_neg, neg_neg]

/-! ### the pixelisation loss of a sampled elliptical Gaussian -/

/-- the quadratic form of an ellipse with both sigmas ≥ m, at an offset of at most half a pixel in x and in y,
    is at most (1/2)/m² — whatever the orientation (c² + s² = 1) -/
theorem quad_form_le (dx dy c s sx sy m : ℝ) (hcs : c ^ 2 + s ^ 2 = 1) (hm : 0 < m) (hsx : m ≤ sx) (hsy : m ≤ sy)
    (hdx : |dx| ≤ 1 / 2) (hdy : |dy| ≤ 1 / 2) :
    0 ≤ (dx * c + dy * s) ^ 2 / sx ^ 2 + (dx * s - dy * c) ^ 2 / sy ^ 2 ∧
    (dx * c + dy * s) ^ 2 / sx ^ 2 + (dx * s - dy * c) ^ 2 / sy ^ 2 ≤ 1 / 2 / m ^ 2 := by
  have hsx0 : 0 < sx := lt_of_lt_of_le hm hsx
  have hsy0 : 0 < sy := lt_of_lt_of_le hm hsy
  have hm2 : 0 < m ^ 2 := by positivity
  have h1 : m ^ 2 ≤ sx ^ 2 := by nlinarith
  have h2 : m ^ 2 ≤ sy ^ 2 := by nlinarith
  have hu : (dx * c + dy * s) ^ 2 / sx ^ 2 ≤ (dx * c + dy * s) ^ 2 / m ^ 2 :=
    div_le_div_of_nonneg_left (sq_nonneg _) hm2 h1
  have hw : (dx * s - dy * c) ^ 2 / sy ^ 2 ≤ (dx * s - dy * c) ^ 2 / m ^ 2 :=
    div_le_div_of_nonneg_left (sq_nonneg _) hm2 h2
  have hsum : (dx * c + dy * s) ^ 2 + (dx * s - dy * c) ^ 2 = (dx ^ 2 + dy ^ 2) * (c ^ 2 + s ^ 2) := by ring
  have hdx2 : dx ^ 2 ≤ 1 / 4 := by
    have := abs_le.mp hdx; nlinarith [this.1, this.2]
  have hdy2 : dy ^ 2 ≤ 1 / 4 := by
    have := abs_le.mp hdy; nlinarith [this.1, this.2]
  refine ⟨by positivity, ?_⟩
  calc (dx * c + dy * s) ^ 2 / sx ^ 2 + (dx * s - dy * c) ^ 2 / sy ^ 2
      ≤ (dx * c + dy * s) ^ 2 / m ^ 2 + (dx * s - dy * c) ^ 2 / m ^ 2 := add_le_add hu hw
    _ = (dx ^ 2 + dy ^ 2) / m ^ 2 := by rw [← add_div, hsum, hcs, mul_one]
    _ ≤ 1 / 2 / m ^ 2 := by
        apply div_le_div_of_nonneg_right _ (le_of_lt hm2)
        linarith

/-! ### the mask of a rendered image -/

theorem rowIdx_render (f : Nat → ℝ) (keep : Nat → Bool) (i : Nat) : ∀ (n j0 : Nat),
    rowIdx i j0 ((List.range' j0 n).map (fun j => if keep j then some (f j) else none))
      = ((List.range' j0 n).filter keep).map (fun j => (i, j, f j)) := by
  intro n
  induction n with
  | zero => intro j0; simp [rowIdx]
  | succ n ih =>
    intro j0
    rw [List.range'_succ, List.map_cons]
    by_cases h : keep j0
    · simp only [h, if_true, rowIdx, List.filter_cons_of_pos, List.map_cons, ih (j0 + 1)]
    · have hf : keep j0 = false := by simpa using h
      simp only [hf, rowIdx, ih (j0 + 1)]
      rw [List.filter_cons_of_neg (by simp [hf])]
      simp [rowIdx, ih (j0 + 1)]

theorem maskFrom_render (f : Nat → Nat → ℝ) (keep : Nat → Nat → Bool) (cols : Nat) : ∀ (n i0 : Nat),
    maskFrom i0 ((List.range' i0 n).map (fun i => (List.range cols).map (fun j =>
        if keep i j then some (f i j) else none)))
      = (List.range' i0 n).flatMap (fun i => ((List.range cols).filter (keep i)).map (fun j => (i, j, f i j))) := by
  intro n
  induction n with
  | zero => intro i0; simp [maskFrom]
  | succ n ih =>
    intro i0
    rw [List.range'_succ, List.map_cons, maskFrom, ih (i0 + 1), List.flatMap_cons]
    congr 1
    have := rowIdx_render (f i0) (keep i0) i0 cols 0
    rw [← List.range_eq_range'] at this
    exact this

/-! ### zero vectors -/

theorem dot_zero_left : ∀ (d c : List ℝ), (∀ r ∈ d, r = 0) → dot d c = 0 := by
  intro d
  induction d with
  | nil => intro c _; cases c <;> simp [dot]
  | cons a as ih =>
    intro c h
    cases c with
    | nil => simp [dot]
    | cons b bs =>
      have ha : a = 0 := h a (by simp)
      have hr := ih bs (fun r hr => h r (by simp [hr]))
      simp only [dot, r_add, r_mul, ha, hr]
      ring

theorem sumSq_nonneg : ∀ (r : List ℝ), 0 ≤ sumSq r := by
  intro r
  induction r with
  | nil => simp [sumSq]
  | cons a as ih =>
    simp only [sumSq, r_add, r_mul]
    nlinarith [mul_self_nonneg a]

theorem sumSq_eq_zero_iff : ∀ (r : List ℝ), sumSq r = 0 ↔ ∀ x ∈ r, x = 0 := by
  intro r
  induction r with
  | nil => simp [sumSq]
  | cons a as ih =>
    simp only [sumSq, r_add, r_mul, List.mem_cons, forall_eq_or_imp]
    constructor
    · intro h
      have h1 := mul_self_nonneg a
      have h2 := sumSq_nonneg as
      have ha : a * a = 0 := by linarith
      have hs : sumSq as = 0 := by linarith
      exact ⟨mul_self_eq_zero.mp ha, ih.mp hs⟩
    · rintro ⟨ha, hs⟩
      rw [ha, ih.mpr hs]; ring

/-! ### the `pa_limit` loops over ℝ -/

theorem paUp_zero (pa : ℝ) : paUp 0 pa = pa := rfl
theorem paUp_succ (n : Nat) (pa : ℝ) :
    paUp (n + 1) pa = if pa ≤ -90 then paUp n (pa + 180) else pa := by
  simp only [paUp]; rsimp
theorem paDown_zero (pa : ℝ) : paDown 0 pa = pa := rfl
theorem paDown_succ (n : Nat) (pa : ℝ) :
    paDown (n + 1) pa = if 90 < pa then paDown n (pa - 180) else pa := by
  simp only [paDown]; rsimp

/-- with enough fuel the first loop ends above −90, never overshoots 90 unless it started there,
    and only ever adds multiples of 180 -/
theorem paUp_spec : ∀ (n : Nat) (pa : ℝ), -90 - 180 * n < pa →
    -90 < paUp n pa ∧ paUp n pa ≤ max pa 90 ∧ ∃ k : ℤ, paUp n pa = pa + 180 * k := by
  intro n
  induction n with
  | zero =>
    intro pa h
    simp only [Nat.cast_zero, mul_zero, sub_zero] at h
    exact ⟨by rw [paUp_zero]; exact h, by rw [paUp_zero]; exact le_max_left _ _, 0, by rw [paUp_zero]; simp⟩
  | succ n ih =>
    intro pa h
    rw [paUp_succ]
    by_cases hp : pa ≤ -90
    · rw [if_pos hp]
      have h' : -90 - 180 * (n : ℝ) < pa + 180 := by push_cast at h; linarith
      obtain ⟨h1, h2, k, hk⟩ := ih (pa + 180) h'
      refine ⟨h1, ?_, k + 1, ?_⟩
      · have : max (pa + 180) 90 = 90 := max_eq_right (by linarith)
        rw [this] at h2
        exact le_trans h2 (le_max_right _ _)
      · rw [hk]; push_cast; ring
    · rw [if_neg hp]
      exact ⟨by linarith [not_le.mp hp], le_max_left _ _, 0, by simp⟩

/-- with enough fuel the second loop, started above −90, ends in (−90, 90] -/
theorem paDown_spec : ∀ (n : Nat) (q : ℝ), q ≤ 90 + 180 * n → -90 < q →
    -90 < paDown n q ∧ paDown n q ≤ 90 ∧ ∃ k : ℤ, paDown n q = q + 180 * k := by
  intro n
  induction n with
  | zero =>
    intro q h hq
    simp only [Nat.cast_zero, mul_zero, add_zero] at h
    exact ⟨by rw [paDown_zero]; exact hq, by rw [paDown_zero]; exact h, 0, by rw [paDown_zero]; simp⟩
  | succ n ih =>
    intro q h hq
    rw [paDown_succ]
    by_cases hp : 90 < q
    · rw [if_pos hp]
      have h' : q - 180 ≤ 90 + 180 * (n : ℝ) := by push_cast at h; linarith
      obtain ⟨h1, h2, k, hk⟩ := ih (q - 180) h' (by linarith)
      exact ⟨h1, h2, k - 1, by rw [hk]; push_cast; ring⟩
    · rw [if_neg hp]
      exact ⟨hq, not_lt.mp hp, 0, by simp⟩

/-- two angles in (−90, 90] that differ by a multiple of 180 are equal -/
theorem range_unique (p q : ℝ) (k : ℤ) (hp : -90 < p ∧ p ≤ 90) (hq : -90 < q ∧ q ≤ 90)
    (h : q = p + 180 * k) : q = p := by
  have hk : k = 0 := by
    by_contra hne
    rcases lt_or_gt_of_ne hne with hlt | hgt
    · have : (k : ℝ) ≤ -1 := by exact_mod_cast Int.le_sub_one_of_lt hlt
      nlinarith [hp.1, hp.2, hq.1, hq.2]
    · have : (1 : ℝ) ≤ k := by exact_mod_cast Int.add_one_le_of_lt hgt
      nlinarith [hp.1, hp.2, hq.1, hq.2]
  rw [h, hk]; simp

/-! ### trigonometric shifts by 90° and by multiples of 180° (angles in degrees) -/

theorem sin_deg_add_90 (t : ℝ) : Real.sin ((t + 90) * (Real.pi / 180)) = Real.cos (t * (Real.pi / 180)) := by
  have : (t + 90) * (Real.pi / 180) = t * (Real.pi / 180) + Real.pi / 2 := by ring
  rw [this, Real.sin_add_pi_div_two]

theorem cos_deg_add_90 (t : ℝ) : Real.cos ((t + 90) * (Real.pi / 180)) = -Real.sin (t * (Real.pi / 180)) := by
  have : (t + 90) * (Real.pi / 180) = t * (Real.pi / 180) + Real.pi / 2 := by ring
  rw [this, Real.cos_add_pi_div_two]

theorem neg_one_zpow_sq (k : ℤ) : ((-1 : ℝ) ^ k) * ((-1 : ℝ) ^ k) = 1 := by
  rw [← zpow_add₀ (by norm_num : (-1 : ℝ) ≠ 0)]
  exact Even.neg_one_zpow ⟨k, rfl⟩

theorem sin_deg_add_180k (t : ℝ) (k : ℤ) :
    Real.sin ((t + 180 * k) * (Real.pi / 180)) = (-1) ^ k * Real.sin (t * (Real.pi / 180)) := by
  have : (t + 180 * k) * (Real.pi / 180) = t * (Real.pi / 180) + k * Real.pi := by ring
  rw [this, Real.sin_add_int_mul_pi]

theorem cos_deg_add_180k (t : ℝ) (k : ℤ) :
    Real.cos ((t + 180 * k) * (Real.pi / 180)) = (-1) ^ k * Real.cos (t * (Real.pi / 180)) := by
  have : (t + 180 * k) * (Real.pi / 180) = t * (Real.pi / 180) + k * Real.pi := by ring
  rw [this, Real.cos_add_int_mul_pi]

end Aegean.C01Real
