/-
  C08 — the glue model `stepL` instantiated with the canonical leaves *is* the hand model `step`.
  Core Lean only.
-/
import Aegean.Model.C08
import Aegean.Model.C08Hand

namespace Aegean.Proofs.C08
open Aegean.Model.C08

/-- `range(a, b)` -/
theorem pyRange_step1 (a b : Nat) : Py.range a b 1 = List.range' a (b - a) := by
  simp only [Py.range, Nat.one_ne_zero, if_false, Nat.div_one, Nat.mul_one]
  rw [List.range'_eq_map_range]
  congr 1 <;> omega

/-- the canonical leaves (`Model/C08Hand.lean`) -/
def canonLeaves : Leaves where
  children := Hand.children
  parent := Hand.parent
  quadHead := Hand.quadHead
  degrade := Hand.degrade
  demoteLevels := Hand.demoteLevels
  renormLevels := Hand.renormLevels
  unionShared := Hand.unionShared
  unionFiner := Hand.unionFiner
  finer := Hand.finer
  areaLevels := Hand.areaLevels
  sameDepthW := Hand.sameDepth
  sameDepthI := Hand.sameDepth
  sameDepthX := Hand.sameDepth

theorem demoteStepL_canon : demoteStepL canonLeaves = demoteStep := by
  funext pd d
  simp only [demoteStepL, demoteStep, canonLeaves]
  rfl

theorem foldl_range'_demote (pd : Nat → List Nat) : ∀ (n d : Nat),
    (List.range' d n).foldl demoteStep pd = demoteLoop pd d n := by
  intro n
  induction n generalizing pd with
  | zero => intro d; rfl
  | succ n ih => intro d; simp only [List.range'_succ, List.foldl_cons, demoteLoop]; exact ih _ _

theorem demoteAllL_canon : demoteAllL canonLeaves = demoteAll := by
  funext r
  simp only [demoteAllL, demoteAll, demoteStepL_canon]
  have : canonLeaves.demoteLevels r.m = List.range' 1 (r.m - 1) := rfl
  rw [this, foldl_range'_demote]

theorem promotedL_canon (l : List Nat) : promotedL canonLeaves l = promoted l := rfl

theorem renormStepL_canon : renormStepL canonLeaves = renormStep := by
  funext pd d
  simp only [renormStepL, renormStep, promotedL_canon]

theorem foldl_desc_renorm (pd : Nat → List Nat) : ∀ (n d : Nat),
    ((List.range n).map (fun k => d - k)).foldl renormStep pd = renormLoop pd d n := by
  intro n
  induction n generalizing pd with
  | zero => intro d; rfl
  | succ n ih =>
    intro d
    have : (List.range (n + 1)).map (fun k => d - k) = d :: (List.range n).map (fun k => (d - 1) - k) := by
      rw [List.range_succ_eq_map, List.map_cons, List.map_map]
      congr 1
      apply List.map_congr_left
      intro k _
      simp only [Function.comp]
      omega
    rw [this, List.foldl_cons, renormLoop]
    exact ih _ _

theorem renormL_canon : renormL canonLeaves = renorm := by
  funext r
  simp only [renormL, renorm, demoteAllL_canon, renormStepL_canon]
  have : canonLeaves.renormLevels r.m = (List.range (r.m - 2)).map (fun k => r.m - k) := rfl
  rw [this, foldl_desc_renorm]

theorem degradedL_canon (m : Nat) (o : Region) : degradedL canonLeaves m o = degraded m o := rfl

theorem unionRawL_canon : unionRawL canonLeaves = unionRaw := by
  funext r o
  have hsh : canonLeaves.unionShared r.m o.m = List.range' 1 (min r.m o.m) := rfl
  have hfin : canonLeaves.finer r.m o.m = decide (r.m < o.m) := rfl
  have hpd : ∀ d, (if (List.range' 1 (min r.m o.m)).contains d then dedup (r.pd d ++ o.pd d) else r.pd d) =
      (if 1 ≤ d ∧ d ≤ min r.m o.m then dedup (r.pd d ++ o.pd d) else r.pd d) := by
    intro d
    by_cases h : 1 ≤ d ∧ d ≤ min r.m o.m
    · have : (List.range' 1 (min r.m o.m)).contains d = true := by
        rw [List.contains_iff_mem, List.mem_range'_1]; omega
      rw [if_pos this, if_pos h]
    · have : ¬ ((List.range' 1 (min r.m o.m)).contains d = true) := by
        rw [List.contains_iff_mem, List.mem_range'_1]; omega
      rw [if_neg this, if_neg h]
  have hc : (if (List.range' 1 (min r.m o.m)).isEmpty then r.cached else false) =
      (if 1 ≤ min r.m o.m then false else r.cached) := by
    by_cases h : 1 ≤ min r.m o.m
    · have : (List.range' 1 (min r.m o.m)).isEmpty = false := by
        cases hk : min r.m o.m with
        | zero => omega
        | succ k => simp [List.range'_succ]
      simp [this, h]
    · have hz : min r.m o.m = 0 := by omega
      simp [hz]
  simp only [unionRawL, unionRaw, hsh, hfin, hpd, hc, degradedL_canon, decide_eq_true_eq]

theorem combineWithL_canon (f : List Nat → List Nat → List Nat) (r o : Region) :
    combineWithL canonLeaves Hand.sameDepth f r o = combineWith f r o := by
  simp only [combineWithL, combineWith, demoteAllL_canon, renormL_canon, Hand.sameDepth]
  by_cases h : r.m = o.m
  · simp [h]
  · simp [h]

theorem areaL_canon : areaL canonLeaves = area := by
  funext r; rfl

/-- **the glue with canonical leaves is the hand model** -/
theorem stepL_canon : stepL canonLeaves = step := by
  funext r op
  cases op <;>
    simp only [stepL, step, renormL_canon, unionRawL_canon, demoteAllL_canon, areaL_canon] <;>
    first
      | rfl
      | (show (combineWithL canonLeaves Hand.sameDepth _ r _).map _ = _; rw [combineWithL_canon])

theorem operandAfterL_canon : operandAfterL canonLeaves = operandAfter := by
  funext op
  cases op <;> simp only [operandAfterL, operandAfter, demoteAllL_canon]

/-- the session step run with `step` is `sessStep` -/
theorem sessStepWith_step (s : Session) (op : SessOp) : sessStepWith step s op = sessStep s op := by
  cases op <;> simp only [sessStepWith, sessStep, onCur, withFile] <;> rfl

end Aegean.Proofs.C08
