/-
  C11 — helper lemmas: one pass of the loop with a region is the pass without a region followed by
  the membership filter; `filterMap` commutes with a pointwise `Option.filter`.
-/
import Aegean.Proofs.C02
import Aegean.Model.C11

namespace Aegean.Proofs.C11
open Aegean.Model.C02 Aegean.Model.C11 Aegean.Spec.C02 Aegean.Proofs.C02

variable {g : Grid} {lab : Px → Nat} {n : Nat}

theorem islandOf_region (hl : IsLabelling g lab n) (f : Px → Bool) {i : Nat} (hi : i ≠ 0) :
    islandOf g lab (some f) i = (islandOf g lab none i).filter (touches f) := by
  unfold islandOf
  cases hfb : boxOf (labelled g lab i) with
  | none => simp
  | some fb =>
    simp only [Option.bind_some, islandIn, own_eq_lbl hl hi hfb, regionOK, Bool.and_true]
    cases hs : ((boxPx fb).filter (fun p => lab p == i)).any g.Sd with
    | false => simp
    | true =>
      cases hb : boxOf ((boxPx fb).filter (fun p => lab p == i)) with
      | none => simp
      | some b =>
        have e : touches f { box := b, pixels := (boxPx fb).filter (fun p => lab p == i), frame := fb }
            = ((boxPx fb).filter (fun p => lab p == i)).any f := rfl
        simp only [Bool.true_and, if_true, Option.map_some, Option.filter_some, e]

theorem filterMap_filter_pointwise {β γ : Type} (f f' : β → Option γ) (P : γ → Bool) (l : List β)
    (h : ∀ a ∈ l, f' a = (f a).filter P) : l.filterMap f' = (l.filterMap f).filter P := by
  induction l with
  | nil => simp
  | cons a l ih =>
    have ha := h a (List.mem_cons_self)
    have ih' := ih (fun x hx => h x (List.mem_cons_of_mem _ hx))
    simp only [List.filterMap_cons, ha]
    cases hf : f a with
    | none => simpa using ih'
    | some b =>
      simp only [Option.filter_some, List.filter_cons]
      cases hP : P b with
      | true => simp [ih']
      | false => simp [ih']

/-! ### glue: the regenerated region probe -/

theorem probeOf_eq {px py org : Nat → Nat → Nat → Nat → Nat}
    (hx : ∀ r c row0 col0, (px r c row0 col0 : Int) - (org r c row0 col0 : Int) = (col0 : Int) + c)
    (hy : ∀ r c row0 col0, (py r c row0 col0 : Int) - (org r c row0 col0 : Int) = (row0 : Int) + r)
    {fb : Box} {p : Px} (hp : p ∈ boxPx fb) : probeOf px py org fb p = ((p.2 : Int), (p.1 : Int)) := by
  have h := mem_boxPx.1 hp
  simp only [probeOf, hx, hy]
  ext <;> simp only <;> omega

theorem findRestrictedSky_eq {px py org : Nat → Nat → Nat → Nat → Nat}
    (hx : ∀ r c row0 col0, (px r c row0 col0 : Int) - (org r c row0 col0 : Int) = (col0 : Int) + c)
    (hy : ∀ r c row0 col0, (py r c row0 col0 : Int) - (org r c row0 col0 : Int) = (row0 : Int) + r)
    (sky : Int × Int → Bool) (g : Grid) (lab : Px → Nat) (n : Nat) :
    findRestrictedSky px py org sky g lab n = findRestricted g lab n (fun p => sky ((p.2 : Int), (p.1 : Int))) := by
  unfold findRestrictedSky findRestricted findIslands islandOf
  congr 1
  funext k
  congr 1
  funext fb
  have e : ((boxPx fb).filter (fun p => lab p == k + 1)).any (fun p => sky (probeOf px py org fb p)) =
      ((boxPx fb).filter (fun p => lab p == k + 1)).any (fun p => sky ((p.2 : Int), (p.1 : Int))) := by
    apply any_congr_mem
    intro p hp
    rw [probeOf_eq hx hy (List.mem_filter.1 hp).1]
  simp only [islandIn, regionOK, e]
  first | rfl | (split <;> rfl)

end Aegean.Proofs.C11
