/-
  C08 — `area` counts the distinct deepest-level pixels covered (`absList`, `covers`, `area`).
  Core Lean only (no Mathlib).
-/
import Aegean.Proofs.C08Basic
namespace Aegean.Proofs.C08
open Aegean.Model.C08

/-- flatMap of pairwise-disjoint duplicate-free lists over a duplicate-free list is duplicate-free -/
theorem nodup_flatMap_of {α : Type} (f : α → List Nat) : ∀ (l : List α), l.Nodup →
    (∀ a, a ∈ l → (f a).Nodup) →
    (∀ a b, a ∈ l → b ∈ l → a ≠ b → ∀ x, x ∈ f a → x ∈ f b → False) →
    (l.flatMap f).Nodup
  | [], _, _, _ => by simp
  | a :: l, hn, hf, hd => by
    rw [List.nodup_cons] at hn
    rw [List.flatMap_cons, List.nodup_append]
    refine ⟨hf a List.mem_cons_self,
      nodup_flatMap_of f l hn.2 (fun b hb => hf b (List.mem_cons_of_mem _ hb))
        (fun b c hb hc => hd b c (List.mem_cons_of_mem _ hb) (List.mem_cons_of_mem _ hc)), ?_⟩
    intro x hx y hy hxy
    subst hxy
    rw [List.mem_flatMap] at hy
    obtain ⟨b, hb, hxb⟩ := hy
    exact hd a b List.mem_cons_self (List.mem_cons_of_mem _ hb)
      (by rintro rfl; exact hn.1 hb) x hx hxb

theorem mem_absList {r : Region} {q : Nat} : q ∈ absList r ↔ absP r.m r.pd q := by
  simp only [absList, absP, covP, List.mem_flatMap, List.mem_range'_1, mem_desc]
  constructor
  · rintro ⟨d, ⟨h1, h2⟩, p, hp, rfl⟩
    exact ⟨d, h1, by omega, hp⟩
  · rintro ⟨d, h1, h2, h⟩
    exact ⟨d, ⟨h1, by omega⟩, _, h, rfl⟩

theorem covers_iff {r : Region} {q : Nat} : covers r q = true ↔ absP r.m r.pd q := by
  simp only [covers, absP, covP, List.any_eq_true, List.mem_range'_1, List.contains_iff_mem]
  constructor
  · rintro ⟨d, ⟨h1, h2⟩, h⟩
    exact ⟨d, h1, by omega, h⟩
  · rintro ⟨d, h1, h2, h⟩
    exact ⟨d, ⟨h1, by omega⟩, h⟩

theorem length_flatMap_desc (k : Nat) : ∀ l : List Nat,
    (l.flatMap (desc k)).length = l.length * 4 ^ k
  | [] => by simp
  | a :: l => by
    rw [List.flatMap_cons, List.length_append, length_desc, length_flatMap_desc k l,
      List.length_cons, Nat.succ_mul, Nat.add_comm]

theorem length_absList (r : Region) : (absList r).length = area r := by
  unfold absList area
  rw [List.length_flatMap]
  congr 1
  apply List.map_congr_left
  intro d _
  exact length_flatMap_desc _ _

/-- if every level is a set and no deepest pixel is covered from two levels, the list of covered
    deepest pixels has no repetition -/
theorem nodup_absList {r : Region} (hn : NodupP r.pd) (hd : NoDCP r.m r.pd) : (absList r).Nodup := by
  unfold absList
  apply nodup_flatMap_of _ _ List.nodup_range'
  · intro d _
    apply nodup_flatMap_of _ _ (hn d)
    · intro p _; exact nodup_desc _ _
    · intro p p' _ _ hne x hx hx'
      rw [mem_desc] at hx hx'
      exact hne (hx.symm.trans hx')
  · intro d d' hd1 hd2 hne x hx hx'
    rw [List.mem_range'_1] at hd1 hd2
    simp only [List.mem_flatMap, mem_desc] at hx hx'
    obtain ⟨p, hp, rfl⟩ := hx
    obtain ⟨p', hp', hpp⟩ := hx'
    apply hne
    apply hd x d d' hd1.1 (by omega) hd2.1 (by omega)
    · exact hp
    · show x / 4 ^ (r.m - d') ∈ r.pd d'
      rw [hpp]; exact hp'

/-- **area = number of distinct deepest-level pixels covered**: for any duplicate-free list `l`
    with exactly the covered pixels as members, `area r = l.length`. -/
theorem area_eq_card {r : Region} (hn : NodupP r.pd) (hd : NoDCP r.m r.pd)
    {l : List Nat} (hl : l.Nodup) (hmem : ∀ q, q ∈ l ↔ absP r.m r.pd q) : area r = l.length := by
  rw [← length_absList]
  exact length_eq_of_mem_iff (nodup_absList hn hd) hl (fun a => mem_absList.trans (hmem a).symm)

end Aegean.Proofs.C08
