/-
  C17 — `translate` and `bear` over ℝ.

    `bearHand_eq_paVec`     bear = atan2(v₂·East₁, v₂·North₁)  (tangent-plane position angle)
    `translate_core`        with s,c = sin,cos δ;  S = s cos ρ + c sin ρ cos τ (= sin δ′);
                            x = cos ρ − s S;  y = sin τ sin ρ c :   S² ≤ 1  and  x² + y² = (c·√(1−S²))²
    `dot_translate`         ⟪v(p), v(translate p r θ)⟫ = cos ρ          (−90 ≤ dec ≤ 90, poles included)
    `sphDist_translate`     sphDist p (translate p r θ) = r              (0 ≤ r ≤ 180)
    `bearHand_translate`    bear p (translate p r θ) = θ + 360k          (0 < r < 180, |dec| < 90)
-/
import Aegean.Proofs.C17Sphere
import Mathlib.Analysis.SpecialFunctions.Complex.Arg

open Aegean.Model.C17 Real

namespace Aegean.C17

/-- `bear` is the position angle measured in the tangent plane at point 1 -/
theorem bearHand_eq_paVec (ra1 dec1 ra2 dec2 : ℝ) :
    bearHand ra1 dec1 ra2 dec2 = paVec ra1 dec1 ra2 dec2 := by
  have hy : sin (R.radians (ra2 - ra1)) * cos (R.radians dec2)
      = dot (unitVec ra2 dec2) (eastVec ra1) := by
    simp only [dot, unitVec, eastVec, R.real_sin, R.real_cos, R.real_ofNat, radians_sub, Real.sin_sub]
    push_cast; ring
  have hx : cos (R.radians dec1) * sin (R.radians dec2)
        - sin (R.radians dec1) * cos (R.radians dec2) * cos (R.radians (ra2 - ra1))
      = dot (unitVec ra2 dec2) (northVec ra1 dec1) := by
    simp only [dot, unitVec, northVec, R.real_sin, R.real_cos, radians_sub, Real.cos_sub]
    ring
  simp only [bearHand, paVec, R.real_sin, R.real_cos]
  rw [hy, hx]

/-- the algebra behind `translate` -/
theorem translate_core (s c sr cr st ct : ℝ) (hd : s ^ 2 + c ^ 2 = 1) (hr : sr ^ 2 + cr ^ 2 = 1)
    (ht : st ^ 2 + ct ^ 2 = 1) :
    (s * cr + c * sr * ct) ^ 2 ≤ 1 ∧
    (cr - s * (s * cr + c * sr * ct)) = c * (c * cr - s * sr * ct) ∧
    (cr - s * (s * cr + c * sr * ct)) ^ 2 + (st * sr * c) ^ 2
      = c ^ 2 * (1 - (s * cr + c * sr * ct) ^ 2) := by
  have hx : (cr - s * (s * cr + c * sr * ct)) = c * (c * cr - s * sr * ct) := by
    linear_combination (-cr) * hd
  have hk : (c * cr - s * sr * ct) ^ 2 + st ^ 2 * sr ^ 2 = 1 - (s * cr + c * sr * ct) ^ 2 := by
    linear_combination (cr ^ 2 + sr ^ 2 * ct ^ 2) * hd + sr ^ 2 * ht + hr
  refine ⟨?_, hx, ?_⟩
  · nlinarith [sq_nonneg (c * cr - s * sr * ct), sq_nonneg (st * sr)]
  · rw [hx, ← hk]; ring

/-- the radian quantities of `translate (ra, dec) r θ` -/
structure TranslateFacts (ra dec r theta : ℝ) : Prop where
  /-- sin of the new declination is `S` -/
  sinDec : sin (R.radians (translateDecHand ra dec r theta))
      = sin (R.radians dec) * cos (R.radians r) + cos (R.radians dec) * sin (R.radians r) * cos (R.radians theta)
  cosDec_nonneg : 0 ≤ cos (R.radians (translateDecHand ra dec r theta))
  /-- `cos δ · cos δ′ · cos A = x` and `cos δ · cos δ′ · sin A = y`, `A` the RA offset -/
  cosA : cos (R.radians dec) * cos (R.radians (translateDecHand ra dec r theta))
      * cos (R.radians (translateRaHand ra dec r theta) - R.radians ra)
      = cos (R.radians dec) * (cos (R.radians dec) * cos (R.radians r)
          - sin (R.radians dec) * sin (R.radians r) * cos (R.radians theta))
  sinA : cos (R.radians dec) * cos (R.radians (translateDecHand ra dec r theta))
      * sin (R.radians (translateRaHand ra dec r theta) - R.radians ra)
      = sin (R.radians theta) * sin (R.radians r) * cos (R.radians dec)

theorem cos_radians_nonneg (dec : ℝ) (h0 : -90 ≤ dec) (h1 : dec ≤ 90) : 0 ≤ cos (R.radians dec) := by
  apply Real.cos_nonneg_of_neg_pi_div_two_le_of_le
  · rw [R.real_radians]; have := Real.pi_pos; nlinarith
  · rw [R.real_radians]; have := Real.pi_pos; nlinarith

theorem translateFacts (ra dec r theta : ℝ) (h0 : -90 ≤ dec) (h1 : dec ≤ 90) :
    TranslateFacts ra dec r theta := by
  have hc := cos_radians_nonneg dec h0 h1
  obtain ⟨hS, hx, hxy⟩ := translate_core (sin (R.radians dec)) (cos (R.radians dec)) (sin (R.radians r))
    (cos (R.radians r)) (sin (R.radians theta)) (cos (R.radians theta))
    (Real.sin_sq_add_cos_sq _) (Real.sin_sq_add_cos_sq _) (Real.sin_sq_add_cos_sq _)
  set S := sin (R.radians dec) * cos (R.radians r) + cos (R.radians dec) * sin (R.radians r) * cos (R.radians theta)
    with hSdef
  have hS1 : -1 ≤ S ∧ S ≤ 1 := abs_le.mp (abs_le_one_iff_mul_self_le_one.mpr (by nlinarith))
  have hdec : (R.radians (translateDecHand ra dec r theta) : ℝ) = arcsin S := by
    simp only [translateDecHand, R.real_sin, R.real_cos, R.real_asin, R.real_ofNat, real_min', real_max',
      Nat.cast_one]
    rw [radians_degrees, max_eq_right hS1.1, min_eq_right hS1.2]
  have hsin : sin (R.radians (translateDecHand ra dec r theta)) = S := by
    rw [hdec, Real.sin_arcsin hS1.1 hS1.2]
  have hcos : cos (R.radians (translateDecHand ra dec r theta)) = √(1 - S ^ 2) := by
    rw [hdec, Real.cos_arcsin]
  have hcos0 : 0 ≤ cos (R.radians (translateDecHand ra dec r theta)) := by rw [hcos]; exact Real.sqrt_nonneg _
  -- the complex number whose argument is the RA offset
  set x := cos (R.radians r) - sin (R.radians dec) * S with hxdef
  set y := sin (R.radians theta) * sin (R.radians r) * cos (R.radians dec) with hydef
  have hA : (R.radians (translateRaHand ra dec r theta) : ℝ) - R.radians ra = Complex.arg ⟨x, y⟩ := by
    have : translateRaHand ra dec r theta = ra + R.degrees (Complex.arg ⟨x, y⟩) := by
      simp only [translateRaHand, R.real_sin, R.real_cos, R.real_atan2]
      rw [hsin]
    rw [this, radians_add, radians_degrees]; ring
  have hnorm : ‖(⟨x, y⟩ : ℂ)‖ = cos (R.radians dec) * cos (R.radians (translateDecHand ra dec r theta)) := by
    have h1 : ‖(⟨x, y⟩ : ℂ)‖ ^ 2 = (cos (R.radians dec) * cos (R.radians (translateDecHand ra dec r theta))) ^ 2 := by
      rw [Complex.sq_norm, Complex.normSq_mk, hcos, mul_pow, Real.sq_sqrt (by nlinarith)]
      nlinarith [hxy]
    exact (sq_eq_sq₀ (norm_nonneg _) (mul_nonneg hc hcos0)).mp h1
  refine ⟨hsin, hcos0, ?_, ?_⟩
  · rw [hA, ← hnorm, Complex.norm_mul_cos_arg]; exact hx
  · rw [hA, ← hnorm, Complex.norm_mul_sin_arg]

/-- the dot product of the start point with the translated point is `cos r` -/
theorem dot_translate (ra dec r theta : ℝ) (h0 : -90 ≤ dec) (h1 : dec ≤ 90) :
    dot (unitVec ra dec) (unitVec (translateRaHand ra dec r theta) (translateDecHand ra dec r theta))
      = cos (R.radians r) := by
  obtain ⟨hs, _, hcA, _⟩ := translateFacts ra dec r theta h0 h1
  rw [dot_unitVec, hs]
  have hd := Real.sin_sq_add_cos_sq (R.radians dec)
  linear_combination hcA + (cos (R.radians r)) * hd

/-- **the translated point is at distance r** (degrees), for every start point with −90 ≤ dec ≤ 90 -/
theorem sphDist_translate (ra dec r theta : ℝ) (hd0 : -90 ≤ dec) (hd1 : dec ≤ 90) (h0 : 0 ≤ r) (h1 : r ≤ 180) :
    sphDist ra dec (translateRaHand ra dec r theta) (translateDecHand ra dec r theta) = r := by
  have hp := Real.pi_pos
  rw [sphDist_eq_arccos_dot, dot_translate ra dec r theta hd0 hd1, Real.arccos_cos]
  · rw [R.real_radians]; field_simp
  · rw [R.real_radians]; positivity
  · rw [R.real_radians]; nlinarith

/-- `arg (ρ·(cos τ + i sin τ)) = τ` modulo 2π, for ρ > 0 -/
theorem arg_polar (ρ τ : ℝ) (hρ : 0 < ρ) : ∃ k : ℤ, Complex.arg ⟨ρ * cos τ, ρ * sin τ⟩ = τ + 2 * π * k := by
  have hz : (⟨ρ * cos τ, ρ * sin τ⟩ : ℂ) = (ρ : ℂ) * (((cos τ : ℝ) : ℂ) + ((sin τ : ℝ) : ℂ) * Complex.I) := by
    apply Complex.ext <;> simp [Complex.cos_ofReal_re, Complex.sin_ofReal_re, Complex.cos_ofReal_im, Complex.sin_ofReal_im]
  have h := Complex.arg_mul_cos_add_sin_mul_I_coe_angle hρ (τ : Real.Angle)
  simp only [Real.Angle.cos_coe, Real.Angle.sin_coe] at h
  rw [Real.Angle.angle_eq_iff_two_pi_dvd_sub] at h
  obtain ⟨k, hk⟩ := h
  exact ⟨k, by rw [hz]; linarith⟩

/-- **the initial bearing towards the translated point is θ (mod 360)**, away from the poles -/
theorem bearHand_translate (ra dec r theta : ℝ) (h0 : 0 < r) (h1 : r < 180) (hd : |dec| < 90) :
    ∃ k : ℤ, bearHand ra dec (translateRaHand ra dec r theta) (translateDecHand ra dec r theta)
      = theta + 360 * k := by
  have hp := Real.pi_pos
  obtain ⟨hd0, hd1⟩ := abs_lt.mp hd
  obtain ⟨hs, _, hcA, hsA⟩ := translateFacts ra dec r theta hd0.le hd1.le
  have hc : 0 < cos (R.radians dec) := by
    apply Real.cos_pos_of_mem_Ioo
    constructor <;> (rw [R.real_radians]; nlinarith)
  have hsr : 0 < sin (R.radians r) := by
    apply Real.sin_pos_of_pos_of_lt_pi
    · rw [R.real_radians]; positivity
    · rw [R.real_radians]; nlinarith
  have hcA' := mul_left_cancel₀ hc.ne' (by linear_combination hcA :
    cos (R.radians dec) * (cos (R.radians (translateDecHand ra dec r theta))
      * cos (R.radians (translateRaHand ra dec r theta) - R.radians ra))
    = cos (R.radians dec) * (cos (R.radians dec) * cos (R.radians r)
          - sin (R.radians dec) * sin (R.radians r) * cos (R.radians theta)))
  have hsA' := mul_left_cancel₀ hc.ne' (by linear_combination hsA :
    cos (R.radians dec) * (cos (R.radians (translateDecHand ra dec r theta))
      * sin (R.radians (translateRaHand ra dec r theta) - R.radians ra))
    = cos (R.radians dec) * (sin (R.radians theta) * sin (R.radians r)))
  have hdd := Real.sin_sq_add_cos_sq (R.radians dec)
  have hy : sin (R.radians (translateRaHand ra dec r theta - ra)) * cos (R.radians (translateDecHand ra dec r theta))
      = sin (R.radians r) * sin (R.radians theta) := by
    rw [radians_sub]; linear_combination hsA'
  have hx : cos (R.radians dec) * sin (R.radians (translateDecHand ra dec r theta))
        - sin (R.radians dec) * cos (R.radians (translateDecHand ra dec r theta))
          * cos (R.radians (translateRaHand ra dec r theta - ra))
      = sin (R.radians r) * cos (R.radians theta) := by
    rw [radians_sub, hs]
    linear_combination (-sin (R.radians dec)) * hcA' + (sin (R.radians r) * cos (R.radians theta)) * hdd
  obtain ⟨k, hk⟩ := arg_polar (sin (R.radians r)) (R.radians theta) hsr
  refine ⟨k, ?_⟩
  simp only [bearHand, R.real_sin, R.real_cos, R.real_atan2]
  rw [hy, hx, hk, R.real_degrees, R.real_radians]
  field_simp
  ring
end Aegean.C17
