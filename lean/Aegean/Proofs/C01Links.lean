/-
  C01 — links to the neighbouring properties (OPTIONAL; nothing in `Aegean/Properties/C01.lean`
  depends on this file).

  * C16: the abstract ellipse oracle of C01 (`EllOracle`, `InverseLaws`) instantiated with C16's model
    of `WCSHelper.sky2pix_ellipse / pix2sky_ellipse` over ANY point-level world coordinate system `W`
    obeying C16's `WcsLaws`; the inverse laws on (dec, a, pa) are C16's `ellipse_major_pa_roundtrip`.
    RA comes back modulo whole turns in C16 (wcslib returns [0, 360)); "the WCS returns the RA in the
    catalogue's range at the source" is therefore part of the domain.
    ⇒ `closed_conversion_for_any_wcs`: C01's `conversion_inverse` for the code's own ellipse
    conversions over every invertible WCS.
  * C17: `err_ra` / `err_dec` of `fitting.errors` (model `errRaDec`) with `gcd` := C17's great-circle distance:
    `err_ra` is the sky angle subtended by the RA displacement at the source's declination —
    sin(err_ra/2) = |cos δ|·|sin(Δα/2)|, the factor cos δ exactly once — and `err_dec` is |Δδ|.
  * C04: the Jacobian handed to the optimiser is the true derivative of the very function whose
    residual is zero at the truth (`Gen.C04.gauss = Gen.C01.gauss`, both regenerated from the same
    source function).
-/
import Aegean.Properties.C01
import Aegean.Properties.C16
import Aegean.Properties.C04
import Aegean.Properties.C17

set_option linter.unusedVariables false

namespace Aegean.C01Links
open Aegean.Model.C01 Aegean.Properties.C01

/-- C01's ellipse oracle, instantiated with C16's model of the two WCSHelper methods over `W` -/
noncomputable def oracleOf (W : Aegean.Model.C16.Wcs ℝ) : EllOracle ℝ where
  p2s p :=
    ⟨(Aegean.Model.C16.pix2skyEllipse W p.x p.y p.sx p.sy p.theta).ra,
     (Aegean.Model.C16.pix2skyEllipse W p.x p.y p.sx p.sy p.theta).dec,
     (Aegean.Model.C16.pix2skyEllipse W p.x p.y p.sx p.sy p.theta).a,
     (Aegean.Model.C16.pix2skyEllipse W p.x p.y p.sx p.sy p.theta).b,
     (Aegean.Model.C16.pix2skyEllipse W p.x p.y p.sx p.sy p.theta).pa⟩
  s2p e :=
    ⟨(Aegean.Model.C16.sky2pixEllipse W e.ra e.dec e.a e.b e.pa).x,
     (Aegean.Model.C16.sky2pixEllipse W e.ra e.dec e.a e.b e.pa).y,
     (Aegean.Model.C16.sky2pixEllipse W e.ra e.dec e.a e.b e.pa).sx,
     (Aegean.Model.C16.sky2pixEllipse W e.ra e.dec e.a e.b e.pa).sy,
     (Aegean.Model.C16.sky2pixEllipse W e.ra e.dec e.a e.b e.pa).theta⟩

/-- the sky ellipses on which C16's round-trip theorem applies, with the RA returned in range -/
def domOf (W : Aegean.Model.C16.Wcs ℝ) (sdom : ℝ → ℝ → Prop) : SkyEll ℝ → Prop := fun e =>
  |e.dec| < 90 ∧ 0 < e.a ∧ e.a < 180 ∧ -180 < e.pa ∧ e.pa ≤ 180 ∧ sdom e.ra e.dec ∧
  sdom (Gen.C16.translateRa e.ra e.dec e.a e.pa) (Gen.C16.translateDec e.ra e.dec e.a e.pa) ∧
  ((oracleOf W).p2s ((oracleOf W).s2p e)).ra = e.ra

/-- C16 ⇒ the contract C01 assumes of the ellipse conversions -/
theorem inverseLaws_of_wcsLaws (W : Aegean.Model.C16.Wcs ℝ) {pdom sdom : ℝ → ℝ → Prop}
    (L : Aegean.C16.WcsLaws W pdom sdom) : InverseLaws (oracleOf W) (domOf W sdom) where
  ra := fun e h => h.2.2.2.2.2.2.2
  dec := fun e h =>
    (Aegean.Properties.C16.ellipse_major_pa_roundtrip W L e.ra e.dec e.a e.b e.pa h.1 h.2.1 h.2.2.1
      h.2.2.2.2.2.1 h.2.2.2.2.2.2.1).2.1
  a := fun e h =>
    (Aegean.Properties.C16.ellipse_major_pa_roundtrip W L e.ra e.dec e.a e.b e.pa h.1 h.2.1 h.2.2.1
      h.2.2.2.2.2.1 h.2.2.2.2.2.2.1).2.2.1
  pa := fun e h =>
    (Aegean.Properties.C16.ellipse_major_pa_roundtrip W L e.ra e.dec e.a e.b e.pa h.1 h.2.1 h.2.2.1
      h.2.2.2.2.2.1 h.2.2.2.2.2.2.1).2.2.2.2 h.2.2.2.1 h.2.2.2.2.1

/-- **closed_conversion_for_any_wcs**: report ∘ inject = id on (ra, dec, a, pa, peak) for the CODE's
    ellipse conversions (C16's model of them) over every world coordinate system with the
    point-level inverse laws. -/
theorem closed_conversion_for_any_wcs (W : Aegean.Model.C16.Wcs ℝ) {pdom sdom : ℝ → ℝ → Prop}
    (L : Aegean.C16.WcsLaws W pdom sdom) (ln2 : ℝ) (hln2 : 0 < ln2) (fuel : Nat) (area : ℝ → ℝ → ℝ)
    (xmin ymin : ℝ) (t : Truth ℝ) (hdom : domOf W sdom (skyOf t)) (hra : 0 ≤ t.ra)
    (hpa1 : -90 < t.pa) (hpa2 : t.pa ≤ 90)
    (hminor : ((oracleOf W).p2s ((oracleOf W).s2p (skyOf t))).b ≤ (skyOf t).a) :
    let r := toComponent (oracleOf W) fuel (Gen.C01.cc2fwhm ln2) area xmin ymin
              (toIsland xmin ymin (inject (oracleOf W) (Gen.C01.fwhm2ccRes ln2) t))
    r.ra = t.ra ∧ r.dec = t.dec ∧ r.a = t.a ∧ r.pa = t.pa ∧ r.peak = t.peak :=
  let h := conversion_inverse (oracleOf W) (domOf W sdom) (inverseLaws_of_wcsLaws W L) ln2 hln2 fuel area
    xmin ymin t hdom hra hpa1 hpa2 hminor
  ⟨h.1, h.2.1, h.2.2.1, h.2.2.2.1, h.2.2.2.2.1⟩

/-! ### the position errors are sky angles (C17) -/

open Real in
/-- the haversine distance between two points of EQUAL declination δ whose right ascensions differ by Δα:
    `sin(g/2) = |cos δ|·|sin(Δα/2)|` (g, δ, Δα in degrees).  `g` is whatever `angle_tools.gcd` returns (either branch). -/
theorem gcd_equal_dec (ra1 d ra2 g : ℝ) (h : Aegean.Properties.C17.IsGcd ra1 d ra2 d g) :
    sin (g * (π / 180) / 2) = |cos (d * (π / 180))| * |sin ((ra2 - ra1) * (π / 180) / 2)| := by
  have hg : g = Gen.C17.gcdNear ra1 d ra2 d := by
    rw [Aegean.Properties.C17.isGcd_iff] at h
    rw [h, Aegean.Properties.C17.gcdNear_eq_angle]; rfl
  rw [hg, Aegean.Properties.C17.gcdNear_eq_hand]
  simp only [Aegean.Model.C17.gcdNearHand, Aegean.Model.C17.havAHand, R.real_npow, R.real_sin, R.real_cos, R.real_ofNat,
    R.real_radians, R.real_degrees, R.real_asin, Aegean.C17.real_min', R.real_sqrt, Aegean.C01Real.r_add,
    Aegean.C01Real.r_sub, Aegean.C01Real.r_mul, Aegean.C01Real.r_div, Nat.cast_ofNat, Nat.cast_one]
  have hx : sin ((d - d) * (π / 180) / 2) ^ 2 + cos (d * (π / 180)) * cos (d * (π / 180)) * sin ((ra2 - ra1) * (π / 180) / 2) ^ 2
      = (|cos (d * (π / 180))| * |sin ((ra2 - ra1) * (π / 180) / 2)|) ^ 2 := by
    rw [sub_self, zero_mul, zero_div, sin_zero, mul_pow, sq_abs, sq_abs]; ring
  rw [hx, sqrt_sq (by positivity)]
  have hle : |cos (d * (π / 180))| * |sin ((ra2 - ra1) * (π / 180) / 2)| ≤ 1 := by
    have h1 := abs_cos_le_one (d * (π / 180))
    have h2 := abs_sin_le_one ((ra2 - ra1) * (π / 180) / 2)
    calc _ ≤ 1 * 1 := mul_le_mul h1 h2 (abs_nonneg _) (by norm_num)
      _ = 1 := by norm_num
  rw [min_eq_right hle]
  have hpi := pi_ne_zero
  have : 2 * arcsin (|cos (d * (π / 180))| * |sin ((ra2 - ra1) * (π / 180) / 2)|) * (180 / π) * (π / 180) / 2
      = arcsin (|cos (d * (π / 180))| * |sin ((ra2 - ra1) * (π / 180) / 2)|) := by field_simp
  rw [this, sin_arcsin (by linarith [mul_nonneg (abs_nonneg (cos (d * (π / 180)))) (abs_nonneg (sin ((ra2 - ra1) * (π / 180) / 2)))]) hle]

open Real in
/-- the distance between two points of EQUAL right ascension is the difference of the declinations -/
theorem gcd_equal_ra (ra d1 d2 g : ℝ) (hd : |d2 - d1| ≤ 180) (h : Aegean.Properties.C17.IsGcd ra d1 ra d2 g) :
    g = |d2 - d1| := by
  have hg : g = Gen.C17.gcdNear ra d1 ra d2 := by
    rw [Aegean.Properties.C17.isGcd_iff] at h
    rw [h, Aegean.Properties.C17.gcdNear_eq_angle]; rfl
  rw [hg, Aegean.Properties.C17.gcdNear_eq_hand]
  simp only [Aegean.Model.C17.gcdNearHand, Aegean.Model.C17.havAHand, R.real_npow, R.real_sin, R.real_cos, R.real_ofNat,
    R.real_radians, R.real_degrees, R.real_asin, Aegean.C17.real_min', R.real_sqrt, Aegean.C01Real.r_add,
    Aegean.C01Real.r_sub, Aegean.C01Real.r_mul, Aegean.C01Real.r_div, Nat.cast_ofNat, Nat.cast_one]
  set t := |d2 - d1| * (π / 180) / 2 with ht
  have ht0 : 0 ≤ t := by positivity
  have ht1 : t ≤ π / 2 := by
    rw [ht]; have := pi_pos; nlinarith
  have hx : sin ((d2 - d1) * (π / 180) / 2) ^ 2 + cos (d1 * (π / 180)) * cos (d2 * (π / 180)) * sin ((ra - ra) * (π / 180) / 2) ^ 2
      = (sin t) ^ 2 := by
    rw [sub_self ra, zero_mul, zero_div, sin_zero]
    have : sin t ^ 2 = sin ((d2 - d1) * (π / 180) / 2) ^ 2 := by
      rcases abs_choice (d2 - d1) with h | h
      · rw [ht, h]
      · rw [ht, h, show -(d2 - d1) * (π / 180) / 2 = -((d2 - d1) * (π / 180) / 2) by ring, sin_neg, neg_sq]
    rw [this]; ring
  have hs0 : 0 ≤ sin t := sin_nonneg_of_nonneg_of_le_pi ht0 (by linarith [pi_pos])
  rw [hx, sqrt_sq hs0, min_eq_right (sin_le_one t), arcsin_sin (by linarith) ht1, ht]
  have hpi := pi_ne_zero
  field_simp

/-- **err_ra_is_sky_angle / err_dec**: `fitting.errors`' position errors (model `errRaDec`, any `pix2sky`, `gcd` any
    function returning what `angle_tools.gcd` returns): `err_ra` is the great-circle angle subtended by the RA
    displacement at the source's declination — `sin(err_ra/2) = |cos δ|·|sin(Δα/2)|`: the factor cos δ exactly ONCE,
    so no further cos(dec) belongs on it — and `err_dec = |Δδ|`. -/
theorem err_ra_dec_are_sky_angles (gcd : ℝ → ℝ → ℝ → ℝ → ℝ) (pix2sky : ℝ → ℝ → ℝ × ℝ) (xo yo ex ey : ℝ)
    (hgcd : ∀ a b c d, Aegean.Properties.C17.IsGcd a b c d (gcd a b c d))
    (hd : |(pix2sky (xo + ex) (yo + ey)).2 - (pix2sky xo yo).2| ≤ 180) :
    let ref := pix2sky xo yo
    let off := pix2sky (xo + ex) (yo + ey)
    let e := errRaDec gcd pix2sky xo yo ex ey
    Real.sin (e.1 * (Real.pi / 180) / 2)
        = |Real.cos (ref.2 * (Real.pi / 180))| * |Real.sin ((off.1 - ref.1) * (Real.pi / 180) / 2)| ∧
      e.2 = |off.2 - ref.2| := by
  intro ref off e
  constructor
  · exact gcd_equal_dec ref.1 ref.2 off.1 _ (hgcd _ _ _ _)
  · exact gcd_equal_ra ref.1 ref.2 off.2 _ hd (hgcd _ _ _ _)

/-- C04 differentiates the same function C01's residual is built from -/
theorem c04_gauss_is_c01_gauss (x y amp xo yo sx sy th : ℝ) :
    Gen.C04.gauss x y amp xo yo sx sy th = Gen.C01.gauss x y amp xo yo sx sy th := by
  rw [Aegean.Properties.C04.gauss_eq_canon, Aegean.Properties.C01.gauss_eq_hand]
  simp only [Aegean.C04Canon.G, Aegean.C04Canon.E, Aegean.C04Canon.U, Aegean.C04Canon.W, Aegean.C04Canon.rad,
    Aegean.Model.C01.gaussHand, Aegean.C01Real.r_add, Aegean.C01Real.r_sub, Aegean.C01Real.r_mul, Aegean.C01Real.r_div,
    Aegean.C01Real.r_neg, Aegean.C01Real.r_radians, R.real_sin, R.real_cos, R.real_exp, R.real_npow, R.real_ofNat,
    Nat.cast_ofNat, Nat.cast_one]
  ring_nf

end Aegean.C01Links
