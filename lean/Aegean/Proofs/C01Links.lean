/-
  C01 — links to the neighbouring properties (OPTIONAL; nothing in `Aegean/Properties/C01.lean`
  depends on this file).

  * C16: the abstract ellipse oracle of C01 (`EllOracle`, `InverseLaws`) instantiated with C16's model
    of `WCSHelper.sky2pix_ellipse / pix2sky_ellipse` over ANY point-level world coordinate system `W`
    obeying C16's `WcsLaws`; the inverse laws on (dec, a, pa) are C16's `ellipse_major_pa_roundtrip`.
    RA comes back modulo whole turns in C16 (wcslib returns [0, 360)); "the WCS returns the RA in the
    catalogue's range at the source" is therefore part of the domain.
    ⇒ `closed_conversion_for_any_wcs`: C01's `conversion_inverse` for the code's own ellipse
    conversions over every invertible WCS.
  * C04: the Jacobian handed to the optimiser is the true derivative of the very function whose
    residual is zero at the truth (`Gen.C04.gauss = Gen.C01.gauss`, both regenerated from the same
    source function).
-/
import Aegean.Properties.C01
import Aegean.Properties.C16
import Aegean.Properties.C04

set_option linter.unusedVariables false

namespace Aegean.C01Links
open Aegean.Model.C01 Aegean.Properties.C01

/-- C01's ellipse oracle, instantiated with C16's model of the two WCSHelper methods over `W` -/
noncomputable def oracleOf (W : Aegean.Model.C16.Wcs ℝ) : EllOracle ℝ where
  p2s p :=
    ⟨(Aegean.Model.C16.pix2skyEllipse W p.x p.y p.sx p.sy p.theta).ra,
     (Aegean.Model.C16.pix2skyEllipse W p.x p.y p.sx p.sy p.theta).dec,
     (Aegean.Model.C16.pix2skyEllipse W p.x p.y p.sx p.sy p.theta).a,
     (Aegean.Model.C16.pix2skyEllipse W p.x p.y p.sx p.sy p.theta).b,
     (Aegean.Model.C16.pix2skyEllipse W p.x p.y p.sx p.sy p.theta).pa⟩
  s2p e :=
    ⟨(Aegean.Model.C16.sky2pixEllipse W e.ra e.dec e.a e.b e.pa).x,
     (Aegean.Model.C16.sky2pixEllipse W e.ra e.dec e.a e.b e.pa).y,
     (Aegean.Model.C16.sky2pixEllipse W e.ra e.dec e.a e.b e.pa).sx,
     (Aegean.Model.C16.sky2pixEllipse W e.ra e.dec e.a e.b e.pa).sy,
     (Aegean.Model.C16.sky2pixEllipse W e.ra e.dec e.a e.b e.pa).theta⟩

/-- the sky ellipses on which C16's round-trip theorem applies, with the RA returned in range -/
def domOf (W : Aegean.Model.C16.Wcs ℝ) (sdom : ℝ → ℝ → Prop) : SkyEll ℝ → Prop := fun e =>
  |e.dec| < 90 ∧ 0 < e.a ∧ e.a < 180 ∧ -180 < e.pa ∧ e.pa ≤ 180 ∧ sdom e.ra e.dec ∧
  sdom (Gen.C16.translateRa e.ra e.dec e.a e.pa) (Gen.C16.translateDec e.ra e.dec e.a e.pa) ∧
  ((oracleOf W).p2s ((oracleOf W).s2p e)).ra = e.ra

/-- C16 ⇒ the contract C01 assumes of the ellipse conversions -/
theorem inverseLaws_of_wcsLaws (W : Aegean.Model.C16.Wcs ℝ) {pdom sdom : ℝ → ℝ → Prop}
    (L : Aegean.C16.WcsLaws W pdom sdom) : InverseLaws (oracleOf W) (domOf W sdom) where
  ra := fun e h => h.2.2.2.2.2.2.2
  dec := fun e h =>
    (Aegean.Properties.C16.ellipse_major_pa_roundtrip W L e.ra e.dec e.a e.b e.pa h.1 h.2.1 h.2.2.1
      h.2.2.2.2.2.1 h.2.2.2.2.2.2.1).2.1
  a := fun e h =>
    (Aegean.Properties.C16.ellipse_major_pa_roundtrip W L e.ra e.dec e.a e.b e.pa h.1 h.2.1 h.2.2.1
      h.2.2.2.2.2.1 h.2.2.2.2.2.2.1).2.2.1
  pa := fun e h =>
    (Aegean.Properties.C16.ellipse_major_pa_roundtrip W L e.ra e.dec e.a e.b e.pa h.1 h.2.1 h.2.2.1
      h.2.2.2.2.2.1 h.2.2.2.2.2.2.1).2.2.2.2 h.2.2.2.1 h.2.2.2.2.1

/-- **closed_conversion_for_any_wcs**: report ∘ inject = id on (ra, dec, a, pa, peak) for the CODE's
    ellipse conversions (C16's model of them) over every world coordinate system with the
    point-level inverse laws. -/
theorem closed_conversion_for_any_wcs (W : Aegean.Model.C16.Wcs ℝ) {pdom sdom : ℝ → ℝ → Prop}
    (L : Aegean.C16.WcsLaws W pdom sdom) (ln2 : ℝ) (hln2 : 0 < ln2) (fuel : Nat) (area : ℝ → ℝ → ℝ)
    (xmin ymin : ℝ) (t : Truth ℝ) (hdom : domOf W sdom (skyOf t)) (hra : 0 ≤ t.ra)
    (hpa1 : -90 < t.pa) (hpa2 : t.pa ≤ 90)
    (hminor : ((oracleOf W).p2s ((oracleOf W).s2p (skyOf t))).b ≤ (skyOf t).a) :
    let r := toComponent (oracleOf W) fuel (Gen.C01.cc2fwhm ln2) area xmin ymin
              (toIsland xmin ymin (inject (oracleOf W) (Gen.C01.fwhm2ccRes ln2) t))
    r.ra = t.ra ∧ r.dec = t.dec ∧ r.a = t.a ∧ r.pa = t.pa ∧ r.peak = t.peak :=
  let h := conversion_inverse (oracleOf W) (domOf W sdom) (inverseLaws_of_wcsLaws W L) ln2 hln2 fuel area
    xmin ymin t hdom hra hpa1 hpa2 hminor
  ⟨h.1, h.2.1, h.2.2.1, h.2.2.2.1, h.2.2.2.2.1⟩

/-- C04 differentiates the same function C01's residual is built from -/
theorem c04_gauss_is_c01_gauss (x y amp xo yo sx sy th : ℝ) :
    Gen.C04.gauss x y amp xo yo sx sy th = Gen.C01.gauss x y amp xo yo sx sy th := by
  rw [Aegean.Properties.C04.gauss_eq_canon, Aegean.Properties.C01.gauss_eq_hand]
  simp only [Aegean.C04Canon.G, Aegean.C04Canon.E, Aegean.C04Canon.U, Aegean.C04Canon.W, Aegean.C04Canon.rad,
    Aegean.Model.C01.gaussHand, Aegean.C01Real.r_add, Aegean.C01Real.r_sub, Aegean.C01Real.r_mul, Aegean.C01Real.r_div,
    Aegean.C01Real.r_neg, Aegean.C01Real.r_radians, R.real_sin, R.real_cos, R.real_exp, R.real_npow, R.real_ofNat,
    Nat.cast_ofNat, Nat.cast_one]
  ring_nf

end Aegean.C01Links
