/-
  C06 — the closed-form grid nodes of the model are the lists the code builds
  (`rows = list(range(r0, rEnd, gy)); rows.append(rEnd)`, likewise `cols`), and the subtraction rows of `d2Fn`.
-/
import Aegean.Proofs.C06Plumb

namespace Aegean.Proofs.C06
open Aegean.Model.C06

theorem lt_ceil_div_iff (a g k : Nat) (hg : 0 < g) : k < (a + g - 1) / g ↔ k * g < a := by
  rw [Nat.lt_iff_add_one_le, Nat.le_div_iff_mul_le hg, Nat.succ_mul]
  omega

/-- `list(range(r0, rEnd, gy)) + [rEnd]` is `[nodeR 0, …, nodeR (nNodeR - 1)]` -/
theorem grid_rows_eq_nodes (G : Geom) (S : Stripe) (hg : 0 < G.gy) (h : G.r0 S ≤ G.rEnd S) :
    Py.range (G.r0 S) (G.rEnd S) G.gy ++ [G.rEnd S] = (List.range (G.nNodeR S)).map (G.nodeR S) := by
  have hne : G.gy ≠ 0 := by omega
  simp only [Py.range, hne, if_false, Geom.nNodeR, List.range_succ, List.map_append, List.map_cons, List.map_nil]
  congr 1
  · apply List.map_congr_left
    intro k hk
    rw [List.mem_range, lt_ceil_div_iff _ _ _ hg] at hk
    simp only [Geom.nodeR]; omega
  · have hn : ¬ ((G.rEnd S - G.r0 S + G.gy - 1) / G.gy * G.gy < G.rEnd S - G.r0 S) := by
      rw [← lt_ceil_div_iff _ _ _ hg]; omega
    simp only [Geom.nodeR, List.cons.injEq, and_true]; omega

/-- `list(range(0, C, gx)) + [C]` is `[nodeC 0, …, nodeC (nNodeC - 1)]` -/
theorem grid_cols_eq_nodes (G : Geom) (hg : 0 < G.gx) :
    Py.range 0 G.C G.gx ++ [G.C] = (List.range G.nNodeC).map G.nodeC := by
  have hne : G.gx ≠ 0 := by omega
  simp only [Py.range, hne, if_false, Geom.nNodeC, List.range_succ, List.map_append, List.map_cons, List.map_nil, Nat.sub_zero]
  congr 1
  · apply List.map_congr_left
    intro k hk
    rw [List.mem_range, lt_ceil_div_iff _ _ _ hg] at hk
    simp only [Geom.nodeC]; omega
  · have hn : ¬ ((G.C + G.gx - 1) / G.gx * G.gx < G.C) := by
      rw [← lt_ceil_div_iff _ _ _ hg]; omega
    simp only [Geom.nodeC, List.cons.injEq, and_true]; omega

/-- `d2Fn` subtracts the background exactly on the rows `subRows mode` of the loaded block -/
theorem d2Fn_subRows (mode : Mode) (G : Geom) (S : Stripe) (img B : Img ℝ) (r c : Nat) (hr : r < G.dn S) :
    d2Fn mode G S img B r c =
      if (subRows mode G S).1 ≤ r ∧ r < (subRows mode G S).2 then osub (cut G S img r c) (B (G.drmin S + r) c)
      else cut G S img r c := by
  cases mode
  · by_cases h : G.r0 S ≤ r ∧ r < G.rEnd S
    · simp [d2Fn, subRows, h.1, h.2]
    · have h' : ¬ (G.r0 S ≤ r ∧ r < G.rEnd S) := h
      rw [not_and] at h
      by_cases h1 : G.r0 S ≤ r
      · have h2 := h h1
        simp [d2Fn, subRows, h1, h2]
      · simp [d2Fn, subRows, h1]
  · simp [d2Fn, subRows, hr]

end Aegean.Proofs.C06
