/-
  C16 — the executable zenithal WCS (Aegean/Model/C16.lean, from FITS Paper II): for each of the five
  projections the co-latitude recovered from the native radius is the co-latitude one started from
  (`radial_inverse_*`), on the whole range the projection can show.

  NOT proved (stretch goal, left to the sampled correspondence against astropy: 1e-9 deg / 2e-6 px on
  every case): the composed `zenW2P (zenP2W p) = p`, i.e. that the Lean zenithal WCS itself satisfies
  `WcsLaws`.
-/
import Aegean.Proofs.Real
import Aegean.Model.C16
import Mathlib.Tactic.Linarith
import Mathlib.Tactic.FieldSimp
import Mathlib.Tactic.LinearCombination

namespace Aegean.C16
open Aegean.Model.C16 Real

/-- `atan2 (tan w) 1 = w` on (−π/2, π/2), with `tan` written as the code writes it -/
theorem arg_one_tan (w : ℝ) (h1 : -(π / 2) < w) (h2 : w < π / 2) :
    Complex.arg ⟨1, sin w / cos w⟩ = w := by
  have hc : 0 < cos w := Real.cos_pos_of_mem_Ioo ⟨h1, h2⟩
  have hr : 0 < 1 / cos w := by positivity
  have e : (⟨1, sin w / cos w⟩ : ℂ) = ((1 / cos w : ℝ) : ℂ) * (Complex.cos w + Complex.sin w * Complex.I) := by
    apply Complex.ext
    · simp [← Complex.ofReal_cos, ← Complex.ofReal_sin]; field_simp
    · simp [← Complex.ofReal_cos, ← Complex.ofReal_sin]; field_simp
  rw [e]
  exact Complex.arg_mul_cos_add_sin_mul_I hr ⟨by linarith [pi_pos], by linarith [pi_pos]⟩

/-- TAN (gnomonic): every co-latitude short of the horizon -/
theorem radial_inverse_TAN (z : ℝ) (h1 : -(π / 2) < z) (h2 : z < π / 2) :
    radialInv .TAN (radial .TAN z : ℝ) = z := by
  simp only [radial, radialInv, R.real_atan2, R.real_sin, R.real_cos, R.real_ofNat, Nat.cast_one]
  exact arg_one_tan z h1 h2

/-- SIN (orthographic): the whole visible hemisphere -/
theorem radial_inverse_SIN (z : ℝ) (h1 : -(π / 2) ≤ z) (h2 : z ≤ π / 2) :
    radialInv .SIN (radial .SIN z : ℝ) = z := by
  simp only [radial, radialInv, R.real_asin, R.real_sin]
  exact Real.arcsin_sin h1 h2

/-- ARC (zenithal equidistant): everywhere -/
theorem radial_inverse_ARC (z : ℝ) : radialInv .ARC (radial .ARC z : ℝ) = z := rfl

/-- STG (stereographic): everything but the antipode of the reference point -/
theorem radial_inverse_STG (z : ℝ) (h1 : -π < z) (h2 : z < π) :
    radialInv .STG (radial .STG z : ℝ) = z := by
  simp only [radial, radialInv, R.real_atan2, R.real_sin, R.real_cos, R.real_ofNat, Nat.cast_one, Nat.cast_ofNat]
  have e : 2 * (sin (z / 2) / cos (z / 2)) / 2 = sin (z / 2) / cos (z / 2) := by ring
  rw [e, arg_one_tan (z / 2) (by linarith) (by linarith)]; ring

/-- ZEA (zenithal equal area): the whole sphere -/
theorem radial_inverse_ZEA (z : ℝ) (h1 : -π ≤ z) (h2 : z ≤ π) :
    radialInv .ZEA (radial .ZEA z : ℝ) = z := by
  simp only [radial, radialInv, R.real_asin, R.real_sin, R.real_ofNat, Nat.cast_ofNat]
  have e : 2 * sin (z / 2) / 2 = sin (z / 2) := by ring
  rw [e, Real.arcsin_sin (by linarith) (by linarith)]; ring

/-- all five at once, on the range of co-latitudes that occurs in an image (less than a quadrant) -/
theorem radial_inverse (p : Proj) (z : ℝ) (h1 : 0 ≤ z) (h2 : z < π / 2) :
    radialInv p (radial p z : ℝ) = z := by
  cases p
  · exact radial_inverse_SIN z (by linarith [pi_pos]) h2.le
  · exact radial_inverse_TAN z (by linarith [pi_pos]) h2
  · exact radial_inverse_ZEA z (by linarith [pi_pos]) (by linarith [pi_pos])
  · exact radial_inverse_ARC z
  · exact radial_inverse_STG z (by linarith [pi_pos]) (by linarith [pi_pos])

/-- at the reference pixel the Lean zenithal WCS returns the reference value CRVAL, for every projection
    (the pixel offset is zero, the native radius is zero, the co-latitude is zero) -/
theorem radialInv_zero (p : Proj) : radialInv p (0 : ℝ) = 0 := by
  have h : Complex.arg ⟨1, 0⟩ = 0 := by
    have : (⟨1, 0⟩ : ℂ) = ((1 : ℝ) : ℂ) := by apply Complex.ext <;> simp
    rw [this]; exact Complex.arg_ofReal_of_nonneg zero_le_one
  cases p <;> simp [radialInv, h]

/-! ### the linear (CD / PC·CDELT / CROTA) part is invertible -/

/-- **lin_inverse**: `CD⁻¹ · (CD · (p − CRPIX)) + CRPIX = p` whenever the matrix is non-singular — so a
    rotated, skewed or mirrored pixel grid is inside the model -/
theorem lin_inverse (h : ZenHdr ℝ) (hdet : h.cd11 * h.cd22 - h.cd12 * h.cd21 ≠ 0) (p1 p2 : ℝ) :
    linInv h (linFwd h p1 p2).1 (linFwd h p1 p2).2 = (p1, p2) := by
  simp only [linInv, linFwd]
  have e1 : h.cd22 * (h.cd11 * (p1 - h.crpix1) + h.cd12 * (p2 - h.crpix2))
      - h.cd12 * (h.cd21 * (p1 - h.crpix1) + h.cd22 * (p2 - h.crpix2))
      = (h.cd11 * h.cd22 - h.cd12 * h.cd21) * (p1 - h.crpix1) := by ring
  have e2 : h.cd11 * (h.cd21 * (p1 - h.crpix1) + h.cd22 * (p2 - h.crpix2))
      - h.cd21 * (h.cd11 * (p1 - h.crpix1) + h.cd12 * (p2 - h.crpix2))
      = (h.cd11 * h.cd22 - h.cd12 * h.cd21) * (p2 - h.crpix2) := by ring
  rw [e1, e2, mul_div_cancel_left₀ _ hdet, mul_div_cancel_left₀ _ hdet]
  refine Prod.ext ?_ ?_ <;> simp

theorem lin_inverse' (h : ZenHdr ℝ) (hdet : h.cd11 * h.cd22 - h.cd12 * h.cd21 ≠ 0) (x y : ℝ) :
    linFwd h (linInv h x y).1 (linInv h x y).2 = (x, y) := by
  simp only [linInv, linFwd, add_sub_cancel_right]
  set D := h.cd11 * h.cd22 - h.cd12 * h.cd21 with hD
  have e1 : h.cd11 * ((h.cd22 * x - h.cd12 * y) / D) + h.cd12 * ((h.cd11 * y - h.cd21 * x) / D) = D * x / D := by
    rw [hD]; ring
  have e2 : h.cd21 * ((h.cd22 * x - h.cd12 * y) / D) + h.cd22 * ((h.cd11 * y - h.cd21 * x) / D) = D * y / D := by
    rw [hD]; ring
  rw [e1, e2, mul_div_cancel_left₀ _ hdet, mul_div_cancel_left₀ _ hdet]

/-- a rotation by ρ of a grid with pixel scales `s1, s2 ≠ 0` (the CROTA2 matrix) is non-singular -/
theorem crota_det (s1 s2 ρ : ℝ) (h1 : s1 ≠ 0) (h2 : s2 ≠ 0) :
    (s1 * cos ρ) * (s2 * cos ρ) - (-(s2 * sin ρ)) * (s1 * sin ρ) ≠ 0 := by
  have : (s1 * cos ρ) * (s2 * cos ρ) - (-(s2 * sin ρ)) * (s1 * sin ρ) = s1 * s2 := by
    linear_combination (s1 * s2) * (Real.sin_sq_add_cos_sq ρ)
  rw [this]; exact mul_ne_zero h1 h2

end Aegean.C16
