/-
  C18 — helper lemmas for `Aegean/Properties/C18.lean` (core Lean only, no Mathlib).
-/
import Aegean.Model.C18

namespace Aegean.Proofs.C18
open Aegean.Model.C18

variable {α : Type}

/-! ### classify_catalog -/

def Kind.cls : Kind → Cls
  | .comp => .component
  | .isle => .island
  | .simp => .simple

/-- the sources of exactly class `c`, in catalogue order -/
def ofClass (c : Cls) (cat : List (Src α)) : List (Src α) := cat.filter (fun s => decide (s.cls = c))

theorem classify_fold (cat : List (Src α)) (a b c : List (Src α)) :
    cat.foldl classifyStep (a, b, c) =
      (a ++ ofClass .component cat, b ++ ofClass .island cat, c ++ ofClass .simple cat) := by
  induction cat generalizing a b c with
  | nil => simp [ofClass]
  | cons s t ih =>
    rw [List.foldl_cons]
    cases h : s.cls <;>
      simp [classifyStep, h, Cls.isInstance, ih, ofClass, List.append_assoc]

theorem classify_eq (cat : List (Src α)) :
    classify cat = (ofClass .component cat, ofClass .island cat, ofClass .simple cat) := by
  unfold classify; rw [classify_fold]; simp

theorem ofClass_perm (cat : List (Src α)) :
    (ofClass .component cat ++ ofClass .island cat ++ ofClass .simple cat).Perm
      (cat.filter (fun s => decide (s.cls ≠ .other))) := by
  induction cat with
  | nil => simp [ofClass]
  | cons s t ih =>
    unfold ofClass at ih ⊢
    cases h : s.cls
    · simp only [List.filter_cons, h, decide_true, if_true, reduceCtorEq, decide_false,
        Bool.false_eq_true, if_false, ne_eq, not_false_eq_true, List.cons_append]
      exact List.Perm.cons s ih
    · simp only [List.filter_cons, h, decide_true, if_true, reduceCtorEq, decide_false,
        Bool.false_eq_true, if_false, ne_eq, not_false_eq_true, List.append_assoc, List.cons_append]
      rw [List.append_assoc] at ih
      exact List.perm_middle.trans (List.Perm.cons s ih)
    · simp only [List.filter_cons, h, decide_true, if_true, reduceCtorEq, decide_false,
        Bool.false_eq_true, if_false, ne_eq, not_false_eq_true]
      exact List.perm_middle.trans (List.Perm.cons s ih)
    · simp only [List.filter_cons, h, reduceCtorEq, decide_false,
        Bool.false_eq_true, if_false, ne_eq, not_true_eq_false]
      exact ih

/-! ### file names -/

theorem ite_pair_concat (p : Str) (d : Nat) (c : Prop) [Decidable c] :
    (if c then (p.take d, p.drop d) else (p, [])).1 ++ (if c then (p.take d, p.drop d) else (p, [])).2 = p := by
  by_cases h : c <;> simp [h]

theorem splitext_concat (p : Str) : (splitext p).1 ++ (splitext p).2 = p := by
  unfold splitext
  split
  · simp
  · split <;> exact ite_pair_concat _ _ _

theorem suffix_injective (k k' : Kind) (h : k.suffix = k'.suffix) : k = k' := by
  cases k <;> cases k' <;> first | rfl | (exact absurd h (by decide))

theorem suffix_length (k : Kind) : k.suffix.length = 5 := by cases k <;> decide

/-! ### table construction -/

theorem lookup_map_self {β : Type} (f : Str → β) (names : List Str) (n : Str) (h : n ∈ names) :
    (names.map (fun k => (k, f k))).lookup n = some (f n) := by
  induction names with
  | nil => cases h
  | cons a t ih =>
    simp only [List.map_cons, List.lookup_cons]
    by_cases e : n = a
    · subst e; simp
    · have : (n == a) = false := by simpa using e
      rw [this]
      exact ih (by cases h with | head => exact absurd rfl e | tail _ h' => exact h')

theorem lookup_map_none {β : Type} (f : Str → β) (names : List Str) (n : Str) (h : n ∉ names) :
    (names.map (fun k => (k, f k))).lookup n = none := by
  induction names with
  | nil => rfl
  | cons a t ih =>
    simp only [List.map_cons, List.lookup_cons]
    have e : n ≠ a := fun e => h (e ▸ List.mem_cons_self)
    have : (n == a) = false := by simpa using e
    rw [this]
    exact ih (fun h' => h (List.mem_cons_of_mem _ h'))

theorem colName_plain (n : Str) : colName [] false n = n := by simp [colName]

theorem mkTable_plain_col (names : List Str) (srcs : List (Src α)) (n : Str) (h : n ∈ names) :
    (mkTable [] false names srcs).col? n = some (srcs.map (fun s => s.get n)) := by
  unfold mkTable Table.col?
  simp only [colName_plain]
  exact lookup_map_self (fun n => srcs.map (fun s => s.get n)) names n h

theorem mkTable_plain_col_none (names : List Str) (srcs : List (Src α)) (n : Str) (h : n ∉ names) :
    (mkTable [] false names srcs).col? n = none := by
  unfold mkTable Table.col?
  simp only [colName_plain]
  exact lookup_map_none (fun n => srcs.map (fun s => s.get n)) names n h

theorem mapCells_col (g : Val α → Val α) (t : Table α) (n : Str) :
    (t.mapCells g).col? n = (t.col? n).map (fun c => c.map g) := by
  cases t with
  | mk cols =>
    unfold Table.mapCells Table.col?
    simp only
    induction cols with
    | nil => rfl
    | cons a rest ih =>
      obtain ⟨k, v⟩ := a
      simp only [List.map_cons, List.lookup_cons]
      cases (n == k) <;> simp [ih]

theorem mkTable_nrows (pre : Str) (g : Bool) (names : List Str) (srcs : List (Src α)) (h : names ≠ []) :
    (mkTable pre g names srcs).nrows = srcs.length := by
  cases names with
  | nil => exact absurd rfl h
  | cons a t => simp [mkTable, Table.nrows]

theorem mapCells_nrows (g : Val α → Val α) (t : Table α) : (t.mapCells g).nrows = t.nrows := by
  unfold Table.mapCells Table.nrows
  cases t.cols <;> simp

/-! ### sqlite rows -/

theorem filterMap_some_eq_map {β γ : Type} (f : β → γ) (l : List β) :
    l.filterMap (fun x => some (f x)) = l.map f := by
  induction l with
  | nil => rfl
  | cons a t ih => simp [ih]

/-! ### string widths -/

theorem foldl_max_ge_init (col : List (Val α)) (m : Nat) :
    m ≤ col.foldl (fun m v => max m v.strLen) m := by
  induction col generalizing m with
  | nil => exact Nat.le_refl _
  | cons a t ih => exact Nat.le_trans (Nat.le_max_left _ _) (ih _)

theorem foldl_max_ge_mem (col : List (Val α)) (m : Nat) (v : Val α) (h : v ∈ col) :
    v.strLen ≤ col.foldl (fun m v => max m v.strLen) m := by
  induction col generalizing m with
  | nil => cases h
  | cons a t ih =>
    cases h with
    | head => exact Nat.le_trans (Nat.le_max_right _ _) (foldl_max_ge_init t _)
    | tail _ h' => exact ih _ h'

/-- the column width chosen by the repaired code is at least the length of every entry -/
theorem maxLen_ge (col : List (Val α)) (v : Val α) (h : v ∈ col) : v.strLen ≤ maxLen col :=
  foldl_max_ge_mem col 0 v h

/-! ### table_to_source_list -/

theorem get_set (s : Src α) (n m : Str) (v : Val α) :
    (s.set n v).get m = if m = n then v else s.get m := by
  unfold Src.set Src.get
  simp only [List.lookup_cons]
  by_cases e : m = n
  · subst e; simp
  · have : (m == n) = false := by simpa using e
    simp [this, e]

/-- a masked cell gives the default `d` -/
def unmask (d : Val α) : Val α → Val α
  | .masked => d
  | v => v

theorem unmask_idem (d v : Val α) : unmask (unmask d v) v = unmask d v := by
  cases v <;> rfl

/-- the cell of column `m`, row `i`, or `d` when the column is absent or the cell is masked -/
def cellOr (t : Table α) (i : Nat) (m : Str) (d : Val α) : Val α :=
  match t.col? m with
  | none => d
  | some col => unmask d (col.getD i .none)

theorem cellOr_idem (t : Table α) (i : Nat) (m : Str) (d : Val α) :
    cellOr t i m (cellOr t i m d) = cellOr t i m d := by
  unfold cellOr
  cases hc : t.col? m with
  | none => rfl
  | some col => exact unmask_idem _ _

theorem rowStep_get (t : Table α) (i : Nat) (src : Src α) (p m : Str) :
    (rowStep t i src p).get m = if m = p then cellOr t i p (src.get p) else src.get m := by
  unfold rowStep cellOr
  cases t.col? p with
  | none => by_cases e : m = p <;> simp [e]
  | some col =>
    simp only
    generalize col.getD i .none = v
    cases v <;> simp only [get_set, unmask] <;> by_cases e : m = p <;> simp [e]

theorem rebuild_get (names : List Str) (t : Table α) (i : Nat) (src : Src α) (m : Str) :
    (names.foldl (rowStep t i) src).get m =
      if m ∈ names then cellOr t i m (src.get m) else src.get m := by
  induction names generalizing src with
  | nil => simp
  | cons p ps ih =>
    rw [List.foldl_cons, ih, rowStep_get]
    by_cases e : m = p
    · subst e
      by_cases hm : m ∈ ps <;> simp [hm, cellOr_idem]
    · by_cases hm : m ∈ ps <;> simp [hm, e]

end Aegean.Proofs.C18
