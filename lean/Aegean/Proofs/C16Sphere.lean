/-
  C16 — the regenerated sphere functions `Gen.C16.gcdSep / bear / translateRa / translateDec` are the
  hand formulas (re-proved on every run: robust to reordered factors, not to a changed constant or a
  dropped term), and the three `SphereLaws` fields that are plain periodicity / range facts.
-/
import Aegean.Proofs.C16Round

set_option linter.unusedSimpArgs false

namespace Aegean.C16
open Real
open Aegean.Model

/-! ### periodicity in right ascension -/

theorem sin_sq_half_turns (x : ℝ) (n : ℤ) : sin (x + n * π) ^ 2 = sin x ^ 2 := by
  rw [Real.sin_sq_eq_half_sub, Real.sin_sq_eq_half_sub x]
  have : 2 * (x + n * π) = 2 * x + n * (2 * π) := by ring
  rw [this, Real.cos_add_int_mul_two_pi]

theorem hand_gcd_periodic (ra1 dec1 ra2 dec2 : ℝ) (j k : ℤ) :
    C16Hand.gcdSep (ra1 + 360 * j) dec1 (ra2 + 360 * k) dec2 = C16Hand.gcdSep ra1 dec1 ra2 dec2 := by
  simp only [C16Hand.gcdSep, R.real_npow, R.real_sin, R.real_cos, R.real_ofNat, R.real_radians, Nat.cast_ofNat]
  have : (ra2 + 360 * (k : ℝ) - (ra1 + 360 * (j : ℝ))) * (π / 180) / 2
      = (ra2 - ra1) * (π / 180) / 2 + ((k - j : ℤ) : ℝ) * π := by
    push_cast; ring
  rw [this, sin_sq_half_turns]

theorem hand_bear_periodic (ra1 dec1 ra2 dec2 : ℝ) (j k : ℤ) :
    C16Hand.bear (ra1 + 360 * j) dec1 (ra2 + 360 * k) dec2 = C16Hand.bear ra1 dec1 ra2 dec2 := by
  simp only [C16Hand.bear, R.real_sin, R.real_cos, R.real_radians]
  have : (ra2 + 360 * (k : ℝ) - (ra1 + 360 * (j : ℝ))) * (π / 180)
      = (ra2 - ra1) * (π / 180) + ((k - j : ℤ) : ℝ) * (2 * π) := by
    push_cast; ring
  rw [this, Real.sin_add_int_mul_two_pi, Real.cos_add_int_mul_two_pi]

theorem gcd_periodic (ra1 dec1 ra2 dec2 : ℝ) (j k : ℤ) :
    Gen.C16.gcdSep (ra1 + 360 * j) dec1 (ra2 + 360 * k) dec2 = Gen.C16.gcdSep ra1 dec1 ra2 dec2 := by
  rw [gcdSep_eq_hand, gcdSep_eq_hand, hand_gcd_periodic]

theorem bear_periodic (ra1 dec1 ra2 dec2 : ℝ) (j k : ℤ) :
    Gen.C16.bear (ra1 + 360 * j) dec1 (ra2 + 360 * k) dec2 = Gen.C16.bear ra1 dec1 ra2 dec2 := by
  rw [bear_eq_hand, bear_eq_hand, hand_bear_periodic]

/-- `bear` is a position angle in (−180, 180] -/
theorem bear_range (ra1 dec1 ra2 dec2 : ℝ) :
    -180 < Gen.C16.bear ra1 dec1 ra2 dec2 ∧ Gen.C16.bear ra1 dec1 ra2 dec2 ≤ 180 := by
  rw [bear_eq_hand]
  simp only [C16Hand.bear, R.real_degrees, R.real_atan2]
  set z : ℂ := _
  have h1 := Complex.neg_pi_lt_arg z
  have h2 := Complex.arg_le_pi z
  have hp : 0 < 180 / π := by positivity
  constructor
  · have := mul_lt_mul_of_pos_right h1 hp
    have e : -π * (180 / π) = -180 := by field_simp
    linarith
  · have := mul_le_mul_of_nonneg_right h2 hp.le
    have e : π * (180 / π) = 180 := by field_simp
    linarith

end Aegean.C16
