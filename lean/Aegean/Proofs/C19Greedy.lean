/-
  C19 — the greedy (elliptical-distance) grouping `regroup_vectorized` / `regroup`:
  it is a partition of the catalogue into non-empty groups, every group is chain-connected within
  itself, the result does not depend on the row order of the catalogue (distinct declinations), and
  the flux relabelling touches nothing but the labels.  Core Lean only.
-/
import Aegean.Model.C19
import Aegean.Spec.C19
import Aegean.Proofs.C19Chain
namespace Aegean.C19
open Aegean.Model.C19 Aegean.Spec.C19

/-! ### 1. Partition -/

theorem placeRev_flatten_perm (near : Src → Src → Bool) (s : Src) :
    ∀ (gs gs' : List (List Src)), placeRev near s gs = some gs' →
      gs'.flatten.Perm (s :: gs.flatten)
  | [], _, h => by simp [placeRev] at h
  | g :: gs, gs', h => by
    unfold placeRev at h
    by_cases hn : g.any (near s) = true
    · rw [if_pos hn] at h
      cases h
      simp only [List.flatten_cons, List.append_assoc, List.singleton_append]
      exact List.perm_middle
    · rw [if_neg hn] at h
      cases hr : placeRev near s gs with
      | none => rw [hr] at h; cases h
      | some r =>
        rw [hr] at h
        cases h
        have ih := placeRev_flatten_perm near s gs r hr
        simp only [List.flatten_cons]
        exact (List.Perm.append_left g ih).trans List.perm_middle

theorem greedyStep_flatten_perm (near : Src → Src → Bool) (acc : List (List Src)) (s : Src) :
    (greedyStep near acc s).flatten.Perm (s :: acc.flatten) := by
  unfold greedyStep
  cases hr : placeRev near s acc with
  | none => exact List.Perm.refl _
  | some r => exact placeRev_flatten_perm near s acc r hr

theorem foldl_greedyStep_flatten_perm (near : Src → Src → Bool) :
    ∀ (l : List Src) (acc : List (List Src)),
      (l.foldl (greedyStep near) acc).flatten.Perm (l ++ acc.flatten)
  | [], acc => List.Perm.refl _
  | x :: l, acc => by
    simp only [List.foldl_cons, List.cons_append]
    refine (foldl_greedyStep_flatten_perm near l (greedyStep near acc x)).trans ?_
    refine (List.Perm.append_left l (greedyStep_flatten_perm near acc x)).trans ?_
    exact List.perm_middle

theorem decOrder_perm (cat : List Src) : (decOrder cat).Perm cat :=
  (List.reverse_perm _).trans (List.mergeSort_perm cat decLe)

theorem greedyRev_flatten_perm (near : Src → Src → Bool) (l : List Src) :
    (greedyRev near l).flatten.Perm l := by
  have h := foldl_greedyStep_flatten_perm near l []
  simpa [greedyRev] using h

theorem greedy_partition (near : Src → Src → Bool) (cat : List Src) :
    (greedy near cat).flatten.Perm cat := by
  unfold greedy
  exact ((List.reverse_perm _).flatten.trans (greedyRev_flatten_perm near _)).trans
    (decOrder_perm cat)

/-! ### A general invariant principle for the groups -/

theorem placeRev_forall (near : Src → Src → Bool) (s : Src) (P : List Src → Prop)
    (happ : ∀ g, P g → g.any (near s) = true → P (g ++ [s])) :
    ∀ (gs gs' : List (List Src)), placeRev near s gs = some gs' →
      (∀ g ∈ gs, P g) → ∀ g ∈ gs', P g
  | [], _, h, _ => by simp [placeRev] at h
  | g :: gs, gs', h, hP => by
    unfold placeRev at h
    by_cases hn : g.any (near s) = true
    · rw [if_pos hn] at h
      cases h
      intro g' hg'
      rcases List.mem_cons.1 hg' with rfl | hg'
      · exact happ g (hP g List.mem_cons_self) hn
      · exact hP g' (List.mem_cons_of_mem _ hg')
    · rw [if_neg hn] at h
      cases hr : placeRev near s gs with
      | none => rw [hr] at h; cases h
      | some r =>
        rw [hr] at h
        cases h
        have ih := placeRev_forall near s P happ gs r hr
          (fun g' hg' => hP g' (List.mem_cons_of_mem _ hg'))
        intro g' hg'
        rcases List.mem_cons.1 hg' with rfl | hg'
        · exact hP _ List.mem_cons_self
        · exact ih g' hg'

theorem greedyStep_forall (near : Src → Src → Bool) (s : Src) (P : List Src → Prop)
    (hs : P [s]) (happ : ∀ g, P g → g.any (near s) = true → P (g ++ [s]))
    (acc : List (List Src)) (hP : ∀ g ∈ acc, P g) : ∀ g ∈ greedyStep near acc s, P g := by
  unfold greedyStep
  cases hr : placeRev near s acc with
  | none =>
    intro g hg
    rcases List.mem_cons.1 hg with rfl | hg
    · exact hs
    · exact hP g hg
  | some r => exact placeRev_forall near s P happ acc r hr hP

theorem foldl_greedyStep_forall (near : Src → Src → Bool) (P : List Src → Prop)
    (hs : ∀ s, P [s]) (happ : ∀ g s, P g → g.any (near s) = true → P (g ++ [s])) :
    ∀ (l : List Src) (acc : List (List Src)), (∀ g ∈ acc, P g) →
      ∀ g ∈ l.foldl (greedyStep near) acc, P g
  | [], _, hP => hP
  | x :: l, acc, hP => by
    simp only [List.foldl_cons]
    exact foldl_greedyStep_forall near P hs happ l _
      (greedyStep_forall near x P (hs x) (fun g => happ g x) acc hP)

/-- an invariant of "start a group" and "append a near source" holds of every greedy group -/
theorem greedy_forall (near : Src → Src → Bool) (P : List Src → Prop)
    (hs : ∀ s, P [s]) (happ : ∀ g s, P g → g.any (near s) = true → P (g ++ [s]))
    (cat : List Src) : ∀ g ∈ greedy near cat, P g := by
  intro g hg
  unfold greedy at hg
  rw [List.mem_reverse] at hg
  exact foldl_greedyStep_forall near P hs happ (decOrder cat) [] (by simp) g hg

/-! ### 2. No empty group -/

theorem greedy_nonempty (near : Src → Src → Bool) (cat : List Src) :
    ∀ g ∈ greedy near cat, g ≠ [] :=
  greedy_forall near (fun g => g ≠ []) (fun _ => by simp) (fun _ _ _ _ => by simp) cat

/-! ### 4. Independence of the row order -/

theorem dec_inj_of_pairwise : ∀ (l : List Src), l.Pairwise (fun a b => a.dec ≠ b.dec) →
    ∀ a ∈ l, ∀ b ∈ l, a.dec = b.dec → a = b
  | [], _, a, ha, _, _, _ => by cases ha
  | x :: xs, h, a, ha, b, hb, hab => by
    rw [List.pairwise_cons] at h
    rcases List.mem_cons.1 ha with hax | hax
    · rcases List.mem_cons.1 hb with hbx | hbx
      · rw [hax, hbx]
      · exact absurd (hax ▸ hab) (h.1 b hbx)
    · rcases List.mem_cons.1 hb with hbx | hbx
      · exact absurd (hbx ▸ hab.symm) (h.1 a hax)
      · exact dec_inj_of_pairwise xs h.2 a hax b hbx hab

theorem decLe_trans (a b c : Src) (h₁ : decLe a b = true) (h₂ : decLe b c = true) :
    decLe a c = true := by
  simp only [decLe, decide_eq_true_eq] at *
  exact Int.le_trans h₁ h₂

theorem decLe_total (a b : Src) : (decLe a b || decLe b a) = true := by
  simp only [decLe, Bool.or_eq_true, decide_eq_true_eq]
  exact Int.le_total _ _

theorem mergeSort_decLe_pairwise (cat : List Src) :
    (cat.mergeSort decLe).Pairwise (fun a b => decLe a b = true) :=
  List.pairwise_mergeSort decLe_trans decLe_total cat

theorem mergeSort_decLe_perm_invariant (cat₁ cat₂ : List Src) (hp : cat₁.Perm cat₂)
    (hd : cat₁.Pairwise (fun a b => a.dec ≠ b.dec)) :
    cat₁.mergeSort decLe = cat₂.mergeSort decLe := by
  have hperm : (cat₁.mergeSort decLe).Perm (cat₂.mergeSort decLe) :=
    ((List.mergeSort_perm cat₁ decLe).trans hp).trans (List.mergeSort_perm cat₂ decLe).symm
  refine List.Perm.eq_of_pairwise (le := fun a b => decLe a b = true) ?_
    (mergeSort_decLe_pairwise cat₁) (mergeSort_decLe_pairwise cat₂) hperm
  intro a b ha hb hab hba
  have ha' : a ∈ cat₁ := (List.mergeSort_perm cat₁ decLe).subset ha
  have hb' : b ∈ cat₁ := hp.symm.subset ((List.mergeSort_perm cat₂ decLe).subset hb)
  simp only [decLe, decide_eq_true_eq] at hab hba
  exact dec_inj_of_pairwise cat₁ hd a ha' b hb' (Int.le_antisymm hab hba)

theorem decOrder_perm_invariant (cat₁ cat₂ : List Src) (hp : cat₁.Perm cat₂)
    (hd : cat₁.Pairwise (fun a b => a.dec ≠ b.dec)) : decOrder cat₁ = decOrder cat₂ := by
  unfold decOrder
  rw [mergeSort_decLe_perm_invariant cat₁ cat₂ hp hd]

/-! ### 5. … hence of the groups -/

theorem greedy_perm_invariant (near : Src → Src → Bool) (cat₁ cat₂ : List Src)
    (hp : cat₁.Perm cat₂) (hd : cat₁.Pairwise (fun a b => a.dec ≠ b.dec)) :
    greedy near cat₁ = greedy near cat₂ := by
  unfold greedy
  rw [decOrder_perm_invariant cat₁ cat₂ hp hd]

theorem regroupGreedy_perm_invariant (near : Src → Src → Bool) (cat₁ cat₂ : List Src)
    (hp : cat₁.Perm cat₂) (hd : cat₁.Pairwise (fun a b => a.dec ≠ b.dec)) :
    regroupGreedy near cat₁ = regroupGreedy near cat₂ := by
  unfold regroupGreedy
  rw [greedy_perm_invariant near cat₁ cat₂ hp hd]

/-! ### 6. Relabelling changes labels only -/

theorem relabelGroup_unlabel (k : Nat) (g : List Src) :
    (relabelGroup k g).map unlabel = g.map unlabel := by
  unfold relabelGroup
  rw [List.map_map]
  rfl

theorem zipIdx_relabel_unlabel : ∀ (l : List (List Src)) (n : Nat),
    ((l.zipIdx n).map fun (g, k) => relabelGroup k g).map (fun g => g.map unlabel)
      = l.map (fun g => g.map unlabel)
  | [], _ => rfl
  | g :: l, n => by
    simp only [List.zipIdx_cons, List.map_cons]
    rw [relabelGroup_unlabel, zipIdx_relabel_unlabel l (n + 1)]

theorem regroupGreedy_unlabel (near : Src → Src → Bool) (cat : List Src) :
    (regroupGreedy near cat).map (fun g => g.map unlabel)
      = (greedy near cat).map (fun g => g.map unlabel) := by
  unfold regroupGreedy
  exact zipIdx_relabel_unlabel (greedy near cat) 0

theorem regroupGreedy_length (near : Src → Src → Bool) (cat : List Src) :
    (regroupGreedy near cat).length = (greedy near cat).length := by
  unfold regroupGreedy
  rw [List.length_map, List.length_zipIdx]

/-! ### 3. Every group is chain-connected within itself -/

/-- all members of `g` are joined by chains of links between members of `g` -/
def Connected (near : Src → Src → Bool) (g : List Src) : Prop :=
  ∀ a ∈ g, ∀ b ∈ g, Chain (SrcLink near g) a b

theorem connected_single (near : Src → Src → Bool) (s : Src) : Connected near [s] := by
  intro a ha b hb
  rw [List.mem_singleton] at ha hb
  subst ha; subst hb
  exact Chain.refl _

theorem connected_snoc (near : Src → Src → Bool) (g : List Src) (s : Src)
    (hg : Connected near g) (hn : g.any (near s) = true) : Connected near (g ++ [s]) := by
  rw [List.any_eq_true] at hn
  obtain ⟨t, ht, hst⟩ := hn
  have htm : t ∈ g ++ [s] := List.mem_append_left _ ht
  have hsm : s ∈ g ++ [s] := List.mem_append_right _ (List.mem_singleton.2 rfl)
  have hmono : ∀ x y, SrcLink near g x y → SrcLink near (g ++ [s]) x y :=
    fun x y h => ⟨List.mem_append_left _ h.1, List.mem_append_left _ h.2.1, h.2.2⟩
  have toT : ∀ a ∈ g ++ [s], Chain (SrcLink near (g ++ [s])) a t := by
    intro a ha
    rcases List.mem_append.1 ha with ha | ha
    · exact Chain.mono hmono (hg a ha t ht)
    · rw [List.mem_singleton] at ha
      subst ha
      exact Chain.single ⟨hsm, htm, Or.inl hst⟩
  intro a ha b hb
  exact (toT a ha).trans (Chain.symm (srcLink_symm near _) (toT b hb))

theorem greedy_chain_connected (near : Src → Src → Bool) (cat : List Src) :
    ∀ g ∈ greedy near cat, ∀ a ∈ g, ∀ b ∈ g, Chain (SrcLink near g) a b :=
  greedy_forall near (Connected near) (connected_single near) (connected_snoc near) cat

/-! ### 7. Non-vacuity -/

private def mkSrc (i : Nat) (d : Int) : Src :=
  { id := i, flux := 1, dec := d, island := 0, source := 0, rest := 0 }

/-- sources 1 and 2 are near each other, source 3 is far from both -/
private def nearEx (a b : Src) : Bool := decide (a.id + b.id = 3)

private def catEx : List Src := [mkSrc 1 10, mkSrc 2 20, mkSrc 3 30]

private theorem decOrder_catEx : decOrder catEx = [mkSrc 3 30, mkSrc 2 20, mkSrc 1 10] := by
  unfold decOrder
  rw [List.mergeSort_of_pairwise (le := decLe) (l := catEx) (by decide)]
  decide

example : greedy nearEx catEx = [[mkSrc 3 30], [mkSrc 2 20, mkSrc 1 10]] := by
  unfold greedy
  rw [decOrder_catEx]
  decide

example : (greedy nearEx catEx).length = 2 := by
  unfold greedy
  rw [decOrder_catEx]
  decide

end Aegean.C19
