/-
  C08 — the simulation between the model (`Model.C08.step`) and the set-algebra Spec
  (`Spec.C08.step`): one step, then whole histories.  Core Lean only.
-/
import Aegean.Proofs.C08Ops
import Aegean.Spec.C08

namespace Aegean.Proofs.C08
open Aegean.Model.C08
namespace SpecL
open Aegean.Spec.C08

theorem mem_dedup {a : Nat} : ∀ {l : List Nat}, a ∈ Aegean.Spec.C08.dedup l ↔ a ∈ l
  | [] => by simp [Aegean.Spec.C08.dedup]
  | b :: l => by
    by_cases h : b ∈ l
    · simp only [Aegean.Spec.C08.dedup, if_pos h, List.mem_cons, mem_dedup (l := l)]
      constructor
      · exact Or.inr
      · rintro (rfl | h') <;> assumption
    · simp only [Aegean.Spec.C08.dedup, if_neg h, List.mem_cons, mem_dedup (l := l)]

theorem nodup_dedup : ∀ (l : List Nat), (Aegean.Spec.C08.dedup l).Nodup
  | [] => by simp [Aegean.Spec.C08.dedup]
  | b :: l => by
    by_cases h : b ∈ l
    · simp only [Aegean.Spec.C08.dedup, if_pos h]; exact nodup_dedup l
    · simp only [Aegean.Spec.C08.dedup, if_neg h, List.nodup_cons, mem_dedup]
      exact ⟨h, nodup_dedup l⟩

theorem mem_below {k p q : Nat} : q ∈ below k p ↔ q / 4 ^ k = p :=
  Aegean.Proofs.C08.mem_desc (k := k) (p := p) (q := q)

end SpecL

abbrev SS := Aegean.Spec.C08.S
abbrev SOp := Aegean.Spec.C08.Op
abbrev SObs := Aegean.Spec.C08.Obs
abbrev SErr := Aegean.Spec.C08.Err

/-- an operand region, seen by the Spec: its depth and the set of deepest pixels it covers -/
def absS (o : Region) : SS := ⟨o.m, absList o⟩

/-- what each operation of the code *means* on sky sets -/
def absOp : Op → SOp
  | .addRaw ps d => .add ps d
  | .add ps d => .add ps d
  | .renorm => .skip
  | .union o _ => .union (absS o)
  | .without o => .without (absS o)
  | .intersect o => .intersect (absS o)
  | .symdiff o => .symdiff (absS o)
  | .getDemoted => .getDemoted
  | .area => .area
  | .within q => .within q
  | .saveLoad => .skip

def errMap : Err → SErr
  | .assertion => .assertion
  | .badDepth => .badDepth

/-- arguments are what healpy / a caller can supply: valid pixel ids for the stated level, and
    operand regions that are themselves valid (e.g. reachable) -/
def OpOk : Op → Prop
  | .addRaw ps d => ∀ p, p ∈ ps → p < 12 * 4 ^ d
  | .add ps d => ∀ p, p ∈ ps → p < 12 * 4 ^ d
  | .union o _ => Valid o
  | .without o => Valid o
  | .intersect o => Valid o
  | .symdiff o => Valid o
  | _ => True

/-- the alphabet every in-repo caller uses: pixels are added through `add_circles` / `add_poly`
    (i.e. `add_pixels` + `_renorm`) and `union` keeps its default `renorm=True` -/
def Normalising : Op → Prop
  | .addRaw _ _ => False
  | .union _ b => b = true
  | _ => True

/-- simulation relation: the Spec's set is exactly the set of deepest pixels the region covers -/
def Rel (r : Region) (s : SS) : Prop := s.m = r.m ∧ ∀ q, q ∈ s.pix ↔ abs r q

/-- equality of observations.  Pixel sets are compared as sets (and the model's list must not
    repeat); the area is compared when `strict` holds. -/
def ObsEq (strict : Prop) : Obs → SObs → Prop
  | .none, .none => True
  | .pixels l, .pixels l' => l.Nodup ∧ ∀ q, q ∈ l ↔ q ∈ l'
  | .area n, .area n' => strict → n = n'
  | .answer b, .answer b' => b = b'
  | _, _ => False

theorem mem_absList' {o : Region} {q : Nat} : q ∈ absList o ↔ abs o q := mem_absList

theorem contains_absList_false {o : Region} {q : Nat} : (absList o).contains q = false ↔ ¬ abs o q := by
  rw [← mem_absList' (o := o)]; simp

theorem rel_absS {o : Region} : Rel o (absS o) := ⟨rfl, fun _ => mem_absList⟩

theorem mem_regrid {m : Nat} {o : Region} {q : Nat} :
    q ∈ Aegean.Spec.C08.regrid m (absS o) ↔ regridP m o q := by
  unfold Aegean.Spec.C08.regrid regridP absS
  by_cases h : o.m ≤ m
  · simp only [if_pos h, List.mem_flatMap, SpecL.mem_below, mem_absList]
    constructor
    · rintro ⟨a, ha, e⟩; rw [e]; exact ha
    · intro ha; exact ⟨_, ha, rfl⟩
  · simp only [if_neg h, List.mem_map, mem_absList]
    rfl

/-- **one step**: from related states, the model and the Spec either both fail with the same
    error, or both succeed, in related states, with equal observations; validity is kept, and
    "no patch of sky twice" is kept by every normalising operation. -/
theorem step_refines {r : Region} {s : SS} (op : Op) (hv : Valid r) (hok : OpOk op) (hrel : Rel r s) :
    (∃ r' ob s' sob, step r op = .ok (r', ob) ∧ Aegean.Spec.C08.step s (absOp op) = .ok (s', sob) ∧
        Valid r' ∧ r'.m = r.m ∧ Rel r' s' ∧ ObsEq (NoDC r) ob sob ∧
        (NoDC r → Normalising op → NoDC r')) ∨
    (∃ e, step r op = .error e ∧ Aegean.Spec.C08.step s (absOp op) = .error (errMap e)) := by
  obtain ⟨hsm, hsp⟩ := hrel
  cases op with
  | addRaw ps d =>
    by_cases hd : 1 ≤ d ∧ d ≤ r.m
    · left
      obtain ⟨v, m', a⟩ := addPixels_spec hv hd hok
      have hd' : 1 ≤ d ∧ d ≤ s.m := by rw [hsm]; exact hd
      refine ⟨addPixels r ps d, .none, { s with pix := s.pix ++ ps.flatMap (Aegean.Spec.C08.below (s.m - d)) },
        .none, by simp only [step, if_pos hd], by
        simp only [absOp, Aegean.Spec.C08.step, if_pos hd'], v, m', ⟨hsm, fun q => ?_⟩, trivial,
        fun _ h => h.elim⟩
      simp only [List.mem_append, List.mem_flatMap, SpecL.mem_below, hsp q, a q, hsm]
      constructor
      · rintro (h | ⟨p, hp, e⟩)
        · exact Or.inl h
        · rw [e]; exact Or.inr hp
      · rintro (h | h)
        · exact Or.inl h
        · exact Or.inr ⟨_, h, rfl⟩
    · right
      exact ⟨.badDepth, by simp only [step, if_neg hd], by
        have hd' : ¬ (1 ≤ d ∧ d ≤ s.m) := by rw [hsm]; exact hd
        simp only [absOp, Aegean.Spec.C08.step, if_neg hd', errMap]⟩
  | add ps d =>
    by_cases hd : 1 ≤ d ∧ d ≤ r.m
    · left
      obtain ⟨v, m', a⟩ := addPixels_spec hv hd hok
      obtain ⟨v2, m2, d2, a2, _⟩ := renorm_spec v
      have hd' : 1 ≤ d ∧ d ≤ s.m := by rw [hsm]; exact hd
      refine ⟨renorm (addPixels r ps d), .none,
        { s with pix := s.pix ++ ps.flatMap (Aegean.Spec.C08.below (s.m - d)) }, .none,
        by simp only [step, if_pos hd], by
        simp only [absOp, Aegean.Spec.C08.step, if_pos hd'], v2, by rw [m2, m'],
        ⟨by rw [m2, m']; exact hsm, fun q => ?_⟩, trivial, fun _ _ => d2⟩
      simp only [List.mem_append, List.mem_flatMap, SpecL.mem_below, hsp q, a2 q, a q, hsm]
      constructor
      · rintro (h | ⟨p, hp, e⟩)
        · exact Or.inl h
        · rw [e]; exact Or.inr hp
      · rintro (h | h)
        · exact Or.inl h
        · exact Or.inr ⟨_, h, rfl⟩
    · right
      exact ⟨.badDepth, by simp only [step, if_neg hd], by
        have hd' : ¬ (1 ≤ d ∧ d ≤ s.m) := by rw [hsm]; exact hd
        simp only [absOp, Aegean.Spec.C08.step, if_neg hd', errMap]⟩
  | renorm =>
    left
    obtain ⟨v2, m2, d2, a2, _⟩ := renorm_spec hv
    exact ⟨renorm r, .none, s, .none, rfl, rfl, v2, m2, ⟨by rw [m2]; exact hsm, fun q => by rw [hsp q, a2 q]⟩,
      trivial, fun _ _ => d2⟩
  | union o b =>
    left
    obtain ⟨v, m', a⟩ := unionRaw_spec hv hok
    have hmem : ∀ q, q ∈ s.pix ++ Aegean.Spec.C08.regrid s.m (absS o) ↔ abs (unionRaw r o) q := by
      intro q
      rw [List.mem_append, hsp q, a q, hsm, mem_regrid]
    cases b with
    | true =>
      obtain ⟨v2, m2, d2, a2, _⟩ := renorm_spec v
      exact ⟨renorm (unionRaw r o), .none, { s with pix := s.pix ++ Aegean.Spec.C08.regrid s.m (absS o) }, .none,
        rfl, rfl, v2, by rw [m2, m'], ⟨by rw [m2, m']; exact hsm,
        fun q => by rw [a2 q]; exact hmem q⟩, trivial, fun _ _ => d2⟩
    | false =>
      exact ⟨unionRaw r o, .none, { s with pix := s.pix ++ Aegean.Spec.C08.regrid s.m (absS o) }, .none,
        rfl, rfl, v, m', ⟨by rw [m']; exact hsm, hmem⟩, trivial,
        fun _ h => by simp [Normalising] at h⟩
  | without o =>
    by_cases hm : r.m = o.m
    · left
      obtain ⟨r', e, v, m', d', a, _⟩ := combineWith_spec diffL (fun a b => a ∧ ¬ b)
        (fun a b ha _ => nodup_filter _ ha) (fun a b x => mem_diffL) (fun a b h => Or.inl h.1)
        (fun a a' b b' h1 h2 => by rw [h1, h2]) hv hok hm
      have hm' : ¬ (s.m ≠ (absS o).m) := by simp [absS, hsm, hm]
      refine ⟨r', .none, { s with pix := s.pix.filter (fun q => !(absS o).pix.contains q) }, .none,
        by simp only [step, e]; rfl, by
        simp only [absOp, Aegean.Spec.C08.step, if_neg hm'],
        v, m', ⟨by rw [m']; exact hsm, fun q => ?_⟩, trivial, fun _ _ => d'⟩
      simp only [absS, List.mem_filter, Bool.not_eq_true', hsp q, a q, contains_absList_false]
    · right
      have hm' : s.m ≠ (absS o).m := by simp [absS, hsm, hm]
      refine ⟨.assertion, by simp only [step, combineWith, ne_eq, hm, not_false_eq_true, if_true]; rfl, by
        simp only [absOp, Aegean.Spec.C08.step, if_pos hm', errMap]⟩
  | intersect o =>
    by_cases hm : r.m = o.m
    · left
      obtain ⟨r', e, v, m', d', a, _⟩ := combineWith_spec interL (fun a b => a ∧ b)
        (fun a b ha _ => nodup_filter _ ha) (fun a b x => mem_interL) (fun a b h => Or.inl h.1)
        (fun a a' b b' h1 h2 => by rw [h1, h2]) hv hok hm
      have hm' : ¬ (s.m ≠ (absS o).m) := by simp [absS, hsm, hm]
      refine ⟨r', .none, { s with pix := s.pix.filter (fun q => (absS o).pix.contains q) }, .none,
        by simp only [step, e]; rfl, by
        simp only [absOp, Aegean.Spec.C08.step, if_neg hm'],
        v, m', ⟨by rw [m']; exact hsm, fun q => ?_⟩, trivial, fun _ _ => d'⟩
      simp only [absS, List.mem_filter, List.contains_iff_mem, hsp q, a q, mem_absList']
    · right
      have hm' : s.m ≠ (absS o).m := by simp [absS, hsm, hm]
      refine ⟨.assertion, by simp only [step, combineWith, ne_eq, hm, not_false_eq_true, if_true]; rfl, by
        simp only [absOp, Aegean.Spec.C08.step, if_pos hm', errMap]⟩
  | symdiff o =>
    by_cases hm : r.m = o.m
    · left
      obtain ⟨r', e, v, m', d', a, _⟩ := combineWith_spec symL (fun a b => (a ∧ ¬ b) ∨ (b ∧ ¬ a))
        (fun a b ha hb => nodup_symL ha hb) (fun a b x => mem_symL)
        (fun a b h => h.elim (fun h => Or.inl h.1) (fun h => Or.inr h.1))
        (fun a a' b b' h1 h2 => by rw [h1, h2]) hv hok hm
      have hm' : ¬ (s.m ≠ (absS o).m) := by simp [absS, hsm, hm]
      refine ⟨r', .none, ⟨s.m, s.pix.filter (fun q => !(absS o).pix.contains q) ++
          (absS o).pix.filter (fun q => !s.pix.contains q)⟩, .none,
        by simp only [step, e]; rfl, by
        simp only [absOp, Aegean.Spec.C08.step, if_neg hm'],
        v, m', ⟨by rw [m']; exact hsm, fun q => ?_⟩, trivial, fun _ _ => d'⟩
      have h2 : s.pix.contains q = false ↔ ¬ abs r q := by
        rw [← hsp q]; simp
      simp only [absS, List.mem_append, List.mem_filter, Bool.not_eq_true', a q, mem_absList',
        contains_absList_false, h2, hsp q]
    · right
      have hm' : s.m ≠ (absS o).m := by simp [absS, hsm, hm]
      refine ⟨.assertion, by simp only [step, combineWith, ne_eq, hm, not_false_eq_true, if_true]; rfl, by
        simp only [absOp, Aegean.Spec.C08.step, if_pos hm', errMap]⟩
  | getDemoted =>
    left
    obtain ⟨v, m', _, _, a⟩ := demoteAll_spec hv
    refine ⟨demoteAll r, .pixels ((demoteAll r).pd (demoteAll r).m), s, .pixels s.pix, rfl, rfl, v, m',
      ⟨by rw [m']; exact hsm, fun q => by rw [hsp q, a q]⟩,
      ⟨v.nodup _, fun q => ?_⟩, fun _ _ => noDC_demoteAll hv⟩
    rw [mem_demoted hv q, hsp q]
  | area =>
    left
    refine ⟨r, .area (area r), s, .area (Aegean.Spec.C08.dedup s.pix).length, rfl, rfl, hv, rfl, ⟨hsm, hsp⟩,
      fun hd => ?_, fun h _ => h⟩
    exact area_eq_card hv.nodup hd (SpecL.nodup_dedup _) (fun q => by rw [SpecL.mem_dedup, hsp q]; rfl)
  | within q =>
    left
    obtain ⟨v, m', _, _, a⟩ := demoteAll_spec hv
    refine ⟨demoteAll r, .answer (((demoteAll r).pd (demoteAll r).m).contains q), s, .answer (s.pix.contains q),
      rfl, rfl, v, m', ⟨by rw [m']; exact hsm, fun q => by rw [hsp q, a q]⟩,
      ?_, fun _ _ => noDC_demoteAll hv⟩
    show ((demoteAll r).pd (demoteAll r).m).contains q = s.pix.contains q
    rw [Bool.eq_iff_iff, List.contains_iff_mem, List.contains_iff_mem, mem_demoted hv q, hsp q]
  | saveLoad =>
    left
    exact ⟨r, .none, s, .none, rfl, rfl, hv, rfl, ⟨hsm, hsp⟩, trivial, fun h _ => h⟩

end Aegean.Proofs.C08
