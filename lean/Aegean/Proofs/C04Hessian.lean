/-
  C04 — OBSERVATION (not part of the C04 verdict; this file is not imported by
  `Aegean/Properties/C04.lean`): the second-derivative expressions of `fitting.hessian`
  (regenerated as `Gen.C04.h_P_Q`) against the true second derivatives, i.e. the derivatives of
  the regenerated Jacobian entries `Gen.C04.dmd*`, every parameter in its own units (theta in
  degrees).

  `fitting.hessian` is not handed to the optimiser (it feeds `RB_bias` / `bias_correct`), so the
  property C04 as stated does not cover it.  What is recorded here:

  * entries that ARE the true second derivatives: `HasDerivAt` theorems `hess_P_Q`;
  * `H(amp, xo)` is `amp` times too large (`*= model` where the neighbouring entries have
    `*= model/amp`): `hess_amp_xo_off_by_amp`;
  * every entry involving theta is per RADIAN: the true mixed derivative (per degree) is
    `(π/180)·h_P_theta` (`hess_P_theta_per_radian`), and `(π/180)²·h_theta_theta`.
-/
import Aegean.Properties.C04

set_option linter.unusedVariables false
set_option linter.unusedSimpArgs false

attribute [-instance] R.toAdd R.toSub R.toMul R.toDiv R.toNeg

namespace Aegean.C04Hessian
open Gen.C04 Aegean.C04Canon Aegean.C04Real Aegean.Properties.C04

/-- rewrite a regenerated term into Mathlib syntax -/
macro "rsimp" "[" ds:Lean.Parser.Tactic.simpLemma,* "]" : tactic =>
  `(tactic| simp only [$ds,*, r_add, r_sub, r_mul, r_div, r_neg, r_radians, R.real_sin, R.real_cos, R.real_exp,
    R.real_npow, R.real_ofNat, R.real_ofSci, R.real_pi, Nat.cast_ofNat, Nat.cast_one, Nat.cast_zero])

theorem feq {f g : ℝ → ℝ} (h : ∀ v, f v = g v) : f = g := funext h

/-! ### the amplitude row: every first derivative is linear in `amp` -/

theorem D_xo_lin (x y v xo yo sx sy th : ℝ) : D_xo x y v xo yo sx sy th = v * D_xo x y 1 xo yo sx sy th := by
  unfold D_xo G; ring
theorem D_yo_lin (x y v xo yo sx sy th : ℝ) : D_yo x y v xo yo sx sy th = v * D_yo x y 1 xo yo sx sy th := by
  unfold D_yo G; ring
theorem D_sx_lin (x y v xo yo sx sy th : ℝ) : D_sx x y v xo yo sx sy th = v * D_sx x y 1 xo yo sx sy th := by
  unfold D_sx G; ring
theorem D_sy_lin (x y v xo yo sx sy th : ℝ) : D_sy x y v xo yo sx sy th = v * D_sy x y 1 xo yo sx sy th := by
  unfold D_sy G; ring
theorem D_theta_lin (x y v xo yo sx sy th : ℝ) :
    D_theta x y v xo yo sx sy th = v * D_theta x y 1 xo yo sx sy th := by
  unfold D_theta G; ring

theorem lin_deriv (c a : ℝ) : HasDerivAt (fun v : ℝ => v * c) c a := by
  simpa using (hasDerivAt_id a).mul_const c

/-- ∂/∂amp of `dmdyo` is `h_amp_yo` -/
theorem hess_amp_yo (x y amp xo yo sx sy th : ℝ) (hamp : amp ≠ 0) (hsx : sx ≠ 0) (hsy : sy ≠ 0) :
    HasDerivAt (fun v => dmdyo x y v xo yo sx sy th) (h_amp_yo x y amp xo yo sx sy th) amp := by
  rw [feq (fun v => (dmdyo_eq_canon x y v xo yo sx sy th hsx hsy).symm), feq (fun v => D_yo_lin x y v xo yo sx sy th)]
  refine (lin_deriv _ amp).congr_deriv ?_
  rsimp [h_amp_yo]
  rw [gauss_eq_canon]; unfold D_yo U W rad G; field_simp; ring

theorem hess_amp_sx (x y amp xo yo sx sy th : ℝ) (hamp : amp ≠ 0) (hsx : sx ≠ 0) :
    HasDerivAt (fun v => dmdsx x y v xo yo sx sy th) (h_amp_sx x y amp xo yo sx sy th) amp := by
  rw [feq (fun v => (dmdsx_eq_canon x y v xo yo sx sy th hsx).symm), feq (fun v => D_sx_lin x y v xo yo sx sy th)]
  refine (lin_deriv _ amp).congr_deriv ?_
  rsimp [h_amp_sx]
  rw [gauss_eq_canon]; unfold D_sx U rad G; field_simp

theorem hess_amp_sy (x y amp xo yo sx sy th : ℝ) (hamp : amp ≠ 0) (hsy : sy ≠ 0) :
    HasDerivAt (fun v => dmdsy x y v xo yo sx sy th) (h_amp_sy x y amp xo yo sx sy th) amp := by
  rw [feq (fun v => (dmdsy_eq_canon x y v xo yo sx sy th hsy).symm), feq (fun v => D_sy_lin x y v xo yo sx sy th)]
  refine (lin_deriv _ amp).congr_deriv ?_
  rsimp [h_amp_sy]
  rw [gauss_eq_canon]; unfold D_sy W rad G; field_simp

/-- **`H(amp, xo)` is `amp` times too large**: the true ∂/∂amp of `dmdxo` is `h_amp_xo / amp` -/
theorem hess_amp_xo_off_by_amp (x y amp xo yo sx sy th : ℝ) (hamp : amp ≠ 0) (hsx : sx ≠ 0) (hsy : sy ≠ 0) :
    HasDerivAt (fun v => dmdxo x y v xo yo sx sy th) (h_amp_xo x y amp xo yo sx sy th / amp) amp := by
  rw [feq (fun v => (dmdxo_eq_canon x y v xo yo sx sy th hsx hsy).symm), feq (fun v => D_xo_lin x y v xo yo sx sy th)]
  refine (lin_deriv _ amp).congr_deriv ?_
  rsimp [h_amp_xo]
  rw [gauss_eq_canon]; unfold D_xo U W rad G; c04_algebra

/-- **`H(amp, theta)` is per radian**: the true ∂/∂amp of `dmdtheta` (per degree) is `(π/180)·h_amp_theta` -/
theorem hess_amp_theta_per_radian (x y amp xo yo sx sy th : ℝ) (hamp : amp ≠ 0) (hsx : sx ≠ 0) (hsy : sy ≠ 0) :
    HasDerivAt (fun v => dmdtheta x y v xo yo sx sy th) (Real.pi / 180 * h_amp_theta x y amp xo yo sx sy th) amp := by
  rw [feq (fun v => (dmdtheta_eq_canon x y v xo yo sx sy th hsx hsy).symm),
    feq (fun v => D_theta_lin x y v xo yo sx sy th)]
  refine (lin_deriv _ amp).congr_deriv ?_
  rsimp [h_amp_theta]
  rw [gauss_eq_canon]; unfold D_theta U W rad G; c04_algebra

/-! ### the position block -/

/-- ∂/∂xo of `dmdxo` is `h_xo_xo` -/
theorem hess_xo_xo (x y amp xo yo sx sy th : ℝ) (hsx : sx ≠ 0) (hsy : sy ≠ 0) :
    HasDerivAt (fun v => dmdxo x y amp v yo sx sy th) (h_xo_xo x y amp xo yo sx sy th) xo := by
  rw [feq (fun v => (dmdxo_eq_canon x y amp v yo sx sy th hsx hsy).symm)]
  have hG := hasDerivAt_G_xo x y amp xo yo sx sy th
  have hU := hasDerivAt_U_xo x y xo yo th
  have hW := hasDerivAt_W_xo x y xo yo th
  have hK := ((hU.mul_const (Real.cos (rad th))).div_const (sx ^ 2)).fun_add
    ((hW.mul_const (Real.sin (rad th))).div_const (sy ^ 2))
  have hD := hG.fun_mul hK
  unfold D_xo
  refine hD.congr_deriv ?_
  rsimp [h_xo_xo]
  rw [gauss_eq_canon]; unfold D_xo U W rad; c04_algebra

/-- ∂/∂xo of `dmdyo` is `h_xo_yo` … -/
theorem hess_xo_yo (x y amp xo yo sx sy th : ℝ) (hsx : sx ≠ 0) (hsy : sy ≠ 0) :
    HasDerivAt (fun v => dmdyo x y amp v yo sx sy th) (h_xo_yo x y amp xo yo sx sy th) xo := by
  rw [feq (fun v => (dmdyo_eq_canon x y amp v yo sx sy th hsx hsy).symm)]
  have hG := hasDerivAt_G_xo x y amp xo yo sx sy th
  have hU := hasDerivAt_U_xo x y xo yo th
  have hW := hasDerivAt_W_xo x y xo yo th
  have hK := ((hU.mul_const (Real.sin (rad th))).div_const (sx ^ 2)).fun_sub
    ((hW.mul_const (Real.cos (rad th))).div_const (sy ^ 2))
  have hD := hG.fun_mul hK
  unfold D_yo
  refine hD.congr_deriv ?_
  rsimp [h_xo_yo]
  rw [gauss_eq_canon]; unfold D_xo U W rad
  rw [show (2 : ℝ) * th * (Real.pi / 180) = 2 * (th * (Real.pi / 180)) by ring, Real.sin_two_mul]
  c04_algebra

/-- … and so is ∂/∂yo of `dmdxo` (the symmetric structure, both orders against the same expression) -/
theorem hess_yo_xo (x y amp xo yo sx sy th : ℝ) (hsx : sx ≠ 0) (hsy : sy ≠ 0) :
    HasDerivAt (fun v => dmdxo x y amp xo v sx sy th) (h_xo_yo x y amp xo yo sx sy th) yo := by
  rw [feq (fun v => (dmdxo_eq_canon x y amp xo v sx sy th hsx hsy).symm)]
  have hG := hasDerivAt_G_yo x y amp xo yo sx sy th
  have hU := hasDerivAt_U_yo x y xo yo th
  have hW := hasDerivAt_W_yo x y xo yo th
  have hK := ((hU.mul_const (Real.cos (rad th))).div_const (sx ^ 2)).fun_add
    ((hW.mul_const (Real.sin (rad th))).div_const (sy ^ 2))
  have hD := hG.fun_mul hK
  unfold D_xo
  refine hD.congr_deriv ?_
  rsimp [h_xo_yo]
  rw [gauss_eq_canon]; unfold D_yo U W rad
  rw [show (2 : ℝ) * th * (Real.pi / 180) = 2 * (th * (Real.pi / 180)) by ring, Real.sin_two_mul]
  c04_algebra

/-- ∂/∂yo of `dmdyo` is `h_yo_yo` -/
theorem hess_yo_yo (x y amp xo yo sx sy th : ℝ) (hsx : sx ≠ 0) (hsy : sy ≠ 0) :
    HasDerivAt (fun v => dmdyo x y amp xo v sx sy th) (h_yo_yo x y amp xo yo sx sy th) yo := by
  rw [feq (fun v => (dmdyo_eq_canon x y amp xo v sx sy th hsx hsy).symm)]
  have hG := hasDerivAt_G_yo x y amp xo yo sx sy th
  have hU := hasDerivAt_U_yo x y xo yo th
  have hW := hasDerivAt_W_yo x y xo yo th
  have hK := ((hU.mul_const (Real.sin (rad th))).div_const (sx ^ 2)).fun_sub
    ((hW.mul_const (Real.cos (rad th))).div_const (sy ^ 2))
  have hD := hG.fun_mul hK
  unfold D_yo
  refine hD.congr_deriv ?_
  rsimp [h_yo_yo]
  rw [gauss_eq_canon]; unfold D_yo U W rad; c04_algebra

/-! ### entries involving theta: per radian in the code -/

theorem two_rad (th : ℝ) : (2 : ℝ) * th * (Real.pi / 180) = 2 * (th * (Real.pi / 180)) := by ring

/-- **`H(xo, theta)` is per radian**: the true ∂/∂theta (per degree) of `dmdxo` is `(π/180)·h_xo_theta` -/
theorem hess_xo_theta_per_radian (x y amp xo yo sx sy th : ℝ) (hsx : sx ≠ 0) (hsy : sy ≠ 0) :
    HasDerivAt (fun v => dmdxo x y amp xo yo sx sy v) (Real.pi / 180 * h_xo_theta x y amp xo yo sx sy th) th := by
  rw [feq (fun v => (dmdxo_eq_canon x y amp xo yo sx sy v hsx hsy).symm)]
  have hG := hasDerivAt_G_theta x y amp xo yo sx sy th
  have hU := hasDerivAt_U_theta x y xo yo th
  have hW := hasDerivAt_W_theta x y xo yo th
  have hc := (hasDerivAt_rad th).cos
  have hs := (hasDerivAt_rad th).sin
  have hK := ((hU.fun_mul hc).div_const (sx ^ 2)).fun_add ((hW.fun_mul hs).div_const (sy ^ 2))
  have hD := hG.fun_mul hK
  unfold D_xo
  refine hD.congr_deriv ?_
  rsimp [h_xo_theta]
  rw [gauss_eq_canon]; unfold D_theta U W rad
  rw [two_rad, Real.sin_two_mul, Real.cos_two_mul']
  c04_algebra

/-- … and the same expression serves the other order: ∂/∂xo of `dmdtheta` (which is per degree
    since the repair) is also `(π/180)·h_xo_theta` -/
theorem hess_theta_xo_per_radian (x y amp xo yo sx sy th : ℝ) (hsx : sx ≠ 0) (hsy : sy ≠ 0) :
    HasDerivAt (fun v => dmdtheta x y amp v yo sx sy th) (Real.pi / 180 * h_xo_theta x y amp xo yo sx sy th) xo := by
  rw [feq (fun v => (dmdtheta_eq_canon x y amp v yo sx sy th hsx hsy).symm)]
  have hG := hasDerivAt_G_xo x y amp xo yo sx sy th
  have hU := hasDerivAt_U_xo x y xo yo th
  have hW := hasDerivAt_W_xo x y xo yo th
  have hD := (((hG.mul_const (Real.pi / 180)).fun_mul hU).fun_mul hW).mul_const (1 / sx ^ 2 - 1 / sy ^ 2)
  unfold D_theta
  refine hD.congr_deriv ?_
  rsimp [h_xo_theta]
  rw [gauss_eq_canon]; unfold D_xo U W rad
  rw [two_rad, Real.sin_two_mul, Real.cos_two_mul']
  c04_algebra

/-- **`H(theta, theta)` is per radian squared**: the true second derivative per degree² is `(π/180)²·h_theta_theta` -/
theorem hess_theta_theta_per_radian_sq (x y amp xo yo sx sy th : ℝ) (hsx : sx ≠ 0) (hsy : sy ≠ 0) :
    HasDerivAt (fun v => dmdtheta x y amp xo yo sx sy v)
      ((Real.pi / 180) ^ 2 * h_theta_theta x y amp xo yo sx sy th) th := by
  rw [feq (fun v => (dmdtheta_eq_canon x y amp xo yo sx sy v hsx hsy).symm)]
  have hG := hasDerivAt_G_theta x y amp xo yo sx sy th
  have hU := hasDerivAt_U_theta x y xo yo th
  have hW := hasDerivAt_W_theta x y xo yo th
  have hD := (((hG.mul_const (Real.pi / 180)).fun_mul hU).fun_mul hW).mul_const (1 / sx ^ 2 - 1 / sy ^ 2)
  unfold D_theta
  refine hD.congr_deriv ?_
  rsimp [h_theta_theta]
  rw [gauss_eq_canon]; unfold D_theta U W rad
  c04_algebra

/-! ### the shape block -/

/-- ∂/∂sx of `dmdsx` is `h_sx_sx` -/
theorem hess_sx_sx (x y amp xo yo sx sy th : ℝ) (hsx : sx ≠ 0) :
    HasDerivAt (fun v => dmdsx x y amp xo yo v sy th) (h_sx_sx x y amp xo yo sx sy th) sx := by
  have hne : ∀ᶠ v in nhds sx, v ≠ 0 := (continuous_id.continuousAt).eventually_ne hsx
  have hG := hasDerivAt_G_sx x y amp xo yo sx sy th hsx
  have hp : HasDerivAt (fun v : ℝ => v ^ 3) (3 * sx ^ 2) sx := by
    simpa using (hasDerivAt_id sx).fun_pow 3
  have hD := (hG.mul_const ((U x y xo yo th) ^ 2)).fun_div hp (pow_ne_zero 3 hsx)
  have hEq : (fun v => dmdsx x y amp xo yo v sy th) =ᶠ[nhds sx]
      (fun v => G x y amp xo yo v sy th * (U x y xo yo th) ^ 2 / v ^ 3) := by
    filter_upwards [hne] with v hv
    rw [← dmdsx_eq_canon x y amp xo yo v sy th hv]; rfl
  refine (hD.congr_of_eventuallyEq hEq).congr_deriv ?_
  rsimp [h_sx_sx]
  rw [gauss_eq_canon]; unfold D_sx U rad
  c04_algebra

/-- ∂/∂sy of `dmdsx` is `h_sx_sy` -/
theorem hess_sy_sx (x y amp xo yo sx sy th : ℝ) (hsx : sx ≠ 0) (hsy : sy ≠ 0) :
    HasDerivAt (fun v => dmdsx x y amp xo yo sx v th) (h_sx_sy x y amp xo yo sx sy th) sy := by
  rw [feq (fun v => (dmdsx_eq_canon x y amp xo yo sx v th hsx).symm)]
  have hG := hasDerivAt_G_sy x y amp xo yo sx sy th hsy
  have hD := ((hG.mul_const ((U x y xo yo th) ^ 2)).div_const (sx ^ 3))
  unfold D_sx
  refine hD.congr_deriv ?_
  rsimp [h_sx_sy]
  rw [gauss_eq_canon]; unfold D_sy U W rad
  c04_algebra

/-- **`H(sx, theta)` is per radian** -/
theorem hess_sx_theta_per_radian (x y amp xo yo sx sy th : ℝ) (hsx : sx ≠ 0) (hsy : sy ≠ 0) :
    HasDerivAt (fun v => dmdsx x y amp xo yo sx sy v) (Real.pi / 180 * h_sx_theta x y amp xo yo sx sy th) th := by
  rw [feq (fun v => (dmdsx_eq_canon x y amp xo yo sx sy v hsx).symm)]
  have hG := hasDerivAt_G_theta x y amp xo yo sx sy th
  have hU := hasDerivAt_U_theta x y xo yo th
  have hD := (hG.fun_mul (hU.fun_pow 2)).div_const (sx ^ 3)
  unfold D_sx
  refine hD.congr_deriv ?_
  rsimp [h_sx_theta]
  rw [gauss_eq_canon]; unfold D_theta U W rad
  simp only [Nat.cast_ofNat, Nat.add_one_sub_one, pow_one]
  c04_algebra

end Aegean.C04Hessian
