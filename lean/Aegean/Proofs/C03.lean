/-
  C03 — helper lemmas for the discrete part (numbering, flags, error masking, island summary).
-/
import Mathlib.Data.List.Nodup
import Mathlib.Data.List.Range
import Mathlib.Tactic.SplitIfs
import Aegean.Model.C03
import Aegean.Spec.C03

namespace Aegean.Proofs.C03
open Aegean.Model.C03

/-! ### enumerate -/

theorem enumFrom_bounds {β : Type} (l : List β) (s : Nat) :
    ∀ p ∈ enumFrom s l, s ≤ p.1 ∧ p.1 < s + l.length := by
  induction l generalizing s with
  | nil => intro p hp; simp [enumFrom] at hp
  | cons x xs ih =>
    intro p hp
    simp only [enumFrom, List.mem_cons] at hp
    rcases hp with rfl | hp
    · simp
    · have := ih (s + 1) p hp
      simp only [List.length_cons]; omega

theorem enumFrom_ids_sorted {β : Type} (l : List β) (s : Nat) :
    ((enumFrom s l).map (·.1)).Pairwise (· < ·) := by
  induction l generalizing s with
  | nil => simp [enumFrom]
  | cons x xs ih =>
    simp only [enumFrom, List.map_cons, List.pairwise_cons]
    refine ⟨?_, ih (s + 1)⟩
    intro a ha
    obtain ⟨p, hp, rfl⟩ := List.mem_map.1 ha
    have := (enumFrom_bounds xs (s + 1) p hp).1
    omega

theorem enumFrom_ids {β : Type} (l : List β) (s : Nat) :
    (enumFrom s l).map (·.1) = List.range' s l.length := by
  induction l generalizing s with
  | nil => rfl
  | cons x xs ih => simp [enumFrom, ih, List.range'_succ]

theorem enumFrom_snd {β : Type} (l : List β) (s : Nat) : (enumFrom s l).map (·.2) = l := by
  induction l generalizing s with
  | nil => rfl
  | cons x xs ih => simp [enumFrom, ih]

/-! ### batching -/

theorem batchLoop_len {β : Type} (gs : Nat) (hgs : 0 < gs) (rest cur : List β) (acc : List (List β))
    (hacc : ∀ b ∈ acc, b.length ≤ gs) (hcur : cur.length < gs) :
    ∀ b ∈ batchLoop gs rest cur acc, b.length ≤ gs := by
  induction rest generalizing cur acc with
  | nil =>
    intro b hb
    simp only [batchLoop] at hb
    split at hb
    · rcases List.mem_append.1 hb with h | h
      · exact hacc b h
      · simp only [List.mem_singleton] at h; subst h; omega
    · exact hacc b hb
  | cons g rest ih =>
    intro b hb
    simp only [batchLoop] at hb
    split at hb
    · refine ih [] (acc ++ [cur ++ [g]]) ?_ (by simpa using hgs) b hb
      intro c hc
      rcases List.mem_append.1 hc with h | h
      · exact hacc c h
      · simp only [List.mem_singleton] at h; subst h
        simp only [List.length_append, List.length_singleton]; omega
    · rename_i hlt
      exact ih (cur ++ [g]) acc hacc (by omega) b hb

theorem batch_len {β : Type} (gs : Nat) (hgs : 0 < gs) (groups : List β) :
    ∀ b ∈ batch gs groups, b.length ≤ gs :=
  batchLoop_len gs hgs groups [] [] (by simp) (by simpa using hgs)

/-- nothing is lost or reordered by the batching -/
theorem batchLoop_flatten {β : Type} (gs : Nat) (rest cur : List β) (acc : List (List β)) :
    (batchLoop gs rest cur acc).flatten = acc.flatten ++ cur ++ rest := by
  induction rest generalizing cur acc with
  | nil => simp only [batchLoop]; split <;> simp_all
  | cons g rest ih => simp only [batchLoop]; split <;> simp [ih]

theorem batch_flatten {β : Type} (gs : Nat) (groups : List β) : (batch gs groups).flatten = groups := by
  simp [batch, batchLoop_flatten]

/-! ### island numbers of priorized fitting are strictly increasing when `istart i = i * gs` -/

theorem refit_ids_sorted_aux (gs : Nat) (bs : List (List Nat)) (hlen : ∀ b ∈ bs, b.length ≤ gs) (k : Nat) :
    let ids := ((enumFrom k bs).flatMap (fun ib => enumFrom (ib.1 * gs) ib.2)).map (·.1)
    ids.Pairwise (· < ·) ∧ ∀ a ∈ ids, k * gs ≤ a := by
  induction bs generalizing k with
  | nil => simp [enumFrom]
  | cons b bs ih =>
    have hb : b.length ≤ gs := hlen b (by simp)
    obtain ⟨ih1, ih2⟩ := ih (fun c hc => hlen c (by simp [hc])) (k + 1)
    simp only [enumFrom, List.flatMap_cons, List.map_append]
    refine ⟨?_, ?_⟩
    · rw [List.pairwise_append]
      refine ⟨enumFrom_ids_sorted b (k * gs), ih1, ?_⟩
      intro a ha c hc
      obtain ⟨p, hp, rfl⟩ := List.mem_map.1 ha
      have h1 := (enumFrom_bounds b (k * gs) p hp).2
      have h2 := ih2 c hc
      have : (k + 1) * gs = k * gs + gs := by rw [Nat.add_mul, Nat.one_mul]
      omega
    · intro a ha
      rcases List.mem_append.1 ha with h | h
      · obtain ⟨p, hp, rfl⟩ := List.mem_map.1 h
        exact (enumFrom_bounds b (k * gs) p hp).1
      · have h2 := ih2 a h
        have : (k + 1) * gs = k * gs + gs := by rw [Nat.add_mul, Nat.one_mul]
        omega

theorem refit_ids_sorted (istart : Nat → Nat → Nat) (hI : ∀ i gs, istart i gs = i * gs)
    (gs : Nat) (hgs : 0 < gs) (groups : List Nat) :
    ((refitIslands istart gs groups).map (·.1)).Pairwise (· < ·) := by
  have h := (refit_ids_sorted_aux gs (batch gs groups) (batch_len gs hgs groups) 0).1
  simp only [refitIslands]
  have e : (fun ib : Nat × List Nat => enumFrom (istart ib.1 gs) ib.2)
      = (fun ib => enumFrom (ib.1 * gs) ib.2) := by funext ib; rw [hI]
  rw [e]; exact h

/-! ### rows -/

theorem mem_compRows (isle n : Nat) (r : Nat × Nat) : r ∈ compRows isle n ↔ r.1 = isle ∧ r.2 < n := by
  simp only [compRows, List.mem_map, List.mem_range]
  constructor
  · rintro ⟨j, hj, rfl⟩; exact ⟨rfl, hj⟩
  · rintro ⟨h1, h2⟩; exact ⟨r.2, h2, by cases r; simp_all⟩

theorem compRows_nodup (isle n : Nat) : (compRows isle n).Nodup := by
  unfold compRows
  refine List.Nodup.map ?_ List.nodup_range
  intro a b h; simpa using h

theorem mem_rowsOf (isles : List (Nat × Nat)) (r : Nat × Nat) :
    r ∈ rowsOf isles ↔ ∃ p ∈ isles, r.1 = p.1 ∧ r.2 < p.2 := by
  simp only [rowsOf, List.mem_flatMap, mem_compRows]

theorem rowsOf_cons (p : Nat × Nat) (ps : List (Nat × Nat)) :
    rowsOf (p :: ps) = compRows p.1 p.2 ++ rowsOf ps := by simp [rowsOf]

/-- distinct island numbers ⇒ distinct (island, source) pairs -/
theorem rowsOf_nodup (isles : List (Nat × Nat)) (h : (isles.map (·.1)).Nodup) : (rowsOf isles).Nodup := by
  induction isles with
  | nil => simp [rowsOf]
  | cons p ps ih =>
    rw [List.map_cons, List.nodup_cons] at h
    rw [rowsOf_cons, List.nodup_append]
    refine ⟨compRows_nodup _ _, ih h.2, ?_⟩
    intro a ha b hb hab
    subst hab
    rw [mem_compRows] at ha
    obtain ⟨q, hq, hq1, _⟩ := (mem_rowsOf ps a).1 hb
    exact h.1 (List.mem_map.2 ⟨q, hq, by rw [← hq1, ha.1]⟩)

theorem sorted_nodup (l : List Nat) (h : l.Pairwise (· < ·)) : l.Nodup :=
  h.imp (fun hab => Nat.ne_of_lt hab)

/-- the source numbers of island `p` are exactly `0, 1, …, n−1`, in this order -/
theorem rowsOf_numbered (isles : List (Nat × Nat)) (h : (isles.map (·.1)).Nodup) (p : Nat × Nat)
    (hp : p ∈ isles) :
    ((rowsOf isles).filter (fun r => r.1 = p.1)).map (·.2) = List.range p.2 := by
  induction isles with
  | nil => simp at hp
  | cons q qs ih =>
    rw [List.map_cons, List.nodup_cons] at h
    rw [rowsOf_cons, List.filter_append, List.map_append]
    rcases List.mem_cons.1 hp with rfl | hq
    · have e1 : (compRows p.1 p.2).filter (fun r => r.1 = p.1) = compRows p.1 p.2 := by
        apply List.filter_eq_self.2
        intro a ha; simpa using ((mem_compRows _ _ a).1 ha).1
      have e2 : (rowsOf qs).filter (fun r => decide (r.1 = p.1)) = [] := by
        apply List.filter_eq_nil_iff.2
        intro a ha hd
        obtain ⟨q, hq, hq1, _⟩ := (mem_rowsOf qs a).1 ha
        exact h.1 (List.mem_map.2 ⟨q, hq, by rw [← hq1]; simpa using hd⟩)
      rw [e1, e2]; simp [compRows, Function.comp_def]
    · have e1 : (compRows q.1 q.2).filter (fun r => decide (r.1 = p.1)) = [] := by
        apply List.filter_eq_nil_iff.2
        intro a ha hd
        have h1 := ((mem_compRows _ _ a).1 ha).1
        have : q.1 = p.1 := by rw [← h1]; simpa using hd
        exact h.1 (List.mem_map.2 ⟨p, hq, this.symm⟩)
      rw [e1, ih h.2 hq]; simp

/-! ### the executable Spec predicates say what they should -/

theorem noDup_iff (l : List (Nat × Nat)) : Aegean.Spec.C03.noDup l = true ↔ l.Nodup := by
  induction l with
  | nil => simp [Aegean.Spec.C03.noDup]
  | cons x xs ih => simp [Aegean.Spec.C03.noDup, ih, List.nodup_cons]

theorem hasDup_iff (l : List (Nat × Nat)) : hasDup l = true ↔ ¬ l.Nodup := by
  induction l with
  | nil => simp [hasDup]
  | cons x xs ih =>
    simp only [hasDup, Bool.or_eq_true, ih, List.nodup_cons, List.contains_iff_mem]
    tauto

theorem rowsOf_numbered_spec (isles : List (Nat × Nat)) : Aegean.Spec.C03.numbered (rowsOf isles) = true := by
  simp only [Aegean.Spec.C03.numbered, List.all_eq_true, Bool.or_eq_true, decide_eq_true_eq,
    List.contains_iff_mem]
  intro r hr
  by_cases h0 : r.2 = 0
  · exact Or.inl h0
  · right
    obtain ⟨p, hp, h1, h2⟩ := (mem_rowsOf isles r).1 hr
    exact (mem_rowsOf isles _).2 ⟨p, hp, h1, by simp only; omega⟩

/-! ### flags -/

theorem lt128_or {a b : Nat} (ha : a < 128) (hb : b < 128) : a ||| b < 128 :=
  Nat.or_lt_two_pow (n := 7) ha hb

theorem estimate_cases (n m : Nat) : estimateIsFlag n m = 0 ∨ estimateIsFlag n m = 4 ∨ estimateIsFlag n m = 5 := by
  unfold estimateIsFlag FIXED2PSF FITERRSMALL
  by_cases h1 : 4 ≤ n ∧ n ≤ 6
  · simp [h1]
  · by_cases h2 : n < 4
    · simp [h1, h2]
    · by_cases h3 : m ≤ 2 <;> simp [h1, h2, h3]

/-! ### error masking -/

theorem valid_masked : Out.masked.valid = true := rfl
theorem valid_pos : (Out.val .pos).valid = true := rfl

theorem sanitise_valid (o : Out) : (sanitise o).valid = true := by
  cases o with
  | masked => rfl
  | val x => cases x <;> rfl

theorem sanitise_of_valid (o : Out) (h : o.valid = true) : sanitise o = o := by
  cases o with
  | masked => rfl
  | val x => cases x <;> simp_all [Out.valid, sanitise]

theorem isPos_sanitise (o : Out) : isPos (sanitise o) = isPos o := by
  cases o with
  | masked => rfl
  | val x => cases x <;> rfl

/-! ### island summary -/

theorem maxOf_spec (vs : List Int) (m : Int) (h : maxOf vs = some m) : m ∈ vs ∧ ∀ v ∈ vs, v ≤ m := by
  induction vs generalizing m with
  | nil => simp [maxOf] at h
  | cons v vs ih =>
    simp only [maxOf] at h
    cases hm : maxOf vs with
    | none =>
      rw [hm] at h; simp only [Option.some.injEq] at h; subst h
      cases vs with
      | nil => simp
      | cons w ws => simp only [maxOf] at hm; split at hm <;> simp at hm
    | some m' =>
      rw [hm] at h; simp only [Option.some.injEq] at h
      obtain ⟨h1, h2⟩ := ih m' hm
      split at h
      · subst h
        refine ⟨by simp, ?_⟩
        intro w hw
        rcases List.mem_cons.1 hw with rfl | hw
        · exact Int.le_refl _
        · have := h2 w hw; omega
      · subst h
        refine ⟨by simp [h1], ?_⟩
        intro w hw
        rcases List.mem_cons.1 hw with rfl | hw
        · omega
        · exact h2 w hw

theorem minOf_spec (vs : List Int) (m : Int) (h : minOf vs = some m) : m ∈ vs ∧ ∀ v ∈ vs, m ≤ v := by
  induction vs generalizing m with
  | nil => simp [minOf] at h
  | cons v vs ih =>
    simp only [minOf] at h
    cases hm : minOf vs with
    | none =>
      rw [hm] at h; simp only [Option.some.injEq] at h; subst h
      cases vs with
      | nil => simp
      | cons w ws => simp only [minOf] at hm; split at hm <;> simp at hm
    | some m' =>
      rw [hm] at h; simp only [Option.some.injEq] at h
      obtain ⟨h1, h2⟩ := ih m' hm
      split at h
      · subst h
        refine ⟨by simp, ?_⟩
        intro w hw
        rcases List.mem_cons.1 hw with rfl | hw
        · exact Int.le_refl _
        · have := h2 w hw; omega
      · subst h
        refine ⟨by simp [h1], ?_⟩
        intro w hw
        rcases List.mem_cons.1 hw with rfl | hw
        · omega
        · exact h2 w hw

theorem maxOf_isSome (vs : List Int) (h : vs ≠ []) : ∃ m, maxOf vs = some m := by
  cases vs with
  | nil => exact absurd rfl h
  | cons v vs => simp only [maxOf]; split <;> exact ⟨_, rfl⟩

theorem minOf_isSome (vs : List Int) (h : vs ≠ []) : ∃ m, minOf vs = some m := by
  cases vs with
  | nil => exact absurd rfl h
  | cons v vs => simp only [minOf]; split <;> exact ⟨_, rfl⟩

end Aegean.Proofs.C03
