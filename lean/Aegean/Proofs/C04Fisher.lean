/-
  C04 — the Fisher matrix that `covar_errors` builds, and `onesigma`, over ℝ with Mathlib `Matrix`
  (pure Mathlib; no `R` class here).

  `A : Matrix n m ℝ` is the Jacobian of `fitting.jacobian` (one row per free parameter, one
  column per unmasked pixel) after `matrix /= errs`.  `covar_errors` computes

     no B, no C :  J = Aᵀ,            covar = Jᵀ·J      = A·Aᵀ           (= M·Mᵀ/errs² for scalar errs)
     B branch   :  J = (A·B)ᵀ,        covar = Jᵀ·J      = (A·B)·(A·B)ᵀ
     C branch   :  J = Aᵀ,            covar = Jᵀ·C⁻¹·J  = A·C⁻¹·Aᵀ
     onesigma = sqrt(diag(inv(covar)))

  Proved here: every branch gives a symmetric positive semidefinite matrix; the plain and the B
  branch are positive definite **iff** the rows (of `A`, resp. `A·B`) are linearly independent —
  i.e. iff no non-trivial combination of the free-parameter derivative rows vanishes on all
  unmasked pixels; then the inverse exists, is positive definite, and every `onesigma` entry is
  a well-defined positive real.  If a row is identically zero, the matrix is singular
  (`det = 0`, not positive definite) and `Matrix` inverse is the junk value 0: the code's `inv`
  raises instead (the `except` branch).
-/
import Mathlib.LinearAlgebra.Matrix.PosDef
import Mathlib.LinearAlgebra.Matrix.ToLin
import Mathlib.LinearAlgebra.Matrix.NonsingularInverse
import Mathlib.Analysis.Real.Sqrt
import Mathlib.Algebra.Order.Star.Real

set_option linter.unusedVariables false
set_option linter.unusedSectionVars false

namespace Aegean.C04Fisher
open Matrix

variable {n m : Type} [Fintype n] [Fintype m] [DecidableEq n] [DecidableEq m]

/-- `covar` of the branch without C: `Jᵀ·J` with `J = Aᵀ` (for the B branch, `A` is `A·B`) -/
def fisher (A : Matrix n m ℝ) : Matrix n n ℝ := A * Aᵀ

/-- `covar` of the C branch: `Jᵀ·C⁻¹·J` with `J = Aᵀ` -/
def fisherC (A : Matrix n m ℝ) (Cinv : Matrix m m ℝ) : Matrix n n ℝ := A * Cinv * Aᵀ

/-- `np.sqrt(np.diag(inv(covar)))` -/
noncomputable def onesigma (F : Matrix n n ℝ) (i : n) : ℝ := Real.sqrt (F⁻¹ i i)

theorem fisher_entry (A : Matrix n m ℝ) (i j : n) : fisher A i j = ∑ k, A i k * A j k := by
  simp [fisher, Matrix.mul_apply]

/-- scalar `errs`: `F = M·Mᵀ / errs²` -/
theorem fisher_scalar_errs (M : Matrix n m ℝ) (e : ℝ) :
    fisher (Matrix.of fun k j => M k j / e) = (1 / e ^ 2) • fisher M := by
  ext i j
  simp only [fisher_entry, Matrix.of_apply, Matrix.smul_apply, smul_eq_mul, Finset.mul_sum]
  refine Finset.sum_congr rfl fun k _ => ?_
  by_cases he : e = 0
  · simp [he]
  · field_simp

theorem fisher_symm (A : Matrix n m ℝ) : (fisher A)ᵀ = fisher A := by
  simp [fisher, Matrix.transpose_mul]

theorem fisher_posSemidef (A : Matrix n m ℝ) : (fisher A).PosSemidef := by
  have h := Matrix.posSemidef_self_mul_conjTranspose A
  rwa [Matrix.conjTranspose_eq_transpose_of_trivial] at h

/-- the quadratic form of the Fisher matrix is the squared length of the combination of rows -/
theorem fisher_quadratic (A : Matrix n m ℝ) (x : n → ℝ) :
    x ⬝ᵥ (fisher A *ᵥ x) = (x ᵥ* A) ⬝ᵥ (x ᵥ* A) := by
  unfold fisher
  rw [← Matrix.mulVec_mulVec, Matrix.dotProduct_mulVec, Matrix.mulVec_transpose]

/-- **positive definite iff the derivative rows are linearly independent on the unmasked pixels** -/
theorem fisher_posDef_iff (A : Matrix n m ℝ) :
    (fisher A).PosDef ↔ LinearIndependent ℝ A.row := by
  rw [← Matrix.vecMul_injective_iff]
  constructor
  · intro h
    refine (injective_iff_map_eq_zero (Matrix.vecMulLinear A)).mpr ?_
    intro x hx
    by_contra hne
    have hpos := h.dotProduct_mulVec_pos hne
    have hx' : x ᵥ* A = 0 := hx
    rw [star_trivial, fisher_quadratic, hx'] at hpos
    simp at hpos
  · intro h
    have := Matrix.PosDef.mul_conjTranspose_self A h
    rwa [Matrix.conjTranspose_eq_transpose_of_trivial] at this

/-- in that case the inverse exists … -/
theorem fisher_invertible (A : Matrix n m ℝ) (h : LinearIndependent ℝ A.row) : IsUnit (fisher A) :=
  ((fisher_posDef_iff A).mpr h).isUnit

/-- … and every `onesigma` entry is a positive real (the square root of a positive number) -/
theorem onesigma_pos (A : Matrix n m ℝ) (h : LinearIndependent ℝ A.row) (i : n) :
    0 < (fisher A)⁻¹ i i ∧ 0 < onesigma (fisher A) i := by
  have hd : 0 < (fisher A)⁻¹ i i := ((fisher_posDef_iff A).mpr h).inv.diag_pos
  exact ⟨hd, Real.sqrt_pos.mpr hd⟩

/-- C branch: positive semidefinite whenever `C⁻¹` is -/
theorem fisherC_posSemidef (A : Matrix n m ℝ) (Cinv : Matrix m m ℝ) (hC : Cinv.PosSemidef) :
    (fisherC A Cinv).PosSemidef := by
  have h := hC.mul_mul_conjTranspose_same A
  rwa [Matrix.conjTranspose_eq_transpose_of_trivial] at h

/-- C branch: positive definite when `C⁻¹` is and the rows are independent -/
theorem fisherC_posDef (A : Matrix n m ℝ) (Cinv : Matrix m m ℝ) (hC : Cinv.PosDef)
    (h : LinearIndependent ℝ A.row) : (fisherC A Cinv).PosDef := by
  have h' := hC.mul_mul_conjTranspose_same (B := A) ((Matrix.vecMul_injective_iff).mpr h)
  rwa [Matrix.conjTranspose_eq_transpose_of_trivial] at h'

theorem onesigmaC_pos (A : Matrix n m ℝ) (Cinv : Matrix m m ℝ) (hC : Cinv.PosDef)
    (h : LinearIndependent ℝ A.row) (i : n) : 0 < onesigma (fisherC A Cinv) i :=
  Real.sqrt_pos.mpr (fisherC_posDef A Cinv hC h).inv.diag_pos

/-! ### the singular case -/

/-- a free parameter whose derivative row vanishes on every unmasked pixel makes the Fisher
    matrix singular: zero determinant, not positive definite, rows not independent -/
theorem fisher_singular_of_zero_row (A : Matrix n m ℝ) (k : n) (hk : ∀ j, A k j = 0) :
    (fisher A).det = 0 ∧ ¬ (fisher A).PosDef ∧ ¬ LinearIndependent ℝ A.row := by
  have hdet : (fisher A).det = 0 :=
    Matrix.det_eq_zero_of_row_eq_zero k (fun j => by simp [fisher_entry, hk])
  have hnpd : ¬ (fisher A).PosDef := by
    intro h
    have := h.diag_pos (i := k)
    simp [fisher_entry, hk] at this
  exact ⟨hdet, hnpd, fun h => hnpd ((fisher_posDef_iff A).mpr h)⟩

/-- … and Mathlib's `⁻¹` is then the junk value `0`, so "`sqrt(diag(inv F))`" is not defined by
    the formula; numpy/scipy raise `LinAlgError` for an exactly singular matrix -/
theorem fisher_inv_junk_of_zero_row (A : Matrix n m ℝ) (k : n) (hk : ∀ j, A k j = 0) :
    (fisher A)⁻¹ = 0 := by
  apply Matrix.nonsing_inv_apply_not_isUnit
  rw [(fisher_singular_of_zero_row A k hk).1]
  simp

end Aegean.C04Fisher
