/-
  C08 — `_demote_all`: one loop iteration preserves coverage, validity of ids and set-ness;
  the whole loop leaves only the deepest level populated.  Core Lean only.
-/
import Aegean.Proofs.C08Basic

namespace Aegean.Proofs.C08
open Aegean.Model.C08

theorem eq_nil_of_range {m : Nat} {pd : Nat → List Nat} (h : RangeP m pd) {k : Nat}
    (hk : k < 1 ∨ m < k) : pd k = [] := by
  apply List.eq_nil_iff_forall_not_mem.2
  intro p hp
  have := h k p hp
  omega

/-- coverage level by level after one iteration of the `_demote_all` loop -/
theorem cov_demoteStep {m d : Nat} (pd : Nat → List Nat) (hd : d + 1 ≤ m) (k q : Nat) :
    covP m (demoteStep pd d) k q ↔ (k ≠ d ∧ (covP m pd k q ∨ (k = d + 1 ∧ covP m pd d q))) := by
  unfold covP demoteStep
  by_cases h1 : k = d
  · subst h1; simp [setLevel]
  · by_cases h2 : k = d + 1
    · subst h2
      have e : m - d = (m - (d + 1)) + 1 := by omega
      simp only [setLevel, if_neg h1, if_true, mem_dedup, List.mem_append, mem_flatMap_children]
      rw [e, div_pow_succ]
      simp
    · simp only [setLevel, if_neg h1, if_neg h2]
      simp [h1, h2]

theorem abs_demoteStep {m d : Nat} (pd : Nat → List Nat) (h1 : 1 ≤ d) (hd : d + 1 ≤ m) (q : Nat) :
    absP m (demoteStep pd d) q ↔ absP m pd q := by
  unfold absP
  constructor
  · rintro ⟨k, hk1, hk2, hc⟩
    rw [cov_demoteStep pd hd] at hc
    rcases hc with ⟨_, hc | ⟨_, hc⟩⟩
    · exact ⟨k, hk1, hk2, hc⟩
    · exact ⟨d, h1, by omega, hc⟩
  · rintro ⟨k, hk1, hk2, hc⟩
    by_cases hkd : k = d
    · subst hkd
      refine ⟨k + 1, by omega, hd, ?_⟩
      rw [cov_demoteStep pd hd]
      exact ⟨by omega, Or.inr ⟨rfl, hc⟩⟩
    · refine ⟨k, hk1, hk2, ?_⟩
      rw [cov_demoteStep pd hd]
      exact ⟨hkd, Or.inl hc⟩

theorem nodup_demoteStep {pd : Nat → List Nat} (d : Nat) (h : NodupP pd) : NodupP (demoteStep pd d) := by
  intro k
  unfold demoteStep setLevel
  by_cases h1 : k = d
  · simp [h1]
  · by_cases h2 : k = d + 1
    · simp only [if_neg h1, if_pos h2]; exact nodup_dedup _
    · simp only [if_neg h1, if_neg h2]; exact h k

theorem range_demoteStep {m d : Nat} {pd : Nat → List Nat} (h1 : 1 ≤ d) (hd : d + 1 ≤ m)
    (h : RangeP m pd) : RangeP m (demoteStep pd d) := by
  intro k p hp
  unfold demoteStep setLevel at hp
  by_cases e1 : k = d
  · simp [e1] at hp
  · by_cases e2 : k = d + 1
    · simp only [if_neg e1, if_pos e2, mem_dedup, List.mem_append, mem_flatMap_children] at hp
      rcases hp with hp | hp
      · have := h _ _ hp; subst e2; exact this
      · have := (h _ _ hp).2.2
        subst e2
        refine ⟨by omega, hd, ?_⟩
        rw [Nat.pow_succ]; omega
    · simp only [if_neg e1, if_neg e2] at hp
      exact h _ _ hp

theorem emptyBelow_demoteStep {d : Nat} {pd : Nat → List Nat} (h : EmptyBelow pd d) :
    EmptyBelow (demoteStep pd d) (d + 1) := by
  intro k hk
  unfold demoteStep setLevel
  by_cases e1 : k = d
  · simp [e1]
  · have e2 : k ≠ d + 1 := by omega
    simp only [if_neg e1, if_neg e2]
    exact h k (by omega)

/-- the whole `_demote_all` loop -/
theorem demoteLoop_spec {m : Nat} : ∀ (n d : Nat) (pd : Nat → List Nat), 1 ≤ d → d + n ≤ m →
    RangeP m pd → NodupP pd → EmptyBelow pd d →
    RangeP m (demoteLoop pd d n) ∧ NodupP (demoteLoop pd d n) ∧ EmptyBelow (demoteLoop pd d n) (d + n) ∧
      ∀ q, absP m (demoteLoop pd d n) q ↔ absP m pd q
  | 0, d, pd, _, _, hr, hn, he => ⟨hr, hn, he, fun _ => Iff.rfl⟩
  | n + 1, d, pd, h1, hm, hr, hn, he => by
    have ih := demoteLoop_spec n (d + 1) (demoteStep pd d) (by omega) (by omega)
      (range_demoteStep h1 (by omega) hr) (nodup_demoteStep d hn) (emptyBelow_demoteStep he)
    obtain ⟨a, b, c, e⟩ := ih
    refine ⟨a, b, ?_, fun q => ?_⟩
    · have : d + (n + 1) = d + 1 + n := by omega
      rw [this]; exact c
    · rw [show demoteLoop pd d (n + 1) = demoteLoop (demoteStep pd d) (d + 1) n from rfl, e q]
      exact abs_demoteStep pd h1 (by omega) q

/-- a dictionary with only its deepest level populated covers no pixel twice, and covers exactly
    the members of that level -/
theorem noDC_of_emptyBelow {m : Nat} {pd : Nat → List Nat} (he : EmptyBelow pd m) : NoDCP m pd := by
  intro q d1 d2 _ h1 _ h2 c1 c2
  unfold covP at c1 c2
  have e1 : d1 = m := by
    by_cases h : d1 < m
    · rw [he d1 h] at c1; simp at c1
    · omega
  have e2 : d2 = m := by
    by_cases h : d2 < m
    · rw [he d2 h] at c2; simp at c2
    · omega
  omega

theorem abs_of_emptyBelow {m : Nat} {pd : Nat → List Nat} (hm : 1 ≤ m) (he : EmptyBelow pd m) (q : Nat) :
    absP m pd q ↔ q ∈ pd m := by
  unfold absP covP
  constructor
  · rintro ⟨d, _, h2, hc⟩
    by_cases h : d < m
    · rw [he d h] at hc; simp at hc
    · have : d = m := by omega
      subst this; simpa using hc
  · intro h; exact ⟨m, hm, Nat.le_refl _, by simpa using h⟩

end Aegean.Proofs.C08
