/-
  C19 — the flux-ordered relabelling of one group (`cluster.py`:
  `for comp, src in enumerate(sorted(group, key=lambda x: -1*x.peak_flux)):
       src.island = isle; src.source = comp`).

  Within a group the source numbers are exactly `0 … n-1`, by decreasing peak flux, ties in row
  order (stable sort); the island number is the group number; nothing else changes.
  Core-only (no Mathlib).
-/
import Aegean.Model.C19

namespace Aegean.C19
open Aegean.Model.C19

/-! ### 1. The comparison is a total preorder -/

theorem fluxGe_trans : ∀ a b c : Src, fluxGe a b = true → fluxGe b c = true → fluxGe a c = true := by
  intro a b c h1 h2
  simp only [fluxGe, decide_eq_true_eq] at *
  omega

theorem fluxGe_total : ∀ a b : Src, (fluxGe a b || fluxGe b a) = true := by
  intro a b
  simp only [fluxGe, Bool.or_eq_true, decide_eq_true_eq]
  omega

/-! ### generic list helpers -/

theorem nodup_of_ids (g : List Src) (hid : (g.map Src.id).Nodup) : g.Nodup := by
  unfold List.Nodup at *
  rw [List.pairwise_map] at hid
  exact hid.imp (fun h e => h (congrArg Src.id e))

/-- the flux-sorted copy of a group -/
theorem sorted_perm (g : List Src) : (g.mergeSort fluxGe).Perm g := List.mergeSort_perm g fluxGe

theorem sorted_nodup (g : List Src) (hid : (g.map Src.id).Nodup) : (g.mergeSort fluxGe).Nodup :=
  (sorted_perm g).nodup_iff.mpr (nodup_of_ids g hid)

theorem mem_sorted {g : List Src} {a : Src} : a ∈ g.mergeSort fluxGe ↔ a ∈ g :=
  (sorted_perm g).mem_iff

theorem sorted_pairwise (g : List Src) : (g.mergeSort fluxGe).Pairwise (fun a b => fluxGe a b = true) :=
  List.pairwise_mergeSort fluxGe_trans fluxGe_total g

/-- in a duplicate-free list, `idxOf` enumerates the positions -/
theorem map_idxOf_eq_range {α : Type} [DecidableEq α] (l : List α) (h : l.Nodup) :
    l.map (fun x => l.idxOf x) = List.range l.length := by
  apply List.ext_getElem
  · simp
  · intro i h1 h2
    simp only [List.getElem_map, List.getElem_range]
    exact h.idxOf_getElem i (by simpa using h1)

/-- `idxOf` is injective on members -/
theorem idxOf_inj_of_mem {α : Type} [DecidableEq α] (l : List α) (a b : α)
    (ha : a ∈ l) (hb : b ∈ l) (h : l.idxOf a = l.idxOf b) : a = b := by
  have h1 : l.idxOf a < l.length := List.idxOf_lt_length_of_mem ha
  have h2 : l.idxOf b < l.length := List.idxOf_lt_length_of_mem hb
  have e1 : l[l.idxOf a] = a := List.getElem_idxOf h1
  have e2 : l[l.idxOf b] = b := List.getElem_idxOf h2
  rw [← e1, ← e2]
  simp only [h]

/-- in a duplicate-free list a sublist pair appears in index order -/
theorem idxOf_lt_of_pair_sublist {α : Type} [DecidableEq α] (l : List α) (a b : α)
    (hn : l.Nodup) (hs : [a, b].Sublist l) : l.idxOf a < l.idxOf b := by
  induction l with
  | nil => cases hs
  | cons x xs ih =>
    rw [List.nodup_cons] at hn
    cases hs with
    | cons _ h' =>
      have ha : a ∈ xs := h'.subset (by simp)
      have hb : b ∈ xs := h'.subset (by simp)
      have e1 : (x == a) = false := beq_false_of_ne (fun e => hn.1 (e ▸ ha))
      have e2 : (x == b) = false := beq_false_of_ne (fun e => hn.1 (e ▸ hb))
      have := ih hn.2 h'
      simp only [List.idxOf_cons, e1, e2, cond_false]
      omega
    | cons_cons _ h' =>
      have hb : b ∈ xs := h'.subset (by simp)
      have e2 : (a == b) = false := beq_false_of_ne (fun e => hn.1 (e ▸ hb))
      simp only [List.idxOf_cons, e2, cond_false, beq_self_eq_true, cond_true]
      omega

/-! ### 2. Ranks -/

theorem rank_lt (g : List Src) (a : Src) (ha : a ∈ g) : rankIn g a < g.length := by
  have h : (g.mergeSort fluxGe).idxOf a < (g.mergeSort fluxGe).length :=
    List.idxOf_lt_length_of_mem (mem_sorted.mpr ha)
  simpa [rankIn, List.length_mergeSort] using h

/-- the element of the sorted copy at position `rankIn g a` is `a` -/
theorem sorted_getElem_rank (g : List Src) (a : Src) (_ha : a ∈ g)
    (h : rankIn g a < (g.mergeSort fluxGe).length) : (g.mergeSort fluxGe)[rankIn g a] = a :=
  List.getElem_idxOf h

theorem rank_inj (g : List Src) (_hid : (g.map Src.id).Nodup) (a b : Src) (ha : a ∈ g) (hb : b ∈ g)
    (h : rankIn g a = rankIn g b) : a = b :=
  idxOf_inj_of_mem (g.mergeSort fluxGe) a b (mem_sorted.mpr ha) (mem_sorted.mpr hb) h

/-! ### 8, 9. Only the labels change -/

theorem relabel_island (k : Nat) (g : List Src) : ∀ s ∈ relabelGroup k g, s.island = k := by
  intro s hs
  simp only [relabelGroup, List.mem_map] at hs
  obtain ⟨t, _, rfl⟩ := hs
  rfl

theorem relabel_unlabel (k : Nat) (g : List Src) :
    (relabelGroup k g).map unlabel = g.map unlabel := by
  simp only [relabelGroup, List.map_map]
  apply List.map_congr_left
  intro s _
  rfl

theorem relabel_length (k : Nat) (g : List Src) : (relabelGroup k g).length = g.length := by
  simp [relabelGroup]

theorem relabel_ids (k : Nat) (g : List Src) : (relabelGroup k g).map Src.id = g.map Src.id := by
  simp only [relabelGroup, List.map_map]
  apply List.map_congr_left
  intro s _
  rfl

theorem relabel_sources (k : Nat) (g : List Src) :
    (relabelGroup k g).map Src.source = g.map (rankIn g) := by
  simp only [relabelGroup, List.map_map]
  apply List.map_congr_left
  intro s _
  rfl

/-! ### 4. The source numbers of a group are `0 … n-1`, each once -/

theorem relabel_sources_perm (k : Nat) (g : List Src) (hid : (g.map Src.id).Nodup) :
    ((relabelGroup k g).map Src.source).Perm (List.range g.length) := by
  rw [relabel_sources]
  have h1 : ((g.mergeSort fluxGe).map (rankIn g)).Perm (g.map (rankIn g)) :=
    (sorted_perm g).map _
  have h2 : (g.mergeSort fluxGe).map (rankIn g) = List.range g.length := by
    have := map_idxOf_eq_range (g.mergeSort fluxGe) (sorted_nodup g hid)
    rw [List.length_mergeSort] at this
    exact this
  rw [h2] at h1
  exact h1.symm

/-! ### 5. Numbering is by decreasing peak flux -/

theorem rank_by_flux (g : List Src) (_hid : (g.map Src.id).Nodup) (a b : Src) (ha : a ∈ g) (hb : b ∈ g)
    (h : rankIn g a < rankIn g b) : b.flux ≤ a.flux := by
  have hla : rankIn g a < (g.mergeSort fluxGe).length := by
    rw [List.length_mergeSort]; exact rank_lt g a ha
  have hlb : rankIn g b < (g.mergeSort fluxGe).length := by
    rw [List.length_mergeSort]; exact rank_lt g b hb
  have hp := List.pairwise_iff_getElem.mp (sorted_pairwise g) (rankIn g a) (rankIn g b) hla hlb h
  rw [sorted_getElem_rank g a ha hla, sorted_getElem_rank g b hb hlb] at hp
  simpa [fluxGe] using hp

/-! ### 6. Ties keep row order -/

theorem rank_stable (g : List Src) (hid : (g.map Src.id).Nodup) (a b : Src) (hab : [a, b].Sublist g)
    (hf : a.flux = b.flux) : rankIn g a < rankIn g b := by
  have hle : fluxGe a b = true := by simp [fluxGe, hf]
  have hs : [a, b].Sublist (g.mergeSort fluxGe) :=
    List.pair_sublist_mergeSort fluxGe_trans fluxGe_total hle hab
  exact idxOf_lt_of_pair_sublist _ a b (sorted_nodup g hid) hs

/-! ### 7. A strictly brighter source is numbered first -/

theorem rank_brighter_first (g : List Src) (hid : (g.map Src.id).Nodup) (a b : Src) (ha : a ∈ g)
    (hb : b ∈ g) (h : b.flux < a.flux) : rankIn g a < rankIn g b := by
  rcases Nat.lt_trichotomy (rankIn g a) (rankIn g b) with hlt | heq | hgt
  · exact hlt
  · have := rank_inj g hid a b ha hb heq
    subst this
    omega
  · have := rank_by_flux g hid b a hb ha hgt
    omega

/-! ### 10. `(island, source)` is unique within a group -/

theorem relabel_labels_nodup (k : Nat) (g : List Src) (hid : (g.map Src.id).Nodup) :
    ((relabelGroup k g).map fun s => (s.island, s.source)).Nodup := by
  have hn : ((relabelGroup k g).map Src.source).Nodup :=
    (relabel_sources_perm k g hid).nodup_iff.mpr List.nodup_range
  unfold List.Nodup at *
  rw [List.pairwise_map] at *
  exact hn.imp (fun h e => h (congrArg Prod.snd e))

/-! ### 11. Non-vacuity

`List.mergeSort` is defined by well-founded recursion, so `decide` cannot evaluate it directly; the
sorted copy of the example group is computed once by `simp`, the rest is `decide`. -/

/-- fluxes 5, 9, 5 -/
def exGroup : List Src := [⟨0, 5, 0, 0, 0, 0⟩, ⟨1, 9, 0, 0, 0, 0⟩, ⟨2, 5, 0, 0, 0, 0⟩]

theorem exGroup_sorted :
    exGroup.mergeSort fluxGe = [⟨1, 9, 0, 0, 0, 0⟩, ⟨0, 5, 0, 0, 0, 0⟩, ⟨2, 5, 0, 0, 0, 0⟩] := by
  simp [exGroup, List.mergeSort, List.MergeSort.Internal.splitInTwo, fluxGe]

/-- the brightest source is number 0; the two equally bright ones keep their row order -/
example : (relabelGroup 7 exGroup).map Src.source = [1, 0, 2] := by
  simp only [relabelGroup, rankIn, exGroup_sorted]
  decide

example : (relabelGroup 7 exGroup).map (fun s => (s.id, s.island)) = [(0, 7), (1, 7), (2, 7)] := by
  decide

example : ((exGroup.map Src.id).Nodup) := by decide

end Aegean.C19
