/-
  C03 — the island's pixel count against its extent: tight bounding box and the pigeonhole bound.
-/
import Mathlib.Data.Finset.Prod
import Mathlib.Data.Finset.Card
import Mathlib.Order.Interval.Finset.Nat
import Mathlib.Data.List.Nodup
import Aegean.Model.C03

namespace Aegean.Proofs.C03
open Aegean.Model.C03

theorem tightBox_none (pix : List Pix) : tightBox pix = none ↔ pix = [] := by
  cases pix with
  | nil => simp [tightBox]
  | cons p ps =>
    simp only [tightBox]
    cases tightBox ps with
    | none => simp
    | some b => obtain ⟨x0, x1, y0, y1⟩ := b; simp

/-- the box returned by `tightBox` contains every pixel and every one of its four sides is touched
    by a pixel: it is the smallest box -/
theorem tightBox_spec (pix : List Pix) (x0 x1 y0 y1 : Nat) (h : tightBox pix = some (x0, x1, y0, y1)) :
    (∀ p ∈ pix, x0 ≤ p.x ∧ p.x < x1 ∧ y0 ≤ p.y ∧ p.y < y1) ∧
    (∃ p ∈ pix, p.x = x0) ∧ (∃ p ∈ pix, p.x + 1 = x1) ∧ (∃ p ∈ pix, p.y = y0) ∧ (∃ p ∈ pix, p.y + 1 = y1) := by
  induction pix generalizing x0 x1 y0 y1 with
  | nil => simp [tightBox] at h
  | cons p ps ih =>
    simp only [tightBox] at h
    cases hb : tightBox ps with
    | none =>
      rw [hb] at h
      simp only [Option.some.injEq, Prod.mk.injEq] at h
      obtain ⟨rfl, rfl, rfl, rfl⟩ := h
      have : ps = [] := (tightBox_none ps).1 hb
      subst this
      refine ⟨?_, ⟨p, by simp, rfl⟩, ⟨p, by simp, rfl⟩, ⟨p, by simp, rfl⟩, ⟨p, by simp, rfl⟩⟩
      intro q hq
      simp only [List.mem_singleton] at hq; subst hq; omega
    | some b =>
      obtain ⟨a0, a1, b0, b1⟩ := b
      rw [hb] at h
      simp only [Option.some.injEq, Prod.mk.injEq] at h
      obtain ⟨e0, e1, e2, e3⟩ := h
      obtain ⟨i1, ⟨q0, hq0, f0⟩, ⟨q1, hq1, f1⟩, ⟨q2, hq2, f2⟩, ⟨q3, hq3, f3⟩⟩ := ih a0 a1 b0 b1 hb
      refine ⟨?_, ?_, ?_, ?_, ?_⟩
      · intro q hq
        rcases List.mem_cons.1 hq with rfl | hq
        · omega
        · have := i1 q hq; omega
      · by_cases c : p.x ≤ a0
        · exact ⟨p, by simp, by omega⟩
        · exact ⟨q0, by simp [hq0], by omega⟩
      · by_cases c : a1 ≤ p.x + 1
        · exact ⟨p, by simp, by omega⟩
        · exact ⟨q1, by simp [hq1], by omega⟩
      · by_cases c : p.y ≤ b0
        · exact ⟨p, by simp, by omega⟩
        · exact ⟨q2, by simp [hq2], by omega⟩
      · by_cases c : b1 ≤ p.y + 1
        · exact ⟨p, by simp, by omega⟩
        · exact ⟨q3, by simp [hq3], by omega⟩

/-- pigeonhole: pixels at distinct positions inside a box are at most as many as the box has cells -/
theorem pixels_le_area (xmin xmax ymin ymax : Nat) (pix : List Pix)
    (hbox : ∀ p ∈ pix, inBox xmin xmax ymin ymax p = true)
    (hnd : (pix.map (fun p => (p.x, p.y))).Nodup) :
    pix.length ≤ (xmax - xmin) * (ymax - ymin) := by
  classical
  have hsub : (pix.map (fun p => (p.x, p.y))).toFinset ⊆ Finset.Ico xmin xmax ×ˢ Finset.Ico ymin ymax := by
    intro q hq
    simp only [List.mem_toFinset, List.mem_map] at hq
    obtain ⟨p, hp, rfl⟩ := hq
    have := hbox p hp
    simp only [inBox, Bool.and_eq_true, decide_eq_true_eq] at this
    simp only [Finset.mem_product, Finset.mem_Ico]
    omega
  have hc := Finset.card_le_card hsub
  rw [List.toFinset_card_of_nodup hnd, Finset.card_product, Nat.card_Ico, Nat.card_Ico, List.length_map] at hc
  exact hc

end Aegean.Proofs.C03
