/-
  C17 — sexagesimal formatting/parsing as integer arithmetic on hundredths of a (arc)second.

  `n` is the integer the repaired formatters compute first:
     dec2dms:  n = round(|x|·360000)                 (hundredths of an arcsecond)
     dec2hms:  n = round(x·24000) mod 8640000        (hundredths of a second of time)
  The printed fields are `fldHi n : fldM n : (fldCs n)/100` with two decimals.  The parser adds
  `d + m/60 + s/3600` (or subtracts, for a leading '-'), where `s` is the number `SS.CC` printed,
  i.e. `fldCs n / 100`.
-/
import Aegean.Proofs.Real
import Aegean.Model.C17
import Mathlib.Tactic.Linarith
import Mathlib.Tactic.FieldSimp
import Mathlib.Tactic.NormNum
import Mathlib.Tactic.Positivity
import Mathlib.Algebra.Order.Floor.Defs
import Mathlib.Data.Rat.Cast.Lemmas

open Aegean.Model.C17

namespace Aegean.C17

theorem fldM_lt (n : Nat) : fldM n < 60 := by unfold fldM; omega
theorem fldCs_lt (n : Nat) : fldCs n < 6000 := by unfold fldCs; omega

/-- the whole seconds printed are below 60 and the two decimals below 100 -/
theorem fldCs_digits (n : Nat) : fldCs n / 100 < 60 ∧ fldCs n % 100 < 100 := by unfold fldCs; omega

/-- the three fields recompose to `n`: nothing is lost or duplicated by the carry arithmetic -/
theorem fld_recompose (n : Nat) : fldHi n * 360000 + fldM n * 6000 + fldCs n = n := by
  unfold fldHi fldM fldCs; omega

theorem fldHi_le_90 (n : Nat) (h : n ≤ 90 * 360000) :
    fldHi n ≤ 90 ∧ (fldHi n = 90 → fldM n = 0 ∧ fldCs n = 0) := by
  unfold fldHi fldM fldCs; omega

theorem hmsWrap_lt (k : Int) : hmsWrap k < 8640000 := by unfold hmsWrap; omega

theorem fldHi_hmsWrap_lt (k : Int) : fldHi (hmsWrap k) < 24 := by
  have := hmsWrap_lt k; unfold fldHi; omega

/-- the wrap changes the count by a whole number of days (24 h = 8 640 000 hundredths of a second) -/
theorem hmsWrap_spec (k : Int) : ∃ j : Int, (hmsWrap k : Int) = k - 8640000 * j := by
  refine ⟨k / 8640000, ?_⟩; unfold hmsWrap; omega

theorem hmsWrap_of_lt (k : Int) (h0 : 0 ≤ k) (h1 : k < 8640000) : (hmsWrap k : Int) = k := by
  unfold hmsWrap; omega

/-- value of the printed fields, as the parser computes it over ℝ, is `n/360000` -/
theorem pos_value (n : Nat) :
    dec2decPosHand (fldHi n : ℝ) (fldM n : ℝ) ((fldCs n : ℝ) / 100) = (n : ℝ) / 360000 := by
  have h := fld_recompose n
  have h' : ((fldHi n * 360000 + fldM n * 6000 + fldCs n : Nat) : ℝ) = (n : ℝ) := by rw [h]
  push_cast at h'
  simp only [dec2decPosHand, R.real_ofNat, Nat.cast_ofNat]
  rw [← h']; ring

theorem neg_value (n : Nat) :
    dec2decNegHand (-(fldHi n : ℝ)) (fldM n : ℝ) ((fldCs n : ℝ) / 100) = -((n : ℝ) / 360000) := by
  have h := pos_value n
  simp only [dec2decPosHand, dec2decNegHand, R.real_ofNat, Nat.cast_ofNat] at h ⊢
  linarith

/-- nearest-integer rounding, any tie rule: `|y − n| ≤ ½` -/
def IsRound (y : ℝ) (n : ℤ) : Prop := |y - n| ≤ 1 / 2

theorem half_unit (x : ℝ) (n : ℤ) (c : ℝ) (hc : 0 < c) (h : IsRound (x * c) n) :
    |(n : ℝ) / c - x| ≤ 1 / (2 * c) := by
  unfold IsRound at h
  have e : (n : ℝ) / c - x = -((x * c - n) / c) := by field_simp; ring
  rw [e, abs_neg, abs_div, abs_of_pos hc, div_le_div_iff₀ hc (by positivity)]
  calc |x * c - n| * (2 * c) ≤ 1 / 2 * (2 * c) := by
        apply mul_le_mul_of_nonneg_right h; positivity
    _ = 1 * c := by ring

/-! ### `float(token)` over ℝ -/

theorem ofSci_real (m e : ℕ) : (OfScientific.ofScientific m true e : ℝ) = (m : ℝ) / 10 ^ e := by
  rw [← Rat.cast_ofScientific (K := ℝ)]
  show ((Rat.ofScientific m true e : ℚ) : ℝ) = _
  rw [Rat.ofScientific_true_def, Rat.mkRat_eq_div]
  push_cast; rfl

/-- an integer field `DD` is read as the number `DD` -/
theorem numVal_int (k : Nat) : (numVal (false, k, 0) : ℝ) = k := by
  simp [numVal, ofSci_real]

theorem numVal_negInt (k : Nat) : (numVal (true, k, 0) : ℝ) = -(k : ℝ) := by
  simp [numVal, ofSci_real]

/-- the seconds field `SS.CC` is read as `cs / 100` -/
theorem numVal_centi (cs : Nat) : (numVal (false, cs, 2) : ℝ) = (cs : ℝ) / 100 := by
  simp [numVal, ofSci_real]; norm_num

end Aegean.C17
