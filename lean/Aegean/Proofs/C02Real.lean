/-
  C02 — the places where Mathlib is used:
  * `conn_iff_reflTransGen`: the Spec's inductive `Conn` *is* the reflexive-transitive closure
    (Mathlib's `Relation.ReflTransGen`) of 8-adjacency restricted to flood pixels;
  * the ℝ interpretation of the comparison interface `Cmp` and its order law (`CmpLaws ℝ`);
  * the pixel list of a reported island has no duplicates (`List.Nodup` lemmas).
-/
import Mathlib.Logic.Relation
import Mathlib.Data.List.Nodup
import Aegean.Proofs.Real
import Aegean.Proofs.C02

namespace Aegean.Proofs.C02
open Aegean.Model.C02 Aegean.Spec.C02

/-- one step of the Spec's relation: 8-adjacent pixels, both inside the image and on the mask -/
def maskStep (g : Grid) (p q : Px) : Prop := adj8 p q ∧ g.inA p = true ∧ g.inA q = true

theorem conn_iff_reflTransGen (g : Grid) (p q : Px) :
    Conn g p q ↔ g.inA p = true ∧ Relation.ReflTransGen (maskStep g) p q := by
  constructor
  · intro h
    induction h with
    | refl hp => exact ⟨hp, Relation.ReflTransGen.refl⟩
    | step hpq hadj hr ih => exact ⟨ih.1, Relation.ReflTransGen.tail ih.2 ⟨hadj, conn_right hpq, hr⟩⟩
  · rintro ⟨hp, h⟩
    induction h with
    | refl => exact Conn.refl p hp
    | tail _ hstep ih => exact Conn.step ih hstep.1 hstep.2.2

theorem boxPx_nodup (b : Box) : (boxPx b).Nodup := by
  unfold boxPx
  rw [List.nodup_flatMap]
  refine ⟨fun dr _ => ?_, ?_⟩
  · refine List.Nodup.map ?_ List.nodup_range
    intro x y h
    simp only [Prod.mk.injEq] at h
    omega
  · refine List.Pairwise.imp ?_ (List.nodup_range (n := b.rhi - b.rlo))
    intro x y hxy
    simp only [Function.onFun, List.disjoint_left, List.mem_map, List.mem_range]
    rintro p ⟨c1, _, rfl⟩ ⟨c2, _, h⟩
    simp only [Prod.mk.injEq] at h
    omega

theorem islandOf_pixels_nodup {g : Grid} {lab : Px → Nat} {inside : Option (Px → Bool)} {i : Nat}
    {I : Island} (h : islandOf g lab inside i = some I) : I.pixels.Nodup := by
  simp only [islandOf, Option.bind_eq_some_iff] at h
  obtain ⟨fb, _, h⟩ := h
  simp only [islandIn] at h
  split at h
  · simp only [Option.map_eq_some_iff] at h
    obtain ⟨b, _, rfl⟩ := h
    exact (boxPx_nodup fb).filter _
  · cases h

noncomputable instance instCmpReal : Cmp ℝ where
  le a b := decide (a ≤ b)
  lt a b := decide (a < b)

instance : CmpLaws ℝ where
  lt_of_le_of_lt a b c h1 h2 := by
    simp only [Cmp.le, Cmp.lt, decide_eq_true_eq] at *
    exact lt_of_le_of_lt h1 h2

end Aegean.Proofs.C02
