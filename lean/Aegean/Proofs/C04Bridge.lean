/-
  C04 — bridge between the executable list-level `lmfitJac` (what the driver runs at `Float`,
  here interpreted at ℝ) and Mathlib matrices: under the obvious correspondence
  `toM rows n m i j = rows[i][j]`, `lmfitJac` *is* `(M / errs · B)ᵀ`.
-/
import Mathlib.Data.Matrix.Mul
import Mathlib.Algebra.BigOperators.Fin
import Aegean.Proofs.C04Real

set_option linter.unusedVariables false
set_option linter.unusedSimpArgs false

attribute [-instance] R.toAdd R.toSub R.toMul R.toDiv R.toNeg

namespace Aegean.C04Bridge
open Aegean.Model.C04 Aegean.C04Real

/-- a list of rows as a matrix (out-of-range entries read as 0; never used for rectangular input) -/
def toM (rows : List (List ℝ)) (n m : ℕ) : Matrix (Fin n) (Fin m) ℝ :=
  fun i j => (rows.getD i []).getD j 0

theorem getD_of_lt {β : Type} (l : List β) (d : β) (i : ℕ) (h : i < l.length) : l.getD i d = l[i] := by
  simp [List.getD_eq_getElem?_getD, h]

/-- `rows` is an `n × m` rectangular list of lists -/
def Rect (rows : List (List ℝ)) (n m : ℕ) : Prop := rows.length = n ∧ ∀ r ∈ rows, r.length = m

theorem Rect.row_length {rows : List (List ℝ)} {n m : ℕ} (h : Rect rows n m) (i : ℕ) (hi : i < n) :
    (rows.getD i []).length = m := by
  have hi' : i < rows.length := by rw [h.1]; exact hi
  rw [getD_of_lt _ _ _ hi']
  exact h.2 _ (List.getElem_mem hi')

/-! ### list sums -/

theorem foldl_add (l : List ℝ) : ∀ z : ℝ, l.foldl (fun x y => x + y) z = z + l.sum := by
  induction l with
  | nil => intro z; simp
  | cons a l ih => intro z; simp only [List.foldl_cons, ih, List.sum_cons]; ring

theorem dot_eq (a c : List ℝ) : dot a c = (List.zipWith (fun x y => x * y) a c).sum := by
  unfold dot
  simp only [r_add, r_mul, R.real_ofNat, Nat.cast_zero]
  rw [foldl_add]; simp

theorem sum_zipWith : ∀ (m : ℕ) (a c : List ℝ), a.length = m → c.length = m →
    (List.zipWith (fun x y => x * y) a c).sum = ∑ l : Fin m, a.getD l 0 * c.getD l 0 := by
  intro m
  induction m with
  | zero =>
    intro a c ha hc
    have : a = [] := List.length_eq_zero_iff.mp ha
    subst this; simp
  | succ m ih =>
    intro a c ha hc
    cases a with
    | nil => simp at ha
    | cons x a =>
      cases c with
      | nil => simp at hc
      | cons y c =>
        have ha' : a.length = m := by simpa using ha
        have hc' : c.length = m := by simpa using hc
        rw [List.zipWith_cons_cons, List.sum_cons, ih a c ha' hc', Fin.sum_univ_succ]
        simp

theorem dot_eq_sum (m : ℕ) (a c : List ℝ) (ha : a.length = m) (hc : c.length = m) :
    dot a c = ∑ l : Fin m, a.getD l 0 * c.getD l 0 := by
  rw [dot_eq, sum_zipWith m a c ha hc]

/-! ### entries of the list-level operations -/

theorem getD_map_range {β : Type} (f : ℕ → β) (m j : ℕ) (d : β) (h : j < m) :
    ((List.range m).map f).getD j d = f j := by
  rw [getD_of_lt _ _ _ (by simpa using h)]
  simp

theorem getD_map {β γ : Type} (l : List β) (f : β → γ) (k : ℕ) (d : γ) (d' : β) (h : k < l.length) :
    (l.map f).getD k d = f (l.getD k d') := by
  rw [getD_of_lt _ _ _ (by simpa using h), getD_of_lt _ _ _ h]
  simp

theorem column_getD (X : List (List ℝ)) (j k : ℕ) (hk : k < X.length) :
    (column X j).getD k 0 = (X.getD k []).getD j 0 := by
  unfold column
  rw [getD_map X _ k 0 [] hk]
  simp only [R.real_ofNat, Nat.cast_zero]

theorem column_length (X : List (List ℝ)) (j : ℕ) : (column X j).length = X.length := by
  simp [column]

/-- `transpose` is matrix transposition -/
theorem toM_transpose (X : List (List ℝ)) (n m : ℕ) (hX : X.length = n) :
    toM (Model.C04.transpose X m) m n = Matrix.transpose (toM X n m) := by
  ext j k
  simp only [toM, Matrix.transpose_apply]
  unfold Model.C04.transpose
  rw [getD_map_range _ m j [] j.2, column_getD X j k (by rw [hX]; exact k.2)]

theorem transpose_rect (X : List (List ℝ)) (n m : ℕ) (hX : X.length = n) :
    Rect (Model.C04.transpose X m) m n := by
  refine ⟨by simp [Model.C04.transpose], ?_⟩
  intro r hr
  simp only [Model.C04.transpose, List.mem_map, List.mem_range] at hr
  obtain ⟨j, _, rfl⟩ := hr
  rw [column_length, hX]

/-- `divErrs` divides column `j` by `errs[j]` -/
theorem toM_divErrs (rows : List (List ℝ)) (e : List ℝ) (n m : ℕ) (h : Rect rows n m) (he : e.length = m) :
    toM (divErrs rows e) n m = Matrix.of fun k j => toM rows n m k j / e.getD j 0 := by
  ext k j
  have hk : (k : ℕ) < rows.length := by rw [h.1]; exact k.2
  have hr := h.row_length k k.2
  simp only [toM, Matrix.of_apply]
  unfold divErrs
  rw [getD_map rows _ k [] [] hk]
  have hj1 : (j : ℕ) < (rows.getD k []).length := by rw [hr]; exact j.2
  have hj2 : (j : ℕ) < e.length := by rw [he]; exact j.2
  rw [getD_of_lt _ _ _ (by rw [List.length_zipWith]; omega), List.getElem_zipWith,
    getD_of_lt _ _ _ hj1, getD_of_lt _ _ _ hj2, r_div]

theorem divErrs_rect (rows : List (List ℝ)) (e : List ℝ) (n m : ℕ) (h : Rect rows n m) (he : e.length = m) :
    Rect (divErrs rows e) n m := by
  refine ⟨by simp [divErrs, h.1], ?_⟩
  intro r hr
  simp only [divErrs, List.mem_map] at hr
  obtain ⟨r', hr', rfl⟩ := hr
  simp [List.length_zipWith, h.2 r' hr', he]

/-- `matMul` is the matrix product -/
theorem toM_matMul (A b : List (List ℝ)) (n m : ℕ) (hA : Rect A n m) (hb : Rect b m m) :
    toM (matMul A b m) n m = toM A n m * toM b m m := by
  ext k j
  have hk : (k : ℕ) < A.length := by rw [hA.1]; exact k.2
  simp only [toM, Matrix.mul_apply]
  unfold matMul
  simp only []
  rw [getD_map A _ k [] [] hk]
  have hbt : (Model.C04.transpose b m).length = m := by simp [Model.C04.transpose]
  rw [getD_map (Model.C04.transpose b m) _ j 0 [] (by rw [hbt]; exact j.2)]
  have hcol : (Model.C04.transpose b m).getD j [] = column b j := by
    unfold Model.C04.transpose; exact getD_map_range _ m j [] j.2
  rw [hcol, dot_eq_sum m _ _ (hA.row_length k k.2) (by rw [column_length, hb.1])]
  refine Finset.sum_congr rfl fun l _ => ?_
  rw [column_getD b j l (by rw [hb.1]; exact l.2)]

theorem matMul_length (A b : List (List ℝ)) (m : ℕ) : (matMul A b m).length = A.length := by
  simp [matMul]

end Aegean.C04Bridge
