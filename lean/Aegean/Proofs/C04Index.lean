/-
  C04 — index lemmas (core Lean only, no Mathlib): the Jacobian row order and the
  stderr-assignment loop of `covar_errors`, for every number of components and every choice of
  `vary` flags.
-/
import Aegean.Model.C04

set_option linter.unusedVariables false

namespace Aegean.C04Index
open Aegean.Model.C04

/-! ### generic list facts -/

theorem Par.idxOf_all (p : Par) : Par.all.idxOf p = p.idx := by
  cases p <;> decide

theorem Par.mem_all (p : Par) : p ∈ Par.all := by
  cases p <;> decide

theorem Par.nodup_all : Par.all.Nodup := by decide

/-- in the filtered list, the element `p` sits at the position given by the number of kept
    elements before it -/
theorem filter_getElem?_before (v : Par → Bool) :
    ∀ (ps : List Par) (p : Par), p ∈ ps → v p = true →
      (ps.filter v)[((ps.take (ps.idxOf p)).filter v).length]? = some p := by
  intro ps
  induction ps with
  | nil => intro p h; cases h
  | cons q qs ih =>
    intro p hp hv
    by_cases hq : q = p
    · subst hq
      simp [List.idxOf_cons_self, hv]
    · have hp' : p ∈ qs := by
        cases hp with
        | head => exact absurd rfl hq
        | tail _ h => exact h
      have hidx : (q :: qs).idxOf p = qs.idxOf p + 1 := by
        have hb : (q == p) = false := by simpa using hq
        rw [List.idxOf_cons, hb]; rfl
      rw [hidx, List.take_succ_cons]
      cases hvq : v q
      · simp only [List.filter_cons, hvq]
        exact ih p hp' hv
      · simp only [List.filter_cons, hvq, if_true, List.length_cons, List.getElem?_cons_succ]
        exact ih p hp' hv

theorem countBefore_lt (v : Vary) (p : Par) (hv : v p = true) : countBefore v p < nfreeComp v := by
  have h := filter_getElem?_before v Par.all p (Par.mem_all p) hv
  rw [Par.idxOf_all] at h
  unfold countBefore nfreeComp
  exact (List.getElem?_eq_some_iff.mp h).1

theorem filter_all_countBefore (v : Vary) (p : Par) (hv : v p = true) :
    (Par.all.filter v)[countBefore v p]? = some p := by
  have h := filter_getElem?_before v Par.all p (Par.mem_all p) hv
  rw [Par.idxOf_all] at h
  exact h

/-! ### `rank` in closed form -/

theorem rank_eq : ∀ (vs : List Vary) (i : Nat) (p : Par) (h : i < vs.length),
    rank vs i p = nfree (vs.take i) + countBefore vs[i] p := by
  intro vs
  induction vs with
  | nil => intro i p h; cases h
  | cons v vs ih =>
    intro i p h
    cases i with
    | zero => simp [rank, nfree]
    | succ i =>
      have h' : i < vs.length := by simpa using h
      simp only [rank, List.take_succ_cons, List.getElem_cons_succ, ih i p h', nfree, List.map_cons,
        List.sum_cons]
      omega

theorem rank_lt_nfree : ∀ (vs : List Vary) (i : Nat) (p : Par) (h : i < vs.length),
    vs[i] p = true → rank vs i p < nfree vs := by
  intro vs
  induction vs with
  | nil => intro i p h; cases h
  | cons v vs ih =>
    intro i p h hv
    cases i with
    | zero =>
      have := countBefore_lt v p (by simpa using hv)
      simp only [rank, nfree, List.map_cons, List.sum_cons]
      omega
    | succ i =>
      have h' : i < vs.length := by simpa using h
      have := ih i p h' (by simpa using hv)
      simp only [rank, nfree, List.map_cons, List.sum_cons] at this ⊢
      omega

/-! ### the documented order `freeList` -/

theorem freeListFrom_length : ∀ (vs : List Vary) (i₀ : Nat), (freeListFrom vs i₀).length = nfree vs := by
  intro vs
  induction vs with
  | nil => intro i₀; rfl
  | cons v vs ih =>
    intro i₀
    simp [freeListFrom, nfree, nfreeComp, ih, List.length_append]

/-- the free parameter `(i, p)` is entry number `rank vs i p` of the documented order -/
theorem freeListFrom_rank : ∀ (vs : List Vary) (i₀ i : Nat) (p : Par) (h : i < vs.length),
    vs[i] p = true → (freeListFrom vs i₀)[rank vs i p]? = some (i₀ + i, p) := by
  intro vs
  induction vs with
  | nil => intro i₀ i p h; cases h
  | cons v vs ih =>
    intro i₀ i p h hv
    cases i with
    | zero =>
      have hv' : v p = true := by simpa using hv
      have hlt := countBefore_lt v p hv'
      simp only [freeListFrom, rank]
      rw [List.getElem?_append_left (by simpa [nfreeComp] using hlt)]
      rw [List.getElem?_map, filter_all_countBefore v p hv']
      rfl
    | succ i =>
      have h' : i < vs.length := by simpa using h
      have := ih (i₀ + 1) i p h' (by simpa using hv)
      simp only [freeListFrom, rank]
      rw [List.getElem?_append_right (by simp [nfreeComp])]
      simp only [List.length_map, nfreeComp, Nat.add_sub_cancel_left]
      rw [this]
      congr 2
      omega

theorem mem_freeListFrom : ∀ (vs : List Vary) (i₀ : Nat) (k : Nat × Par),
    k ∈ freeListFrom vs i₀ ↔ ∃ i, ∃ h : i < vs.length, k.1 = i₀ + i ∧ vs[i] k.2 = true := by
  intro vs
  induction vs with
  | nil => intro i₀ k; simp [freeListFrom]
  | cons v vs ih =>
    intro i₀ k
    simp only [freeListFrom, List.mem_append, List.mem_map, List.mem_filter, ih]
    constructor
    · rintro (⟨p, ⟨_, hv⟩, rfl⟩ | ⟨i, h, h1, h2⟩)
      · exact ⟨0, by simp, by simp, by simpa using hv⟩
      · exact ⟨i + 1, by simpa using h, by omega, by simpa using h2⟩
    · rintro ⟨i, h, h1, h2⟩
      cases i with
      | zero =>
        left
        exact ⟨k.2, ⟨Par.mem_all _, by simpa using h2⟩, by
          cases k with | mk a b => simp at h1; simp [h1]⟩
      | succ i =>
        right
        exact ⟨i, by simpa using h, by omega, by simpa using h2⟩

/-! ### `fitting.jacobian`: the loop produces the rows in the documented order -/

variable {α : Type}

/-- rows in the documented order -/
def rowsSpec (D : Derivs α) (pix : List (α × α)) : List (Comp α × Vary) → List (List α)
  | [] => []
  | (c, v) :: rest => (Par.all.filter v).map (D.row pix c) ++ rowsSpec D pix rest

theorem compRows_eq (D : Derivs α) (pix : List (α × α)) (c : Comp α) (v : Vary) (m : List (List α)) :
    compRows D pix c v m = m ++ (Par.all.filter v).map (D.row pix c) := by
  unfold compRows Par.all
  cases h1 : v .amp <;> cases h2 : v .xo <;> cases h3 : v .yo <;> cases h4 : v .sx <;>
    cases h5 : v .sy <;> cases h6 : v .theta <;> simp [h1, h2, h3, h4, h5, h6]

theorem jacLoop_eq (D : Derivs α) (pix : List (α × α)) :
    ∀ (comps : List (Comp α × Vary)) (m : List (List α)), jacLoop D pix comps m = m ++ rowsSpec D pix comps := by
  intro comps
  induction comps with
  | nil => intro m; simp [jacLoop, rowsSpec]
  | cons cv rest ih =>
    intro m
    obtain ⟨c, v⟩ := cv
    simp [jacLoop, rowsSpec, ih, compRows_eq, List.append_assoc]

theorem rowsSpec_rank (D : Derivs α) (pix : List (α × α)) :
    ∀ (comps : List (Comp α × Vary)) (i : Nat) (p : Par) (h : i < comps.length),
      comps[i].2 p = true →
      (rowsSpec D pix comps)[rank (comps.map (·.2)) i p]? = some (D.row pix comps[i].1 p) := by
  intro comps
  induction comps with
  | nil => intro i p h; cases h
  | cons cv rest ih =>
    intro i p h hv
    obtain ⟨c, v⟩ := cv
    cases i with
    | zero =>
      have hv' : v p = true := by simpa using hv
      have hlt := countBefore_lt v p hv'
      simp only [rowsSpec, List.map_cons, rank]
      rw [List.getElem?_append_left (by simpa [nfreeComp] using hlt)]
      rw [List.getElem?_map, filter_all_countBefore v p hv']
      rfl
    | succ i =>
      have h' : i < rest.length := by simpa using h
      have := ih i p h' (by simpa using hv)
      simp only [rowsSpec, List.map_cons, rank]
      rw [List.getElem?_append_right (by simp [nfreeComp])]
      simp only [List.length_map, nfreeComp, Nat.add_sub_cancel_left]
      rw [this]
      rfl

theorem rowsSpec_length (D : Derivs α) (pix : List (α × α)) :
    ∀ (comps : List (Comp α × Vary)), (rowsSpec D pix comps).length = nfree (comps.map (·.2)) := by
  intro comps
  induction comps with
  | nil => rfl
  | cons cv rest ih =>
    obtain ⟨c, v⟩ := cv
    simp [rowsSpec, nfree, nfreeComp, ih]

/-! ### the stderr-assignment loop -/

theorem parLoop_fst (v : Vary) (i : Nat) : ∀ (ps : List Par) (j : Nat) (st : Table),
    (parLoop v i ps j st).1 = j + (ps.filter v).length := by
  intro ps
  induction ps with
  | nil => intro j st; simp [parLoop]
  | cons q qs ih =>
    intro j st
    cases hq : v q
    · simp [parLoop, hq, ih]
    · simp [parLoop, hq, ih]; omega

/-- the inner loop of component `i` writes only keys of component `i` -/
theorem parLoop_other (v : Vary) (i : Nat) : ∀ (ps : List Par) (j : Nat) (st : Table) (k : Nat × Par),
    k.1 ≠ i → (parLoop v i ps j st).2 k = st k := by
  intro ps
  induction ps with
  | nil => intro j st k _; rfl
  | cons q qs ih =>
    intro j st k hk
    cases hq : v q
    · simp [parLoop, hq, ih _ _ _ hk]
    · simp only [parLoop, hq, if_true, ih _ _ _ hk, Table.write]
      have : k ≠ (i, q) := by intro e; exact hk (by rw [e])
      simp [this]

/-- … and leaves alone a parameter that is not in the list or is not free -/
theorem parLoop_untouched (v : Vary) (i : Nat) : ∀ (ps : List Par) (j : Nat) (st : Table) (p : Par),
    (p ∉ ps ∨ v p = false) → (parLoop v i ps j st).2 (i, p) = st (i, p) := by
  intro ps
  induction ps with
  | nil => intro j st p _; rfl
  | cons q qs ih =>
    intro j st p hp
    have hp' : p ∉ qs ∨ v p = false := by
      cases hp with
      | inl h => exact Or.inl (fun m => h (List.mem_cons_of_mem _ m))
      | inr h => exact Or.inr h
    cases hq : v q
    · simp [parLoop, hq, ih _ _ _ hp']
    · have hne : p ≠ q := by
        intro e; subst e
        cases hp with
        | inl h => exact h (List.mem_cons_self)
        | inr h => rw [h] at hq; cases hq
      simp only [parLoop, hq, if_true, ih _ _ _ hp', Table.write]
      have : (i, p) ≠ (i, q) := by intro e; exact hne (by injection e)
      simp [this]

/-- a free parameter in the list receives the running index at the moment it is reached -/
theorem parLoop_own (v : Vary) (i : Nat) : ∀ (ps : List Par) (j : Nat) (st : Table) (p : Par),
    ps.Nodup → p ∈ ps → v p = true →
      (parLoop v i ps j st).2 (i, p) = some (j + ((ps.take (ps.idxOf p)).filter v).length) := by
  intro ps
  induction ps with
  | nil => intro j st p _ h; cases h
  | cons q qs ih =>
    intro j st p hnd hp hv
    have hnd' : qs.Nodup := (List.nodup_cons.mp hnd).2
    have hqn : q ∉ qs := (List.nodup_cons.mp hnd).1
    by_cases hq : q = p
    · subst hq
      simp only [parLoop, hv, if_true, List.idxOf_cons_self, List.take_zero, List.filter_nil, List.length_nil,
        Nat.add_zero]
      rw [parLoop_untouched v i qs (j + 1) _ q (Or.inl hqn)]
      simp [Table.write]
    · have hp' : p ∈ qs := by
        cases hp with
        | head => exact absurd rfl hq
        | tail _ h => exact h
      have hidx : (q :: qs).idxOf p = qs.idxOf p + 1 := by
        have hb : (q == p) = false := by simpa using hq
        rw [List.idxOf_cons, hb]; rfl
      rw [hidx, List.take_succ_cons]
      cases hvq : v q
      · simp only [parLoop, hvq, List.filter_cons]
        exact ih j st p hnd' hp' hv
      · simp only [parLoop, hvq, if_true, List.filter_cons, List.length_cons]
        rw [ih (j + 1) _ p hnd' hp' hv]
        congr 1
        omega

theorem compLoop_lower : ∀ (vs : List Vary) (i j : Nat) (st : Table) (k : Nat × Par),
    k.1 < i → compLoop vs i j st k = st k := by
  intro vs
  induction vs with
  | nil => intro i j st k _; rfl
  | cons v vs ih =>
    intro i j st k hk
    simp only [compLoop]
    rw [ih (i + 1) _ _ k (by omega), parLoop_other v i _ _ _ k (by omega)]

/-- **the repaired loop**: the free parameter `p` of component `i₀ + i` receives index
    `j₀ + rank vs i p` -/
theorem compLoop_own : ∀ (vs : List Vary) (i₀ j₀ : Nat) (st : Table) (i : Nat) (p : Par) (h : i < vs.length),
    vs[i] p = true → compLoop vs i₀ j₀ st (i₀ + i, p) = some (j₀ + rank vs i p) := by
  intro vs
  induction vs with
  | nil => intro i₀ j₀ st i p h; cases h
  | cons v vs ih =>
    intro i₀ j₀ st i p h hv
    cases i with
    | zero =>
      have hv' : v p = true := by simpa using hv
      simp only [compLoop, Nat.add_zero, rank]
      rw [compLoop_lower vs (i₀ + 1) _ _ (i₀, p) (by simp)]
      rw [parLoop_own v i₀ Par.all j₀ st p Par.nodup_all (Par.mem_all p) hv', Par.idxOf_all]
      rfl
    | succ i =>
      have h' : i < vs.length := by simpa using h
      have hv' : vs[i] p = true := by simpa using hv
      simp only [compLoop, rank]
      have e : i₀ + (i + 1) = (i₀ + 1) + i := by omega
      rw [e, ih (i₀ + 1) _ _ i p h' hv', parLoop_fst]
      simp only [nfreeComp, Nat.add_assoc]

/-- a parameter that is not free (or a component that does not exist) is never assigned -/
theorem compLoop_notfree : ∀ (vs : List Vary) (i₀ j₀ : Nat) (st : Table) (i : Nat) (p : Par),
    (∀ h : i < vs.length, vs[i] p = false) → compLoop vs i₀ j₀ st (i₀ + i, p) = st (i₀ + i, p) := by
  intro vs
  induction vs with
  | nil => intro i₀ j₀ st i p _; rfl
  | cons v vs ih =>
    intro i₀ j₀ st i p hv
    cases i with
    | zero =>
      have hv' : v p = false := hv (Nat.zero_lt_succ _)
      simp only [compLoop, Nat.add_zero]
      rw [compLoop_lower vs (i₀ + 1) _ _ (i₀, p) (by simp)]
      exact parLoop_untouched v i₀ Par.all j₀ st p (Or.inr hv')
    | succ i =>
      simp only [compLoop]
      have e : i₀ + (i + 1) = (i₀ + 1) + i := by omega
      rw [e, ih (i₀ + 1) _ _ i p (fun h => hv (Nat.succ_lt_succ h))]
      exact parLoop_other v i₀ _ _ _ _ (by simp; omega)

end Aegean.C04Index
