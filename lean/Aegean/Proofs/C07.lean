/-
  C07 — helper lemmas: counting, the termination measure, the barrier-generation invariant of the
  repaired protocol and its preservation.  Core Lean only.
-/
import Aegean.Model.C07

namespace Aegean.Proofs.C07
open Aegean.Model.C07

/-! ### counting -/

theorem cnt_le (p : Nat → Bool) (n : Nat) : cnt p n ≤ n := by
  induction n with
  | zero => simp [cnt]
  | succ k ih => simp only [cnt]; split <;> omega

theorem cnt_congr {p q : Nat → Bool} {n : Nat} (h : ∀ j, j < n → p j = q j) : cnt p n = cnt q n := by
  induction n with
  | zero => rfl
  | succ k ih =>
    simp only [cnt]
    rw [ih (fun j hj => h j (by omega)), h k (by omega)]

theorem cnt_all {p : Nat → Bool} {n : Nat} (h : ∀ j, j < n → p j = true) : cnt p n = n := by
  induction n with
  | zero => rfl
  | succ k ih =>
    simp only [cnt]
    rw [ih (fun j hj => h j (by omega)), h k (by omega)]; simp

theorem all_of_cnt {p : Nat → Bool} {n : Nat} (h : cnt p n = n) : ∀ j, j < n → p j = true := by
  induction n with
  | zero => intro j hj; omega
  | succ k ih =>
    intro j hj
    simp only [cnt] at h
    have hle := cnt_le p k
    by_cases hk : p k = true
    · simp [hk] at h
      by_cases hjk : j = k
      · subst hjk; exact hk
      · exact ih h j (by omega)
    · simp [hk] at h; omega

theorem none_of_cnt {p : Nat → Bool} {n : Nat} (h : cnt p n = 0) : ∀ j, j < n → p j = false := by
  induction n with
  | zero => intro j hj; omega
  | succ k ih =>
    intro j hj
    simp only [cnt] at h
    by_cases hk : p k = true
    · simp [hk] at h
    · simp [hk] at h
      by_cases hjk : j = k
      · subst hjk; simpa using hk
      · exact ih h j (by omega)

theorem exists_of_cnt_pos {p : Nat → Bool} {n : Nat} (h : 0 < cnt p n) : ∃ j, j < n ∧ p j = true := by
  induction n with
  | zero => simp [cnt] at h
  | succ k ih =>
    simp only [cnt] at h
    by_cases hk : p k = true
    · exact ⟨k, by omega, hk⟩
    · simp [hk] at h
      obtain ⟨j, hj, hp⟩ := ih h
      exact ⟨j, by omega, hp⟩

theorem cnt_update {p q : Nat → Bool} {n i : Nat} (hi : i < n)
    (h : ∀ j, j < n → j ≠ i → q j = p j) :
    cnt q n + (if p i then 1 else 0) = cnt p n + (if q i then 1 else 0) := by
  induction n with
  | zero => omega
  | succ k ih =>
    simp only [cnt]
    by_cases hik : i = k
    · subst hik
      have e : cnt q i = cnt p i := cnt_congr (fun j hj => h j (by omega) (by omega))
      rw [e]; omega
    · have e := ih (by omega) (fun j hj hne => h j (by omega) hne)
      rw [h k (by omega) (by omega)]; omega

theorem cnt_lt_of {p : Nat → Bool} {n i : Nat} (hi : i < n) (h : p i = false) : cnt p n < n := by
  have hle := cnt_le p n
  by_cases e : cnt p n = n
  · have := all_of_cnt e i hi; simp [h] at this
  · omega

theorem sumTo_update {f g : Nat → Nat} {n i : Nat} (hi : i < n)
    (h : ∀ j, j < n → j ≠ i → g j = f j) :
    sumTo g n + f i = sumTo f n + g i := by
  induction n with
  | zero => omega
  | succ k ih =>
    simp only [sumTo]
    by_cases hik : i = k
    · subst hik
      have e : sumTo g i = sumTo f i := by
        clear ih hi
        have : ∀ m, m ≤ i → sumTo g m = sumTo f m := by
          intro m
          induction m with
          | zero => intro _; rfl
          | succ m ihm => intro hm; simp only [sumTo]; rw [ihm (by omega), h m (by omega) (by omega)]
        exact this i (Nat.le_refl _)
      rw [e]; omega
    · have e := ih (by omega) (fun j hj hne => h j (by omega) hne)
      rw [h k (by omega) (by omega)]; omega

@[simp] theorem upd_same (f : Nat → Phase) (i : Nat) (p : Phase) : upd f i p i = p := by simp [upd]
theorem upd_other (f : Nat → Phase) {i j : Nat} (p : Phase) (h : j ≠ i) : upd f i p j = f j := by simp [upd, h]


/-! ### every enabled step is one of ten moves -/

inductive Move (c : Cfg) (s : State) (i : Nat) : State → Prop
  | start (hp : s.ph i = .queued) (hr : running c s < c.slots) :
      Move c s i { s with ph := upd s.ph i .pass1 }
  | endPass1 (hp : s.ph i = .pass1) : Move c s i { s with ph := upd s.ph i (.atB false) }
  | enter (k : Bool) (hp : s.ph i = .atB k) (hb : s.b.state = .filling) (hc : s.b.count + 1 ≠ c.parties) :
      Move c s i { ph := upd s.ph i (.inB k (s.b.count == 0)), b := { count := s.b.count + 1, state := .filling } }
  | enterLast (k : Bool) (hp : s.ph i = .atB k) (hb : s.b.state = .filling) (hc : s.b.count + 1 = c.parties) :
      Move c s i { ph := upd s.ph i (next c k (s.b.count == 0)),
                   b := { count := s.b.count, state := if s.b.count = 0 then .filling else .draining } }
  | enterBroken (k : Bool) (hp : s.ph i = .atB k) (hb : s.b.state = .broken) : Move c s i (failOut c s i s.b)
  | exit (k f : Bool) (hp : s.ph i = .inB k f) (hb : s.b.state = .draining) :
      Move c s i { ph := upd s.ph i (next c k f), b := s.b.leave }
  | exitBroken (k f : Bool) (hp : s.ph i = .inB k f) (hb : s.b.state = .resetting ∨ s.b.state = .broken) :
      Move c s i (failOut c s i s.b.leave)
  | doReset (k : Bool) (hp : s.ph i = .rst k) : Move c s i { ph := upd s.ph i (afterB k), b := s.b.doReset }
  | endPass2 (hp : s.ph i = .pass2) :
      Move c s i { s with ph := upd s.ph i (if c.mask then .atB true else .done) }
  | endMask (hp : s.ph i = .masking) : Move c s i { s with ph := upd s.ph i .done }

theorem adv_move {c : Cfg} {s s' : State} {i : Nat} (h : adv c s i = some s') : i < c.n ∧ Move c s i s' := by
  unfold adv at h
  by_cases hi : i < c.n
  · rw [if_pos hi] at h
    refine ⟨hi, ?_⟩
    cases hp : s.ph i with
    | queued =>
      simp only [hp] at h
      split at h
      · cases h; exact Move.start hp (by assumption)
      · cases h
    | pass1 => simp only [hp] at h; cases h; exact Move.endPass1 hp
    | atB k =>
      simp only [hp] at h
      cases hb : s.b.state with
      | filling =>
        simp only [hb] at h
        split at h
        · cases h; exact Move.enterLast k hp hb (by assumption)
        · cases h; exact Move.enter k hp hb (by assumption)
      | broken => simp only [hb] at h; cases h; exact Move.enterBroken k hp hb
      | draining => simp only [hb] at h; cases h
      | resetting => simp only [hb] at h; cases h
    | inB k f =>
      simp only [hp] at h
      cases hb : s.b.state with
      | filling => simp only [hb] at h; cases h
      | draining => simp only [hb] at h; cases h; exact Move.exit k f hp hb
      | resetting => simp only [hb] at h; cases h; exact Move.exitBroken k f hp (Or.inl hb)
      | broken => simp only [hb] at h; cases h; exact Move.exitBroken k f hp (Or.inr hb)
    | rst k => simp only [hp] at h; cases h; exact Move.doReset k hp
    | pass2 => simp only [hp] at h; cases h; exact Move.endPass2 hp
    | masking => simp only [hp] at h; cases h; exact Move.endMask hp
    | done => simp only [hp] at h; cases h
    | failed => simp only [hp] at h; cases h
  · rw [if_neg hi] at h; cases h


/-! ### termination measure -/

theorem mu_upd {c : Cfg} {s : State} {i : Nat} {p' : Phase} (b' : Barrier) (hi : i < c.n)
    (hr : p'.rank < (s.ph i).rank) : mu c { ph := upd s.ph i p', b := b' } < mu c s := by
  unfold mu
  have e := sumTo_update (f := fun j => (s.ph j).rank) (g := fun j => (upd s.ph i p' j).rank) hi
    (fun j _ hne => by simp [upd, hne])
  simp only [upd_same] at e
  simp only
  omega

theorem next_rank (c : Cfg) (k f : Bool) : (next c k f).rank < (Phase.inB k f).rank := by
  cases k <;> cases f <;> cases hr : c.reset <;> simp [next, afterB, Phase.rank, hr]

theorem next_rank' (c : Cfg) (k f : Bool) : (next c k f).rank < (Phase.atB k).rank := by
  cases k <;> cases f <;> cases hr : c.reset <;> simp [next, afterB, Phase.rank, hr]

theorem move_mu {c : Cfg} {s s' : State} {i : Nat} (hi : i < c.n) (m : Move c s i s') : mu c s' < mu c s := by
  cases m with
  | start hp _ => exact mu_upd _ hi (by rw [hp]; simp [Phase.rank])
  | endPass1 hp => exact mu_upd _ hi (by rw [hp]; simp [Phase.rank])
  | enter k hp _ _ => exact mu_upd _ hi (by rw [hp]; cases k <;> simp [Phase.rank])
  | enterLast k hp _ _ => exact mu_upd _ hi (by rw [hp]; exact next_rank' c k _)
  | enterBroken k hp _ => exact mu_upd _ hi (by rw [hp]; cases k <;> simp [Phase.rank])
  | exit k f hp _ => exact mu_upd _ hi (by rw [hp]; exact next_rank c k f)
  | exitBroken k f hp _ => exact mu_upd _ hi (by rw [hp]; cases k <;> simp [Phase.rank])
  | doReset k hp => exact mu_upd _ hi (by rw [hp]; cases k <;> simp [afterB, Phase.rank])
  | endPass2 hp => exact mu_upd _ hi (by rw [hp]; cases c.mask <;> simp [Phase.rank])
  | endMask hp => exact mu_upd _ hi (by rw [hp]; simp [Phase.rank])

theorem adv_mu {c : Cfg} {s s' : State} {i : Nat} (h : adv c s i = some s') : mu c s' < mu c s :=
  move_mu (adv_move h).1 (adv_move h).2

set_option linter.unusedSimpArgs false in
theorem fault_shape {c : Cfg} {s s' : State} {i : Nat} (h : fault c s i = some s') :
    i < c.n ∧ s' = failOut c s i s.b ∧ 0 < (s.ph i).rank ∧ (s.ph i).active = true := by
  unfold fault at h
  by_cases hi : i < c.n
  · rw [if_pos hi] at h
    refine ⟨hi, ?_⟩
    cases hp : s.ph i <;> simp only [hp] at h <;> first | (cases h; done) | (cases h; simp [Phase.rank, Phase.active])
    all_goals (rename_i k; cases k <;> simp [Phase.rank])
  · rw [if_neg hi] at h; cases h

theorem fault_mu {c : Cfg} {s s' : State} {i : Nat} (h : fault c s i = some s') : mu c s' < mu c s := by
  obtain ⟨hi, e, hr, _⟩ := fault_shape h
  subst e
  exact mu_upd _ hi (by simpa [Phase.rank] using hr)

theorem step_mu {c : Cfg} {s s' : State} {a : Act} (h : step c s a = some s') : mu c s' < mu c s := by
  cases a with
  | adv i => exact adv_mu h
  | fault i => exact fault_mu h


/-! ### the barrier-generation invariant of the repaired protocol -/

/-- number of barriers a stripe in this phase has entered -/
def ent (c : Cfg) : Phase → Nat
  | .queued | .pass1 | .atB false | .failed => 0
  | .inB false _ | .rst false | .pass2 | .atB true => 1
  | .inB true _ | .rst true | .masking => 2
  | .done => if c.mask then 2 else 1

/-- number of barriers a stripe in this phase has left -/
def ext (c : Cfg) : Phase → Nat
  | .queued | .pass1 | .atB false | .inB false _ | .failed => 0
  | .rst false | .pass2 | .atB true | .inB true _ => 1
  | .rst true | .masking => 2
  | .done => if c.mask then 2 else 1

/-- phases that occur in a fault-free run of the repaired protocol -/
def okPh (c : Cfg) : Phase → Bool
  | .failed | .rst _ => false
  | .atB true | .inB true _ | .masking => c.mask
  | _ => true

structure Good (c : Cfg) (s : State) : Prop where
  ok : ∀ i, i < c.n → okPh c (s.ph i) = true
  gen : ∃ g,
    (s.b.state = .filling ∧
      (∀ i, i < c.n → ext c (s.ph i) = g ∧ (ent c (s.ph i) = g ∨ ent c (s.ph i) = g + 1)) ∧
      s.b.count = cnt (fun i => ent c (s.ph i) == g + 1) c.n ∧ s.b.count < c.n) ∨
    (s.b.state = .draining ∧
      (∀ i, i < c.n → ent c (s.ph i) = g + 1 ∧ (ext c (s.ph i) = g ∨ ext c (s.ph i) = g + 1)) ∧
      s.b.count = cnt (fun i => ext c (s.ph i) == g) c.n ∧ 0 < s.b.count)

/-- hypotheses that make a configuration "repaired": no `reset()`, `abort()` on failure, one party per task -/
structure Repaired (c : Cfg) : Prop where
  noReset : c.reset = false
  abort : c.abort = true
  parties : c.parties = c.n

def NoRst (c : Cfg) (s : State) : Prop := ∀ i, i < c.n → ∀ k, s.ph i ≠ .rst k

def Inv (c : Cfg) (s : State) : Prop := NoRst c s ∧ (s.b.state = .broken ∨ Good c s)

theorem good_silent {c : Cfg} {s : State} {i : Nat} {p' : Phase} (G : Good c s)
    (he : ent c p' = ent c (s.ph i)) (hx : ext c p' = ext c (s.ph i)) (hok : okPh c p' = true) :
    Good c { s with ph := upd s.ph i p' } := by
  have hent : ∀ j, ent c (upd s.ph i p' j) = ent c (s.ph j) := by
    intro j; by_cases h : j = i
    · subst h; simp [he]
    · simp [upd, h]
  have hext : ∀ j, ext c (upd s.ph i p' j) = ext c (s.ph j) := by
    intro j; by_cases h : j = i
    · subst h; simp [hx]
    · simp [upd, h]
  refine ⟨?_, ?_⟩
  · intro j hj; by_cases h : j = i
    · subst h; simpa using hok
    · simp only [upd, h, if_false]; exact G.ok j hj
  · obtain ⟨g, hg⟩ := G.gen
    refine ⟨g, ?_⟩
    simp only [hent, hext]
    exact hg


theorem cnt_none {p : Nat → Bool} {n : Nat} (h : ∀ j, j < n → p j = false) : cnt p n = 0 := by
  induction n with
  | zero => rfl
  | succ k ih => simp only [cnt]; rw [ih (fun j hj => h j (by omega)), h k (by omega)]; simp

@[simp] theorem ent_atB (c : Cfg) (k : Bool) : ent c (.atB k) = k.toNat := by cases k <;> rfl
@[simp] theorem ext_atB (c : Cfg) (k : Bool) : ext c (.atB k) = k.toNat := by cases k <;> rfl
@[simp] theorem ent_inB (c : Cfg) (k f : Bool) : ent c (.inB k f) = k.toNat + 1 := by cases k <;> rfl
@[simp] theorem ext_inB (c : Cfg) (k f : Bool) : ext c (.inB k f) = k.toNat := by cases k <;> rfl
@[simp] theorem ent_afterB (c : Cfg) (k : Bool) : ent c (afterB k) = k.toNat + 1 := by cases k <;> rfl
@[simp] theorem ext_afterB (c : Cfg) (k : Bool) : ext c (afterB k) = k.toNat + 1 := by cases k <;> rfl
theorem ok_inB (c : Cfg) (k f : Bool) : okPh c (.inB k f) = okPh c (.atB k) := by cases k <;> rfl
theorem ok_afterB (c : Cfg) (k : Bool) : okPh c (afterB k) = okPh c (.atB k) := by cases k <;> rfl
theorem ok_afterB' (c : Cfg) (k f : Bool) : okPh c (afterB k) = okPh c (.inB k f) := by cases k <;> rfl

theorem next_noReset {c : Cfg} (h : c.reset = false) (k f : Bool) : next c k f = afterB k := by
  simp [next, h]

theorem good_enter {c : Cfg} {s : State} {i : Nat} {k : Bool} (f : Bool) (R : Repaired c) (G : Good c s)
    (hi : i < c.n) (hp : s.ph i = .atB k) (hb : s.b.state = .filling) (hc : s.b.count + 1 ≠ c.parties) :
    Good c { ph := upd s.ph i (.inB k f), b := { count := s.b.count + 1, state := .filling } } := by
  obtain ⟨g, hg⟩ := G.gen
  rcases hg with ⟨_, hall, hcnt, hlt⟩ | ⟨hd, _⟩
  · have hgi := hall i hi
    rw [hp] at hgi
    simp only [ent_atB, ext_atB] at hgi
    have hk : k.toNat = g := hgi.1
    refine ⟨?_, g, Or.inl ⟨rfl, ?_, ?_, ?_⟩⟩
    all_goals dsimp only
    · intro j hj; by_cases h : j = i
      · subst h; rw [upd_same, ok_inB, ← hp]; exact G.ok j hj
      · rw [upd_other _ _ h]; exact G.ok j hj
    · intro j hj; by_cases h : j = i
      · subst h; simp only [upd_same, ent_inB, ext_inB]; omega
      · rw [upd_other _ _ h]; exact hall j hj
    · have e := cnt_update (p := fun j => ent c (s.ph j) == g + 1)
        (q := fun j => ent c (upd s.ph i (.inB k f) j) == g + 1) hi
        (fun j _ hne => by simp [upd, hne])
      simp only [upd_same, ent_inB, hp, ent_atB, hk] at e
      simp at e
      omega
    · have := R.parties; omega
  · rw [hb] at hd; cases hd

theorem good_enterLast {c : Cfg} {s : State} {i : Nat} {k : Bool} (R : Repaired c) (G : Good c s)
    (hi : i < c.n) (hp : s.ph i = .atB k) (hb : s.b.state = .filling) (hc : s.b.count + 1 = c.parties) :
    Good c { ph := upd s.ph i (afterB k),
             b := { count := s.b.count, state := if s.b.count = 0 then .filling else .draining } } := by
  obtain ⟨g, hg⟩ := G.gen
  have hpar := R.parties
  rcases hg with ⟨_, hall, hcnt, hlt⟩ | ⟨hd, _⟩
  · have hgi := hall i hi
    rw [hp] at hgi
    simp only [ent_atB, ext_atB] at hgi
    have hk : k.toNat = g := hgi.1
    have hok : ∀ j, j < c.n → okPh c (upd s.ph i (afterB k) j) = true := by
      intro j hj; by_cases h : j = i
      · subst h; rw [upd_same, ok_afterB, ← hp]; exact G.ok j hj
      · rw [upd_other _ _ h]; exact G.ok j hj
    -- every other stripe is already inside this generation
    have hothers : ∀ j, j < c.n → j ≠ i → ent c (s.ph j) = g + 1 := by
      have e := cnt_update (p := fun j => ent c (s.ph j) == g + 1)
        (q := fun j => (ent c (s.ph j) == g + 1) || (j == i)) hi
        (fun j _ hne => by simp [hne])
      simp only [hp, ent_atB, hk] at e
      simp at e
      have hq := all_of_cnt (p := fun j => (ent c (s.ph j) == g + 1) || (j == i)) (n := c.n) (by omega)
      intro j hj hne
      have := hq j hj
      simp [hne] at this
      exact this
    by_cases h0 : s.b.count = 0
    · -- a single party: the barrier is at once filling again, one generation later
      have hn1 : c.n = 1 := by omega
      refine ⟨hok, g + 1, Or.inl ⟨by simp [h0], ?_, ?_, ?_⟩⟩
      all_goals dsimp only
      · intro j hj
        have : j = i := by omega
        subst this; simp only [upd_same, ent_afterB, ext_afterB]; omega
      · simp only [h0]
        symm; apply cnt_none
        intro j hj
        have : j = i := by omega
        subst this; simp only [upd_same, ent_afterB]; simp; omega
      · simp only [h0]; omega
    · refine ⟨hok, g, Or.inr ⟨by simp [h0], ?_, ?_, by simp only; omega⟩⟩
      all_goals dsimp only
      · intro j hj; by_cases h : j = i
        · subst h; simp only [upd_same, ent_afterB, ext_afterB]; omega
        · rw [upd_other _ _ h]; exact ⟨hothers j hj h, Or.inl (hall j hj).1⟩
      · have hallx : cnt (fun j => ext c (s.ph j) == g) c.n = c.n :=
          cnt_all (fun j hj => by simp [(hall j hj).1])
        have e := cnt_update (p := fun j => ext c (s.ph j) == g)
          (q := fun j => ext c (upd s.ph i (afterB k) j) == g) hi
          (fun j _ hne => by simp [upd, hne])
        simp only [upd_same, ext_afterB, hp, ext_atB, hk] at e
        simp at e
        omega
  · rw [hb] at hd; cases hd

theorem good_exit {c : Cfg} {s : State} {i : Nat} {k f : Bool} (G : Good c s)
    (hi : i < c.n) (hp : s.ph i = .inB k f) (hb : s.b.state = .draining) :
    Good c { ph := upd s.ph i (afterB k), b := s.b.leave } := by
  obtain ⟨g, hg⟩ := G.gen
  rcases hg with ⟨hf, _⟩ | ⟨_, hall, hcnt, hpos⟩
  · rw [hb] at hf; cases hf
  · have hgi := hall i hi
    rw [hp] at hgi
    simp only [ent_inB, ext_inB] at hgi
    have hk : k.toNat = g := by omega
    have hok : ∀ j, j < c.n → okPh c (upd s.ph i (afterB k) j) = true := by
      intro j hj; by_cases h : j = i
      · subst h; rw [upd_same, ok_afterB' c k f, ← hp]; exact G.ok j hj
      · rw [upd_other _ _ h]; exact G.ok j hj
    have e := cnt_update (p := fun j => ext c (s.ph j) == g)
      (q := fun j => ext c (upd s.ph i (afterB k) j) == g) hi
      (fun j _ hne => by simp [upd, hne])
    simp only [upd_same, ext_afterB, hp, ext_inB, hk] at e
    simp at e
    have hall' : ∀ j, j < c.n → ent c (upd s.ph i (afterB k) j) = g + 1 ∧
        (ext c (upd s.ph i (afterB k) j) = g ∨ ext c (upd s.ph i (afterB k) j) = g + 1) := by
      intro j hj; by_cases h : j = i
      · subst h; simp only [upd_same, ent_afterB, ext_afterB]; omega
      · rw [upd_other _ _ h]; exact hall j hj
    by_cases h0 : s.b.count - 1 = 0
    · have hz : cnt (fun j => ext c (upd s.ph i (afterB k) j) == g) c.n = 0 := by omega
      have hnone := none_of_cnt hz
      refine ⟨hok, g + 1, Or.inl ⟨by simp [Barrier.leave, h0, hb], ?_, ?_, ?_⟩⟩
      all_goals dsimp only
      · intro j hj
        have h1 := hall' j hj
        have h2 := hnone j hj
        simp at h2
        omega
      · simp only [Barrier.leave, h0]
        symm; apply cnt_none
        intro j hj
        have h1 := hall' j hj
        simp; omega
      · simp only [Barrier.leave, h0]; omega
    · refine ⟨hok, g, Or.inr ⟨by simp [Barrier.leave, h0, hb], hall', ?_, ?_⟩⟩
      all_goals dsimp only
      · simp only [Barrier.leave]; omega
      · simp only [Barrier.leave]; omega


/-! ### the invariant holds in every reachable state of the repaired protocol -/

theorem norst_upd {c : Cfg} {s : State} {i : Nat} {p' : Phase} (b' : Barrier) (h : NoRst c s)
    (hp : ∀ k, p' ≠ .rst k) : NoRst c { ph := upd s.ph i p', b := b' } := by
  intro j hj k
  by_cases e : j = i
  · subst e; simp only [upd_same]; exact hp k
  · simp only [upd_other _ _ e]; exact h j hj k

theorem afterB_ne_rst (k k' : Bool) : afterB k ≠ .rst k' := by cases k <;> simp [afterB]

theorem good_state {c : Cfg} {s : State} (G : Good c s) : s.b.state = .filling ∨ s.b.state = .draining := by
  obtain ⟨g, hg⟩ := G.gen
  rcases hg with ⟨h, _⟩ | ⟨h, _⟩
  · exact Or.inl h
  · exact Or.inr h

theorem failOut_broken {c : Cfg} (R : Repaired c) (s : State) (i : Nat) (b : Barrier) :
    (failOut c s i b).b.state = .broken := by
  simp [failOut, R.abort, Barrier.doAbort]

theorem leave_broken {b : Barrier} (h : b.state = .broken) : b.leave.state = .broken := by
  simp [Barrier.leave, h]

theorem inv_init (c : Cfg) (hn : 0 < c.n) : Inv c (init c) := by
  refine ⟨fun i _ k => by simp [init], Or.inr ⟨fun i _ => rfl, 0, Or.inl ⟨rfl, ?_, ?_, hn⟩⟩⟩
  · intro i _; exact ⟨rfl, Or.inl rfl⟩
  · symm; apply cnt_none; intro j _; rfl

theorem inv_move {c : Cfg} {s s' : State} {i : Nat} (R : Repaired c) (I : Inv c s) (hi : i < c.n)
    (m : Move c s i s') : Inv c s' := by
  obtain ⟨hnr, hbg⟩ := I
  cases m with
  | start hp hr =>
    refine ⟨norst_upd _ hnr (by simp), ?_⟩
    rcases hbg with hb | G
    · exact Or.inl hb
    · exact Or.inr (good_silent G (by rw [hp]; rfl) (by rw [hp]; rfl) rfl)
  | endPass1 hp =>
    refine ⟨norst_upd _ hnr (by simp), ?_⟩
    rcases hbg with hb | G
    · exact Or.inl hb
    · exact Or.inr (good_silent G (by rw [hp]; rfl) (by rw [hp]; rfl) rfl)
  | enter k hp hb hc =>
    refine ⟨norst_upd _ hnr (by simp), ?_⟩
    rcases hbg with hb' | G
    · rw [hb] at hb'; cases hb'
    · exact Or.inr (good_enter _ R G hi hp hb hc)
  | enterLast k hp hb hc =>
    rw [next_noReset R.noReset]
    refine ⟨norst_upd _ hnr (afterB_ne_rst k), ?_⟩
    rcases hbg with hb' | G
    · rw [hb] at hb'; cases hb'
    · exact Or.inr (good_enterLast R G hi hp hb hc)
  | enterBroken k hp hb =>
    exact ⟨norst_upd _ hnr (by simp), Or.inl (failOut_broken R s i _)⟩
  | exit k f hp hb =>
    rw [next_noReset R.noReset]
    refine ⟨norst_upd _ hnr (afterB_ne_rst k), ?_⟩
    rcases hbg with hb' | G
    · rw [hb] at hb'; cases hb'
    · exact Or.inr (good_exit G hi hp hb)
  | exitBroken k f hp hb =>
    exact ⟨norst_upd _ hnr (by simp), Or.inl (failOut_broken R s i _)⟩
  | doReset k hp => exact absurd hp (hnr i hi k)
  | endPass2 hp =>
    refine ⟨norst_upd _ hnr (by cases c.mask <;> simp), ?_⟩
    rcases hbg with hb | G
    · exact Or.inl hb
    · refine Or.inr (good_silent G ?_ ?_ ?_)
      · rw [hp]; cases hm : c.mask <;> simp [ent, hm]
      · rw [hp]; cases hm : c.mask <;> simp [ext, hm]
      · cases hm : c.mask <;> simp [okPh, hm]
  | endMask hp =>
    refine ⟨norst_upd _ hnr (by simp), ?_⟩
    rcases hbg with hb | G
    · exact Or.inl hb
    · have hm : c.mask = true := by have := G.ok i hi; rw [hp] at this; simpa [okPh] using this
      exact Or.inr (good_silent G (by rw [hp]; simp [ent, hm]) (by rw [hp]; simp [ext, hm]) rfl)

theorem inv_fault {c : Cfg} {s s' : State} {i : Nat} (R : Repaired c) (I : Inv c s)
    (h : fault c s i = some s') : Inv c s' := by
  obtain ⟨_, e, _, _⟩ := fault_shape h
  subst e
  exact ⟨norst_upd _ I.1 (by simp), Or.inl (failOut_broken R s i _)⟩

theorem reach_inv {c : Cfg} {F : Bool} {s : State} (R : Repaired c) (hn : 0 < c.n) (h : Reach c F s) : Inv c s := by
  induction h with
  | init => exact inv_init c hn
  | adv _ hs ih => exact inv_move R ih (adv_move hs).1 (adv_move hs).2
  | fault _ _ hs ih => exact inv_fault R ih hs

/-- fault-free runs of the repaired protocol never break the barrier -/
theorem reach_good {c : Cfg} {s : State} (R : Repaired c) (hn : 0 < c.n) (h : Reach c false s) : Good c s := by
  induction h with
  | init => exact (inv_init c hn).2.resolve_left (by simp [init])
  | @adv s s' i hr hs ih =>
    have hnr := (reach_inv R hn hr).1
    have I' := inv_move R ⟨hnr, Or.inr ih⟩ (adv_move hs).1 (adv_move hs).2
    rcases I'.2 with hb | G
    · exfalso
      have hst := good_state ih
      have m := (adv_move hs).2
      cases m with
      | enterBroken k hp hb' => rw [hb'] at hst; simp at hst
      | exitBroken k f hp hb' => rcases hb' with hb' | hb' <;> (rw [hb'] at hst; simp at hst)
      | doReset k hp => exact hnr i (adv_move hs).1 k hp
      | enterLast k hp hb' hc => dsimp only at hb; split at hb <;> cases hb
      | exit k f hp hb' =>
        dsimp only [Barrier.leave] at hb; rw [hb'] at hb; split at hb <;> cases hb
      | _ => first | (rw [hb] at hst; simp at hst) | (dsimp only at hb; cases hb)
    · exact G
  | fault hF _ _ _ => cases hF


/-! ### progress -/

theorem exists_false_of_cnt_lt {p : Nat → Bool} {n : Nat} (h : cnt p n < n) : ∃ j, j < n ∧ p j = false := by
  induction n with
  | zero => omega
  | succ k ih =>
    simp only [cnt] at h
    by_cases hk : p k = true
    · simp [hk] at h
      obtain ⟨j, hj, hp⟩ := ih h
      exact ⟨j, by omega, hp⟩
    · exact ⟨k, by omega, by simpa using hk⟩

theorem running_lt {c : Cfg} {s : State} {i : Nat} (hi : i < c.n) (h : (s.ph i).active = false) :
    running c s < c.n := cnt_lt_of (p := fun j => (s.ph j).active) hi h

theorem en_queued {c : Cfg} {s : State} {i : Nat} (hi : i < c.n) (hs : c.n ≤ c.slots) (hp : s.ph i = .queued) :
    (adv c s i).isSome = true := by
  have : running c s < c.slots := Nat.lt_of_lt_of_le (running_lt hi (by rw [hp]; rfl)) hs
  simp [adv, hi, hp, this]

theorem en_pass1 {c : Cfg} {s : State} {i : Nat} (hi : i < c.n) (hp : s.ph i = .pass1) :
    (adv c s i).isSome = true := by simp [adv, hi, hp]
theorem en_pass2 {c : Cfg} {s : State} {i : Nat} (hi : i < c.n) (hp : s.ph i = .pass2) :
    (adv c s i).isSome = true := by simp [adv, hi, hp]
theorem en_masking {c : Cfg} {s : State} {i : Nat} (hi : i < c.n) (hp : s.ph i = .masking) :
    (adv c s i).isSome = true := by simp [adv, hi, hp]
theorem en_rst {c : Cfg} {s : State} {i : Nat} {k : Bool} (hi : i < c.n) (hp : s.ph i = .rst k) :
    (adv c s i).isSome = true := by simp [adv, hi, hp]
theorem en_atB_filling {c : Cfg} {s : State} {i : Nat} {k : Bool} (hi : i < c.n) (hp : s.ph i = .atB k)
    (hb : s.b.state = .filling) : (adv c s i).isSome = true := by
  simp only [adv, hi, hp, hb, if_true]; split <;> rfl
theorem en_atB_broken {c : Cfg} {s : State} {i : Nat} {k : Bool} (hi : i < c.n) (hp : s.ph i = .atB k)
    (hb : s.b.state = .broken) : (adv c s i).isSome = true := by simp [adv, hi, hp, hb]
theorem en_inB {c : Cfg} {s : State} {i : Nat} {k f : Bool} (hi : i < c.n) (hp : s.ph i = .inB k f)
    (hb : s.b.state ≠ .filling) : (adv c s i).isSome = true := by
  cases h : s.b.state <;> simp_all [adv]

/-- **progress**: in every state satisfying the invariant of the repaired protocol with a pool at least as
    large as the number of stripes, either every stripe has finished or some stripe can move -/
theorem progress {c : Cfg} {s : State} (hs : c.n ≤ c.slots) (I : Inv c s) :
    (∀ i, i < c.n → (s.ph i).terminal = true) ∨ ∃ i, i < c.n ∧ (adv c s i).isSome = true := by
  by_cases hall : ∀ i, i < c.n → (s.ph i).terminal = true
  · exact Or.inl hall
  · refine Or.inr ?_
    simp only [Classical.not_forall] at hall
    obtain ⟨i, hi, hnt⟩ := hall
    obtain ⟨hnr, hbg⟩ := I
    rcases hbg with hb | G
    · -- broken barrier: every unfinished stripe can move (towards failure or completion)
      refine ⟨i, hi, ?_⟩
      cases hp : s.ph i with
      | queued => exact en_queued hi hs hp
      | pass1 => exact en_pass1 hi hp
      | atB k => exact en_atB_broken hi hp hb
      | inB k f => exact en_inB hi hp (by rw [hb]; simp)
      | rst k => exact en_rst hi hp
      | pass2 => exact en_pass2 hi hp
      | masking => exact en_masking hi hp
      | done => rw [hp] at hnt; simp [Phase.terminal] at hnt
      | failed => rw [hp] at hnt; simp [Phase.terminal] at hnt
    · obtain ⟨g, hg⟩ := G.gen
      rcases hg with ⟨hb, hallg, hcnt, hlt⟩ | ⟨hb, hallg, hcnt, hpos⟩
      · -- filling
        cases hp : s.ph i with
        | queued => exact ⟨i, hi, en_queued hi hs hp⟩
        | pass1 => exact ⟨i, hi, en_pass1 hi hp⟩
        | atB k => exact ⟨i, hi, en_atB_filling hi hp hb⟩
        | rst k => exact ⟨i, hi, en_rst hi hp⟩
        | pass2 => exact ⟨i, hi, en_pass2 hi hp⟩
        | masking => exact ⟨i, hi, en_masking hi hp⟩
        | done => rw [hp] at hnt; simp [Phase.terminal] at hnt
        | failed => rw [hp] at hnt; simp [Phase.terminal] at hnt
        | inB k f =>
          -- stripe i waits inside; the barrier is not full, so somebody has not entered yet and can move
          have hgi := hallg i hi
          rw [hp] at hgi
          simp only [ent_inB, ext_inB] at hgi
          have hoki := G.ok i hi
          rw [hp] at hoki
          rw [hcnt] at hlt
          obtain ⟨j, hj, hpj⟩ := exists_false_of_cnt_lt hlt
          have hgj := hallg j hj
          have hokj := G.ok j hj
          simp at hpj
          refine ⟨j, hj, ?_⟩
          cases hq : s.ph j with
          | queued => exact en_queued hj hs hq
          | pass1 => exact en_pass1 hj hq
          | atB k' => exact en_atB_filling hj hq hb
          | rst k' => exact en_rst hj hq
          | pass2 => exact en_pass2 hj hq
          | masking => exact en_masking hj hq
          | inB k' f' => rw [hq] at hgj hpj; simp only [ent_inB, ext_inB] at hgj hpj; omega
          | failed => rw [hq] at hokj; simp [okPh] at hokj
          | done =>
            exfalso
            rw [hq] at hgj
            cases k with
            | false => cases hm : c.mask <;> simp [ext, hm] at hgj <;> simp at hgi <;> omega
            | true =>
              have hm : c.mask = true := by simpa [okPh] using hoki
              simp [ext, ent, hm] at hgj
              simp at hgi
              omega
      · -- draining: somebody is still inside and can leave
        rw [hcnt] at hpos
        obtain ⟨j, hj, hpj⟩ := exists_of_cnt_pos hpos
        simp at hpj
        have hgj := hallg j hj
        refine ⟨j, hj, ?_⟩
        cases hq : s.ph j with
        | inB k f => exact en_inB hj hq (by rw [hb]; simp)
        | done => rw [hq] at hgj hpj; cases hm : c.mask <;> simp [ent, ext, hm] at hgj hpj <;> omega
        | atB k' => rw [hq] at hgj hpj; simp only [ent_atB, ext_atB] at hgj hpj; omega
        | rst k' => rw [hq] at hgj hpj; cases k' <;> simp [ent, ext] at hgj hpj <;> omega
        | _ => rw [hq] at hgj hpj; simp [ent, ext] at hgj hpj <;> omega

end Aegean.Proofs.C07
