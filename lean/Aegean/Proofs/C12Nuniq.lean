/-
  C12 — NUNIQ arithmetic: the standard decoder inverts `4^(d+1) + p` on valid pixels.  Core Lean only.
-/
import Aegean.Spec.C12

namespace Aegean.Proofs.C12
open Aegean.Spec.C12

/-- `4 ^ d` as a power of two -/
theorem four_pow (d : Nat) : 4 ^ d = 2 ^ (2 * d) := by
  rw [Nat.pow_mul]

/-- the order is recovered from any number in the NUNIQ band of order d -/
theorem orderOf_band {d u : Nat} (lo : 4 * 4 ^ d ≤ u) (hi : u < 16 * 4 ^ d) : orderOf u = d := by
  have hK : 0 < 4 ^ d := Nat.pow_pos (by decide)
  have h1 : 4 ^ d ≤ u / 4 := by
    rw [Nat.le_div_iff_mul_le (by decide)]; omega
  have h2 : u / 4 < 4 * 4 ^ d := by
    rw [Nat.div_lt_iff_lt_mul (by decide)]; omega
  have hn : u / 4 ≠ 0 := by omega
  have e1 : 2 ^ (2 * d) = 4 ^ d := (four_pow d).symm
  have e2 : 2 ^ (2 * d + 2) = 4 * 4 ^ d := by
    rw [Nat.pow_add, e1]; omega
  have l1 : 2 * d ≤ Nat.log2 (u / 4) := by
    rw [Nat.le_log2 hn, e1]; exact h1
  have l2 : Nat.log2 (u / 4) < 2 * d + 2 := by
    rw [Nat.log2_lt hn, e2]; exact h2
  unfold orderOf
  omega

/-- the encoded number lies in the band of its order -/
theorem encode_band {d p : Nat} (hp : p < 12 * 4 ^ d) :
    4 * 4 ^ d ≤ 4 ^ (d + 1) + p ∧ 4 ^ (d + 1) + p < 16 * 4 ^ d := by
  rw [Nat.pow_succ]
  omega

/-- decode ∘ encode = id on valid pixels, for the encoder written as `4 ^ (d + 1) + p` -/
theorem decode_encode {d p : Nat} (hp : p < 12 * 4 ^ d) : decode (4 ^ (d + 1) + p) = (d, p) := by
  have hb := encode_band hp
  have ho : orderOf (4 ^ (d + 1) + p) = d := orderOf_band hb.1 hb.2
  unfold decode
  rw [ho]
  have e : 4 ^ (d + 1) + p - 4 * 4 ^ d = p := by
    rw [Nat.pow_succ]; omega
  rw [e]

/-- NUNIQ numbers of valid pixels are ≥ 16 when d ≥ 1 and never collide -/
theorem encode_injective {d p d' p' : Nat} (hp : p < 12 * 4 ^ d) (hp' : p' < 12 * 4 ^ d')
    (h : 4 ^ (d + 1) + p = 4 ^ (d' + 1) + p') : d = d' ∧ p = p' := by
  have hb := encode_band hp
  have hb' := encode_band hp'
  have ho : orderOf (4 ^ (d + 1) + p) = d := orderOf_band hb.1 hb.2
  have ho' : orderOf (4 ^ (d' + 1) + p') = d' := orderOf_band hb'.1 hb'.2
  have hd : d = d' := by rw [← ho, ← ho', h]
  subst hd
  exact ⟨rfl, by omega⟩

example : decode 25 = (1, 9) := by decide
example : decode 4 = (0, 0) := by decide
example : decode 15 = (0, 11) := by decide
example : decode 16 = (1, 0) := by decide
example : decode 63 = (1, 47) := by decide
example : decode 64 = (2, 0) := by decide

end Aegean.Proofs.C12
