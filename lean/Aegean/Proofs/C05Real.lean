/-
  C05 — the real-analysis half: translation covariance of the regenerated `elliptical_gaussian`,
  the multi-component model (`fitting.ntwodgaussian_lmfit` sums the components), and the
  position round trip  `x_pix (xo − xmin) = xo + 1`.
-/
import Aegean.Proofs.Real
import Aegean.Generated.C05
import Aegean.Model.C05
import Mathlib.Tactic.Ring
import Mathlib.Tactic.Linarith

namespace Aegean.Proofs.C05
open Gen.C05 Aegean.Model.C05

/-- **translation covariance** of the regenerated Gaussian: shifting the evaluation point and the
    centre by the same vector does not change the value -/
theorem gauss_translate (x y amp xo yo sx sy th ox oy : ℝ) :
    gauss (x - ox) (y - oy) amp (xo - ox) (yo - oy) sx sy th = gauss x y amp xo yo sx sy th := by
  have h1 : x - ox - (xo - ox) = x - xo := by ring
  have h2 : y - oy - (yo - oy) = y - yo := by ring
  simp only [gauss, gaussHand]
  first
    | (simp only [h1, h2]; done)
    | ring_nf

theorem xoLocal_eq (xo yo m n : ℝ) : xoLocal xo yo m n = xo - m := by
  simp only [xoLocal]; try ring
theorem yoLocal_eq (xo yo m n : ℝ) : yoLocal xo yo m n = yo - n := by
  simp only [yoLocal]; try ring
theorem xPix_eq (xo yo m n : ℝ) : xPix xo yo m n = xo + m + 1 := by
  simp only [xPix, R.real_ofNat, Nat.cast_one]; try ring
theorem yPix_eq (xo yo m n : ℝ) : yPix xo yo m n = yo + n + 1 := by
  simp only [yPix, R.real_ofNat, Nat.cast_one]; try ring

/-- the value of the fitted model (sum of the components) at a point -/
noncomputable def modelAt (ps : List (Par ℝ)) (x y : ℝ) : ℝ :=
  (ps.map (fun p => gauss x y p.amp p.xo p.yo p.sx p.sy p.theta)).sum

/-- a parameter block moved into the coordinates of a cut-out whose first pixel is `(ox, oy)` -/
noncomputable def shiftPar (ox oy : ℝ) (p : Par ℝ) : Par ℝ :=
  { p with xo := xoLocal p.xo p.yo ox oy, yo := yoLocal p.xo p.yo ox oy }

theorem gauss_shiftPar (ox oy x y : ℝ) (p : Par ℝ) :
    gauss x y (shiftPar ox oy p).amp (shiftPar ox oy p).xo (shiftPar ox oy p).yo (shiftPar ox oy p).sx
        (shiftPar ox oy p).sy (shiftPar ox oy p).theta
      = gauss (x + ox) (y + oy) p.amp p.xo p.yo p.sx p.sy p.theta := by
  have h := gauss_translate (x + ox) (y + oy) p.amp p.xo p.yo p.sx p.sy p.theta ox oy
  simp only [add_sub_cancel_right] at h
  simp only [shiftPar, xoLocal_eq, yoLocal_eq]
  exact h

/-- the model evaluated in cut-out coordinates with shifted parameters is the model on the image -/
theorem modelAt_shift (ox oy : ℝ) (ps : List (Par ℝ)) (x y : ℝ) :
    modelAt (ps.map (shiftPar ox oy)) x y = modelAt ps (x + ox) (y + oy) := by
  unfold modelAt
  induction ps with
  | nil => simp
  | cons p t ih =>
    simp only [List.map_cons, List.sum_cons] at ih ⊢
    rw [ih, gauss_shiftPar]

/-! ### the 3×3 "has data" box around a component (source_finder.py, before the fit)

`xmn = int(round(np.clip(cx − 1, 0, idata.shape[0])))`, `xmx = int(round(np.clip(cx + 2, 0, idata.shape[0])))`,
the same for columns with `idata.shape[1]`; the component is fitted iff `idata[xmn:xmx, ymn:ymx]` holds a
finite pixel.  `np.clip(v, lo, hi) = min(max(v, lo), hi)`; `rnd` is the rounding (`int(round(·))`). -/

noncomputable def clipR (v lo hi : ℝ) : ℝ := min (max v lo) hi

/-- first and one-past-last **row** of the box: clipped to the cut-out's row extent -/
noncomputable def dataBoxRows (rnd : ℝ → ℤ) (rows cols : Nat) (cx cy : ℝ) : ℤ × ℤ :=
  (rnd (clipR (boxLoX cx cy) (clipXLo rows cols : ℕ) (clipXHi rows cols : ℕ)),
   rnd (clipR (boxHiX cx cy) (clipXLo rows cols : ℕ) (clipXHi rows cols : ℕ)))

/-- first and one-past-last **column** of the box: clipped to the cut-out's column extent -/
noncomputable def dataBoxCols (rnd : ℝ → ℤ) (rows cols : Nat) (cx cy : ℝ) : ℤ × ℤ :=
  (rnd (clipR (boxLoY cx cy) (clipYLo rows cols : ℕ) (clipYHi rows cols : ℕ)),
   rnd (clipR (boxHiY cx cy) (clipYLo rows cols : ℕ) (clipYHi rows cols : ℕ)))

/-- what is used of `int(round(·))`: monotone, fixes integers, never more than half above its argument -/
structure RoundLaw (rnd : ℝ → ℤ) : Prop where
  mono : ∀ a b : ℝ, a ≤ b → rnd a ≤ rnd b
  int : ∀ n : ℤ, rnd (n : ℝ) = n
  half : ∀ v : ℝ, ((rnd v : ℤ) : ℝ) ≤ v + 1 / 2

/-- one axis: if the component's own rounded pixel `c = rnd v` lies in `[0, H)` then it lies in
    `[rnd(clip(v − 1, 0, H)), rnd(clip(v + 2, 0, H)))` -/
theorem own_pixel_in_axis_box (rnd : ℝ → ℤ) (hr : RoundLaw rnd) (H : ℕ) (v : ℝ)
    (h0 : 0 ≤ rnd v) (h1 : rnd v < (H : ℤ)) :
    rnd (clipR (v - 1) ((0 : ℕ) : ℝ) (H : ℝ)) ≤ rnd v ∧ rnd v < rnd (clipR (v + 2) ((0 : ℕ) : ℝ) (H : ℝ)) := by
  have hH : ((rnd v : ℤ) : ℝ) + 1 ≤ (H : ℝ) := by
    have : rnd v + 1 ≤ (H : ℤ) := by omega
    exact_mod_cast this
  have hhalf := hr.half v
  constructor
  · by_cases hv : (0 : ℝ) ≤ v - 1
    · apply hr.mono
      unfold clipR
      have : max (v - 1) ((0 : ℕ) : ℝ) = v - 1 := by simp [hv]
      rw [this]
      exact le_trans (min_le_left _ _) (by linarith)
    · have hle : clipR (v - 1) ((0 : ℕ) : ℝ) (H : ℝ) ≤ ((0 : ℤ) : ℝ) := by
        unfold clipR
        have : max (v - 1) ((0 : ℕ) : ℝ) = 0 := by
          simp only [Nat.cast_zero]; exact max_eq_right (by linarith)
        rw [this]
        simp
      have := hr.mono _ _ hle
      rw [hr.int 0] at this
      omega
  · have hge : ((rnd v + 1 : ℤ) : ℝ) ≤ clipR (v + 2) ((0 : ℕ) : ℝ) (H : ℝ) := by
      unfold clipR
      push_cast
      apply le_min
      · exact le_trans (by linarith) (le_max_left _ _)
      · exact hH
    have := hr.mono _ _ hge
    rw [hr.int] at this
    omega

end Aegean.Proofs.C05
