/-
  C05 — the real-analysis half: translation covariance of the regenerated `elliptical_gaussian`,
  the multi-component model (`fitting.ntwodgaussian_lmfit` sums the components), and the
  position round trip  `x_pix (xo − xmin) = xo + 1`.
-/
import Aegean.Proofs.Real
import Aegean.Generated.C05
import Aegean.Model.C05
import Mathlib.Tactic.Ring
import Mathlib.Tactic.Linarith

namespace Aegean.Proofs.C05
open Gen.C05 Aegean.Model.C05

/-- **translation covariance** of the regenerated Gaussian: shifting the evaluation point and the
    centre by the same vector does not change the value -/
theorem gauss_translate (x y amp xo yo sx sy th ox oy : ℝ) :
    gauss (x - ox) (y - oy) amp (xo - ox) (yo - oy) sx sy th = gauss x y amp xo yo sx sy th := by
  have h1 : x - ox - (xo - ox) = x - xo := by ring
  have h2 : y - oy - (yo - oy) = y - yo := by ring
  simp only [gauss]
  first
    | (simp only [h1, h2]; done)
    | ring_nf

theorem xoLocal_eq (xo yo m n : ℝ) : xoLocal xo yo m n = xo - m := by
  simp only [xoLocal]; try ring
theorem yoLocal_eq (xo yo m n : ℝ) : yoLocal xo yo m n = yo - n := by
  simp only [yoLocal]; try ring
theorem xPix_eq (xo yo m n : ℝ) : xPix xo yo m n = xo + m + 1 := by
  simp only [xPix, R.real_ofNat, Nat.cast_one]; try ring
theorem yPix_eq (xo yo m n : ℝ) : yPix xo yo m n = yo + n + 1 := by
  simp only [yPix, R.real_ofNat, Nat.cast_one]; try ring

/-- the value of the fitted model (sum of the components) at a point -/
noncomputable def modelAt (ps : List (Par ℝ)) (x y : ℝ) : ℝ :=
  (ps.map (fun p => gauss x y p.amp p.xo p.yo p.sx p.sy p.theta)).sum

/-- a parameter block moved into the coordinates of a cut-out whose first pixel is `(ox, oy)` -/
noncomputable def shiftPar (ox oy : ℝ) (p : Par ℝ) : Par ℝ :=
  { p with xo := xoLocal p.xo p.yo ox oy, yo := yoLocal p.xo p.yo ox oy }

theorem gauss_shiftPar (ox oy x y : ℝ) (p : Par ℝ) :
    gauss x y (shiftPar ox oy p).amp (shiftPar ox oy p).xo (shiftPar ox oy p).yo (shiftPar ox oy p).sx
        (shiftPar ox oy p).sy (shiftPar ox oy p).theta
      = gauss (x + ox) (y + oy) p.amp p.xo p.yo p.sx p.sy p.theta := by
  have h := gauss_translate (x + ox) (y + oy) p.amp p.xo p.yo p.sx p.sy p.theta ox oy
  simp only [add_sub_cancel_right] at h
  simp only [shiftPar, xoLocal_eq, yoLocal_eq]
  exact h

/-- the model evaluated in cut-out coordinates with shifted parameters is the model on the image -/
theorem modelAt_shift (ox oy : ℝ) (ps : List (Par ℝ)) (x y : ℝ) :
    modelAt (ps.map (shiftPar ox oy)) x y = modelAt ps (x + ox) (y + oy) := by
  unfold modelAt
  induction ps with
  | nil => simp
  | cons p t ih =>
    simp only [List.map_cons, List.sum_cons] at ih ⊢
    rw [ih, gauss_shiftPar]

end Aegean.Proofs.C05
