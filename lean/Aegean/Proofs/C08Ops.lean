/-
  C08 — region-level invariants and the effect of every operation on the abstraction.
  Core Lean only.
-/
import Aegean.Proofs.C08Renorm
import Aegean.Proofs.C08Area

namespace Aegean.Proofs.C08
open Aegean.Model.C08

/-- the abstraction: the set of deepest-level pixels a region covers -/
def abs (r : Region) (q : Nat) : Prop := absP r.m r.pd q

/-- representation invariant kept by *every* operation (including raw `add_pixels`):
    a positive depth, every level a set, ids valid for their level and only levels `1..maxdepth`
    in use, and a non-fresh cache only when everything has been demoted. -/
structure Valid (r : Region) : Prop where
  m_pos : 1 ≤ r.m
  nodup : NodupP r.pd
  range : RangeP r.m r.pd
  cache : r.cached = true → EmptyBelow r.pd r.m

/-- no patch of sky is represented twice -/
def NoDC (r : Region) : Prop := NoDCP r.m r.pd

theorem valid_empty {m : Nat} (h : 1 ≤ m) : Valid (empty m) :=
  ⟨h, fun _ => List.nodup_nil, fun _ _ hp => by simp [empty] at hp, fun h => by simp [empty] at h⟩

theorem noDC_empty (m : Nat) : NoDC (empty m) := by
  intro q d1 d2 _ _ _ _ c1 _
  simp [covP, empty] at c1

theorem abs_empty (m q : Nat) : ¬ abs (empty m) q := by
  rintro ⟨d, _, _, hc⟩
  simp [covP, empty] at hc

theorem abs_lt {r : Region} (hv : Valid r) {q : Nat} (h : abs r q) : q < 12 * 4 ^ r.m := by
  obtain ⟨d, _, hd, hc⟩ := h
  have := (hv.range d _ hc).2.2
  have := lt_of_div_lt this
  rwa [show d + (r.m - d) = r.m by omega] at this

/-! ### `_demote_all` -/

theorem demoteAll_spec {r : Region} (hv : Valid r) :
    Valid (demoteAll r) ∧ (demoteAll r).m = r.m ∧ (demoteAll r).cached = true ∧
      EmptyBelow (demoteAll r).pd r.m ∧ ∀ q, abs (demoteAll r) q ↔ abs r q := by
  unfold demoteAll
  by_cases hc : cacheEmpty r = true
  · rw [if_pos hc]
    have hm := hv.m_pos
    have he : EmptyBelow r.pd 1 := fun k hk => eq_nil_of_range hv.range (Or.inl hk)
    obtain ⟨a, b, c, e⟩ := demoteLoop_spec (m := r.m) (r.m - 1) 1 r.pd (Nat.le_refl _) (by omega)
      hv.range hv.nodup he
    rw [show 1 + (r.m - 1) = r.m by omega] at c
    exact ⟨⟨hm, b, a, fun _ => c⟩, rfl, rfl, c, e⟩
  · rw [if_neg hc]
    have hcached : r.cached = true := by
      simp only [cacheEmpty, Bool.or_eq_true, Bool.not_eq_true', not_or, Bool.not_eq_false] at hc
      exact hc.1
    exact ⟨hv, rfl, hcached, hv.cache hcached, fun _ => Iff.rfl⟩

theorem noDC_demoteAll {r : Region} (hv : Valid r) : NoDC (demoteAll r) := by
  obtain ⟨_, hm, _, he, _⟩ := demoteAll_spec hv
  unfold NoDC; rw [hm]; exact noDC_of_emptyBelow he

/-- the demoted set (what `get_demoted` returns, what `sky_within` tests) is exactly the abstraction -/
theorem mem_demoted {r : Region} (hv : Valid r) (q : Nat) :
    q ∈ (demoteAll r).pd (demoteAll r).m ↔ abs r q := by
  obtain ⟨_, hm, _, he, ha⟩ := demoteAll_spec hv
  rw [← ha q, hm]
  unfold abs; rw [hm]
  exact (abs_of_emptyBelow hv.m_pos he q).symm

/-! ### `_renorm` -/

theorem valid_uncache {r : Region} (hv : Valid r) : Valid { r with cached := false } :=
  ⟨hv.m_pos, hv.nodup, hv.range, fun h => by simp at h⟩

theorem renorm_spec {r : Region} (hv : Valid r) :
    Valid (renorm r) ∧ (renorm r).m = r.m ∧ NoDC (renorm r) ∧ (∀ q, abs (renorm r) q ↔ abs r q) ∧
      (∀ k, 3 ≤ k → k ≤ r.m → NormalAt (renorm r).pd k) := by
  have hv0 := valid_uncache hv
  obtain ⟨hv1, hm1, _, he1, ha1⟩ := demoteAll_spec hv0
  have hm1' : (demoteAll { r with cached := false }).m = r.m := hm1
  have he1' : EmptyBelow (demoteAll { r with cached := false }).pd r.m := he1
  have hr1 : RangeP r.m (demoteAll { r with cached := false }).pd := by
    have := hv1.range; rwa [hm1'] at this
  have hd1 : NoDCP r.m (demoteAll { r with cached := false }).pd := noDC_of_emptyBelow he1'
  have habs0 : ∀ q, absP r.m (demoteAll { r with cached := false }).pd q ↔ abs r q := by
    intro q
    have := ha1 q
    unfold abs at this; rw [hm1'] at this
    exact this
  by_cases h2 : r.m - 2 = 0
  · -- the loop `range(maxdepth, 2, -1)` is empty
    have hpd : (renorm r).pd = (demoteAll { r with cached := false }).pd := by
      simp only [renorm, h2, renormLoop]
    have hmm : (renorm r).m = r.m := hm1'
    refine ⟨⟨?_, ?_, ?_, fun h => ?_⟩, hmm, ?_, fun q => ?_, fun k hk3 hkm => ?_⟩
    · rw [hmm]; exact hv.m_pos
    · rw [hpd]; exact hv1.nodup
    · rw [hmm, hpd]; exact hr1
    · simp [renorm] at h
    · unfold NoDC; rw [hmm, hpd]; exact hd1
    · unfold abs; rw [hmm, hpd]; exact habs0 q
    · omega
  · obtain ⟨a, b, c, e, f⟩ := renormLoop_spec (m := r.m) (r.m - 2) r.m
      (demoteAll { r with cached := false }).pd (Nat.le_refl _) (by omega) hr1 hv1.nodup hd1
      (fun k hk hkm => by omega)
    have hpd : (renorm r).pd = renormLoop (demoteAll { r with cached := false }).pd r.m (r.m - 2) := rfl
    have hmm : (renorm r).m = r.m := hm1'
    refine ⟨⟨?_, ?_, ?_, fun h => ?_⟩, hmm, ?_, fun q => ?_, fun k hk3 hkm => ?_⟩
    · rw [hmm]; exact hv.m_pos
    · rw [hpd]; exact b
    · rw [hmm, hpd]; exact a
    · simp [renorm] at h
    · unfold NoDC; rw [hmm, hpd]; exact c
    · unfold abs; rw [hmm, hpd, e q]; exact habs0 q
    · rw [hpd]; exact f k (by omega) hkm

/-! ### `add_pixels` -/

theorem addPixels_spec {r : Region} (hv : Valid r) {ps : List Nat} {d : Nat} (hd : 1 ≤ d ∧ d ≤ r.m)
    (hps : ∀ p, p ∈ ps → p < 12 * 4 ^ d) :
    Valid (addPixels r ps d) ∧ (addPixels r ps d).m = r.m ∧
      ∀ q, abs (addPixels r ps d) q ↔ (abs r q ∨ q / 4 ^ (r.m - d) ∈ ps) := by
  refine ⟨⟨hv.m_pos, fun k => ?_, fun k p hp => ?_, fun h => by simp [addPixels] at h⟩, rfl, fun q => ?_⟩
  · by_cases e : k = d
    · simp only [addPixels, setLevel, if_pos e]; exact nodup_dedup _
    · simp only [addPixels, setLevel, if_neg e]; exact hv.nodup k
  · by_cases e : k = d
    · simp only [addPixels, setLevel, if_pos e, mem_dedup, List.mem_append] at hp
      subst e
      rcases hp with hp | hp
      · exact hv.range _ _ hp
      · exact ⟨hd.1, hd.2, hps _ hp⟩
    · simp only [addPixels, setLevel, if_neg e] at hp
      exact hv.range _ _ hp
  · unfold abs absP covP
    simp only [addPixels, setLevel]
    constructor
    · rintro ⟨k, hk1, hk2, hc⟩
      by_cases e : k = d
      · subst e
        simp only [if_true, mem_dedup, List.mem_append] at hc
        rcases hc with hc | hc
        · exact Or.inl ⟨k, hk1, hk2, hc⟩
        · exact Or.inr hc
      · simp only [if_neg e] at hc
        exact Or.inl ⟨k, hk1, hk2, hc⟩
    · rintro (⟨k, hk1, hk2, hc⟩ | hc)
      · refine ⟨k, hk1, hk2, ?_⟩
        by_cases e : k = d
        · subst e; simp only [if_true, mem_dedup, List.mem_append]; exact Or.inl hc
        · simp only [if_neg e]; exact hc
      · refine ⟨d, hd.1, hd.2, ?_⟩
        simp only [if_true, mem_dedup, List.mem_append]; exact Or.inr hc

/-! ### `union` (equal, coarser and finer operand) -/

/-- the operand's sky in pixels of depth `m`: refined exactly when the operand is coarser or
    equal, degraded to every touched pixel when it is finer -/
def regridP (m : Nat) (o : Region) (q : Nat) : Prop :=
  if o.m ≤ m then abs o (q / 4 ^ (m - o.m)) else ∃ q', abs o q' ∧ q' / 4 ^ (o.m - m) = q

theorem mem_degraded {m : Nat} {o : Region} {x : Nat} :
    x ∈ degraded m o ↔ ∃ d, m < d ∧ d ≤ o.m ∧ ∃ p, p ∈ o.pd d ∧ p / 4 ^ (d - m) = x := by
  simp only [degraded, List.mem_flatMap, List.mem_range'_1, List.mem_map]
  constructor
  · rintro ⟨d, ⟨h1, h2⟩, p, hp, rfl⟩; exact ⟨d, by omega, by omega, p, hp, rfl⟩
  · rintro ⟨d, h1, h2, p, hp, rfl⟩; exact ⟨d, ⟨by omega, by omega⟩, p, hp, rfl⟩

theorem mem_unionRaw {r o : Region} (d x : Nat) :
    x ∈ (unionRaw r o).pd d ↔
      (x ∈ r.pd d ∨ (1 ≤ d ∧ d ≤ r.m ∧ d ≤ o.m ∧ x ∈ o.pd d) ∨
        (d = r.m ∧ r.m < o.m ∧ x ∈ degraded r.m o)) := by
  unfold unionRaw
  by_cases hlt : r.m < o.m
  · simp only [if_pos hlt, setLevel]
    by_cases e : d = r.m
    · simp only [if_pos e, mem_dedup, List.mem_append]
      by_cases h1 : 1 ≤ r.m
      · have : 1 ≤ r.m ∧ r.m ≤ min r.m o.m := ⟨h1, by omega⟩
        simp only [if_pos this, mem_dedup, List.mem_append]
        rw [e]
        constructor
        · rintro ((h | h) | h)
          · exact Or.inl h
          · exact Or.inr (Or.inl ⟨h1, Nat.le_refl _, by omega, h⟩)
          · exact Or.inr (Or.inr ⟨rfl, hlt, h⟩)
        · rintro (h | ⟨_, _, _, h⟩ | ⟨_, _, h⟩)
          · exact Or.inl (Or.inl h)
          · exact Or.inl (Or.inr h)
          · exact Or.inr h
      · have : ¬ (1 ≤ r.m ∧ r.m ≤ min r.m o.m) := fun h => h1 h.1
        simp only [if_neg this]
        rw [e]
        constructor
        · rintro (h | h)
          · exact Or.inl h
          · exact Or.inr (Or.inr ⟨rfl, hlt, h⟩)
        · rintro (h | ⟨h, _⟩ | ⟨_, _, h⟩)
          · exact Or.inl h
          · exact absurd h h1
          · exact Or.inr h
    · simp only [if_neg e]
      by_cases hk : 1 ≤ d ∧ d ≤ min r.m o.m
      · simp only [if_pos hk, mem_dedup, List.mem_append]
        constructor
        · rintro (h | h)
          · exact Or.inl h
          · exact Or.inr (Or.inl ⟨hk.1, by omega, by omega, h⟩)
        · rintro (h | ⟨_, _, _, h⟩ | ⟨h, _⟩)
          · exact Or.inl h
          · exact Or.inr h
          · exact absurd h e
      · simp only [if_neg hk]
        constructor
        · exact Or.inl
        · rintro (h | ⟨_, _, _, _⟩ | ⟨h, _⟩)
          · exact h
          · omega
          · exact absurd h e
  · simp only [if_neg hlt]
    by_cases hk : 1 ≤ d ∧ d ≤ min r.m o.m
    · simp only [if_pos hk, mem_dedup, List.mem_append]
      constructor
      · rintro (h | h)
        · exact Or.inl h
        · exact Or.inr (Or.inl ⟨hk.1, by omega, by omega, h⟩)
      · rintro (h | ⟨_, _, _, h⟩ | ⟨_, h, _⟩)
        · exact Or.inl h
        · exact Or.inr h
        · omega
    · simp only [if_neg hk]
      constructor
      · exact Or.inl
      · rintro (h | ⟨_, _, _, _⟩ | ⟨_, h, _⟩)
        · exact h
        · omega
        · omega

theorem nodup_unionRaw {r o : Region} (hv : Valid r) (d : Nat) : ((unionRaw r o).pd d).Nodup := by
  unfold unionRaw
  by_cases hlt : r.m < o.m
  · simp only [if_pos hlt, setLevel]
    by_cases e : d = r.m
    · simp only [if_pos e]; exact nodup_dedup _
    · simp only [if_neg e]
      by_cases hk : 1 ≤ d ∧ d ≤ min r.m o.m
      · simp only [if_pos hk]; exact nodup_dedup _
      · simp only [if_neg hk]; exact hv.nodup d
  · simp only [if_neg hlt]
    by_cases hk : 1 ≤ d ∧ d ≤ min r.m o.m
    · simp only [if_pos hk]; exact nodup_dedup _
    · simp only [if_neg hk]; exact hv.nodup d

theorem unionRaw_spec {r o : Region} (hv : Valid r) (ho : Valid o) :
    Valid (unionRaw r o) ∧ (unionRaw r o).m = r.m ∧
      ∀ q, abs (unionRaw r o) q ↔ (abs r q ∨ regridP r.m o q) := by
  have hm : (unionRaw r o).m = r.m := rfl
  refine ⟨⟨hv.m_pos, nodup_unionRaw hv, fun d p hp => ?_, fun h => ?_⟩, hm, fun q => ?_⟩
  · rw [mem_unionRaw] at hp
    rcases hp with hp | ⟨h1, h2, _, hp⟩ | ⟨e, hlt, hp⟩
    · exact hv.range _ _ hp
    · exact ⟨h1, h2, (ho.range _ _ hp).2.2⟩
    · subst e
      rw [mem_degraded] at hp
      obtain ⟨d', hd1, hd2, p', hp', rfl⟩ := hp
      refine ⟨hv.m_pos, Nat.le_refl _, ?_⟩
      apply div_lt_of_lt
      rw [show r.m + (d' - r.m) = d' by omega]
      exact (ho.range _ _ hp').2.2
  · -- the first loop of `union` always runs (both depths ≥ 1), so the cache is reset
    have : 1 ≤ min r.m o.m := by have := hv.m_pos; have := ho.m_pos; omega
    simp [unionRaw, this] at h
  · unfold abs absP covP
    rw [hm]
    simp only [mem_unionRaw]
    unfold regridP
    by_cases hle : o.m ≤ r.m
    · rw [if_pos hle]
      unfold abs absP covP
      constructor
      · rintro ⟨d, h1, h2, hc | ⟨_, _, h3, hc⟩ | ⟨_, hlt, _⟩⟩
        · exact Or.inl ⟨d, h1, h2, hc⟩
        · refine Or.inr ⟨d, h1, h3, ?_⟩
          rw [← div_pow_add, show r.m - o.m + (o.m - d) = r.m - d by omega]; exact hc
        · omega
      · rintro (⟨d, h1, h2, hc⟩ | ⟨d, h1, h3, hc⟩)
        · exact ⟨d, h1, h2, Or.inl hc⟩
        · refine ⟨d, h1, by omega, Or.inr (Or.inl ⟨h1, by omega, h3, ?_⟩)⟩
          rw [← div_pow_add, show r.m - o.m + (o.m - d) = r.m - d by omega] at hc; exact hc
    · rw [if_neg hle]
      have hlt : r.m < o.m := by omega
      unfold abs absP covP
      constructor
      · rintro ⟨d, h1, h2, hc | ⟨_, _, h3, hc⟩ | ⟨e, _, hc⟩⟩
        · exact Or.inl ⟨d, h1, h2, hc⟩
        · -- a pixel of the operand at a shared level: any deepest pixel of the operand under q works
          refine Or.inr ⟨q * 4 ^ (o.m - r.m), ⟨d, h1, h3, ?_⟩, Nat.mul_div_cancel _ (four_pow_pos _)⟩
          rw [show o.m - d = (o.m - r.m) + (r.m - d) by omega, div_pow_add,
            Nat.mul_div_cancel _ (four_pow_pos _)]
          exact hc
        · rw [mem_degraded] at hc
          obtain ⟨d', hd1, hd2, p, hp, hpe⟩ := hc
          rw [e, Nat.sub_self, Nat.pow_zero, Nat.div_one] at hpe
          refine Or.inr ⟨p * 4 ^ (o.m - d'), ⟨d', by omega, hd2, ?_⟩, ?_⟩
          · rw [Nat.mul_div_cancel _ (four_pow_pos _)]; exact hp
          · rw [show o.m - r.m = (o.m - d') + (d' - r.m) by omega, div_pow_add,
              Nat.mul_div_cancel _ (four_pow_pos _)]
            exact hpe
      · rintro (⟨d, h1, h2, hc⟩ | ⟨q', ⟨d, h1, h3, hc⟩, rfl⟩)
        · exact ⟨d, h1, h2, Or.inl hc⟩
        · by_cases hdm : d ≤ r.m
          · refine ⟨d, h1, hdm, Or.inr (Or.inl ⟨h1, hdm, h3, ?_⟩)⟩
            rw [← div_pow_add, show o.m - r.m + (r.m - d) = o.m - d by omega]; exact hc
          · refine ⟨r.m, hv.m_pos, Nat.le_refl _, Or.inr (Or.inr ⟨rfl, hlt, ?_⟩)⟩
            rw [Nat.sub_self, Nat.pow_zero, Nat.div_one, mem_degraded]
            refine ⟨d, by omega, h3, _, hc, ?_⟩
            rw [← div_pow_add, show o.m - d + (d - r.m) = o.m - r.m by omega]

/-! ### `without` / `intersect` / `symmetric_difference` -/

theorem combineWith_spec (f : List Nat → List Nat → List Nat) (P : Prop → Prop → Prop)
    (hf_nodup : ∀ a b : List Nat, a.Nodup → b.Nodup → (f a b).Nodup)
    (hf_mem : ∀ (a b : List Nat) x, x ∈ f a b ↔ P (x ∈ a) (x ∈ b))
    (hP_or : ∀ a b : Prop, P a b → a ∨ b)
    (hP_congr : ∀ a a' b b' : Prop, (a ↔ a') → (b ↔ b') → (P a b ↔ P a' b'))
    {r o : Region} (hv : Valid r) (ho : Valid o) (hm : r.m = o.m) :
    ∃ r', combineWith f r o = .ok r' ∧ Valid r' ∧ r'.m = r.m ∧ NoDC r' ∧
      (∀ q, abs r' q ↔ P (abs r q) (abs o q)) ∧ (∀ k, 3 ≤ k → k ≤ r.m → NormalAt r'.pd k) := by
  obtain ⟨hv1, hm1, hc1, he1, _⟩ := demoteAll_spec hv
  obtain ⟨hvo, hmo, _, _, _⟩ := demoteAll_spec ho
  -- the intermediate state: both demoted, deepest level combined
  let r2 : Region := { demoteAll r with
    pd := setLevel (demoteAll r).pd r.m (f ((demoteAll r).pd r.m) ((demoteAll o).pd (demoteAll o).m)) }
  have hr2m : r2.m = r.m := hm1
  have hmem2 : ∀ q, q ∈ r2.pd r.m ↔ P (abs r q) (abs o q) := by
    intro q
    show q ∈ setLevel _ _ _ _ ↔ _
    rw [setLevel_same, hf_mem]
    apply hP_congr
    · have := mem_demoted hv q; rwa [hm1] at this
    · exact mem_demoted ho q
  have he2 : EmptyBelow r2.pd r.m := by
    intro k hk
    show setLevel _ _ _ _ = _
    rw [setLevel_other _ _ (by omega)]
    exact he1 k hk
  have hv2 : Valid r2 := by
    refine ⟨by rw [hr2m]; exact hv.m_pos, fun k => ?_, fun k p hp => ?_, fun _ => by rw [hr2m]; exact he2⟩
    · by_cases e : k = r.m
      · subst e
        show (setLevel _ _ _ _).Nodup
        rw [setLevel_same]
        exact hf_nodup _ _ (hv1.nodup _) (hvo.nodup _)
      · show (setLevel _ _ _ _).Nodup
        rw [setLevel_other _ _ e]; exact hv1.nodup k
    · rw [hr2m]
      by_cases e : k = r.m
      · subst e
        have hp' : p ∈ f ((demoteAll r).pd r.m) ((demoteAll o).pd (demoteAll o).m) := by
          have : p ∈ setLevel (demoteAll r).pd r.m _ r.m := hp
          rwa [setLevel_same] at this
        rcases hP_or _ _ ((hf_mem _ _ _).1 hp') with h | h
        · have := hv1.range _ _ h; rwa [hm1] at this
        · have := hvo.range _ _ h
          rw [hmo, ← hm] at this; exact this
      · have : p ∈ (demoteAll r).pd k := by
          have : p ∈ setLevel (demoteAll r).pd r.m _ k := hp
          rwa [setLevel_other _ _ e] at this
        have := hv1.range _ _ this; rwa [hm1] at this
  have habs2 : ∀ q, abs r2 q ↔ P (abs r q) (abs o q) := by
    intro q
    rw [← hmem2 q]
    unfold abs; rw [hr2m]
    exact abs_of_emptyBelow hv.m_pos he2 q
  obtain ⟨hv3, hm3, hd3, ha3, hn3⟩ := renorm_spec hv2
  refine ⟨renorm r2, ?_, hv3, by rw [hm3, hr2m], hd3, fun q => by rw [ha3 q, habs2 q], ?_⟩
  · unfold combineWith
    rw [if_neg (by simpa using hm)]
  · intro k h3 hk; exact hn3 k h3 (by rw [hr2m]; exact hk)

theorem mem_diffL {a b : List Nat} {x : Nat} : x ∈ diffL a b ↔ (x ∈ a ∧ ¬ x ∈ b) := by
  simp [diffL]

theorem mem_interL {a b : List Nat} {x : Nat} : x ∈ interL a b ↔ (x ∈ a ∧ x ∈ b) := by
  simp [interL]

theorem mem_symL {a b : List Nat} {x : Nat} : x ∈ symL a b ↔ ((x ∈ a ∧ ¬ x ∈ b) ∨ (x ∈ b ∧ ¬ x ∈ a)) := by
  simp [symL, diffL]

theorem nodup_symL {a b : List Nat} (ha : a.Nodup) (hb : b.Nodup) : (symL a b).Nodup := by
  unfold symL
  rw [List.nodup_append]
  refine ⟨nodup_filter _ ha, nodup_filter _ hb, ?_⟩
  intro x hx y hy e
  subst e
  rw [mem_diffL] at hx hy
  exact hy.2 hx.1

end Aegean.Proofs.C08
