/-
  C06 — laws of the sigma-clipping model (`Aegean.Model.C06`, section `Clip`) at `α := ℝ`:
  constant input, shift / scale equivariance, range (Popoviciu) bounds, and the `none` case.
-/
import Mathlib.Tactic.Ring
import Mathlib.Tactic.Linarith
import Mathlib.Tactic.Positivity
import Aegean.Proofs.Real
import Aegean.Model.C06

namespace Aegean.Proofs.C06
open Aegean.Model.C06

/-- the order test at ℝ -/
noncomputable instance instRLtReal : RLt ℝ := ⟨fun a b => decide (a < b)⟩

/-! ### the model's definitions in ordinary real arithmetic -/

theorem sum_nil : sum ([] : List ℝ) = 0 := by
  simp [sum]

theorem sum_cons (x : ℝ) (l : List ℝ) : sum (x :: l) = x + sum l := rfl

theorem mean_eq (l : List ℝ) : mean l = sum l / (l.length : ℝ) := rfl

theorem sqdev_eq (m x : ℝ) : sqdev m x = (x - m) * (x - m) := rfl

theorem std_eq (l : List ℝ) : std l = Real.sqrt (mean (l.map (sqdev (mean l)))) := rfl

theorem keep_iff (m s x : ℝ) : keep m s x = true ↔ m - s * 3 < x ∧ x < m + s * 3 := by
  simp [keep, RLt.lt]

theorem clipLoop_zero (l : List ℝ) (m s : ℝ) : clipLoop 0 l m s = (m, s) := rfl

theorem clipLoop_succ (n : Nat) (l : List ℝ) (m s : ℝ) :
    clipLoop (n + 1) l m s =
      if (l.filter (keep m s)).length = 0 then (m, s)
      else if (l.filter (keep m s)).length = l.length then (m, s)
      else clipLoop n (l.filter (keep m s)) (mean (l.filter (keep m s))) (std (l.filter (keep m s))) :=
  rfl

theorem sigmaclip_eq (n : Nat) (arr : List (Option ℝ)) :
    sigmaclip n arr =
      if (arr.filterMap id).length = 0 then none
      else some (clipLoop n (arr.filterMap id) (mean (arr.filterMap id)) (std (arr.filterMap id))) :=
  rfl

theorem length_cast_pos {l : List ℝ} (hl : l ≠ []) : (0 : ℝ) < (l.length : ℝ) := by
  have : 0 < l.length := List.length_pos_iff.mpr hl
  exact_mod_cast this

/-! ### sums, means and standard deviations of shifted / scaled lists -/

theorem sum_map_add (l : List ℝ) (c : ℝ) : sum (l.map (· + c)) = sum l + l.length * c := by
  induction l with
  | nil => simp [sum_nil]
  | cons x xs ih =>
    simp only [List.map_cons, sum_cons, ih, List.length_cons, Nat.cast_succ]; ring

theorem sum_map_mul (l : List ℝ) (k : ℝ) : sum (l.map (k * ·)) = k * sum l := by
  induction l with
  | nil => simp [sum_nil]
  | cons x xs ih => simp only [List.map_cons, sum_cons, ih]; ring

theorem mean_shift (l : List ℝ) (c : ℝ) (hl : l ≠ []) : mean (l.map (· + c)) = mean l + c := by
  have hn : (l.length : ℝ) ≠ 0 := (length_cast_pos hl).ne'
  rw [mean_eq, mean_eq, sum_map_add, List.length_map, add_div, mul_div_cancel_left₀ _ hn]

theorem mean_scale (l : List ℝ) (k : ℝ) : mean (l.map (k * ·)) = k * mean l := by
  rw [mean_eq, mean_eq, sum_map_mul, List.length_map, mul_div_assoc]

theorem sqdev_shift (m c x : ℝ) : sqdev (m + c) (x + c) = sqdev m x := by
  simp only [sqdev_eq]; ring

theorem sqdev_scale (k m x : ℝ) : sqdev (k * m) (k * x) = k ^ 2 * sqdev m x := by
  simp only [sqdev_eq]; ring

theorem map_sqdev_shift (l : List ℝ) (m c : ℝ) :
    (l.map (· + c)).map (sqdev (m + c)) = l.map (sqdev m) := by
  rw [List.map_map]
  apply List.map_congr_left
  intro x _
  exact sqdev_shift m c x

theorem map_sqdev_scale (l : List ℝ) (k m : ℝ) :
    (l.map (k * ·)).map (sqdev (k * m)) = (l.map (sqdev m)).map (k ^ 2 * ·) := by
  rw [List.map_map, List.map_map]
  apply List.map_congr_left
  intro x _
  exact sqdev_scale k m x

theorem std_shift (l : List ℝ) (c : ℝ) (hl : l ≠ []) : std (l.map (· + c)) = std l := by
  rw [std_eq, std_eq, mean_shift l c hl, map_sqdev_shift]

theorem std_scale (l : List ℝ) (k : ℝ) : std (l.map (k * ·)) = |k| * std l := by
  rw [std_eq, std_eq, mean_scale, map_sqdev_scale, mean_scale, Real.sqrt_mul (sq_nonneg k),
    Real.sqrt_sq_eq_abs]

/-! ### bounds -/

theorem sum_bounds (l : List ℝ) (a b : ℝ) (h : ∀ x ∈ l, a ≤ x ∧ x ≤ b) :
    l.length * a ≤ sum l ∧ sum l ≤ l.length * b := by
  induction l with
  | nil => simp [sum_nil]
  | cons x xs ih =>
    have hx := h x (List.mem_cons_self)
    have hxs := ih (fun y hy => h y (List.mem_cons_of_mem _ hy))
    simp only [sum_cons, List.length_cons, Nat.cast_succ]
    constructor <;> nlinarith [hx.1, hx.2, hxs.1, hxs.2]

theorem mean_mem_range (l : List ℝ) (a b : ℝ) (h : ∀ x ∈ l, a ≤ x ∧ x ≤ b) (hl : l ≠ []) :
    a ≤ mean l ∧ mean l ≤ b := by
  have hn := length_cast_pos hl
  have hs := sum_bounds l a b h
  rw [mean_eq, le_div_iff₀ hn, div_le_iff₀ hn]
  constructor <;> linarith [hs.1, hs.2]

theorem std_nonneg (l : List ℝ) : 0 ≤ std l := by
  rw [std_eq]; exact Real.sqrt_nonneg _

/-- Σ (x - m)² + Σ (x - a)(b - x) is affine in Σ x, and the second sum is non-negative -/
theorem sum_sqdev_le (l : List ℝ) (a b m : ℝ) (h : ∀ x ∈ l, a ≤ x ∧ x ≤ b) :
    sum (l.map (sqdev m)) ≤ (a + b - 2 * m) * sum l + l.length * (m ^ 2 - a * b) := by
  induction l with
  | nil => simp [sum_nil]
  | cons x xs ih =>
    have hx := h x (List.mem_cons_self)
    have hxs := ih (fun y hy => h y (List.mem_cons_of_mem _ hy))
    simp only [List.map_cons, sum_cons, List.length_cons, Nat.cast_succ, sqdev_eq] at hxs ⊢
    nlinarith [mul_nonneg (sub_nonneg.mpr hx.1) (sub_nonneg.mpr hx.2)]

/-- Popoviciu's inequality for the population variance -/
theorem variance_le_half_range_sq (l : List ℝ) (a b : ℝ) (h : ∀ x ∈ l, a ≤ x ∧ x ≤ b)
    (hl : l ≠ []) : mean (l.map (sqdev (mean l))) ≤ ((b - a) / 2) ^ 2 := by
  have hn := length_cast_pos hl
  have hle := sum_sqdev_le l a b (mean l) h
  have hS : sum l = l.length * mean l := by
    rw [mean_eq, mul_div_cancel₀ _ hn.ne']
  rw [mean_eq (l.map _), List.length_map, div_le_iff₀ hn]
  rw [hS] at hle
  nlinarith [mul_nonneg hn.le (sq_nonneg (mean l - (a + b) / 2))]

theorem std_le_half_range (l : List ℝ) (a b : ℝ) (h : ∀ x ∈ l, a ≤ x ∧ x ≤ b) (hl : l ≠ []) :
    std l ≤ (b - a) / 2 := by
  obtain ⟨x, hx⟩ := List.exists_mem_of_ne_nil l hl
  have hab : 0 ≤ (b - a) / 2 := by linarith [(h x hx).1, (h x hx).2]
  rw [std_eq, ← Real.sqrt_sq hab]
  exact Real.sqrt_le_sqrt (variance_le_half_range_sq l a b h hl)

theorem mean_const (l : List ℝ) (c : ℝ) (h : ∀ x ∈ l, x = c) (hl : l ≠ []) : mean l = c := by
  have := mean_mem_range l c c (fun x hx => by rw [h x hx]; exact ⟨le_rfl, le_rfl⟩) hl
  exact le_antisymm this.2 this.1

theorem std_const (l : List ℝ) (c : ℝ) (h : ∀ x ∈ l, x = c) (hl : l ≠ []) : std l = 0 := by
  have := std_le_half_range l c c (fun x hx => by rw [h x hx]; exact ⟨le_rfl, le_rfl⟩) hl
  exact le_antisymm (by simpa using this) (std_nonneg l)

/-! ### the clip test under shift / scale -/

theorem keep_shift (m s c x : ℝ) : keep (m + c) s (x + c) = keep m s x := by
  rw [Bool.eq_iff_iff, keep_iff, keep_iff]
  constructor <;> rintro ⟨h1, h2⟩ <;> constructor <;> linarith

theorem keep_scale_pos (k m s x : ℝ) (hk : 0 < k) : keep (k * m) (|k| * s) (k * x) = keep m s x := by
  rw [Bool.eq_iff_iff, keep_iff, keep_iff, abs_of_pos hk,
    show k * m - k * s * 3 = k * (m - s * 3) by ring,
    show k * m + k * s * 3 = k * (m + s * 3) by ring,
    mul_lt_mul_iff_right₀ hk, mul_lt_mul_iff_right₀ hk]

theorem keep_scale_neg (k m s x : ℝ) (hk : k < 0) : keep (k * m) (|k| * s) (k * x) = keep m s x := by
  rw [Bool.eq_iff_iff, keep_iff, keep_iff, abs_of_neg hk,
    show k * m - -k * s * 3 = k * (m + s * 3) by ring,
    show k * m + -k * s * 3 = k * (m - s * 3) by ring,
    mul_lt_mul_left_of_neg hk, mul_lt_mul_left_of_neg hk]
  exact and_comm

theorem keep_scale (k m s x : ℝ) (hk : k ≠ 0) : keep (k * m) (|k| * s) (k * x) = keep m s x := by
  rcases lt_or_gt_of_ne hk with h | h
  · exact keep_scale_neg k m s x h
  · exact keep_scale_pos k m s x h

/-- with zero spread nothing passes the (strict) clip test -/
theorem keep_zero_std (m x : ℝ) : keep m 0 x = false := by
  rw [Bool.eq_false_iff, Ne, keep_iff]
  rintro ⟨h1, h2⟩
  linarith

theorem filter_map_comm {f : ℝ → ℝ} {p q : ℝ → Bool} (h : ∀ x, p (f x) = q x) (l : List ℝ) :
    (l.map f).filter p = (l.filter q).map f := by
  have hpq : p ∘ f = q := funext h
  rw [List.filter_map, hpq]

theorem filter_keep_shift (l : List ℝ) (m s c : ℝ) :
    (l.map (· + c)).filter (keep (m + c) s) = (l.filter (keep m s)).map (· + c) :=
  filter_map_comm (fun x => keep_shift m s c x) l

theorem filter_keep_scale (l : List ℝ) (k m s : ℝ) (hk : k ≠ 0) :
    (l.map (k * ·)).filter (keep (k * m) (|k| * s)) = (l.filter (keep m s)).map (k * ·) :=
  filter_map_comm (fun x => keep_scale k m s x hk) l

/-! ### the loop -/

theorem clipLoop_shift (n : Nat) (c : ℝ) : ∀ (l : List ℝ) (m s : ℝ),
    clipLoop n (l.map (· + c)) (m + c) s = ((clipLoop n l m s).1 + c, (clipLoop n l m s).2) := by
  induction n with
  | zero => intro l m s; rfl
  | succ n ih =>
    intro l m s
    rw [clipLoop_succ, clipLoop_succ, filter_keep_shift, List.length_map, List.length_map]
    split_ifs with h1 h2
    · rfl
    · rfl
    · have hne : l.filter (keep m s) ≠ [] := fun e => h1 (by rw [e]; rfl)
      rw [mean_shift _ _ hne, std_shift _ _ hne]
      exact ih _ _ _

theorem clipLoop_scale (n : Nat) (k : ℝ) (hk : k ≠ 0) : ∀ (l : List ℝ) (m s : ℝ),
    clipLoop n (l.map (k * ·)) (k * m) (|k| * s) =
      (k * (clipLoop n l m s).1, |k| * (clipLoop n l m s).2) := by
  induction n with
  | zero => intro l m s; rfl
  | succ n ih =>
    intro l m s
    rw [clipLoop_succ, clipLoop_succ, filter_keep_scale _ _ _ _ hk, List.length_map,
      List.length_map]
    split_ifs with h1 h2
    · rfl
    · rfl
    · rw [mean_scale, std_scale]
      exact ih _ _ _

/-- the result is either the statistics passed in or those of a non-empty sub-list -/
theorem clipLoop_stats (n : Nat) : ∀ (l : List ℝ) (m s : ℝ),
    clipLoop n l m s = (m, s) ∨
      ∃ l' : List ℝ, l' ≠ [] ∧ (∀ x ∈ l', x ∈ l) ∧ clipLoop n l m s = (mean l', std l') := by
  induction n with
  | zero => intro l m s; exact Or.inl rfl
  | succ n ih =>
    intro l m s
    rw [clipLoop_succ]
    split_ifs with h1 h2
    · exact Or.inl rfl
    · exact Or.inl rfl
    · have hne : l.filter (keep m s) ≠ [] := fun e => h1 (by rw [e]; rfl)
      right
      rcases ih (l.filter (keep m s)) (mean (l.filter (keep m s))) (std (l.filter (keep m s)))
        with h | ⟨l', hl', hsub, h⟩
      · exact ⟨_, hne, fun x hx => List.mem_of_mem_filter hx, h⟩
      · exact ⟨l', hl', fun x hx => List.mem_of_mem_filter (hsub x hx), h⟩

/-- once the spread is zero the loop stops at once -/
theorem clipLoop_zero_std (n : Nat) (l : List ℝ) (m : ℝ) : clipLoop n l m 0 = (m, 0) := by
  cases n with
  | zero => rfl
  | succ n =>
    have hnil : l.filter (keep m 0) = [] :=
      List.filter_eq_nil_iff.mpr (fun x _ => by rw [keep_zero_std]; exact Bool.false_ne_true)
    rw [clipLoop_succ, hnil]
    rfl

/-! ### finite entries of an `Option` list -/

theorem mem_filterMap_id (arr : List (Option ℝ)) (v : ℝ) : v ∈ arr.filterMap id ↔ some v ∈ arr := by
  simp [List.mem_filterMap]

theorem filterMap_id_map (arr : List (Option ℝ)) (f : ℝ → ℝ) :
    (arr.map (Option.map f)).filterMap id = (arr.filterMap id).map f := by
  induction arr with
  | nil => rfl
  | cons o os ih =>
    cases o with
    | none => simpa using ih
    | some v => simpa using ih

theorem filterMap_id_length_eq_zero_iff (arr : List (Option ℝ)) :
    (arr.filterMap id).length = 0 ↔ ∀ v, some v ∉ arr := by
  rw [List.length_eq_zero_iff, List.eq_nil_iff_forall_not_mem]
  exact forall_congr' fun v => not_congr (mem_filterMap_id arr v)

/-! ### the stated laws -/

theorem sigmaclip_eq_none_iff (n : Nat) (arr : List (Option ℝ)) :
    sigmaclip n arr = none ↔ ∀ v, some v ∉ arr := by
  rw [sigmaclip_eq, ← filterMap_id_length_eq_zero_iff]
  split_ifs with h
  · exact iff_of_true rfl h
  · exact iff_of_false (by simp) h

theorem sigmaclip_isSome_iff (n : Nat) (arr : List (Option ℝ)) :
    (sigmaclip n arr).isSome ↔ ∃ v, some v ∈ arr := by
  rw [← not_iff_not, Bool.not_eq_true, Option.isSome_eq_false_iff, Option.isNone_iff_eq_none,
    sigmaclip_eq_none_iff]
  exact not_exists.symm

/-- a list whose finite entries are all `c` (and that has one) clips to `(c, 0)` -/
theorem sigmaclip_const (n : Nat) (arr : List (Option ℝ)) (c : ℝ)
    (h : ∀ v, some v ∈ arr → v = c) (hne : ∃ v, some v ∈ arr) : sigmaclip n arr = some (c, 0) := by
  have hall : ∀ x ∈ arr.filterMap id, x = c := fun x hx => h x ((mem_filterMap_id arr x).mp hx)
  have hl : arr.filterMap id ≠ [] := by
    obtain ⟨v, hv⟩ := hne
    exact List.ne_nil_of_mem ((mem_filterMap_id arr v).mpr hv)
  have hlen : ¬ (arr.filterMap id).length = 0 := fun e => hl (List.length_eq_zero_iff.mp e)
  rw [sigmaclip_eq, if_neg hlen, mean_const _ c hall hl, std_const _ c hall hl, clipLoop_zero_std]

/-- adding `c` to every finite entry shifts the mean by `c` and leaves the std unchanged -/
theorem sigmaclip_shift (n : Nat) (arr : List (Option ℝ)) (c : ℝ) :
    sigmaclip n (arr.map (Option.map (· + c))) = (sigmaclip n arr).map (fun p => (p.1 + c, p.2)) := by
  rw [sigmaclip_eq, sigmaclip_eq, filterMap_id_map, List.length_map]
  split_ifs with h
  · rfl
  · have hl : arr.filterMap id ≠ [] := fun e => h (by rw [e]; rfl)
    rw [mean_shift _ _ hl, std_shift _ _ hl, clipLoop_shift]
    rfl

/-- multiplying every finite entry by `k` (any sign, also 0) gives `(k·m, |k|·s)` -/
theorem sigmaclip_scale (n : Nat) (arr : List (Option ℝ)) (k : ℝ) :
    sigmaclip n (arr.map (Option.map (k * ·))) = (sigmaclip n arr).map (fun p => (k * p.1, |k| * p.2)) := by
  by_cases hk : k = 0
  · subst hk
    by_cases hne : ∃ v, some v ∈ arr
    · obtain ⟨v, hv⟩ := hne
      have hsome := (sigmaclip_isSome_iff n arr).mpr ⟨v, hv⟩
      obtain ⟨p, hp⟩ := Option.isSome_iff_exists.mp hsome
      rw [hp, sigmaclip_const n _ 0]
      · simp
      · intro w hw
        obtain ⟨o, _, ho⟩ := List.mem_map.mp hw
        cases o with
        | none => simp at ho
        | some u => simp at ho; linarith
      · exact ⟨0 * v, List.mem_map.mpr ⟨some v, hv, rfl⟩⟩
    · have hnone : ∀ v, some v ∉ arr := fun v hv => hne ⟨v, hv⟩
      rw [(sigmaclip_eq_none_iff n arr).mpr hnone, (sigmaclip_eq_none_iff n _).mpr]
      · rfl
      · intro w hw
        obtain ⟨o, ho, how⟩ := List.mem_map.mp hw
        cases o with
        | none => simp at how
        | some u => exact hnone u ho
  · rw [sigmaclip_eq, sigmaclip_eq, filterMap_id_map, List.length_map]
    split_ifs with h
    · rfl
    · rw [mean_scale, std_scale, clipLoop_scale n k hk]
      rfl

/-- mean within the range of the finite inputs; 0 ≤ std ≤ half the range (Popoviciu) -/
theorem sigmaclip_range (n : Nat) (arr : List (Option ℝ)) (a b : ℝ)
    (h : ∀ v, some v ∈ arr → a ≤ v ∧ v ≤ b) (p : ℝ × ℝ) (hp : sigmaclip n arr = some p) :
    a ≤ p.1 ∧ p.1 ≤ b ∧ 0 ≤ p.2 ∧ p.2 ≤ (b - a) / 2 := by
  have hall : ∀ x ∈ arr.filterMap id, a ≤ x ∧ x ≤ b :=
    fun x hx => h x ((mem_filterMap_id arr x).mp hx)
  have key : ∀ l' : List ℝ, l' ≠ [] → (∀ x ∈ l', x ∈ arr.filterMap id) →
      a ≤ mean l' ∧ mean l' ≤ b ∧ 0 ≤ std l' ∧ std l' ≤ (b - a) / 2 := by
    intro l' hl' hsub
    have hr : ∀ x ∈ l', a ≤ x ∧ x ≤ b := fun x hx => hall x (hsub x hx)
    have hm := mean_mem_range l' a b hr hl'
    exact ⟨hm.1, hm.2, std_nonneg l', std_le_half_range l' a b hr hl'⟩
  rw [sigmaclip_eq] at hp
  split_ifs at hp with hlen
  have hl : arr.filterMap id ≠ [] := fun e => hlen (by rw [e]; rfl)
  have hpe := Option.some.inj hp
  rcases clipLoop_stats n (arr.filterMap id) (mean (arr.filterMap id)) (std (arr.filterMap id))
    with hs | ⟨l', hl', hsub, hs⟩
  · rw [← hpe, hs]
    exact key _ hl (fun x hx => hx)
  · rw [← hpe, hs]
    exact key l' hl' hsub

end Aegean.Proofs.C06
