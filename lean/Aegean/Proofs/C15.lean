/-
  C15 — lemmas about the compress / expand model over ℝ.

  Everything here is generic in the index arithmetic: the functions `nxOf nyOf lcxOf lcyOf`
  (compress) and `nodeRow nodeCol` (expand) are parameters, constrained only by the laws `IdxLaws`
  and by "the node coordinate of the k-th compressed row is k·f".  `Properties/C15.lean`
  discharges those laws for the definitions regenerated from the source.
-/
import Mathlib.Tactic.Ring
import Mathlib.Tactic.Linarith
import Mathlib.Tactic.FieldSimp
import Mathlib.Tactic.Positivity
import Mathlib.Tactic.LinearCombination
import Aegean.Proofs.Real
import Aegean.Model.C15
import Aegean.Spec.C15

namespace Aegean.Proofs.C15
open Aegean.Model.C15

/-! ### natural-number facts -/

/-- `len(range(0, n, f))` -/
theorem range_length (n f : Nat) (hf : 0 < f) : (Py.range 0 n f).length = (n + f - 1) / f := by
  have : f ≠ 0 := by omega
  simp [Py.range, this]

/-- with `nn = ⌈n / f⌉`: the last decimation node `(nn − 1)·f` is inside `[0, n)` and `nn·f ≥ n` -/
theorem ceil_bounds (n f : Nat) (hf : 0 < f) (hn : 0 < n) :
    0 < (n + f - 1) / f ∧ ((n + f - 1) / f - 1) * f < n ∧ n ≤ (n + f - 1) / f * f := by
  have h1 := Nat.div_add_mod (n + f - 1) f
  have h2 := Nat.mod_lt (n + f - 1) hf
  have h3 : 0 < (n + f - 1) / f := Nat.div_pos (by omega) hf
  refine ⟨h3, ?_, ?_⟩
  · have : ((n + f - 1) / f - 1) * f = f * ((n + f - 1) / f) - f := by
      rw [Nat.sub_mul, Nat.one_mul, Nat.mul_comm]
    have h4 : f ≤ f * ((n + f - 1) / f) := Nat.le_mul_of_pos_right f h3
    omega
  · rw [Nat.mul_comm]; omega

/-- a pixel index inside the image lies in a cell whose upper node exists -/
theorem div_lt_ceil (n f x : Nat) (hf : 0 < f) (hx : x < n) : x / f < (n + f - 1) / f := by
  have hb := ceil_bounds n f hf (by omega)
  exact (Nat.div_lt_iff_lt_mul hf).2 (by omega)

/-- the cell search on the grid `k ↦ k·f` -/
theorem findCell_mul (f : Nat) (hf : 0 < f) (x : Nat) : ∀ M, findCell (fun k => k * f) x M = min (x / f) M := by
  intro M
  induction M with
  | zero => simp [findCell]
  | succ M ih =>
    unfold findCell
    by_cases h : (M + 1) * f ≤ x
    · have : M + 1 ≤ x / f := (Nat.le_div_iff_mul_le hf).2 h
      simp only [h, if_true]; omega
    · have : x / f < M + 1 := (Nat.div_lt_iff_lt_mul hf).2 (by omega)
      simp only [h, if_false, ih]; omega

theorem findCell_eq_div (f : Nat) (hf : 0 < f) (x M : Nat) (h : x / f ≤ M) :
    findCell (fun k => k * f) x M = x / f := by
  rw [findCell_mul f hf]; omega

theorem ascending_mul (f : Nat) (hf : 0 < f) (m : Nat) : ascending (fun k => k * f) m = true := by
  simp only [ascending, List.all_eq_true, List.mem_range, decide_eq_true_eq]
  intro k _
  exact Nat.mul_lt_mul_of_pos_right (Nat.lt_succ_self k) hf

theorem covers_mul (f m n : Nat) (h : n ≤ (m - 1) * f) : covers (fun k => k * f) m n = true := by
  simp only [covers, Bool.or_eq_true, Bool.and_eq_true, decide_eq_true_eq]
  right
  exact ⟨by simp, by omega⟩

/-! ### the interpolation formula over ℝ -/

theorem bilin_nested (v00 v01 v10 v11 ty tx : ℝ) :
    bilin v00 v01 v10 v11 ty tx = (1 - ty) * ((1 - tx) * v00 + tx * v01) + ty * ((1 - tx) * v10 + tx * v11) := by
  simp only [bilin, R.real_ofNat]
  push_cast
  ring

theorem frac_mul (f : Nat) (i x : Nat) : (frac (fun k => k * f) i x : ℝ) = ((x : ℝ) - i * f) / f := by
  simp only [frac, R.real_ofNat]
  push_cast
  congr 1
  ring

/-- the fraction inside the cell found for `x` is `(x mod f)/f ∈ [0, 1)` -/
theorem frac_div_bounds (f : Nat) (hf : 0 < f) (x : Nat) :
    0 ≤ (frac (fun k => k * f) (x / f) x : ℝ) ∧ (frac (fun k => k * f) (x / f) x : ℝ) < 1 := by
  rw [frac_mul]
  have hfr : (0 : ℝ) < f := by exact_mod_cast hf
  have h1 : ((x / f : Nat) : ℝ) * f ≤ x := by
    have := Nat.div_mul_le_self x f
    exact_mod_cast this
  have h2 : (x : ℝ) < ((x / f : Nat) : ℝ) * f + f := by
    have := Nat.lt_div_mul_add (a := x) hf
    have h' : x < x / f * f + f := this
    exact_mod_cast h'
  constructor
  · apply div_nonneg <;> linarith
  · rw [div_lt_one hfr]; linarith

/-- one axis: for `x` in the closed cell `[I·f, (I+1)·f]` whose upper node is not the appended last
    node (`I + 1 ≤ M`), the cell chosen by the search and its fraction give the same linear
    combination of any node values `V` as cell `I` with fraction `(x − I·f)/f` -/
theorem lerp_cell (f : Nat) (hf : 0 < f) (M I x : Nat) (hI : I + 1 ≤ M) (h1 : I * f ≤ x) (h2 : x ≤ (I + 1) * f)
    (V : Nat → ℝ) :
    (1 - (frac (fun k => k * f) (findCell (fun k => k * f) x M) x : ℝ)) * V (findCell (fun k => k * f) x M)
      + (frac (fun k => k * f) (findCell (fun k => k * f) x M) x : ℝ) * V (findCell (fun k => k * f) x M + 1)
    = (1 - ((x : ℝ) - I * f) / f) * V I + (((x : ℝ) - I * f) / f) * V (I + 1) := by
  have hfr : (f : ℝ) ≠ 0 := by
    have : (0 : ℝ) < f := by exact_mod_cast hf
    exact ne_of_gt this
  by_cases hx : x < (I + 1) * f
  · have hd : x / f = I := by
      apply Nat.le_antisymm
      · exact Nat.le_of_lt_succ ((Nat.div_lt_iff_lt_mul hf).2 hx)
      · exact (Nat.le_div_iff_mul_le hf).2 h1
    rw [findCell_eq_div f hf x M (by omega), hd, frac_mul]
  · have hx' : x = (I + 1) * f := by omega
    have hd : x / f = I + 1 := by rw [hx']; exact Nat.mul_div_cancel _ hf
    rw [findCell_eq_div f hf x M (by omega), hd, frac_mul, hx']
    push_cast
    have e1 : (((I : ℝ) + 1) * f - ((I : ℝ) + 1) * f) / f = 0 := by simp
    have e2 : (((I : ℝ) + 1) * f - (I : ℝ) * f) / f = 1 := by field_simp; ring
    rw [e1, e2]; ring

/-- a convex combination of four values stays between any bounds on the values -/
theorem convex4 (v00 v01 v10 v11 ty tx lo hi : ℝ) (hy0 : 0 ≤ ty) (hy1 : ty ≤ 1) (hx0 : 0 ≤ tx) (hx1 : tx ≤ 1)
    (b00 : lo ≤ v00 ∧ v00 ≤ hi) (b01 : lo ≤ v01 ∧ v01 ≤ hi) (b10 : lo ≤ v10 ∧ v10 ≤ hi) (b11 : lo ≤ v11 ∧ v11 ≤ hi) :
    lo ≤ bilin v00 v01 v10 v11 ty tx ∧ bilin v00 v01 v10 v11 ty tx ≤ hi := by
  rw [bilin_nested]
  have a1 : 0 ≤ 1 - ty := by linarith
  have a2 : 0 ≤ 1 - tx := by linarith
  have row0l : lo ≤ (1 - tx) * v00 + tx * v01 := by nlinarith [mul_nonneg a2 (sub_nonneg.2 b00.1), mul_nonneg hx0 (sub_nonneg.2 b01.1)]
  have row0h : (1 - tx) * v00 + tx * v01 ≤ hi := by nlinarith [mul_nonneg a2 (sub_nonneg.2 b00.2), mul_nonneg hx0 (sub_nonneg.2 b01.2)]
  have row1l : lo ≤ (1 - tx) * v10 + tx * v11 := by nlinarith [mul_nonneg a2 (sub_nonneg.2 b10.1), mul_nonneg hx0 (sub_nonneg.2 b11.1)]
  have row1h : (1 - tx) * v10 + tx * v11 ≤ hi := by nlinarith [mul_nonneg a2 (sub_nonneg.2 b10.2), mul_nonneg hx0 (sub_nonneg.2 b11.2)]
  constructor
  · nlinarith [mul_nonneg a1 (sub_nonneg.2 row0l), mul_nonneg hy0 (sub_nonneg.2 row1l)]
  · nlinarith [mul_nonneg a1 (sub_nonneg.2 row0h), mul_nonneg hy0 (sub_nonneg.2 row1h)]

/-! ### what compress and expand return on well-formed input -/

/-- the laws the regenerated index arithmetic of `compress` has to satisfy -/
structure IdxLaws (nxOf nyOf lcxOf lcyOf : Nat → Nat → Nat → Nat) : Prop where
  nx : ∀ rows cols f, 0 < f → nxOf rows cols f = (rows + f - 1) / f
  ny : ∀ rows cols f, 0 < f → nyOf rows cols f = (cols + f - 1) / f
  lcx : ∀ rows cols f, 0 < f → lcxOf rows cols f = rows % f
  lcy : ∀ rows cols f, 0 < f → lcyOf rows cols f = cols % f

/-- a valid input of the property: a 2-D image of at least 2 × 2 pixels whose header describes it and
    carries a pixel scale (CDELTi or CDi_i) on both axes -/
structure WF (h : Hdr ℝ) (im : Img ℝ) : Prop where
  rows : 2 ≤ im.rows
  cols : 2 ≤ im.cols
  naxis1 : h.naxis1 = im.cols
  naxis2 : h.naxis2 = im.rows
  scale1 : h.cdelt1.isSome ∨ h.cd11.isSome
  scale2 : h.cdelt2.isSome ∨ h.cd22.isSome

/-- what the theorems need of the regenerated keyword arithmetic: each expand formula undoes the compress formula
    (for a non-zero factor), and both functions pick the same scale keyword of each axis, one that is present -/
structure HdrLaws (H : HdrArith ℝ) : Prop where
  crpix1 : ∀ c1 c2 f : ℝ, f ≠ 0 → H.crpixE1 (H.crpixC1 c1 c2 f) (H.crpixC2 c1 c2 f) f = c1
  crpix2 : ∀ c1 c2 f : ℝ, f ≠ 0 → H.crpixE2 (H.crpixC1 c1 c2 f) (H.crpixC2 c1 c2 f) f = c2
  a1 : ∀ v f : ℝ, f ≠ 0 → H.dnA1 (H.upA1 v f) f = v
  b1 : ∀ v f : ℝ, f ≠ 0 → H.dnB1 (H.upB1 v f) f = v
  a2 : ∀ v f : ℝ, f ≠ 0 → H.dnA2 (H.upA2 v f) f = v
  b2 : ∀ v f : ℝ, f ≠ 0 → H.dnB2 (H.upB2 v f) f = v
  /-- only CDELTi present ⇒ 1; only CDi_i ⇒ 2; both ⇒ 1 or 2, the same in compress and expand -/
  k1 : H.keyC1 1 0 = 1 ∧ H.keyC1 0 1 = 2 ∧ (H.keyC1 1 1 = 1 ∨ H.keyC1 1 1 = 2) ∧
       H.keyE1 1 0 = 1 ∧ H.keyE1 0 1 = 2 ∧ H.keyE1 1 1 = H.keyC1 1 1
  k2 : H.keyC2 1 0 = 1 ∧ H.keyC2 0 1 = 2 ∧ (H.keyC2 1 1 = 1 ∨ H.keyC2 1 1 = 2) ∧
       H.keyE2 1 0 = 1 ∧ H.keyE2 0 1 = 2 ∧ H.keyE2 1 1 = H.keyC2 1 1

/-- what the theorems need of the regenerated BN_* bookkeeping -/
structure BnLaws (B : BnArith) : Prop where
  cfac : ∀ f n1 n2 lx ly, B.cfac f n1 n2 lx ly = f
  rpx1 : ∀ f n1 n2 lx ly, B.rpx1 f n1 n2 lx ly = lx
  rpx2 : ∀ f n1 n2 lx ly, B.rpx2 f n1 n2 lx ly = ly
  /-- the shape expand reads back is the (NAXIS2, NAXIS1) compress stored -/
  rows : ∀ f n1 n2 lx ly, B.outRows (B.npx1 f n1 n2 lx ly) (B.npx2 f n1 n2 lx ly) = n2
  cols : ∀ f n1 n2 lx ly, B.outCols (B.npx1 f n1 n2 lx ly) (B.npx2 f n1 n2 lx ly) = n1
  deleted : B.deleted 0 = 31

/-- the dispatch + rescale of compress followed by the dispatch + rescale of expand finds the same keyword and
    restores its value -/
theorem scale_roundtrip (keyC keyE : Nat → Nat → Nat) (upA upB dnA dnB : ℝ → ℝ → ℝ) (fa : ℝ) (hfa : fa ≠ 0)
    (hA : ∀ v f : ℝ, f ≠ 0 → dnA (upA v f) f = v) (hB : ∀ v f : ℝ, f ≠ 0 → dnB (upB v f) f = v)
    (hk : keyC 1 0 = 1 ∧ keyC 0 1 = 2 ∧ (keyC 1 1 = 1 ∨ keyC 1 1 = 2) ∧ keyE 1 0 = 1 ∧ keyE 0 1 = 2 ∧ keyE 1 1 = keyC 1 1)
    (a b : Option ℝ) (h : a.isSome ∨ b.isSome) :
    ∃ a' b', scaleWith keyC upA upB fa a b = some (a', b') ∧ scaleWith keyE dnA dnB fa a' b' = some (a, b) := by
  obtain ⟨k10, k01, k11, e10, e01, e11⟩ := hk
  cases a with
  | some v =>
    cases b with
    | none =>
      refine ⟨some (upA v fa), none, ?_, ?_⟩
      · simp [scaleWith, k10]
      · simp [scaleWith, e10, hA v fa hfa]
    | some w =>
      rcases k11 with k | k
      · refine ⟨some (upA v fa), some w, ?_, ?_⟩
        · simp [scaleWith, k]
        · simp [scaleWith, e11, k, hA v fa hfa]
      · refine ⟨some v, some (upB w fa), ?_, ?_⟩
        · simp [scaleWith, k]
        · simp [scaleWith, e11, k, hB w fa hfa]
  | none =>
    cases b with
    | some w =>
      refine ⟨none, some (upB w fa), ?_, ?_⟩
      · simp [scaleWith, k01]
      · simp [scaleWith, e01, hB w fa hfa]
    | none => simp at h

/-- the compressed image: node `k·f` for `k < nn`, then the last row / column -/
def cpx (f : Nat) (im : Img ℝ) : Nat → Nat → ℝ :=
  fun i j => im.px (srcIndex im.rows ((im.rows + f - 1) / f) f i) (srcIndex im.cols ((im.cols + f - 1) / f) f j)

theorem compress_ok {nxOf nyOf lcxOf lcyOf : Nat → Nat → Nat → Nat} (L : IdxLaws nxOf nyOf lcxOf lcyOf)
    (H : HdrArith ℝ) (B : BnArith)
    (f : Nat) (hf : 0 < f) (h : Hdr ℝ) (im : Img ℝ) (hr : 2 ≤ im.rows) (hc : 2 ≤ im.cols)
    {a1 b1 a2 b2 : Option ℝ}
    (s1 : scaleWith H.keyC1 H.upA1 H.upB1 (f : ℝ) h.cdelt1 h.cd11 = some (a1, b1))
    (s2 : scaleWith H.keyC2 H.upA2 H.upB2 (f : ℝ) h.cdelt2 h.cd22 = some (a2, b2)) :
    compress nxOf nyOf lcxOf lcyOf H B f h im = .ok
      ({ naxis1 := (im.cols + f - 1) / f + 1, naxis2 := (im.rows + f - 1) / f + 1,
         crpix1 := H.crpixC1 h.crpix1 h.crpix2 f, crpix2 := H.crpixC2 h.crpix1 h.crpix2 f,
         cdelt1 := a1, cd11 := b1, cdelt2 := a2, cd22 := b2,
         bn := some { cfac := B.cfac f h.naxis1 h.naxis2 (im.rows % f) (im.cols % f),
                      npx1 := B.npx1 f h.naxis1 h.naxis2 (im.rows % f) (im.cols % f),
                      npx2 := B.npx2 f h.naxis1 h.naxis2 (im.rows % f) (im.cols % f),
                      rpx1 := B.rpx1 f h.naxis1 h.naxis2 (im.rows % f) (im.cols % f),
                      rpx2 := B.rpx2 f h.naxis1 h.naxis2 (im.rows % f) (im.cols % f) },
         other := h.other },
       { rows := (im.rows + f - 1) / f + 1, cols := (im.cols + f - 1) / f + 1, px := cpx f im }) := by
  have hf0 : f ≠ 0 := by omega
  have h2 : ¬ (im.rows < 2 ∨ im.cols < 2) := by omega
  unfold compress
  simp only [hf0, if_false, h2, L.nx _ _ _ hf, L.ny _ _ _ hf, L.lcx _ _ _ hf, L.lcy _ _ _ hf, range_length _ _ hf,
    ne_eq, not_true_eq_false, or_self, R.real_ofNat, s1, s2]
  rfl

theorem expand_ok {nodeRow nodeCol : Nat → Nat → Nat → Nat → Nat} (H : HdrArith ℝ) (B : BnArith)
    (hc : Hdr ℝ) (c : Img ℝ) (bn : BN)
    (hbn : hc.bn = some bn) (hf : 0 < bn.cfac) (hdel : B.deleted 0 = 31)
    (hnr : ∀ k, nodeRow k bn.rpx1 bn.rpx2 bn.cfac = k * bn.cfac)
    (hnc : ∀ k, nodeCol k bn.rpx1 bn.rpx2 bn.cfac = k * bn.cfac)
    (hr : 2 ≤ c.rows) (hcc : 2 ≤ c.cols)
    (cr : B.outRows bn.npx1 bn.npx2 ≤ (c.rows - 1) * bn.cfac) (cc : B.outCols bn.npx1 bn.npx2 ≤ (c.cols - 1) * bn.cfac)
    {a1 b1 a2 b2 : Option ℝ}
    (s1 : scaleWith H.keyE1 H.dnA1 H.dnB1 (bn.cfac : ℝ) hc.cdelt1 hc.cd11 = some (a1, b1))
    (s2 : scaleWith H.keyE2 H.dnA2 H.dnB2 (bn.cfac : ℝ) hc.cdelt2 hc.cd22 = some (a2, b2)) :
    expand nodeRow nodeCol H B hc c = .ok
      ({ naxis1 := B.outCols bn.npx1 bn.npx2, naxis2 := B.outRows bn.npx1 bn.npx2,
         crpix1 := H.crpixE1 hc.crpix1 hc.crpix2 bn.cfac, crpix2 := H.crpixE2 hc.crpix1 hc.crpix2 bn.cfac,
         cdelt1 := a1, cd11 := b1, cdelt2 := a2, cd22 := b2, bn := none, other := hc.other },
       { rows := B.outRows bn.npx1 bn.npx2, cols := B.outCols bn.npx1 bn.npx2,
         px := interp2 (fun k => k * bn.cfac) (fun k => k * bn.cfac) c.rows c.cols c.px }) := by
  have hf0 : bn.cfac ≠ 0 := by omega
  have h2 : ¬ (c.rows < 2 ∨ c.cols < 2) := by omega
  have gr : (fun k => nodeRow k bn.rpx1 bn.rpx2 bn.cfac) = (fun k => k * bn.cfac) := funext hnr
  have gc : (fun k => nodeCol k bn.rpx1 bn.rpx2 bn.cfac) = (fun k => k * bn.cfac) := funext hnc
  unfold expand
  simp only [hbn, hf0, if_false, h2, gr, gc, ascending_mul _ hf, covers_mul _ _ _ cr, covers_mul _ _ _ cc,
    Bool.and_self, Bool.not_true, Bool.or_true, Bool.false_eq_true, R.real_ofNat, s1, s2, hdel, if_true]

/-- **the round trip on well-formed input**, for any index arithmetic, keyword arithmetic and BN bookkeeping
    satisfying the laws and any node-coordinate functions that give `k·f` for the residuals `compress` wrote -/
theorem roundTrip_eq {nxOf nyOf lcxOf lcyOf : Nat → Nat → Nat → Nat} {nodeRow nodeCol : Nat → Nat → Nat → Nat → Nat}
    (L : IdxLaws nxOf nyOf lcxOf lcyOf) {H : HdrArith ℝ} (HL : HdrLaws H) {B : BnArith} (BL : BnLaws B)
    (f : Nat) (hf : 0 < f) (h : Hdr ℝ) (im : Img ℝ) (wf : WF h im)
    (hnr : ∀ k, nodeRow k (im.rows % f) (im.cols % f) f = k * f)
    (hnc : ∀ k, nodeCol k (im.rows % f) (im.cols % f) f = k * f) :
    roundTrip nxOf nyOf lcxOf lcyOf nodeRow nodeCol H B f h im = .ok
      ({ naxis1 := h.naxis1, naxis2 := h.naxis2,
         crpix1 := h.crpix1, crpix2 := h.crpix2,
         cdelt1 := h.cdelt1, cd11 := h.cd11, cdelt2 := h.cdelt2, cd22 := h.cd22, bn := none, other := h.other },
       { rows := h.naxis2, cols := h.naxis1,
         px := interp2 (fun k => k * f) (fun k => k * f) ((im.rows + f - 1) / f + 1) ((im.cols + f - 1) / f + 1)
                 (cpx f im) }) := by
  have hfr : (f : ℝ) ≠ 0 := by
    have : (0 : ℝ) < f := by exact_mod_cast hf
    exact ne_of_gt this
  obtain ⟨a1, b1, u1, d1⟩ := scale_roundtrip H.keyC1 H.keyE1 H.upA1 H.upB1 H.dnA1 H.dnB1 (f : ℝ) hfr HL.a1 HL.b1 HL.k1
    h.cdelt1 h.cd11 wf.scale1
  obtain ⟨a2, b2, u2, d2⟩ := scale_roundtrip H.keyC2 H.keyE2 H.upA2 H.upB2 H.dnA2 H.dnB2 (f : ℝ) hfr HL.a2 HL.b2 HL.k2
    h.cdelt2 h.cd22 wf.scale2
  have br := ceil_bounds im.rows f hf (by have := wf.rows; omega)
  have bc := ceil_bounds im.cols f hf (by have := wf.cols; omega)
  unfold roundTrip
  rw [compress_ok L H B f hf h im wf.rows wf.cols u1 u2]
  simp only []
  rw [expand_ok (nodeRow := nodeRow) (nodeCol := nodeCol) H B _ _ _ rfl
      (by simp only [BL.cfac]; exact hf) BL.deleted
      (by simp only [BL.cfac, BL.rpx1, BL.rpx2]; exact hnr) (by simp only [BL.cfac, BL.rpx1, BL.rpx2]; exact hnc)
      (by simp only []; omega) (by simp only []; omega)
      (by simp only [BL.rows, BL.cfac, Nat.add_sub_cancel]; rw [wf.naxis2]; exact br.2.2)
      (by simp only [BL.cols, BL.cfac, Nat.add_sub_cancel]; rw [wf.naxis1]; exact bc.2.2)
      (by simp only [BL.cfac]; exact d1) (by simp only [BL.cfac]; exact d2)]
  simp only [BL.cfac, BL.rows, BL.cols, HL.crpix1 _ _ _ hfr, HL.crpix2 _ _ _ hfr]

/-! ### the clauses, about the expanded image `interp2 (k ↦ k·f) (k ↦ k·f) (nx+1) (ny+1) (cpx f im)` -/

open Aegean.Spec.C15 in
theorem srcIndex_node (n f k : Nat) (h : k < (n + f - 1) / f) : srcIndex n ((n + f - 1) / f) f k = k * f := if_pos h

theorem srcIndex_lt (n f k : Nat) (hf : 0 < f) (hn : 0 < n) : srcIndex n ((n + f - 1) / f) f k < n := by
  unfold srcIndex
  have hb := ceil_bounds n f hf hn
  split
  · rename_i h
    have : k * f ≤ ((n + f - 1) / f - 1) * f := Nat.mul_le_mul_right f (by omega)
    omega
  · omega

theorem srcIndex_sampled (n f k : Nat) (hf : 0 < f) (hn : 0 < n) :
    Aegean.Spec.C15.Sampled n f (srcIndex n ((n + f - 1) / f) f k) := by
  have hlt := srcIndex_lt n f k hf hn
  unfold srcIndex at hlt ⊢
  split
  · rename_i h
    rw [if_pos h] at hlt
    exact Or.inl ⟨hlt, Nat.mul_mod_left k f⟩
  · exact Or.inr (by omega)

/-- every value of the compressed image is a sampled pixel of the original -/
theorem cpx_sampled (f : Nat) (hf : 0 < f) (im : Img ℝ) (hr : 0 < im.rows) (hc : 0 < im.cols) (i j : Nat) :
    ∃ r c, r < im.rows ∧ c < im.cols ∧ Aegean.Spec.C15.Sampled im.rows f r ∧ Aegean.Spec.C15.Sampled im.cols f c ∧
      cpx f im i j = im.px r c :=
  ⟨_, _, srcIndex_lt _ f i hf hr, srcIndex_lt _ f j hf hc, srcIndex_sampled _ f i hf hr, srcIndex_sampled _ f j hf hc, rfl⟩

/-- inside the grid the cell search returns `⌊r/f⌋`, `⌊c/f⌋` -/
theorem interp2_eq (f : Nat) (hf : 0 < f) (mr mc : Nat) (v : Nat → Nat → ℝ) (r c : Nat)
    (hr : r / f ≤ mr - 2) (hc : c / f ≤ mc - 2) :
    interp2 (fun k => k * f) (fun k => k * f) mr mc v r c =
      bilin (v (r / f) (c / f)) (v (r / f) (c / f + 1)) (v (r / f + 1) (c / f)) (v (r / f + 1) (c / f + 1))
        (frac (fun k => k * f) (r / f) r) (frac (fun k => k * f) (c / f) c) := by
  unfold interp2
  simp only [findCell_eq_div f hf r _ hr, findCell_eq_div f hf c _ hc]

/-- on a closed cell `(I, J)` whose upper nodes are not the appended last row / column, the result is
    the bilinear interpolant of the cell's own four corners, whichever neighbouring cell the search picked -/
theorem interp2_cell (f : Nat) (hf : 0 < f) (mr mc : Nat) (v : Nat → Nat → ℝ) (I J r c : Nat)
    (hI : I + 1 ≤ mr - 2) (hJ : J + 1 ≤ mc - 2)
    (r1 : I * f ≤ r) (r2 : r ≤ (I + 1) * f) (c1 : J * f ≤ c) (c2 : c ≤ (J + 1) * f) :
    interp2 (fun k => k * f) (fun k => k * f) mr mc v r c =
      (1 - ((r : ℝ) - I * f) / f) * ((1 - ((c : ℝ) - J * f) / f) * v I J + (((c : ℝ) - J * f) / f) * v I (J + 1))
      + (((r : ℝ) - I * f) / f) * ((1 - ((c : ℝ) - J * f) / f) * v (I + 1) J + (((c : ℝ) - J * f) / f) * v (I + 1) (J + 1)) := by
  unfold interp2
  simp only []
  rw [bilin_nested]
  have key1 := lerp_cell f hf (mr - 2) I r hI r1 r2
    (fun a => (1 - (frac (fun k => k * f) (findCell (fun k => k * f) c (mc - 2)) c : ℝ)) * v a (findCell (fun k => k * f) c (mc - 2))
      + (frac (fun k => k * f) (findCell (fun k => k * f) c (mc - 2)) c : ℝ) * v a (findCell (fun k => k * f) c (mc - 2) + 1))
  have key2 := lerp_cell f hf (mc - 2) J c hJ c1 c2 (v I)
  have key3 := lerp_cell f hf (mc - 2) J c hJ c1 c2 (v (I + 1))
  linear_combination key1 + (1 - ((r : ℝ) - I * f) / f) * key2 + (((r : ℝ) - I * f) / f) * key3

/-- **node_exact** for the explicit expanded image -/
theorem node_value (f : Nat) (hf : 0 < f) (im : Img ℝ) (i j : Nat) (hi : i * f < im.rows) (hj : j * f < im.cols) :
    interp2 (fun k => k * f) (fun k => k * f) ((im.rows + f - 1) / f + 1) ((im.cols + f - 1) / f + 1) (cpx f im)
      (i * f) (j * f) = im.px (i * f) (j * f) := by
  have di : i * f / f = i := Nat.mul_div_cancel _ hf
  have dj : j * f / f = j := Nat.mul_div_cancel _ hf
  have li : i < (im.rows + f - 1) / f := by have := div_lt_ceil im.rows f (i * f) hf hi; rwa [di] at this
  have lj : j < (im.cols + f - 1) / f := by have := div_lt_ceil im.cols f (j * f) hf hj; rwa [dj] at this
  rw [interp2_eq f hf _ _ _ _ _ (by rw [di]; omega) (by rw [dj]; omega), di, dj, bilin_nested, frac_mul, frac_mul]
  push_cast
  simp only [sub_self, zero_div, sub_zero, one_mul, zero_mul, add_zero]
  unfold cpx
  rw [srcIndex_node _ _ _ li, srcIndex_node _ _ _ lj]

/-- **within_range**, local form: every expanded pixel is a convex combination (weights
    `(1−ty)(1−tx), (1−ty)tx, ty(1−tx), ty·tx` with `0 ≤ ty, tx < 1`) of the four compressed samples
    surrounding it -/
theorem pixel_convex (f : Nat) (hf : 0 < f) (im : Img ℝ) (r c : Nat) (hr : r < im.rows) (hc : c < im.cols) :
    ∃ (i j : Nat) (ty tx : ℝ), i + 1 ≤ (im.rows + f - 1) / f ∧ j + 1 ≤ (im.cols + f - 1) / f ∧
      0 ≤ ty ∧ ty < 1 ∧ 0 ≤ tx ∧ tx < 1 ∧
      interp2 (fun k => k * f) (fun k => k * f) ((im.rows + f - 1) / f + 1) ((im.cols + f - 1) / f + 1) (cpx f im) r c
        = bilin (cpx f im i j) (cpx f im i (j + 1)) (cpx f im (i + 1) j) (cpx f im (i + 1) (j + 1)) ty tx := by
  have li := div_lt_ceil im.rows f r hf hr
  have lj := div_lt_ceil im.cols f c hf hc
  refine ⟨r / f, c / f, _, _, li, lj, (frac_div_bounds f hf r).1, (frac_div_bounds f hf r).2,
    (frac_div_bounds f hf c).1, (frac_div_bounds f hf c).2, ?_⟩
  exact interp2_eq f hf _ _ _ _ _ (by omega) (by omega)

/-- **within_range**, as the Spec states it -/
theorem within_range_explicit (f : Nat) (hf : 0 < f) (im : Img ℝ) :
    Aegean.Spec.C15.WithinRange f im.rows im.cols im.px
      (interp2 (fun k => k * f) (fun k => k * f) ((im.rows + f - 1) / f + 1) ((im.cols + f - 1) / f + 1) (cpx f im)) := by
  intro lo hi hb r c hr hc
  obtain ⟨i, j, ty, tx, _, _, y0, y1, x0, x1, e⟩ := pixel_convex f hf im r c hr hc
  rw [e]
  have B : ∀ a b, lo ≤ cpx f im a b ∧ cpx f im a b ≤ hi := by
    intro a b
    obtain ⟨r', c', h1, h2, h3, h4, e'⟩ := cpx_sampled f hf im (by omega) (by omega) a b
    rw [e']; exact hb r' c' h1 h2 h3 h4
  exact convex4 _ _ _ _ ty tx lo hi y0 (le_of_lt y1) x0 (le_of_lt x1) (B _ _) (B _ _) (B _ _) (B _ _)

/-- **linear_exact** for the explicit expanded image -/
theorem linear_exact_explicit (f : Nat) (hf : 0 < f) (im : Img ℝ) :
    Aegean.Spec.C15.LinearExact f im.rows im.cols im.px
      (interp2 (fun k => k * f) (fun k => k * f) ((im.rows + f - 1) / f + 1) ((im.cols + f - 1) / f + 1) (cpx f im)) := by
  intro I J ⟨cI, cJ⟩ ⟨a, b, g, d, lin⟩ r c ⟨r1, r2, c1, c2⟩
  have hfr : (f : ℝ) ≠ 0 := by
    have : (0 : ℝ) < f := by exact_mod_cast hf
    exact ne_of_gt this
  -- the upper corner nodes are genuine decimation nodes
  have lI : I + 1 < (im.rows + f - 1) / f := by
    have := div_lt_ceil im.rows f ((I + 1) * f) hf cI; rwa [Nat.mul_div_cancel _ hf] at this
  have lJ : J + 1 < (im.cols + f - 1) / f := by
    have := div_lt_ceil im.cols f ((J + 1) * f) hf cJ; rwa [Nat.mul_div_cancel _ hf] at this
  rw [interp2_cell f hf _ _ _ I J r c (by omega) (by omega) r1 r2 c1 c2]
  have corner : ∀ p q, p ≤ I + 1 → q ≤ J + 1 → cpx f im p q = im.px (p * f) (q * f) := by
    intro p q hp hq
    unfold cpx
    rw [srcIndex_node _ _ _ (by omega), srcIndex_node _ _ _ (by omega)]
  have inI : I * f ≤ (I + 1) * f := Nat.mul_le_mul_right f (by omega)
  have inJ : J * f ≤ (J + 1) * f := Nat.mul_le_mul_right f (by omega)
  rw [corner I J (by omega) (by omega), corner I (J + 1) (by omega) (by omega),
    corner (I + 1) J (by omega) (by omega), corner (I + 1) (J + 1) (by omega) (by omega),
    lin _ _ ⟨Nat.le_refl _, inI, Nat.le_refl _, inJ⟩, lin _ _ ⟨Nat.le_refl _, inI, inJ, Nat.le_refl _⟩,
    lin _ _ ⟨inI, Nat.le_refl _, Nat.le_refl _, inJ⟩, lin _ _ ⟨inI, Nat.le_refl _, inJ, Nat.le_refl _⟩,
    lin r c ⟨r1, r2, c1, c2⟩]
  simp only [R.real_ofNat]
  push_cast
  field_simp
  ring

end Aegean.Proofs.C15
