/-
  C16 — the Lean zenithal WCS, part 4: the composed inverse laws and `WcsLaws` for it.

    zen_w2p_p2w : zenW2P (zenP2W p) = p                 on `zenPdom` (non-singular CD matrix, native radius in
                                                         the projection's domain)
    zen_p2w_w2p : zenP2W (zenW2P s) = s  (RA mod 360)   on `zenSdom` (off the celestial poles, co-latitude from
                                                         the reference point in the projection's range)
    zen_wcsLaws : WcsLaws (zenWcs h) (zenPdom h) (zenSdom h)
-/
import Aegean.Proofs.C16ZenRadial

set_option linter.unusedSimpArgs false

namespace Aegean.C16
open Aegean.Model.C16 Real

theorem sqrt_scaled (s a b : ℝ) (hs : 0 ≤ s) (h : a ^ 2 + b ^ 2 = 1) :
    Real.sqrt ((s * a) ^ 2 + (s * b) ^ 2) = s := by
  have : (s * a) ^ 2 + (s * b) ^ 2 = s ^ 2 := by nlinarith
  rw [this, Real.sqrt_sq hs]

theorem cos_sq_add_sin_sq' (x : ℝ) : Real.cos x ^ 2 + Real.sin x ^ 2 = 1 := by
  rw [add_comm]; exact Real.sin_sq_add_cos_sq x

/-- the native vector of any `(x, y)` is a unit vector -/
theorem xyToNative_unit (p : Proj) (x y : ℝ) : Unit3 (xyToNative p x y) := by
  simp only [Unit3, xyToNative, R.real_sin, R.real_cos]
  nlinarith [Real.sin_sq_add_cos_sq ((radialInv p (R.hypot x y : ℝ) : ℝ)),
    Real.sin_sq_add_cos_sq ((R.atan2 x (-y) : ℝ) - R.pi)]

theorem skyToVec_unit (crval1 ra dec : ℝ) : Unit3 (skyToVec crval1 ra dec) := by
  simp only [Unit3, skyToVec, R.real_sin, R.real_cos]
  nlinarith [Real.sin_sq_add_cos_sq ((R.radians dec : ℝ)), Real.sin_sq_add_cos_sq ((R.radians (ra - crval1) : ℝ))]

/-- **(x, y) → native → (x, y)** on the projection's radial domain -/
theorem nativeToXY_xyToNative (p : Proj) (x y : ℝ) (hd : radialDom p (Real.sqrt (x ^ 2 + y ^ 2))) :
    nativeToXY p (xyToNative p x y) = (x, y) := by
  have hp := Real.pi_pos
  set r := Real.sqrt (x ^ 2 + y ^ 2) with hr
  have hr0 : 0 ≤ r := Real.sqrt_nonneg _
  obtain ⟨hz0, hz1, hrad⟩ := radialInv_spec p r hr0 hd
  set z : ℝ := radialInv p r with hz
  have hsz : 0 ≤ Real.sin z := Real.sin_nonneg_of_nonneg_of_le_pi hz0 hz1.le
  set φ := Complex.arg ⟨-y, x⟩ with hφ
  have hrφ : r = Real.sqrt ((-y) ^ 2 + x ^ 2) := by rw [hr]; congr 1; ring
  have hx : r * Real.sin φ = x := by rw [hrφ]; exact polar_im (-y) x
  have hy : r * Real.cos φ = -y := by rw [hrφ]; exact polar_re (-y) x
  simp only [nativeToXY, xyToNative, hypot_sq, R.real_sin, R.real_cos, R.real_atan2, R.real_pi, ← hr, ← hz, ← hφ]
  rw [sqrt_scaled _ _ _ hsz (cos_sq_add_sin_sq' _), arg_cos_sin z (by linarith) hz1.le, hrad]
  rcases hsz.eq_or_lt with h0 | hpos
  · -- the reference pixel itself
    have hz00 : z = 0 := (Real.sin_eq_zero_iff_of_lt_of_lt (by linarith) hz1).mp h0.symm
    have hr00 : r = 0 := by rw [← hrad, hz00]; exact radial_zero p
    have hxy : x ^ 2 + y ^ 2 = 0 := by
      have := Real.sqrt_eq_zero'.mp (hr ▸ hr00); nlinarith [sq_nonneg x, sq_nonneg y]
    have hx0 : x = 0 := by nlinarith [sq_nonneg x, sq_nonneg y]
    have hy0 : y = 0 := by nlinarith [sq_nonneg x, sq_nonneg y]
    rw [hr00, hx0, hy0]; simp
  · obtain ⟨k, hk⟩ := arg_polar (Real.sin z) (φ - π) hpos
    rw [hk]
    have e : π + (φ - π + 2 * π * k) = φ + k * (2 * π) := by ring
    rw [e, Real.sin_add_int_mul_two_pi, Real.cos_add_int_mul_two_pi, hx, hy]; simp

/-- **native → (x, y) → native** for a unit vector whose co-latitude is in the projection's range -/
theorem xyToNative_nativeToXY (p : Proj) (n : V3) (hn : Unit3 n)
    (hr : radialRange p (Complex.arg ⟨n.2.2, Real.sqrt (n.1 ^ 2 + n.2.1 ^ 2)⟩)) :
    xyToNative p (nativeToXY p n).1 (nativeToXY p n).2 = n := by
  have hp := Real.pi_pos
  obtain ⟨n1, n2, n3⟩ := n
  simp only [Unit3] at hn
  simp only at hr
  set κ := Real.sqrt (n1 ^ 2 + n2 ^ 2) with hκ
  have hκ0 : 0 ≤ κ := Real.sqrt_nonneg _
  have hκ2 : κ ^ 2 = n1 ^ 2 + n2 ^ 2 := Real.sq_sqrt (by positivity)
  set z := Complex.arg ⟨n3, κ⟩ with hz
  obtain ⟨hcz, hsz⟩ : Real.cos z = n3 ∧ Real.sin z = κ := arg_unit n3 κ (by rw [hκ2]; linarith)
  have hz0 : 0 ≤ z := Complex.arg_nonneg_iff.mpr hκ0
  have hz1 : z ≤ π := Complex.arg_le_pi _
  set r : ℝ := radial p z with hrdef
  have hr0 : 0 ≤ r := radial_nonneg p z hz0 hz1 hr
  set ψ := Complex.arg ⟨n1, n2⟩ with hψ
  have h1 : κ * Real.cos ψ = n1 := polar_re n1 n2
  have h2 : κ * Real.sin ψ = n2 := polar_im n1 n2
  simp only [nativeToXY, xyToNative, hypot_sq, R.real_sin, R.real_cos, R.real_atan2, R.real_pi, ← hκ, ← hz, ← hrdef,
    ← hψ, neg_neg]
  have hlen : Real.sqrt ((r * Real.sin (π + ψ)) ^ 2 + (-(r * Real.cos (π + ψ))) ^ 2) = r := by
    have : (r * Real.sin (π + ψ)) ^ 2 + (-(r * Real.cos (π + ψ))) ^ 2 = r ^ 2 := by
      nlinarith [Real.sin_sq_add_cos_sq (π + ψ)]
    rw [this, Real.sqrt_sq hr0]
  rw [hlen, radial_inverse_range p z hz0 hz1 hr, hcz, hsz]
  rcases hκ0.eq_or_lt with h0 | hpos
  · have : n1 ^ 2 + n2 ^ 2 = 0 := by rw [← hκ2, ← h0]; ring
    have hn1 : n1 = 0 := by nlinarith [sq_nonneg n1, sq_nonneg n2]
    have hn2 : n2 = 0 := by nlinarith [sq_nonneg n1, sq_nonneg n2]
    rw [← h0, hn1, hn2]; simp
  · have hzpos : 0 < z := by
      rcases hz0.eq_or_lt with hz00 | h
      · rw [← hz00, Real.sin_zero] at hsz; linarith
      · exact h
    have hrpos : 0 < r := radial_pos p z hzpos hz1 hr (by rw [hsz]; exact hpos)
    obtain ⟨k, hk⟩ := arg_polar r (π + ψ) hrpos
    rw [hk]
    have e : π + ψ + 2 * π * k - π = ψ + k * (2 * π) := by ring
    rw [e, Real.sin_add_int_mul_two_pi, Real.cos_add_int_mul_two_pi, h1, h2]

/-! ### the composed inverse laws -/

/-- pixels the Lean zenithal WCS inverts: native radius inside the projection's domain -/
def zenPdom (h : ZenHdr ℝ) (p1 p2 : ℝ) : Prop :=
  radialDom h.proj (Real.sqrt ((R.radians (linFwd h p1 p2).1 : ℝ) ^ 2 + (R.radians (linFwd h p1 p2).2 : ℝ) ^ 2))

/-- sky positions it inverts: off the celestial poles, within the projection's range of the reference point -/
def zenSdom (h : ZenHdr ℝ) (ra dec : ℝ) : Prop :=
  |dec| < 90 ∧ radialRange h.proj (zenColat h ra dec)

/-- **zen_w2p_p2w**: pixel → sky → pixel is the identity, for all five projections and any non-singular
    CD matrix -/
theorem zen_w2p_p2w (h : ZenHdr ℝ) (hdet : h.cd11 * h.cd22 - h.cd12 * h.cd21 ≠ 0) (p1 p2 : ℝ)
    (hd : zenPdom h p1 p2) :
    zenW2P h (zenP2W h p1 p2).1 (zenP2W h p1 p2).2 = (p1, p2) := by
  have hsc := sin_cos_radians_sq h.crval2
  simp only [zenW2P, zenP2W]
  rw [skyToVec_vecToSky _ _ (rotA_unit _ _ hsc _ (xyToNative_unit _ _ _)), rotA_involutive _ _ hsc,
    nativeToXY_xyToNative _ _ _ hd]
  simp only [degrees_radians]
  exact lin_inverse h hdet p1 p2

/-- **zen_p2w_w2p**: sky → pixel → sky is the identity up to whole turns of right ascension -/
theorem zen_p2w_w2p (h : ZenHdr ℝ) (hdet : h.cd11 * h.cd22 - h.cd12 * h.cd21 ≠ 0) (ra dec : ℝ)
    (hs : zenSdom h ra dec) :
    ∃ k : ℤ, zenP2W h (zenW2P h ra dec).1 (zenW2P h ra dec).2 = (ra + 360 * k, dec) := by
  have hsc := sin_cos_radians_sq h.crval2
  obtain ⟨hdec, hrange⟩ := hs
  obtain ⟨k, hk⟩ := vecToSky_skyToVec h.crval1 ra dec hdec
  refine ⟨k, ?_⟩
  simp only [zenW2P, zenP2W]
  rw [lin_inverse' h hdet]
  simp only [radians_degrees]
  have hu := rotA_unit _ _ hsc _ (skyToVec_unit h.crval1 ra dec)
  have hr' : radialRange h.proj (Complex.arg ⟨(rotA (R.sin (R.radians h.crval2)) (R.cos (R.radians h.crval2))
        (skyToVec h.crval1 ra dec)).2.2,
      Real.sqrt ((rotA (R.sin (R.radians h.crval2)) (R.cos (R.radians h.crval2)) (skyToVec h.crval1 ra dec)).1 ^ 2
        + (rotA (R.sin (R.radians h.crval2)) (R.cos (R.radians h.crval2)) (skyToVec h.crval1 ra dec)).2.1 ^ 2)⟩) := by
    simpa only [zenColat, hypot_sq, R.real_atan2] using hrange
  rw [xyToNative_nativeToXY _ _ hu hr', rotA_involutive _ _ hsc, hk]

/-- non-vacuity of the sky domain: the reference point (CRVAL) is in it, at co-latitude 0 -/
theorem zenColat_reference (h : ZenHdr ℝ) : zenColat h h.crval1 h.crval2 = 0 := by
  have hsc := sin_cos_radians_sq h.crval2
  simp only [R.real_sin, R.real_cos] at hsc
  simp only [zenColat, rotA, skyToVec, hypot_sq, R.real_sin, R.real_cos, R.real_atan2, sub_self]
  have h0 : (R.radians (0 : ℝ) : ℝ) = 0 := by simp only [R.real_radians]; ring
  rw [h0, Real.cos_zero, Real.sin_zero]
  set sd := Real.sin (R.radians h.crval2)
  set cd := Real.cos (R.radians h.crval2)
  have e1 : cd * sd - sd * (cd * 1) = 0 := by ring
  have e2 : sd * sd + cd * (cd * 1) = 1 := by nlinarith
  have e3 : -(cd * 0) = 0 := by ring
  rw [e1, e2, e3]
  have e4 : Real.sqrt ((0 : ℝ) ^ 2 + 0 ^ 2) = 0 := by norm_num
  rw [e4]
  have : (⟨1, 0⟩ : ℂ) = ((1 : ℝ) : ℂ) := by apply Complex.ext <;> simp
  rw [this]; exact Complex.arg_ofReal_of_nonneg zero_le_one

theorem zenSdom_reference (h : ZenHdr ℝ) (hd : |h.crval2| < 90) : zenSdom h h.crval1 h.crval2 := by
  refine ⟨hd, ?_⟩
  rw [zenColat_reference]
  have := Real.pi_pos
  cases hp : h.proj <;> simp only [radialRange] <;> first | trivial | positivity

/-- **the Lean zenithal WCS satisfies the WCS contract** -/
theorem zen_wcsLaws (h : ZenHdr ℝ) (hdet : h.cd11 * h.cd22 - h.cd12 * h.cd21 ≠ 0) :
    WcsLaws (zenWcs h) (zenPdom h) (zenSdom h) where
  inv_pix p1 p2 hd := zen_w2p_p2w h hdet p1 p2 hd
  inv_sky ra dec hs := zen_p2w_w2p h hdet ra dec hs

end Aegean.C16
