/-
  C16 — the minor axis of an ellipse through sky → pixel → sky.

  FULL STATEMENT WANTED (not provable, and false to first order in `axis × distance from the reference
  point` for a real projection — see design.d/C16.md and the open known finding):
      for every WCS with the inverse laws, `(pix2sky_ellipse (sky2pix_ellipse (pos, a, b, pa))).b = b`.

  What is proved: the round trip of the minor axis is EXACT under explicit geometric hypotheses about
  the pixel images `c, o1, o2` of the centre and of the two sky offsets (`a` at `pa`, `b` at `pa − 90`):

  * `sy_is_perp_component` — for any WCS, the `sy` that sky2pix_ellipse returns is the component of the
    minor pixel offset perpendicular to the major pixel offset: `s·|sin(τ − θ)|`.
  * `ellipse_minor_roundtrip_mirror_partial` — if the minor pixel offset is perpendicular to the major
    one ON THE θ − 90° SIDE (the side pix2sky_ellipse walks along; this is the case of a mirror-reversed
    image, CDELT1·CDELT2 > 0), then the minor axis comes back exactly.
  * `ellipse_minor_roundtrip_partial` — if it is perpendicular ON THE θ + 90° SIDE (every ordinary
    celestial image, CDELT1 < 0 < CDELT2), pix2sky_ellipse walks along the REFLECTED pixel offset
    `2c − o2`; the minor axis comes back exactly if moreover the WCS maps that reflected pixel point to
    the reflected sky point (distance `b` at `pa + 90`).  Both hypotheses hold to first order only;
    the second one fails at first order in `b·tan(distance from the reference point)`.
-/
import Aegean.Proofs.C16Round

namespace Aegean.C16
open Gen.C16 Aegean.Model.C16 Real
open Aegean.Model.C16Hand (offX offY)

theorem arg_polar (ρ τ : ℝ) (hρ : 0 < ρ) : ∃ k : ℤ, Complex.arg ⟨ρ * cos τ, ρ * sin τ⟩ = τ + 2 * π * k := by
  have h := Complex.arg_mul_cos_add_sin_mul_I_sub hρ τ
  refine ⟨⌊(π - τ) / (2 * π)⌋, ?_⟩
  have e : (⟨ρ * cos τ, ρ * sin τ⟩ : ℂ) = (ρ : ℂ) * (Complex.cos τ + Complex.sin τ * Complex.I) := by
    apply Complex.ext <;> simp [← Complex.ofReal_cos, ← Complex.ofReal_sin]
  rw [e]; linarith

theorem abs_cos_int (x : ℝ) (k : ℤ) (h : |cos x| = 1) : |cos (x + 2 * π * k)| = 1 := by
  have : x + 2 * π * k = x + k * (2 * π) := by ring
  rw [this, Real.cos_add_int_mul_two_pi]; exact h

theorem radians_add_turns (u : ℝ) (j : ℤ) : (R.radians (u + 360 * j) : ℝ) = R.radians u + 2 * π * j := by
  simp only [R.real_radians]; ring

/-- **what `sy` is**: with the minor pixel offset written in polar form `s·(cos τ, sin τ)` and `θ` the
    direction of the major pixel offset, sky2pix_ellipse returns `s·|sin(τ − θ)|` -/
theorem sy_is_perp_component (x y xo yo x2 y2 s τ : ℝ) (hs : 0 ≤ s)
    (h1 : x2 - x = s * cos τ) (h2 : y2 - y = s * sin τ) :
    s2pEllSy (R.pi : ℝ) x y xo yo x2 y2 = s * |sin (τ - Complex.arg ⟨xo - x, yo - y⟩)| := by
  rw [s2pEllSy_eq]
  have hlen : Real.sqrt ((x2 - x) ^ 2 + (y2 - y) ^ 2) = s := by
    have : (x2 - x) ^ 2 + (y2 - y) ^ 2 = s ^ 2 := by
      rw [h1, h2]; nlinarith [sin_sq_add_cos_sq τ]
    rw [this, Real.sqrt_sq hs]
  rw [hlen]
  rcases hs.eq_or_lt with h0 | hpos
  · rw [← h0]; simp
  · congr 1
    rw [h1, h2]
    obtain ⟨k, hk⟩ := arg_polar s τ hpos
    rw [hk]
    set θ := Complex.arg ⟨xo - x, yo - y⟩
    have e : θ - (τ + 2 * π * k - π / 2) = (π / 2 - (τ - θ)) + (-k : ℤ) * (2 * π) := by
      push_cast; ring
    rw [e, Real.cos_add_int_mul_two_pi, Real.cos_pi_div_two_sub]

theorem abs_sin_half_pi : |sin (π / 2)| = 1 := by simp
theorem abs_sin_neg_half_pi : |sin (-(π / 2))| = 1 := by simp

/-- the offset point that pix2sky_ellipse uses for the minor axis: `c + sy·(cos(θ − 90°), sin(θ − 90°))` -/
theorem minor_point_x (x sy θ : ℝ) :
    offX x sy ((R.degrees θ : ℝ) - R.ofNat 90) = x + sy * cos (θ - π / 2) := by
  simp only [offX, R.real_cos, R.real_ofNat]
  congr 2
  simp only [R.real_radians, R.real_degrees]; field_simp; ring_nf

theorem minor_point_y (y sy θ : ℝ) :
    offY y sy ((R.degrees θ : ℝ) - R.ofNat 90) = y + sy * sin (θ - π / 2) := by
  simp only [offY, R.real_sin, R.real_ofNat]
  congr 2
  simp only [R.real_radians, R.real_degrees]; field_simp; ring_nf

/-- sky side: if the two end points handed to `p2sEllMinor` are the translated points at `(a, pa)` and
    `(b, pa + 90 − u)` (RA up to whole turns) and `|cos u°| = 1`, the returned minor axis is `b` -/
theorem minor_sky (S : SphereLaws) (ra dec a b pa u : ℝ) (k k1 k2 : ℤ)
    (hd : |dec| < 90) (ha0 : 0 < a) (ha1 : a < 180) (hb0 : 0 < b) (hb1 : b < 180)
    (hu : |cos (R.radians u : ℝ)| = 1) :
    p2sEllMinor (ra + 360 * k) dec
      (translateRa ra dec a pa + 360 * k1) (translateDec ra dec a pa)
      (translateRa ra dec b (pa + 90 - u) + 360 * k2) (translateDec ra dec b (pa + 90 - u)) = b := by
  have habs := abs_lt.mp hd
  obtain ⟨m1, hm1⟩ := S.bear_translate ra dec a pa ha0 ha1 hd
  obtain ⟨m2, hm2⟩ := S.bear_translate ra dec b (pa + 90 - u) hb0 hb1 hd
  have hg := S.gcd_translate ra dec b (pa + 90 - u) (by linarith [habs.1]) (by linarith [habs.2]) hb0.le hb1.le
  rw [p2sEllMinor_eq, S.gcd_periodic, S.bear_periodic, S.bear_periodic, hg, hm1, hm2]
  have e : (pa + 360 * (m1 : ℝ) - (pa + 90 - u + 360 * (m2 : ℝ) - 90)) * (π / 180)
      = (R.radians u : ℝ) + 2 * π * ((m1 - m2 : ℤ) : ℝ) := by
    simp only [R.real_radians]; push_cast; ring
  rw [e, abs_cos_int _ _ hu]; ring

theorem abs_cos_radians_180 : |cos (R.radians (180 : ℝ) : ℝ)| = 1 := by
  have : (R.radians (180 : ℝ) : ℝ) = π := by simp only [R.real_radians]; field_simp
  rw [this]; simp

theorem abs_cos_radians_0 : |cos (R.radians (0 : ℝ) : ℝ)| = 1 := by
  have : (R.radians (0 : ℝ) : ℝ) = 0 := by simp only [R.real_radians]; ring
  rw [this]; simp

section minor
variable (W : Wcs ℝ) {pdom sdom : ℝ → ℝ → Prop} (L : WcsLaws W pdom sdom) (S : SphereLaws)
include L S

/-- **mirror-reversed images**: perpendicular pixel offsets, the minor one on the θ − 90° side ⇒ the
    semi-minor axis survives sky → pixel → sky exactly. -/
theorem ellipse_minor_roundtrip_mirror_partial (ra dec a b pa s : ℝ)
    (hd : |dec| < 90) (ha0 : 0 < a) (ha1 : a < 180) (hb0 : 0 < b) (hb1 : b < 180)
    (hs : sdom ra dec) (hs1 : sdom (translateRa ra dec a pa) (translateDec ra dec a pa))
    (hs2 : sdom (translateRa ra dec b (pa - 90)) (translateDec ra dec b (pa - 90)))
    (hs0 : 0 ≤ s)
    (hperp :
      let c := sky2pix W ra dec
      let o1 := sky2pix W (translateRa ra dec a pa) (translateDec ra dec a pa)
      let o2 := sky2pix W (translateRa ra dec b (pa - 90)) (translateDec ra dec b (pa - 90))
      let θ := Complex.arg ⟨o1.1 - c.1, o1.2 - c.2⟩
      o2.1 - c.1 = s * cos (θ - π / 2) ∧ o2.2 - c.2 = s * sin (θ - π / 2)) :
    let e := sky2pixEllipse W ra dec a b pa
    (pix2skyEllipse W e.x e.y e.sx e.sy e.theta).b = b := by
  intro e
  obtain ⟨k, hk⟩ := sky_roundtrip W L ra dec hs
  obtain ⟨k1, hk1⟩ := sky_roundtrip W L _ _ hs1
  obtain ⟨k2, hk2⟩ := sky_roundtrip W L _ _ hs2
  set c := sky2pix W ra dec with hc
  set o1 := sky2pix W (translateRa ra dec a pa) (translateDec ra dec a pa) with ho1
  set o2 := sky2pix W (translateRa ra dec b (pa - 90)) (translateDec ra dec b (pa - 90)) with ho2
  set θ := Complex.arg ⟨o1.1 - c.1, o1.2 - c.2⟩ with hθ
  obtain ⟨hp1, hp2⟩ := hperp
  have h90 : ((R.ofNat 90 : ℝ)) = 90 := by simp
  have hx : e.x = c.1 := by simp [e, sky2pixEllipse, s2pEllX_eq, hc]
  have hy : e.y = c.2 := by simp [e, sky2pixEllipse, s2pEllY_eq, hc]
  have hth : e.theta = R.degrees θ := by
    simp only [e, sky2pixEllipse, s2pEllAng_eq, R.real_degrees, hθ, hc, ho1]
  have hsy : e.sy = s := by
    have := sy_is_perp_component c.1 c.2 o1.1 o1.2 o2.1 o2.2 s (θ - π / 2) hs0 hp1 hp2
    simp only [e, sky2pixEllipse, h90, ← hc, ← ho1, ← ho2]
    rw [this, ← hθ]
    have : θ - π / 2 - θ = -(π / 2) := by ring
    rw [this, abs_sin_neg_half_pi, mul_one]
  have hox := ell_polar_x c.1 c.2 o1.1 o1.2
  have hoy := ell_polar_y c.1 c.2 o1.1 o1.2
  have hsx : e.sx = s2pEllSx c.1 c.2 o1.1 o1.2 := by simp only [e, sky2pixEllipse, hc, ho1]
  have hth' : e.theta = s2pEllAng c.1 c.2 o1.1 o1.2 := by simp only [e, sky2pixEllipse, hc, ho1]
  have hmx : offX e.x e.sy (e.theta - R.ofNat 90) = o2.1 := by
    rw [hth, minor_point_x, hx, hsy, ← hp1]; ring
  have hmy : offY e.y e.sy (e.theta - R.ofNat 90) = o2.2 := by
    rw [hth, minor_point_y, hy, hsy, ← hp2]; ring
  simp only [pix2skyEllipse, p2sEllOff1X_eq, p2sEllOff1Y_eq, p2sEllOff2X_eq, p2sEllOff2Y_eq]
  rw [hmx, hmy, hx, hy, hk2, hk]
  rw [hsx, hth', hox, hoy, hk1]
  simp only []
  have := minor_sky S ra dec a b pa 180 k k1 k2 hd ha0 ha1 hb0 hb1 abs_cos_radians_180
  have e2 : pa + 90 - 180 = pa - 90 := by ring
  rw [e2] at this
  exact this

/-- **ordinary images** (minor pixel offset on the θ + 90° side): exact under perpendicularity AND
    point symmetry of the WCS about the centre for this offset.

    `hsym` says: the pixel point `2c − o2` (the reflection of the minor-axis end through the centre,
    which is where pix2sky_ellipse looks) is the image of the sky point at distance `b` in the opposite
    direction `pa + 90`. -/
theorem ellipse_minor_roundtrip_partial (ra dec a b pa s : ℝ)
    (hd : |dec| < 90) (ha0 : 0 < a) (ha1 : a < 180) (hb0 : 0 < b) (hb1 : b < 180)
    (hs : sdom ra dec) (hs1 : sdom (translateRa ra dec a pa) (translateDec ra dec a pa))
    (hs0 : 0 ≤ s)
    (hperp :
      let c := sky2pix W ra dec
      let o1 := sky2pix W (translateRa ra dec a pa) (translateDec ra dec a pa)
      let o2 := sky2pix W (translateRa ra dec b (pa - 90)) (translateDec ra dec b (pa - 90))
      let θ := Complex.arg ⟨o1.1 - c.1, o1.2 - c.2⟩
      o2.1 - c.1 = s * cos (θ + π / 2) ∧ o2.2 - c.2 = s * sin (θ + π / 2))
    (hsym :
      let c := sky2pix W ra dec
      let o2 := sky2pix W (translateRa ra dec b (pa - 90)) (translateDec ra dec b (pa - 90))
      ∃ k : ℤ, pix2sky W (2 * c.1 - o2.1) (2 * c.2 - o2.2)
        = (translateRa ra dec b (pa + 90) + 360 * k, translateDec ra dec b (pa + 90))) :
    let e := sky2pixEllipse W ra dec a b pa
    (pix2skyEllipse W e.x e.y e.sx e.sy e.theta).b = b := by
  intro e
  obtain ⟨k, hk⟩ := sky_roundtrip W L ra dec hs
  obtain ⟨k1, hk1⟩ := sky_roundtrip W L _ _ hs1
  set c := sky2pix W ra dec with hc
  set o1 := sky2pix W (translateRa ra dec a pa) (translateDec ra dec a pa) with ho1
  set o2 := sky2pix W (translateRa ra dec b (pa - 90)) (translateDec ra dec b (pa - 90)) with ho2
  set θ := Complex.arg ⟨o1.1 - c.1, o1.2 - c.2⟩ with hθ
  obtain ⟨hp1, hp2⟩ := hperp
  obtain ⟨k2, hk2⟩ := hsym
  have h90 : ((R.ofNat 90 : ℝ)) = 90 := by simp
  have hx : e.x = c.1 := by simp [e, sky2pixEllipse, s2pEllX_eq, hc]
  have hy : e.y = c.2 := by simp [e, sky2pixEllipse, s2pEllY_eq, hc]
  have hth : e.theta = R.degrees θ := by
    simp only [e, sky2pixEllipse, s2pEllAng_eq, R.real_degrees, hθ, hc, ho1]
  have hsy : e.sy = s := by
    have := sy_is_perp_component c.1 c.2 o1.1 o1.2 o2.1 o2.2 s (θ + π / 2) hs0 hp1 hp2
    simp only [e, sky2pixEllipse, h90, ← hc, ← ho1, ← ho2]
    rw [this, ← hθ]
    have : θ + π / 2 - θ = π / 2 := by ring
    rw [this, abs_sin_half_pi, mul_one]
  have hox := ell_polar_x c.1 c.2 o1.1 o1.2
  have hoy := ell_polar_y c.1 c.2 o1.1 o1.2
  have hsx : e.sx = s2pEllSx c.1 c.2 o1.1 o1.2 := by simp only [e, sky2pixEllipse, hc, ho1]
  have hth' : e.theta = s2pEllAng c.1 c.2 o1.1 o1.2 := by simp only [e, sky2pixEllipse, hc, ho1]
  have hcos : cos (θ - π / 2) = -cos (θ + π / 2) := by
    rw [Real.cos_sub, Real.cos_add]; simp
  have hsin : sin (θ - π / 2) = -sin (θ + π / 2) := by
    rw [Real.sin_sub, Real.sin_add]; simp
  have hmx : offX e.x e.sy (e.theta - R.ofNat 90) = 2 * c.1 - o2.1 := by
    rw [hth, minor_point_x, hx, hsy, hcos]; linarith
  have hmy : offY e.y e.sy (e.theta - R.ofNat 90) = 2 * c.2 - o2.2 := by
    rw [hth, minor_point_y, hy, hsy, hsin]; linarith
  simp only [pix2skyEllipse, p2sEllOff1X_eq, p2sEllOff1Y_eq, p2sEllOff2X_eq, p2sEllOff2Y_eq]
  rw [hmx, hmy, hx, hy, hk2, hk]
  rw [hsx, hth', hox, hoy, hk1]
  simp only []
  have := minor_sky S ra dec a b pa 0 k k1 k2 hd ha0 ha1 hb0 hb1 abs_cos_radians_0
  have e2 : pa + 90 - 0 = pa + 90 := by ring
  rw [e2] at this
  exact this

end minor

end Aegean.C16
