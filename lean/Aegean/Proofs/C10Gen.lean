/-
  C10 — the glue over regenerated pieces refines the hand model (core Lean only).
  `PiecesOK P` lists what the property needs of the pieces; under it the assembled functions
  `maskFileP P`, `maskTableP P` ARE the hand model's `maskFile`, `maskTable`, so every theorem of
  `Properties/C10.lean` holds of the regenerated model.
-/
import Aegean.Model.C10
import Aegean.Proofs.C10

namespace Aegean.Proofs.C10
open Aegean.Model.C10

/-- what the regenerated pieces have to satisfy -/
structure PiecesOK (P : Pieces) : Prop where
  /-- the row loop leaves `(j, i)` — column first — in row `j` of `idx` -/
  rowElt : ∀ i j : Nat,
    (if P.setCol i = 0 then (((P.setVal i : Nat) : Int), ((P.e1 j : Nat) : Int))
      else (((P.e0 j : Nat) : Int), ((P.setVal i : Nat) : Int))) = (((j : Nat) : Int), ((i : Nat) : Int))
  inner : ∀ H W, P.inner H W = W
  outer : ∀ H W, P.outer H W = H
  total : ∀ H W, P.total H W = H * W
  lo : ∀ i H W, P.lo i H W = i * W
  hi : ∀ i H W, P.hi i H W = (i + 1) * W
  /-- index + shift is handed to the WCS as a coordinate whose first pixel is `origin`: the FITS
      coordinate is index + 1 -/
  wcs : P.shift + (1 - P.origin) = 1
  skyOrder : P.skyOrder = 1
  skyDegin : P.skyDegin = 1
  maskBit : ∀ n b : Bool, (P.maskBit (bit n) (bit b) == 1) = (b == n)
  reshape : P.reshape = 1
  blank : P.blank = 1
  planeCut : P.planeCut = -2
  planeSame : P.planeSame = 1
  rowKeep : ∀ n b : Bool, (P.rowKeep (bit n) (bit b) == 1) = (b == n)
  tableArgs : P.tableArgs = 1
  catalogArgs : P.catalogArgs = 1

theorem idxRowP_eq (P : Pieces) (h : PiecesOK P) (H W i : Nat) : idxRowP P H W i = idxRow W i := by
  unfold idxRowP idxRow
  rw [h.inner, List.map_map, List.map_map]
  apply List.map_congr_left
  intro j _
  simp only [Function.comp]
  exact h.rowElt i j

theorem setSliceP_eq {β : Type} (a : List β) (i W : Nat) (src : List β) (hs : src.length = W) :
    setSliceP a (i * W) ((i + 1) * W) src = setSlice a (i * W) src := by
  unfold setSliceP setSlice
  rw [hs, Nat.succ_mul]

theorem buildIndexesP_eq (P : Pieces) (h : PiecesOK P) (H W : Nat) (junk : List Pix) :
    buildIndexesP P H W junk = buildIndexes H W junk := by
  unfold buildIndexesP buildIndexes
  rw [h.outer]
  congr 1
  funext acc i
  rw [h.lo, h.hi, idxRowP_eq P h, setSliceP_eq _ _ _ _ (length_idxRow W i)]

theorem indexesP_eq (P : Pieces) (h : PiecesOK P) (H W : Nat) : indexesP P H W = indexes H W := by
  unfold indexesP indexes emptyIdx
  rw [buildIndexesP_eq P h, h.total]

theorem bigmaskP_eq {S : Type} (P : Pieces) (h : PiecesOK P) (swap : S → S) (sky : Pix → S)
    (inside : S → Bool) (negate : Bool) (H W : Nat) :
    bigmaskP P swap sky inside negate H W = bigmask sky inside negate H W := by
  unfold bigmaskP bigmask bigmaskO
  simp only [indexesP_eq P h, h.skyOrder, if_true]
  have hw : ∀ p : Pix, pix2world sky P.origin (p.1 + P.shift, p.2 + P.shift) = pix2world sky wcsOrigin p := by
    intro p
    have := h.wcs
    unfold pix2world wcsOrigin
    congr 2 <;> omega
  rw [List.map_congr_left (fun p _ => hw p)]
  cases negate
  · simp only [h.maskBit, List.map_map, Bool.not_false, if_true]
    apply List.map_congr_left
    intro p _
    simp
  · simp only [h.maskBit, List.map_map, Bool.not_true, Bool.false_eq_true, if_false]
    apply List.map_congr_left
    intro p _
    simp

theorem maskPlaneP_eq {α S : Type} (P : Pieces) (h : PiecesOK P) (swap : S → S) (nan other : α)
    (sky : Pix → S) (inside : S → Bool) (negate : Bool) (H W : Nat) (data : List α) :
    maskPlaneP P swap nan other sky inside negate H W data = maskPlane nan sky inside negate H W data := by
  unfold maskPlaneP maskPlane
  rw [bigmaskP_eq P h, h.blank]
  simp

theorem maskFileP_eq {α S : Type} (P : Pieces) (h : PiecesOK P) (swap : S → S) (nan other : α)
    (sky : Pix → S) (inside : S → Bool) (negate : Bool) (planes H W : Nat) (data : List α) :
    maskFileP P swap nan other sky inside negate planes H W data
      = maskFile nan sky inside negate planes H W data := by
  unfold maskFileP maskFile
  have hc : P.planeCut = -2 ∧ P.planeSame = 1 ∧ P.reshape = 1 ∧ P.skyDegin = 1 :=
    ⟨h.planeCut, h.planeSame, h.reshape, h.skyDegin⟩
  rw [if_pos hc]
  congr 2
  funext p
  exact maskPlaneP_eq P h swap nan other sky inside negate H W _

theorem maskTableP_eq {Row C : Type} (P : Pieces) (h : PiecesOK P) (inside : C → Bool) (coord : Row → C)
    (negate : Bool) (rows : List Row) :
    maskTableP P inside coord negate rows = maskTable inside coord negate rows := by
  unfold maskTableP maskTable
  have hc : P.tableArgs = 1 ∧ P.catalogArgs = 1 := ⟨h.tableArgs, h.catalogArgs⟩
  rw [if_pos hc]
  congr 1
  cases negate
  · simp only [h.rowKeep, Bool.not_false, if_true, List.map_map]
    apply List.map_congr_left
    intro r _
    simp
  · simp only [h.rowKeep, Bool.not_true, Bool.false_eq_true, if_false]
    apply List.map_congr_left
    intro r _
    simp

set_option linter.unusedSimpArgs false in
theorem handPieces_ok : PiecesOK handPieces := by
  constructor <;> intros <;>
    first
      | rfl
      | (simp [handPieces, idxE0Hand, idxE1Hand, idxSetColHand, idxSetValHand, idxLoHand, idxHiHand, idxTotalHand,
          idxOuterHand, idxInnerHand, wcsOriginHand, wcsShiftHand, skyOrderHand, skyDeginHand, applyReshapeHand,
          applyBlankHand, planeCutHand, planeSameHand, tableArgsHand, catalogArgsHand]; done)
      | (rename_i n b; cases n <;> cases b <;> decide)

end Aegean.Proofs.C10
