/-
  C04 — bridge between the `R ℝ` interpretation of the regenerated definitions and plain Mathlib
  real arithmetic, plus the list-sum lemmas behind the linearity theorem.

  `Aegean.Proofs.Real` makes `R.toAdd … R.toDiv` instances on ℝ; they are definitionally the
  Mathlib ones but not syntactically, which blinds `field_simp`.  In this file those instance
  projections are switched off locally and `rsimp`-lemmas (all `rfl`) rewrite a regenerated term
  into ordinary Mathlib syntax.
-/
import Aegean.Proofs.Real
import Aegean.Proofs.C04Canon
import Aegean.Spec.C04

set_option linter.unusedVariables false

attribute [-instance] R.toAdd R.toSub R.toMul R.toDiv R.toNeg

namespace Aegean.C04Real
open Aegean.Model.C04 Aegean.Spec.C04 Aegean.C04Canon

theorem r_add (a b : ℝ) : @HAdd.hAdd ℝ ℝ ℝ (@instHAdd ℝ (@R.toAdd ℝ instRReal)) a b = a + b := rfl
theorem r_sub (a b : ℝ) : @HSub.hSub ℝ ℝ ℝ (@instHSub ℝ (@R.toSub ℝ instRReal)) a b = a - b := rfl
theorem r_mul (a b : ℝ) : @HMul.hMul ℝ ℝ ℝ (@instHMul ℝ (@R.toMul ℝ instRReal)) a b = a * b := rfl
theorem r_div (a b : ℝ) : @HDiv.hDiv ℝ ℝ ℝ (@instHDiv ℝ (@R.toDiv ℝ instRReal)) a b = a / b := rfl
theorem r_neg (a : ℝ) : @Neg.neg ℝ (@R.toNeg ℝ instRReal) a = -a := rfl
theorem r_radians (x : ℝ) : R.radians x = x * (Real.pi / 180) := by
  simp only [R.radians, r_mul, r_div, R.real_pi, R.real_ofNat, Nat.cast_ofNat]

/-! ### list sums -/

theorem foldl_add_eq (f : Comp ℝ → ℝ) : ∀ (cs : List (Comp ℝ)) (a : ℝ),
    cs.foldl (fun acc c => acc + f c) a = a + (cs.map f).sum := by
  intro cs
  induction cs with
  | nil => intro a; simp
  | cons c cs ih => intro a; simp only [List.foldl_cons, ih, List.map_cons, List.sum_cons]; ring

theorem modelSum_eq_sum (D : Derivs ℝ) (comps : List (Comp ℝ)) (x y : ℝ) :
    modelSum D comps x y = (comps.map (fun c => D.model c x y)).sum := by
  cases comps with
  | nil => simp [modelSum]
  | cons c cs =>
    simp only [modelSum, r_add]
    rw [foldl_add_eq (fun c => D.model c x y)]
    simp

theorem sum_map_set (f : Comp ℝ → ℝ) : ∀ (l : List (Comp ℝ)) (i : Nat) (h : i < l.length) (a : Comp ℝ),
    ((l.set i a).map f).sum = (l.map f).sum - f l[i] + f a := by
  intro l
  induction l with
  | nil => intro i h; cases h
  | cons c cs ih =>
    intro i h a
    cases i with
    | zero => simp; ring
    | succ i =>
      have h' : i < cs.length := by simpa using h
      simp only [List.set_cons_succ, List.map_cons, List.sum_cons, List.getElem_cons_succ, ih i h' a]
      ring

end Aegean.C04Real
