/-
  General facts about a monotone sequence of cut points `b 0 = 0 ≤ b 1 ≤ … ≤ b n = rows`:
  the half-open ranges `[b i, b (i+1))` tile `[0, rows)`.  Used by C20 (image bands) and
  C07/C06 (BANE stripes).  Core Lean only.
-/

namespace Aegean.Tiling

/-- the cut points are monotone step by step -/
def StepMono (b : Nat → Nat) (n : Nat) : Prop := ∀ i, i < n → b i ≤ b (i + 1)

theorem mono_of_step {b : Nat → Nat} {n : Nat} (h : StepMono b n) :
    ∀ i j, i ≤ j → j ≤ n → b i ≤ b j := by
  intro i j hij hjn
  induction j with
  | zero =>
    have : i = 0 := by omega
    subst this; exact Nat.le_refl _
  | succ k ih =>
    by_cases hk : i = k + 1
    · subst hk; exact Nat.le_refl _
    · have h1 : b i ≤ b k := ih (by omega) (by omega)
      have h2 := h k (by omega)
      omega

/-- existence: every row below `b n` lies in some band -/
theorem exists_band {b : Nat → Nat} {n : Nat} (h0 : b 0 = 0) (r : Nat) (hr : r < b n) :
    ∃ i, i < n ∧ b i ≤ r ∧ r < b (i + 1) := by
  induction n with
  | zero => omega
  | succ k ih =>
    by_cases hk : r < b k
    · obtain ⟨i, hi, h1, h2⟩ := ih hk
      exact ⟨i, by omega, h1, h2⟩
    · exact ⟨k, by omega, by omega, hr⟩

/-- uniqueness: two bands containing the same row are the same band -/
theorem band_unique {b : Nat → Nat} {n : Nat} (h : StepMono b n) (r i j : Nat)
    (hi : i < n) (hj : j < n)
    (hi1 : b i ≤ r) (hi2 : r < b (i + 1)) (hj1 : b j ≤ r) (hj2 : r < b (j + 1)) : i = j := by
  have m := mono_of_step h
  by_cases hlt : i < j
  · have := m (i + 1) j (by omega) (by omega); omega
  · by_cases hgt : j < i
    · have := m (j + 1) i (by omega) (by omega); omega
    · omega

/-- every row of `[0, b n)` lies in exactly one band -/
theorem existsUnique_band {b : Nat → Nat} {n : Nat} (h0 : b 0 = 0) (h : StepMono b n)
    (r : Nat) (hr : r < b n) :
    ∃ i, (i < n ∧ b i ≤ r ∧ r < b (i + 1)) ∧
      ∀ j, (j < n ∧ b j ≤ r ∧ r < b (j + 1)) → j = i := by
  obtain ⟨i, hi, h1, h2⟩ := exists_band h0 r hr
  exact ⟨i, ⟨hi, h1, h2⟩, fun j ⟨hj, g1, g2⟩ => band_unique h r j i hj hi g1 g2 h1 h2⟩

/-- rows `[lo, hi)` of a list -/
def slice {β : Type} (img : List β) (lo hi : Nat) : List β := (img.drop lo).take (hi - lo)

theorem take_append_slice {β : Type} (img : List β) (lo hi : Nat) (h : lo ≤ hi) :
    img.take lo ++ slice img lo hi = img.take hi := by
  unfold slice
  have e : hi = lo + (hi - lo) := by omega
  conv => rhs; rw [e]
  rw [List.take_add]

/-- concatenating the bands `0 … k-1` gives the first `b k` rows -/
theorem flatten_bands {β : Type} (img : List β) {b : Nat → Nat} {n : Nat} (h0 : b 0 = 0)
    (h : StepMono b n) : ∀ k, k ≤ n →
    ((List.range k).map (fun i => slice img (b i) (b (i + 1)))).flatten = img.take (b k) := by
  intro k
  induction k with
  | zero => intro _; simp [h0]
  | succ k ih =>
    intro hk
    rw [List.range_succ, List.map_append, List.flatten_append, ih (by omega)]
    simp only [List.map_cons, List.map_nil, List.flatten_cons, List.flatten_nil, List.append_nil]
    exact take_append_slice img _ _ (h k (by omega))

end Aegean.Tiling
