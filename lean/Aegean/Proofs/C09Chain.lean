/-
  C09 — the containment chain under healpy's contract.

  HEALPix itself (the pixelisation inside healpy: `ang2pix`, `query_disc`, `query_polygon`) is
  third-party geometry.  It enters as a `structure` of ASSUMED laws (sampled by the harness, never
  proved):

    `Grid`       one resolution: `cell p` (the pixel as a set of unit vectors), `centre p`,
                 `ang2pix q`, the maximum pixel radius `ρ`;
                   mem_ang2pix : q ∈ cell (ang2pix q)                 (ang2pix is the pixel containing q)
                   within_ρ    : q ∈ cell p → angle q (centre p) ≤ ρ
    `DiscQuery`  inclusive `query_disc` at that resolution, with a slack `slack` (healpy's inclusive
                 mode works on a grid `fact = 4` times finer and tests sub-pixel centres against
                 r + ρ_fine, so slack = ρ_fine = max pixel radius at fact·nside; `Healpix.disc` is indexed by `fact`):
                   complete : a pixel containing a point within r of v is returned
                   sound    : a returned pixel's centre is within r + ρ + slack of v
    `PolyQuery`  inclusive `query_polygon`:
                   complete : a pixel containing a point of the closed polygon is returned
                   sound    : a returned pixel contains a point within `slack` of the polygon
    `Healpix`    the family over depths with the nested-scheme link
                   nest : ang2pix_m q / 4^(m−d) = ang2pix_d q   (d ≤ m)

  Everything below is proved from these laws with the spherical triangle inequality
  (`InnerProductGeometry.angle_le_angle_add_angle`).
-/
import Aegean.Proofs.C09Sphere
import Mathlib.Geometry.Euclidean.Angle.Unoriented.TriangleInequality
import Mathlib.MeasureTheory.Measure.MeasureSpace

open Aegean.Model.C09 Real InnerProductGeometry

namespace Aegean.C09

/-! ### the assumed contract -/

structure Grid where
  cell : ℕ → Set E3
  centre : ℕ → E3
  ang2pix : E3 → ℕ
  ρ : ℝ
  mem_ang2pix : ∀ q : E3, ‖q‖ = 1 → q ∈ cell (ang2pix q)
  within_ρ : ∀ (p : ℕ) (q : E3), q ∈ cell p → angle q (centre p) ≤ ρ

structure DiscQuery (G : Grid) where
  query : E3 → ℝ → Finset ℕ
  slack : ℝ
  complete : ∀ (v : E3) (r : ℝ) (p : ℕ) (q : E3), ‖v‖ = 1 → 0 < r →
    q ∈ G.cell p → angle q v ≤ r → p ∈ query v r
  sound : ∀ (v : E3) (r : ℝ) (p : ℕ), ‖v‖ = 1 → 0 < r →
    p ∈ query v r → angle (G.centre p) v ≤ r + G.ρ + slack

/-- scalar triple product `a · (b × c)` in coordinates -/
def triple (a b c : E3) : ℝ :=
  a 0 * (b 1 * c 2 - b 2 * c 1) + a 1 * (b 2 * c 0 - b 0 * c 2) + a 2 * (b 0 * c 1 - b 1 * c 0)

/-- consecutive vertex pairs, cyclically -/
def edges (vs : List E3) : List (E3 × E3) := vs.zip (vs.rotate 1)

/-- handedness of the vertex list: the triple product of the first three vertices
    (healpix orients every edge normal by its sign) -/
def orient : List E3 → ℝ
  | a :: b :: c :: _ => triple a b c
  | _ => 0

/-- the closed convex spherical polygon: unit vectors on the inner side of every edge plane -/
def polyClosed (vs : List E3) : Set E3 :=
  {q | ‖q‖ = 1 ∧ ∀ e ∈ edges vs, 0 ≤ orient vs * triple q e.1 e.2}

/-- its interior: strictly inside every edge plane -/
def polyInterior (vs : List E3) : Set E3 :=
  {q | ‖q‖ = 1 ∧ ∀ e ∈ edges vs, 0 < orient vs * triple q e.1 e.2}

theorem polyInterior_subset_closed (vs : List E3) : polyInterior vs ⊆ polyClosed vs :=
  fun _ h => ⟨h.1, fun e he => le_of_lt (h.2 e he)⟩

structure PolyQuery (G : Grid) where
  /-- `none`: healpy raises (non-convex, degenerate) -/
  query : List E3 → Option (Finset ℕ)
  slack : ℝ
  complete : ∀ (vs : List E3) (D : Finset ℕ) (p : ℕ) (q : E3), query vs = some D →
    q ∈ G.cell p → q ∈ polyClosed vs → p ∈ D
  sound : ∀ (vs : List E3) (D : Finset ℕ) (p : ℕ), query vs = some D → p ∈ D →
    ∃ s ∈ G.cell p, ∃ x ∈ polyClosed vs, angle s x ≤ slack

structure Healpix where
  grid : ℕ → Grid
  /-- indexed by healpy's oversampling factor `fact` (each has its own `slack`) and the depth -/
  disc : ∀ (fact d : ℕ), DiscQuery (grid d)
  poly : ∀ (fact d : ℕ), PolyQuery (grid d)
  nest : ∀ (d m : ℕ) (q : E3), d ≤ m → ‖q‖ = 1 →
    (grid m).ang2pix q / 4 ^ (m - d) = (grid d).ang2pix q

/-! ### the chain at one resolution -/

section chain
variable {G : Grid}

/-- every point within `r` of the centre lies in a returned pixel -/
theorem disc_contains (Q : DiscQuery G) {v q : E3} {r : ℝ} (hv : ‖v‖ = 1) (hq : ‖q‖ = 1)
    (hr : 0 < r) (h : angle q v ≤ r) : G.ang2pix q ∈ Q.query v r :=
  Q.complete v r _ q hv hr (G.mem_ang2pix q hq) h

/-- every point of a returned pixel is within `r + 2ρ + slack` of the centre -/
theorem disc_near (Q : DiscQuery G) {v q : E3} {r : ℝ} (hv : ‖v‖ = 1) (hq : ‖q‖ = 1)
    (hr : 0 < r) (h : G.ang2pix q ∈ Q.query v r) : angle q v ≤ r + 2 * G.ρ + Q.slack := by
  have h1 := G.within_ρ _ q (G.mem_ang2pix q hq)
  have h2 := Q.sound v r _ hv hr h
  have h3 := angle_le_angle_add_angle q (G.centre (G.ang2pix q)) v
  linarith

/-- the same for an arbitrary point of a returned pixel -/
theorem disc_cell_near (Q : DiscQuery G) {v q : E3} {r : ℝ} {p : ℕ} (hv : ‖v‖ = 1)
    (hr : 0 < r) (hp : p ∈ Q.query v r) (hq : q ∈ G.cell p) : angle q v ≤ r + 2 * G.ρ + Q.slack := by
  have h1 := G.within_ρ _ q hq
  have h2 := Q.sound v r _ hv hr hp
  have h3 := angle_le_angle_add_angle q (G.centre p) v
  linarith

theorem poly_contains (Q : PolyQuery G) {vs : List E3} {D : Finset ℕ} {q : E3}
    (hD : Q.query vs = some D) (hq : q ∈ polyClosed vs) : G.ang2pix q ∈ D :=
  Q.complete vs D _ q hD (G.mem_ang2pix q hq.1) hq

/-- every point of a returned pixel is within `R + 2ρ + slack` of the centre of any cap of
    radius `R` that contains the polygon (e.g. its circumscribed circle) -/
theorem poly_near (Q : PolyQuery G) {vs : List E3} {D : Finset ℕ} {q c : E3} {Rc : ℝ}
    (hD : Q.query vs = some D) (hcap : ∀ x ∈ polyClosed vs, angle x c ≤ Rc)
    (hq : ‖q‖ = 1) (h : G.ang2pix q ∈ D) : angle q c ≤ Rc + 2 * G.ρ + Q.slack := by
  obtain ⟨s, hs, x, hx, hsx⟩ := Q.sound vs D _ hD h
  have h1 := G.within_ρ _ q (G.mem_ang2pix q hq)
  have h2 := G.within_ρ _ s hs
  rw [angle_comm] at h2
  have h3 := angle_le_angle_add_angle q (G.centre (G.ang2pix q)) s
  have h4 := angle_le_angle_add_angle q s x
  have h5 := angle_le_angle_add_angle q x c
  have h6 := hcap x hx
  linarith

end chain

/-! ### a cap is "convex": positive combinations of points of a cap of radius ≤ π/2 stay in it -/

/-- If unit vectors `a`, `b` are within `R ≤ π/2` of the unit vector `c`, so is (the direction
    of) every combination `s•a + t•b` with `s, t ≥ 0` that is a unit vector: the circumscribed
    circle of the vertices contains the edges, and by iteration the polygon they span. -/
theorem cap_convex {a b c : E3} {R s t : ℝ} (ha : ‖a‖ = 1) (hb : ‖b‖ = 1) (hc : ‖c‖ = 1)
    (hR0 : 0 ≤ R) (hR : R ≤ π / 2) (hs : 0 ≤ s) (ht : 0 ≤ t) (hn : ‖s • a + t • b‖ = 1)
    (h1 : angle a c ≤ R) (h2 : angle b c ≤ R) : angle (s • a + t • b) c ≤ R := by
  have hcosR : 0 ≤ cos R := Real.cos_nonneg_of_neg_pi_div_two_le_of_le (by linarith) hR
  have ia : cos R ≤ inner ℝ a c := by
    have := Real.cos_le_cos_of_nonneg_of_le_pi (angle_nonneg a c) (by linarith [Real.pi_pos]) h1
    rwa [cos_angle, ha, hc, mul_one, div_one] at this
  have ib : cos R ≤ inner ℝ b c := by
    have := Real.cos_le_cos_of_nonneg_of_le_pi (angle_nonneg b c) (by linarith [Real.pi_pos]) h2
    rwa [cos_angle, hb, hc, mul_one, div_one] at this
  have hst : 1 ≤ s + t := by
    have := norm_add_le (s • a) (t • b)
    rw [norm_smul, norm_smul, ha, hb, Real.norm_of_nonneg hs, Real.norm_of_nonneg ht, hn] at this
    linarith
  have hin : cos R ≤ inner ℝ (s • a + t • b) c := by
    rw [inner_add_left, real_inner_smul_left, real_inner_smul_left]
    nlinarith
  unfold angle
  rw [hn, hc, mul_one, div_one]
  have hle : inner ℝ (s • a + t • b) c ≤ 1 := by
    have := real_inner_le_norm (s • a + t • b) c
    rwa [hn, hc, mul_one] at this
  calc arccos (inner ℝ (s • a + t • b) c) ≤ arccos (cos R) :=
        Real.arccos_le_arccos hin
    _ = R := Real.arccos_cos hR0 (by linarith [Real.pi_pos])

/-- the same for any finite non-negative combination: every point of the spherical convex hull of
    vertices lying in a cap of radius ≤ π/2 lies in that cap (so a polygon spanned by vertices on a
    circle of radius ≤ 90° lies inside that circle) -/
theorem cap_convex_sum {ι : Type} (s : Finset ι) (v : ι → E3) (w : ι → ℝ) {c : E3} {R : ℝ}
    (hv : ∀ i ∈ s, ‖v i‖ = 1) (hc : ‖c‖ = 1) (hR0 : 0 ≤ R) (hR : R ≤ π / 2)
    (hw : ∀ i ∈ s, 0 ≤ w i) (hn : ‖∑ i ∈ s, w i • v i‖ = 1) (h : ∀ i ∈ s, angle (v i) c ≤ R) :
    angle (∑ i ∈ s, w i • v i) c ≤ R := by
  have hcosR : 0 ≤ cos R := Real.cos_nonneg_of_neg_pi_div_two_le_of_le (by linarith) hR
  have hcosi : ∀ i ∈ s, cos R ≤ inner ℝ (v i) c := by
    intro i hi
    have := Real.cos_le_cos_of_nonneg_of_le_pi (angle_nonneg (v i) c) (by linarith [Real.pi_pos]) (h i hi)
    rwa [cos_angle, hv i hi, hc, mul_one, div_one] at this
  have hsum : 1 ≤ ∑ i ∈ s, w i := by
    have h1 := norm_sum_le s (fun i => w i • v i)
    have h2 : ∑ i ∈ s, ‖w i • v i‖ = ∑ i ∈ s, w i := by
      apply Finset.sum_congr rfl
      intro i hi
      rw [norm_smul, hv i hi, Real.norm_of_nonneg (hw i hi), mul_one]
    rw [hn, h2] at h1
    exact h1
  have hin : cos R ≤ inner ℝ (∑ i ∈ s, w i • v i) c := by
    rw [sum_inner]
    have h3 : ∑ i ∈ s, w i * cos R ≤ ∑ i ∈ s, inner ℝ (w i • v i) c := by
      apply Finset.sum_le_sum
      intro i hi
      rw [real_inner_smul_left]
      exact mul_le_mul_of_nonneg_left (hcosi i hi) (hw i hi)
    rw [← Finset.sum_mul] at h3
    nlinarith
  unfold angle
  rw [hn, hc, mul_one, div_one]
  calc arccos (inner ℝ (∑ i ∈ s, w i • v i) c) ≤ arccos (cos R) := Real.arccos_le_arccos hin
    _ = R := Real.arccos_cos hR0 (by linarith [Real.pi_pos])

/-! ### area: number of pixels × pixel area between two caps -/

section area
open MeasureTheory

/-- the spherical cap of angular radius `r` about `v` -/
def cap (v : E3) (r : ℝ) : Set E3 := {q | ‖q‖ = 1 ∧ angle q v ≤ r}

theorem cap_mono (v : E3) {r r' : ℝ} (h : r ≤ r') : cap v r ⊆ cap v r' :=
  fun _ hq => ⟨hq.1, le_trans hq.2 h⟩

theorem cap_subset_pixels {G : Grid} (Q : DiscQuery G) {v : E3} {r : ℝ} (hv : ‖v‖ = 1) (hr : 0 < r) :
    cap v r ⊆ ⋃ p ∈ Q.query v r, G.cell p := by
  intro q hq
  simp only [Set.mem_iUnion]
  exact ⟨G.ang2pix q, disc_contains Q hv hq.1 hr hq.2, G.mem_ang2pix q hq.1⟩

variable [MeasurableSpace E3]

/-- what "area" needs to know about the pixels: equal measure, measurable, pairwise disjoint,
    made of unit vectors (ASSUMED: HEALPix is an equal-area partition of the sphere) -/
structure PixMeasure (G : Grid) (μ : Measure E3) where
  A : ENNReal
  area : ∀ p, μ (G.cell p) = A
  meas : ∀ p, MeasurableSet (G.cell p)
  disj : ∀ p p', p ≠ p' → Disjoint (G.cell p) (G.cell p')
  unit : ∀ p q, q ∈ G.cell p → ‖q‖ = 1

theorem pixels_subset_cap {G : Grid} {μ : Measure E3} (M : PixMeasure G μ) (Q : DiscQuery G)
    {v : E3} {r : ℝ} (hv : ‖v‖ = 1) (hr : 0 < r) :
    (⋃ p ∈ Q.query v r, G.cell p) ⊆ cap v (r + 2 * G.ρ + Q.slack) := by
  intro q hq
  simp only [Set.mem_iUnion] at hq
  obtain ⟨p, hp, hqp⟩ := hq
  exact ⟨M.unit p q hqp, disc_cell_near Q hv hr hp hqp⟩

/-- (number of returned pixels) × (pixel area) lies between the measures of the caps of radius
    `r` and `r + 2ρ + slack` -/
theorem disc_area_between {G : Grid} {μ : Measure E3} (M : PixMeasure G μ) (Q : DiscQuery G)
    {v : E3} {r : ℝ} (hv : ‖v‖ = 1) (hr : 0 < r) :
    μ (cap v r) ≤ (Q.query v r).card * M.A ∧
      (Q.query v r).card * M.A ≤ μ (cap v (r + 2 * G.ρ + Q.slack)) := by
  have hsum : ∑ p ∈ Q.query v r, μ (G.cell p) = (Q.query v r).card * M.A := by
    simp [M.area]
  constructor
  · calc μ (cap v r) ≤ μ (⋃ p ∈ Q.query v r, G.cell p) := measure_mono (cap_subset_pixels Q hv hr)
      _ ≤ ∑ p ∈ Q.query v r, μ (G.cell p) := measure_biUnion_finset_le _ _
      _ = _ := hsum
  · have hd : Set.PairwiseDisjoint (↑(Q.query v r)) G.cell := fun p _ p' _ hne => M.disj p p' hne
    calc ((Q.query v r).card : ENNReal) * M.A = ∑ p ∈ Q.query v r, μ (G.cell p) := hsum.symm
      _ = μ (⋃ p ∈ Q.query v r, G.cell p) := (measure_biUnion_finset hd (fun p _ => M.meas p)).symm
      _ ≤ _ := measure_mono (pixels_subset_cap M Q hv hr)

end area

/-! ### the assumed laws are consistent: a (coarse, one-pixel) instance exists -/

noncomputable def trivialGrid : Grid where
  cell p := if p = 0 then {q | ‖q‖ = 1} else ∅
  centre _ := toE3 ⟨1, 0, 0⟩
  ang2pix _ := 0
  ρ := π
  mem_ang2pix q hq := by simp [hq]
  within_ρ _ _ _ := angle_le_pi _ _

noncomputable def trivialHealpix : Healpix where
  grid _ := trivialGrid
  disc _ _ :=
    { query := fun _ _ => {0}
      slack := 0
      complete := by
        intro v r p q _ _ hq _
        by_cases hp : p = 0
        · simp [hp]
        · simp [trivialGrid, hp] at hq
      sound := by
        intro v r p _ hr _
        have := angle_le_pi (trivialGrid.centre p) v
        simp only [trivialGrid] at *
        linarith }
  poly _ _ :=
    { query := fun _ => none
      slack := 0
      complete := by intro vs D p q h; simp at h
      sound := by intro vs D p h; simp at h }
  nest _ _ _ _ _ := by simp [trivialGrid]

end Aegean.C09
