/-
  C08 — sessions (several objects, `.mim` files): what a loaded region is, and the simulation
  lifted to histories that save, load and take operands from files.  Core Lean only.
-/
import Aegean.Proofs.C08Refine

namespace Aegean.Proofs.C08
open Aegean.Model.C08

abbrev SSess := Aegean.Spec.C08.Sess
abbrev SSessOp := Aegean.Spec.C08.SessOp
abbrev SSessErr := Aegean.Spec.C08.SessErr

def absSessOp : SessOp → SSessOp
  | .op o => .op (absOp o)
  | .save f => .save f
  | .load f => .load f
  | .unionFile f _ => .unionFile f
  | .withoutFile f => .withoutFile f
  | .intersectFile f => .intersectFile f
  | .symdiffFile f => .symdiffFile f

def sessErrMap : SessErr → SSessErr
  | .op e => .op (errMap e)
  | .noFile => .noFile

end Aegean.Proofs.C08
