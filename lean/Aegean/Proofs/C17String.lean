/-
  C17 — sexagesimal strings at the character level (core Lean, no Mathlib).

  The formatter's characters (`Model.C17.dmsChars / hmsChars`: sign, two-digit fields, ':' separators,
  `SS.CC`) are taken apart by the parser model (`tokensL`, `parseNumL`, `dec2decL`) into exactly the
  numbers that were printed:

    `dec2decL_dmsChars`, `dec2decL_hmsChars`   for all d, m < 100 and cs < 10000, any `[R α]`.

  White space and sign:
    `tokensL_pad`, `dec2decL_pad`            leading / trailing separators (blanks, tabs) change nothing
    `tokensL_colonToSpace`, `dec2decL_colonToSpace`   ':' may be replaced by ' '
    `dec2decL_minus`                         a first field starting with '-' selects the subtracting branch
                                             whatever its numeric value (`-00`, `-0`)
-/
import Aegean.Model.C17

open Aegean.Model.C17

namespace Aegean.C17

theorem digit_facts : ∀ a, a < 10 →
    isSep (digitChar a) = false ∧ (digitChar a).isDigit = true ∧ digitVal (digitChar a) = a ∧
    digitChar a ≠ '.' ∧ digitChar a ≠ '-' ∧ digitChar a ≠ '+' := by decide

theorem tokAux_nosep (t rest cur : List Char) (h : ∀ c ∈ t, isSep c = false) :
    tokAux (t ++ rest) cur = tokAux rest (t.reverse ++ cur) := by
  induction t generalizing cur with
  | nil => simp
  | cons c t ih =>
    have hc : isSep c = false := h c (by simp)
    have ih' := ih (c :: cur) (fun x hx => h x (by simp [hx]))
    simp [tokAux, hc, ih']

theorem pad2L_nosep (k : Nat) (hk : k < 100) : ∀ c ∈ pad2L k, isSep c = false := by
  intro c hc
  have h1 := (digit_facts (k / 10) (by omega)).1
  have h2 := (digit_facts (k % 10) (by omega)).1
  simp only [pad2L, hk, if_true, List.mem_cons, List.mem_nil_iff, or_false] at hc
  rcases hc with rfl | rfl <;> assumption


theorem tokens_three (a b c : List Char) (ha : ∀ x ∈ a, isSep x = false) (hb : ∀ x ∈ b, isSep x = false)
    (hc : ∀ x ∈ c, isSep x = false) (ha0 : a ≠ []) (hb0 : b ≠ []) (hc0 : c ≠ []) :
    tokensL (a ++ ':' :: (b ++ ':' :: c)) = [a, b, c] := by
  have hs : isSep ':' = true := by decide
  have e : c = c ++ [] := by simp
  unfold tokensL
  rw [tokAux_nosep a _ _ ha]
  simp only [tokAux, hs, if_true, List.append_nil, List.isEmpty_reverse, List.reverse_reverse]
  rw [tokAux_nosep b _ _ hb]
  simp only [tokAux, hs, if_true, List.append_nil, List.isEmpty_reverse, List.reverse_reverse]
  rw [e, tokAux_nosep c _ _ hc]
  simp [tokAux, ha0, hb0, hc0]

theorem signSplit_other (c : Char) (r : List Char) (h1 : c ≠ '-') (h2 : c ≠ '+') :
    signSplit (c :: r) = (false, c :: r) := by
  unfold signSplit; split <;> simp_all

theorem parseBody_two (neg : Bool) (x1 x0 : Nat) (h1 : x1 < 10) (h0 : x0 < 10) :
    parseBody neg [digitChar x1, digitChar x0] = some (neg, x1 * 10 + x0, 0) := by
  obtain ⟨_, d1, v1, _, _, _⟩ := digit_facts x1 h1
  obtain ⟨_, d0, v0, _, _, _⟩ := digit_facts x0 h0
  simp [parseBody, List.takeWhile, List.dropWhile, d1, d0, digitsVal, v1, v0]

theorem parseBody_four (neg : Bool) (x3 x2 x1 x0 : Nat) (h3 : x3 < 10) (h2 : x2 < 10) (h1 : x1 < 10) (h0 : x0 < 10) :
    parseBody neg [digitChar x3, digitChar x2, '.', digitChar x1, digitChar x0]
      = some (neg, ((x3 * 10 + x2) * 10 + x1) * 10 + x0, 2) := by
  obtain ⟨_, d3, v3, _, _, _⟩ := digit_facts x3 h3
  obtain ⟨_, d2, v2, _, _, _⟩ := digit_facts x2 h2
  obtain ⟨_, d1, v1, _, _, _⟩ := digit_facts x1 h1
  obtain ⟨_, d0, v0, _, _, _⟩ := digit_facts x0 h0
  have hd : ('.' : Char).isDigit = false := by decide
  simp [parseBody, List.takeWhile, List.dropWhile, d3, d2, d1, d0, hd, digitsVal, v3, v2, v1, v0]

theorem parseBody_pad2 (neg : Bool) (k : Nat) (hk : k < 100) : parseBody neg (pad2L k) = some (neg, k, 0) := by
  have e : pad2L k = [digitChar (k / 10), digitChar (k % 10)] := by simp [pad2L, hk]
  rw [e, parseBody_two neg _ _ (by omega) (by omega)]
  congr 3; omega

theorem parseNum_pad2 (k : Nat) (hk : k < 100) : parseNumL (pad2L k) = some (false, k, 0) := by
  obtain ⟨_, _, _, _, m1, q1⟩ := digit_facts (k / 10) (by omega)
  have e : pad2L k = digitChar (k / 10) :: [digitChar (k % 10)] := by simp [pad2L, hk]
  unfold parseNumL
  rw [e, signSplit_other _ _ m1 q1, ← e]
  exact parseBody_pad2 false k hk

theorem parseNum_signed (neg : Bool) (k : Nat) (hk : k < 100) :
    parseNumL ((if neg then '-' else '+') :: pad2L k) = some (neg, k, 0) := by
  unfold parseNumL
  cases neg <;> simp [signSplit, parseBody_pad2 _ k hk]

theorem parseNum_sec (cs : Nat) (h : cs < 10000) : parseNumL (fmtSecL cs) = some (false, cs, 2) := by
  have ha : cs / 100 < 100 := by omega
  have hb : cs % 100 < 100 := by omega
  obtain ⟨_, _, _, _, m1, q1⟩ := digit_facts (cs / 100 / 10) (by omega)
  have e : fmtSecL cs = digitChar (cs / 100 / 10) :: [digitChar (cs / 100 % 10), '.',
      digitChar (cs % 100 / 10), digitChar (cs % 100 % 10)] := by simp [fmtSecL, pad2L, ha, hb]
  unfold parseNumL
  rw [e, signSplit_other _ _ m1 q1]
  show parseBody false [_, _, _, _, _] = _
  rw [parseBody_four false _ _ _ _ (by omega) (by omega) (by omega) (by omega)]
  congr 3; omega

theorem fmtSecL_nosep (cs : Nat) (h : cs < 10000) : ∀ c ∈ fmtSecL cs, isSep c = false := by
  intro c hc
  simp only [fmtSecL, List.mem_append, List.mem_cons] at hc
  rcases hc with hc | rfl | hc
  · exact pad2L_nosep _ (by omega) c hc
  · decide
  · exact pad2L_nosep _ (by omega) c hc

theorem pad2L_ne_nil (k : Nat) (hk : k < 100) : pad2L k ≠ [] := by simp [pad2L, hk]

/-- **string level**: `dec2dec` applied to the characters `dec2dms` prints recovers exactly the three
    printed numbers (sign included) and combines them with the branch the sign selects -/
theorem dec2decL_dmsChars {α : Type} [R α] (pos neg : α → α → α → α) (sgn : Bool) (d m cs : Nat)
    (hd : d < 100) (hm : m < 100) (hcs : cs < 10000) :
    dec2decL pos neg (dmsChars sgn d m cs) =
      .ok (if sgn then neg (numVal (true, d, 0)) (numVal (false, m, 0)) (numVal (false, cs, 2))
           else pos (numVal (false, d, 0)) (numVal (false, m, 0)) (numVal (false, cs, 2))) := by
  have hsgn : isSep (if sgn then '-' else '+') = false := by cases sgn <;> decide
  have h3 := tokens_three ((if sgn then '-' else '+') :: pad2L d) (pad2L m) (fmtSecL cs)
    (by intro x hx; rcases List.mem_cons.mp hx with rfl | hx
        · exact hsgn
        · exact pad2L_nosep d hd x hx)
    (pad2L_nosep m hm) (fmtSecL_nosep cs hcs) (by simp) (pad2L_ne_nil m hm)
    (by simp [fmtSecL])
  have e : dmsChars sgn d m cs = ((if sgn then '-' else '+') :: pad2L d) ++ ':' :: (pad2L m ++ ':' :: fmtSecL cs) := by
    simp [dmsChars]
  unfold dec2decL
  rw [e, h3]
  simp only [parseNum_signed sgn d hd, parseNum_pad2 m hm, parseNum_sec cs hcs]
  cases sgn <;> simp

theorem dec2decL_hmsChars {α : Type} [R α] (pos neg : α → α → α → α) (h m cs : Nat)
    (hh : h < 100) (hm : m < 100) (hcs : cs < 10000) :
    dec2decL pos neg (hmsChars h m cs) =
      .ok (pos (numVal (false, h, 0)) (numVal (false, m, 0)) (numVal (false, cs, 2))) := by
  have h3 := tokens_three (pad2L h) (pad2L m) (fmtSecL cs) (pad2L_nosep h hh) (pad2L_nosep m hm)
    (fmtSecL_nosep cs hcs) (pad2L_ne_nil h hh) (pad2L_ne_nil m hm) (by simp [fmtSecL])
  unfold dec2decL hmsChars
  rw [h3]
  simp only [parseNum_pad2 h hh, parseNum_pad2 m hm, parseNum_sec cs hcs]
  simp

/-! ### white space and separators -/

theorem tokAux_allsep (S : List Char) (hS : ∀ c ∈ S, isSep c = true) (cur : List Char) :
    tokAux S cur = if cur.isEmpty then [] else [cur.reverse] := by
  induction S generalizing cur with
  | nil => simp [tokAux]
  | cons c S ih =>
    have hc : isSep c = true := hS c (by simp)
    have ih' := ih (fun x hx => hS x (by simp [hx])) []
    simp [tokAux, hc, ih']

/-- leading separators (blanks, tabs, colons) are skipped -/
theorem tokAux_lead (S rest : List Char) (hS : ∀ c ∈ S, isSep c = true) :
    tokAux (S ++ rest) [] = tokAux rest [] := by
  induction S with
  | nil => simp
  | cons c S ih =>
    have hc : isSep c = true := hS c (by simp)
    simp [tokAux, hc, ih (fun x hx => hS x (by simp [hx]))]

/-- trailing separators change nothing -/
theorem tokAux_trail (l S : List Char) (hS : ∀ c ∈ S, isSep c = true) (cur : List Char) :
    tokAux (l ++ S) cur = tokAux l cur := by
  induction l generalizing cur with
  | nil => simp [tokAux_allsep S hS, tokAux]
  | cons c l ih =>
    cases h : isSep c <;> simp [tokAux, h, ih]

/-- **parsing is invariant under leading and trailing separators** (ASCII white space included) -/
theorem tokensL_pad (pre post l : List Char) (hpre : ∀ c ∈ pre, isSep c = true)
    (hpost : ∀ c ∈ post, isSep c = true) : tokensL (pre ++ (l ++ post)) = tokensL l := by
  unfold tokensL; rw [tokAux_lead pre _ hpre, tokAux_trail l post hpost]

theorem dec2decL_pad {α : Type} [R α] (pos neg : α → α → α → α) (pre post l : List Char)
    (hpre : ∀ c ∈ pre, isSep c = true) (hpost : ∀ c ∈ post, isSep c = true) :
    dec2decL pos neg (pre ++ (l ++ post)) = dec2decL pos neg l := by
  unfold dec2decL; rw [tokensL_pad pre post l hpre hpost]

/-- replacing separators by other separators (':' by ' ' or a tab) changes nothing -/
theorem tokAux_mapSep (f : Char → Char) (hf0 : ∀ c, isSep c = false → f c = c)
    (hf1 : ∀ c, isSep c = true → isSep (f c) = true) (l cur : List Char) :
    tokAux (l.map f) cur = tokAux l cur := by
  induction l generalizing cur with
  | nil => simp [tokAux]
  | cons c l ih =>
    cases h : isSep c
    · simp [tokAux, h, hf0 c h, ih]
    · simp [tokAux, h, hf1 c h, ih]

def colonToSpace (c : Char) : Char := if c = ':' then ' ' else c

theorem tokensL_colonToSpace (l : List Char) : tokensL (l.map colonToSpace) = tokensL l := by
  unfold tokensL
  apply tokAux_mapSep
  · intro c h; unfold colonToSpace; split
    · rename_i hc; subst hc; exact absurd h (by decide)
    · rfl
  · intro c h; unfold colonToSpace; split
    · decide
    · exact h

theorem dec2decL_colonToSpace {α : Type} [R α] (pos neg : α → α → α → α) (l : List Char) :
    dec2decL pos neg (l.map colonToSpace) = dec2decL pos neg l := by
  unfold dec2decL; rw [tokensL_colonToSpace]

/-! ### the sign comes from the first character of the first field -/

theorem parseBody_sign (neg : Bool) (body : List Char) (t : Bool × Nat × Nat)
    (h : parseBody neg body = some t) : t.1 = neg := by
  simp only [parseBody] at h
  split at h
  · split at h
    · simp at h
    · simp at h; rw [← h]
  · split at h
    · simp at h; rw [← h]
    · simp at h
  · simp at h

theorem parseNumL_minus (body : List Char) : parseNumL ('-' :: body) = parseBody true body := rfl

/-- a first field that starts with '-' selects the subtracting branch whatever its value — in
    particular for `-00` and `-0`, whose numeric value is not negative -/
theorem dec2decL_minus {α : Type} [R α] (pos neg : α → α → α → α) (l b t1 : List Char)
    (rest : List (List Char)) (ht : tokensL l = ('-' :: b) :: t1 :: rest) (v : α)
    (hv : dec2decL pos neg l = .ok v) : ∃ x y z, v = neg x y z := by
  unfold dec2decL at hv
  rw [ht] at hv
  simp only [parseNumL_minus] at hv
  split at hv
  · rename_i a _ _ ha _ _
    have hs := parseBody_sign true b a ha
    simp [hs] at hv
    exact ⟨_, _, _, hv.symm⟩
  · simp at hv

example : parseNumL "-00".toList = some (true, 0, 0) ∧ parseNumL "-0".toList = some (true, 0, 0) := by
  decide +kernel

end Aegean.C17
