/-
  C06 — the file plumbing of `filter_image`: returned maps vs written files, BSCALE, cube plane, compressed
  output.  (What seeded change C06-3 broke: the returned maps and the files must describe the same physical maps.)
-/
import Aegean.Proofs.C06Far

namespace Aegean.Proofs.C06
open Aegean.Model.C06

theorem mulImg_eq_scaleImg (b : ℝ) (d : Img ℝ) : mulImg b d = scaleImg b d := by
  funext y x
  simp only [mulImg, scaleImg]
  cases d y x <;> simp [mul_comm]

theorem mul_div_img (b : ℝ) (hb : b ≠ 0) (m : Img ℝ) : mulImg b (divImg b m) = m := by
  funext y x
  simp only [mulImg, divImg]
  cases m y x with
  | none => rfl
  | some v => simp [div_mul_cancel₀ v hb]

theorem div_one_img (m : Img ℝ) : divImg (R.ofNat 1 : ℝ) m = m := by
  funext y x
  simp only [divImg]
  cases m y x <;> simp

theorem mask_map_aux (mask : Bool) (a b c : Option ℝ) (k : ℝ) :
    (if (mask && (Option.map (k * ·) (osub a b)).isNone) = true then none else Option.map (k * ·) c)
      = Option.map (k * ·) (if (mask && (osub a b).isNone) = true then none else c) := by
  cases a <;> cases b <;> cases mask <;> simp [osub]

theorem mask_isNone_aux (mask : Bool) (a b : Option ℝ) (k : ℝ) :
    (mask && (Option.map (k * ·) (osub a b)).isNone) = (mask && (osub a b).isNone) := by
  cases a <;> cases b <;> cases mask <;> simp [osub]

/-- the masked output maps scale with the image (mask decisions are unchanged) -/
theorem bkgOut_scale (mask : Bool) (G : Geom) (stripes : List Stripe) (img : Img ℝ) (k : ℝ) (y x : Nat) :
    bkgOut mask G stripes (scaleImg k img) y x = (bkgOut mask G stripes img y x).map (k * ·) := by
  have hb : bkgFn G stripes (scaleImg k img) y x = (bkgFn G stripes img y x).map (k * ·) := by
    unfold bkgFn
    apply passFn_scale
    intro S _ i j
    exact nodeVal_scale_fst G S (cut G S img) k i j
  simp only [bkgOut, masked, hb, scaleImg, osub_scale]
  exact mask_map_aux mask _ _ _ k

theorem masked_scale (mask : Bool) (G : Geom) (stripes : List Stripe) (img : Img ℝ) (k : ℝ) (y x : Nat) :
    masked mask G stripes (scaleImg k img) y x = masked mask G stripes img y x := by
  have hb : bkgFn G stripes (scaleImg k img) y x = (bkgFn G stripes img y x).map (k * ·) := by
    unfold bkgFn
    apply passFn_scale
    intro S _ i j
    exact nodeVal_scale_fst G S (cut G S img) k i j
  simp only [masked, hb, scaleImg, osub_scale]
  exact mask_isNone_aux mask _ _ k

end Aegean.Proofs.C06
