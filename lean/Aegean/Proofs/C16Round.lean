/-
  C16 — the round-trip theorems over ℝ, for EVERY world coordinate system that satisfies the inverse
  laws `WcsLaws` and for sphere functions that satisfy `SphereLaws`.

  * `WcsLaws W pdom sdom` — the contract assumed of astropy/wcslib (and sampled by the harness):
      `w2p (p2w p) = p` on the pixel domain, `p2w (w2p s) = s` up to whole turns of RA on the sky domain.
  * `SphereLaws` — exactly the facts about `gcd / bear / translate` (the regenerated `Gen.C16.gcdSep`,
      `bear`, `translateRa`, `translateDec`) that the round trips need.  They are hypotheses here and are
      discharged in `Aegean/Proofs/C16FromC17.lean` from C17's lemmas.
-/
import Aegean.Proofs.C16Leaves

set_option linter.unusedSimpArgs false

namespace Aegean.C16
open Gen.C16 Aegean.Model.C16 Real
open Aegean.Model.C16Hand (offX offY)

/-! ### The two contracts -/

structure WcsLaws (W : Wcs ℝ) (pdom sdom : ℝ → ℝ → Prop) : Prop where
  /-- pixel → world → pixel is the identity on the pixel domain (FITS pixel coordinates p1, p2) -/
  inv_pix : ∀ p1 p2, pdom p1 p2 → W.w2p (W.p2w p1 p2).1 (W.p2w p1 p2).2 = (p1, p2)
  /-- world → pixel → world is the identity on the sky domain, up to whole turns of right ascension
      (wcslib returns RA in [0, 360), `translate` may leave that range) -/
  inv_sky : ∀ ra dec, sdom ra dec → ∃ k : ℤ, W.p2w (W.w2p ra dec).1 (W.w2p ra dec).2 = (ra + 360 * k, dec)

structure SphereLaws : Prop where
  /-- the translated point is at great-circle distance `r` -/
  gcd_translate : ∀ ra dec r t : ℝ, -90 ≤ dec → dec ≤ 90 → 0 ≤ r → r ≤ 180 →
    gcdSep ra dec (translateRa ra dec r t) (translateDec ra dec r t) = r
  /-- … in the initial direction `t`, East of North, modulo whole turns -/
  bear_translate : ∀ ra dec r t : ℝ, 0 < r → r < 180 → |dec| < 90 →
    ∃ k : ℤ, bear ra dec (translateRa ra dec r t) (translateDec ra dec r t) = t + 360 * k
  /-- right ascensions that differ by whole turns are the same point -/
  gcd_periodic : ∀ (ra1 dec1 ra2 dec2 : ℝ) (j k : ℤ),
    gcdSep (ra1 + 360 * j) dec1 (ra2 + 360 * k) dec2 = gcdSep ra1 dec1 ra2 dec2
  bear_periodic : ∀ (ra1 dec1 ra2 dec2 : ℝ) (j k : ℤ),
    bear (ra1 + 360 * j) dec1 (ra2 + 360 * k) dec2 = bear ra1 dec1 ra2 dec2
  /-- `bear` returns a position angle in (−180, 180] -/
  bear_range : ∀ ra1 dec1 ra2 dec2 : ℝ, -180 < bear ra1 dec1 ra2 dec2 ∧ bear ra1 dec1 ra2 dec2 ≤ 180

/-! ### Positions: which FITS coordinate is handed to the WCS -/

/-- `WCSHelper.pix2sky((x, y))` is the WCS evaluated at FITS pixel coordinates `(p1, p2) = (y, x)`,
    unshifted: `x` is the 1-based coordinate along FITS axis 2 (the numpy row index + 1) and `y` the
    1-based coordinate along FITS axis 1 (the numpy column index + 1). -/
theorem pix2sky_fits (W : Wcs ℝ) (x y : ℝ) : pix2sky W x y = W.p2w y x := by
  simp [pix2sky, allPix2World, pix2skyP1_eq, pix2skyP2_eq, pix2skyOrigin_eq]

/-- the same point through astropy's 0-based entry: `all_pix2world([[y-1, x-1]], 0)` -/
theorem pix2sky_origin0 (W : Wcs ℝ) (x y : ℝ) : pix2sky W x y = allPix2World W (y - 1) (x - 1) 0 := by
  simp [pix2sky, allPix2World, pix2skyP1_eq, pix2skyP2_eq, pix2skyOrigin_eq]

theorem sky2pix_fits (W : Wcs ℝ) (ra dec : ℝ) : sky2pix W ra dec = ((W.w2p ra dec).2, (W.w2p ra dec).1) := by
  simp [sky2pix, allWorld2Pix, sky2pixX_eq, sky2pixY_eq, sky2pixOrigin_eq]

/-- **pix_roundtrip**: pixel → sky → pixel returns the same pixel, because the swap and the origin
    are applied consistently in both directions -/
theorem pix_roundtrip (W : Wcs ℝ) {pdom sdom} (L : WcsLaws W pdom sdom) (x y : ℝ) (h : pdom y x) :
    sky2pix W (pix2sky W x y).1 (pix2sky W x y).2 = (x, y) := by
  rw [pix2sky_fits, sky2pix_fits, L.inv_pix y x h]

/-- sky → pixel → sky returns the same sky position up to whole turns of RA -/
theorem sky_roundtrip (W : Wcs ℝ) {pdom sdom} (L : WcsLaws W pdom sdom) (ra dec : ℝ) (h : sdom ra dec) :
    ∃ k : ℤ, pix2sky W (sky2pix W ra dec).1 (sky2pix W ra dec).2 = (ra + 360 * k, dec) := by
  obtain ⟨k, hk⟩ := L.inv_sky ra dec h
  exact ⟨k, by rw [pix2sky_fits, sky2pix_fits]; exact hk⟩

/-! ### Polar decomposition: the pixel-side (length, angle) pair reconstructs the offset point -/

theorem radians_degrees (a : ℝ) : (R.radians (R.degrees a) : ℝ) = a := by
  simp only [R.real_radians, R.real_degrees]
  field_simp

theorem sqrt_sq_eq_norm (dx dy : ℝ) : Real.sqrt (dx ^ 2 + dy ^ 2) = ‖(⟨dx, dy⟩ : ℂ)‖ := by
  rw [Complex.norm_eq_sqrt_sq_add_sq]

theorem polar_re (dx dy : ℝ) : Real.sqrt (dx ^ 2 + dy ^ 2) * Real.cos (Complex.arg ⟨dx, dy⟩) = dx := by
  rw [sqrt_sq_eq_norm]; exact Complex.norm_mul_cos_arg ⟨dx, dy⟩

theorem polar_im (dx dy : ℝ) : Real.sqrt (dx ^ 2 + dy ^ 2) * Real.sin (Complex.arg ⟨dx, dy⟩) = dy := by
  rw [sqrt_sq_eq_norm]; exact Complex.norm_mul_sin_arg ⟨dx, dy⟩

/-- `hypot`/`sqrt` of the reversed differences is the same length -/
theorem len_rev (x y xo yo : ℝ) : (x - xo) ^ 2 + (y - yo) ^ 2 = (xo - x) ^ 2 + (yo - y) ^ 2 := by ring

/-- robust forms: `E` is whatever expression the source uses for the squared length (any order of the
    two squares, either sign of the differences), `dx, dy` whatever it hands to `arctan2` -/
theorem polar_x_gen (x xo E dx dy : ℝ) (hE : E = dx ^ 2 + dy ^ 2) (hdx : dx = xo - x) :
    x + Real.sqrt E * Real.cos (Complex.arg ⟨dx, dy⟩) = xo := by
  rw [hE, polar_re, hdx]; ring

theorem polar_y_gen (y yo E dx dy : ℝ) (hE : E = dx ^ 2 + dy ^ 2) (hdy : dy = yo - y) :
    y + Real.sqrt E * Real.sin (Complex.arg ⟨dx, dy⟩) = yo := by
  rw [hE, polar_im, hdy]; ring

theorem deg_rad (a : ℝ) : a * (180 / π) * (π / 180) = a := by field_simp

/-- sky2pix_vec's `(a, theta)` put back through pix2sky_vec's offset point give the pixel `(x_off, y_off)` -/
theorem vec_polar_x (x y xo yo : ℝ) : offX x (s2pVecLen x y xo yo) (s2pVecAng x y xo yo) = xo := by
  rw [s2pVecLen_eq, s2pVecAng_eq]
  simp only [offX, R.real_cos, R.real_radians, deg_rad]
  exact polar_x_gen _ _ _ _ _ rfl rfl

theorem vec_polar_y (x y xo yo : ℝ) : offY y (s2pVecLen x y xo yo) (s2pVecAng x y xo yo) = yo := by
  rw [s2pVecLen_eq, s2pVecAng_eq]
  simp only [offY, R.real_sin, R.real_radians, deg_rad]
  exact polar_y_gen _ _ _ _ _ rfl rfl

/-- the same for the major axis of sky2pix_ellipse: `(sx, degrees theta)` -/
theorem ell_polar_x (x y xo yo : ℝ) : offX x (s2pEllSx x y xo yo) (s2pEllAng x y xo yo) = xo := by
  rw [s2pEllSx_eq, s2pEllAng_eq]
  simp only [offX, R.real_cos, R.real_radians, deg_rad]
  exact polar_x_gen _ _ _ _ _ rfl rfl

theorem ell_polar_y (x y xo yo : ℝ) : offY y (s2pEllSx x y xo yo) (s2pEllAng x y xo yo) = yo := by
  rw [s2pEllSx_eq, s2pEllAng_eq]
  simp only [offY, R.real_sin, R.real_radians, deg_rad]
  exact polar_y_gen _ _ _ _ _ rfl rfl

/-! ### Vectors -/

/-- a position angle in (−180, 180] that is congruent to `pa ∈ (−180, 180]` modulo 360 equals `pa` -/
theorem pa_unique (b pa : ℝ) (k : ℤ) (hb : -180 < b ∧ b ≤ 180) (hp : -180 < pa ∧ pa ≤ 180)
    (h : b = pa + 360 * k) : b = pa := by
  have hk : k = 0 := by
    by_contra hne
    rcases lt_or_gt_of_ne hne with hlt | hgt
    · have : (k : ℝ) ≤ -1 := by exact_mod_cast Int.le_sub_one_of_lt hlt
      linarith [hb.1, hp.2]
    · have : (1 : ℝ) ≤ k := by exact_mod_cast Int.add_one_le_of_lt hgt
      linarith [hb.2, hp.1]
  rw [h, hk]; simp

section roundtrips
variable (W : Wcs ℝ) {pdom sdom : ℝ → ℝ → Prop} (L : WcsLaws W pdom sdom) (S : SphereLaws)
include L S

/-- **vec_roundtrip** (sky → pixel → sky), for every WCS with the inverse laws: the position comes
    back up to whole turns of RA, the length comes back EXACTLY, and so does the position angle
    (modulo 360 in general; exactly when `pa ∈ (−180, 180]`). -/
theorem vec_roundtrip (ra dec r pa : ℝ)
    (hd : |dec| < 90) (hr0 : 0 < r) (hr1 : r < 180)
    (hs : sdom ra dec) (hs' : sdom (translateRa ra dec r pa) (translateDec ra dec r pa)) :
    let v := sky2pixVec W ra dec r pa
    let s := pix2skyVec W v.x v.y v.r v.theta
    (∃ k : ℤ, s.ra = ra + 360 * k) ∧ s.dec = dec ∧ s.r = r ∧
      (∃ k : ℤ, s.pa = pa + 360 * k) ∧ (-180 < pa → pa ≤ 180 → s.pa = pa) := by
  intro v s
  obtain ⟨k, hk⟩ := sky_roundtrip W L ra dec hs
  obtain ⟨k', hk'⟩ := sky_roundtrip W L _ _ hs'
  have hx : v.x = (sky2pix W ra dec).1 := by simp [v, sky2pixVec, s2pVecX_eq]
  have hy : v.y = (sky2pix W ra dec).2 := by simp [v, sky2pixVec, s2pVecY_eq]
  have hox : offX v.x v.r v.theta = (sky2pix W (translateRa ra dec r pa) (translateDec ra dec r pa)).1 := by
    simp only [v, sky2pixVec, s2pVecX_eq, s2pVecY_eq]; exact vec_polar_x _ _ _ _
  have hoy : offY v.y v.r v.theta = (sky2pix W (translateRa ra dec r pa) (translateDec ra dec r pa)).2 := by
    simp only [v, sky2pixVec, s2pVecX_eq, s2pVecY_eq]; exact vec_polar_y _ _ _ _
  have habs := abs_lt.mp hd
  have hlen : s.r = r := by
    simp only [s, pix2skyVec, p2sVecLen_eq, p2sVecOffX_eq, p2sVecOffY_eq]
    rw [hox, hoy, hx, hy, hk, hk']
    simp only []
    rw [S.gcd_periodic]
    exact S.gcd_translate ra dec r pa (by linarith [habs.1]) (by linarith [habs.2]) hr0.le hr1.le
  have hpa : ∃ m : ℤ, s.pa = pa + 360 * m := by
    simp only [s, pix2skyVec, p2sVecPa_eq, p2sVecOffX_eq, p2sVecOffY_eq]
    rw [hox, hoy, hx, hy, hk, hk']
    simp only []
    rw [S.bear_periodic]
    exact S.bear_translate ra dec r pa hr0 hr1 hd
  refine ⟨⟨k, ?_⟩, ?_, hlen, hpa, ?_⟩
  · simp only [s, pix2skyVec, p2sVecRa_eq]; rw [hx, hy, hk]
  · simp only [s, pix2skyVec, p2sVecDec_eq]; rw [hx, hy, hk]
  · intro h1 h2
    obtain ⟨m, hm⟩ := hpa
    have hrange : -180 < s.pa ∧ s.pa ≤ 180 := by
      simp only [s, pix2skyVec, p2sVecPa_eq, p2sVecOffX_eq, p2sVecOffY_eq]; exact S.bear_range _ _ _ _
    exact pa_unique _ _ m hrange ⟨h1, h2⟩ hm

/-- **ellipse_major_pa_roundtrip**: centre (mod 360 in RA), semi-major axis and position angle of an
    ellipse survive sky → pixel → sky exactly, whatever the minor axis does -/
theorem ellipse_major_pa_roundtrip (ra dec a b pa : ℝ)
    (hd : |dec| < 90) (ha0 : 0 < a) (ha1 : a < 180)
    (hs : sdom ra dec) (hs' : sdom (translateRa ra dec a pa) (translateDec ra dec a pa)) :
    let e := sky2pixEllipse W ra dec a b pa
    let s := pix2skyEllipse W e.x e.y e.sx e.sy e.theta
    (∃ k : ℤ, s.ra = ra + 360 * k) ∧ s.dec = dec ∧ s.a = a ∧
      (∃ k : ℤ, s.pa = pa + 360 * k) ∧ (-180 < pa → pa ≤ 180 → s.pa = pa) := by
  intro e s
  obtain ⟨k, hk⟩ := sky_roundtrip W L ra dec hs
  obtain ⟨k', hk'⟩ := sky_roundtrip W L _ _ hs'
  have hx : e.x = (sky2pix W ra dec).1 := by simp [e, sky2pixEllipse, s2pEllX_eq]
  have hy : e.y = (sky2pix W ra dec).2 := by simp [e, sky2pixEllipse, s2pEllY_eq]
  have hox : offX e.x e.sx e.theta = (sky2pix W (translateRa ra dec a pa) (translateDec ra dec a pa)).1 := by
    simp only [e, sky2pixEllipse, s2pEllX_eq, s2pEllY_eq]; exact ell_polar_x _ _ _ _
  have hoy : offY e.y e.sx e.theta = (sky2pix W (translateRa ra dec a pa) (translateDec ra dec a pa)).2 := by
    simp only [e, sky2pixEllipse, s2pEllX_eq, s2pEllY_eq]; exact ell_polar_y _ _ _ _
  have habs := abs_lt.mp hd
  have hlen : s.a = a := by
    simp only [s, pix2skyEllipse, p2sEllMajor_eq, p2sEllOff1X_eq, p2sEllOff1Y_eq]
    rw [hox, hoy, hx, hy, hk, hk']
    simp only []
    rw [S.gcd_periodic]
    exact S.gcd_translate ra dec a pa (by linarith [habs.1]) (by linarith [habs.2]) ha0.le ha1.le
  have hpa : ∃ m : ℤ, s.pa = pa + 360 * m := by
    simp only [s, pix2skyEllipse, p2sEllPa_eq, p2sEllOff1X_eq, p2sEllOff1Y_eq]
    rw [hox, hoy, hx, hy, hk, hk']
    simp only []
    rw [S.bear_periodic]
    exact S.bear_translate ra dec a pa ha0 ha1 hd
  refine ⟨⟨k, ?_⟩, ?_, hlen, hpa, ?_⟩
  · simp only [s, pix2skyEllipse, p2sEllRa_eq]; rw [hx, hy, hk]
  · simp only [s, pix2skyEllipse, p2sEllDec_eq]; rw [hx, hy, hk]
  · intro h1 h2
    obtain ⟨m, hm⟩ := hpa
    have hrange : -180 < s.pa ∧ s.pa ≤ 180 := by
      simp only [s, pix2skyEllipse, p2sEllPa_eq, p2sEllOff1X_eq, p2sEllOff1Y_eq]; exact S.bear_range _ _ _ _
    exact pa_unique _ _ m hrange ⟨h1, h2⟩ hm

end roundtrips

end Aegean.C16
