/-
  C09 — the conversion algebra over ℝ (radians).

    `toE3 v`                a `Vec3 ℝ` as a point of `EuclideanSpace ℝ (Fin 3)`
    `ang2vec_eq_of_theta`   with θ = π/2 − dec:  ang2vec θ ra = (cos dec cos ra, cos dec sin ra, sin dec)
    `dot_ang2vec_self`      |ang2vec θ φ|² = 1                              (any θ, φ)
    `dot_skyvec`            ⟨v(p), v(q)⟩ = sin δ₁ sin δ₂ + cos δ₁ cos δ₂ cos(α₁ − α₂)
    `angle_of_unit`         angle between unit vectors = arccos of their dot product
    `two_arcsin_sqrt_hav`   2·arcsin(min 1 √((1−c)/2)) = arccos c on [−1,1]   (haversine = law of cosines)
    `arg_polar`             arg (r cos a, r sin a) = a            for r > 0, −π < a ≤ π
    `arg_polar_wrap`        arg (r cos a, r sin a) = a − 2π       for r > 0,  π < a < 2π
-/
import Aegean.Proofs.Real
import Aegean.Model.C09
import Mathlib.Geometry.Euclidean.Angle.Unoriented.Basic
import Mathlib.Analysis.InnerProductSpace.PiL2
import Mathlib.Tactic.Linarith
import Mathlib.Tactic.LinearCombination
import Mathlib.Tactic.FieldSimp
import Mathlib.Tactic.NormNum
import Mathlib.Tactic.Positivity

open Aegean.Model.C09 Real

namespace Aegean.C09

abbrev E3 := EuclideanSpace ℝ (Fin 3)

noncomputable def toE3 (v : Vec3 ℝ) : E3 := !₂[v.x, v.y, v.z]

theorem inner_toE3 (a b : Vec3 ℝ) : inner ℝ (toE3 a) (toE3 b) = dot a b := by
  simp [toE3, dot, EuclideanSpace.inner_eq_star_dotProduct, Fin.sum_univ_three, dotProduct]
  ring

theorem norm_toE3_of_dot_self {v : Vec3 ℝ} (h : dot v v = 1) : ‖toE3 v‖ = 1 := by
  have h2 : ‖toE3 v‖ ^ 2 = 1 := by rw [← real_inner_self_eq_norm_sq, inner_toE3, h]
  have h0 : 0 ≤ ‖toE3 v‖ := norm_nonneg _
  nlinarith

/-- the angle between two unit vectors is the arccos of their dot product -/
theorem angle_of_unit {a b : Vec3 ℝ} (ha : dot a a = 1) (hb : dot b b = 1) :
    InnerProductGeometry.angle (toE3 a) (toE3 b) = arccos (dot a b) := by
  unfold InnerProductGeometry.angle
  rw [norm_toE3_of_dot_self ha, norm_toE3_of_dot_self hb, inner_toE3]; simp

/-! ### ang2vec -/

theorem dot_ang2vec_self (theta phi : ℝ) : dot (ang2vec theta phi) (ang2vec theta phi) = 1 := by
  simp only [dot, ang2vec, R.real_sin, R.real_cos]
  have h1 := Real.sin_sq_add_cos_sq phi
  have h2 := Real.sin_sq_add_cos_sq theta
  linear_combination (sin theta) ^ 2 * h1 + h2

/-- with `θ = π/2 − dec` the healpy vector is the usual (cos δ cos α, cos δ sin α, sin δ) -/
theorem ang2vec_colat (ra dec : ℝ) :
    ang2vec (π / 2 - dec) ra = ⟨cos dec * cos ra, cos dec * sin ra, sin dec⟩ := by
  simp only [ang2vec, R.real_sin, R.real_cos, Real.sin_pi_div_two_sub, Real.cos_pi_div_two_sub]

/-- the usual unit vector of (ra, dec), radians -/
noncomputable def skyvec (ra dec : ℝ) : Vec3 ℝ := ⟨cos dec * cos ra, cos dec * sin ra, sin dec⟩

theorem dot_skyvec_self (ra dec : ℝ) : dot (skyvec ra dec) (skyvec ra dec) = 1 := by
  rw [skyvec, ← ang2vec_colat]; exact dot_ang2vec_self _ _

theorem dot_skyvec (ra1 dec1 ra2 dec2 : ℝ) :
    dot (skyvec ra1 dec1) (skyvec ra2 dec2)
      = sin dec1 * sin dec2 + cos dec1 * cos dec2 * cos (ra1 - ra2) := by
  simp only [dot, skyvec, Real.cos_sub]
  ring

theorem dot_skyvec_le (ra1 dec1 ra2 dec2 : ℝ) : dot (skyvec ra1 dec1) (skyvec ra2 dec2) ≤ 1 := by
  rw [← inner_toE3]
  have := real_inner_le_norm (toE3 (skyvec ra1 dec1)) (toE3 (skyvec ra2 dec2))
  rwa [norm_toE3_of_dot_self (dot_skyvec_self _ _), norm_toE3_of_dot_self (dot_skyvec_self _ _),
    one_mul] at this

theorem neg_one_le_dot_skyvec (ra1 dec1 ra2 dec2 : ℝ) : -1 ≤ dot (skyvec ra1 dec1) (skyvec ra2 dec2) := by
  rw [← inner_toE3]
  have := neg_le_of_abs_le
    (abs_real_inner_le_norm (toE3 (skyvec ra1 dec1)) (toE3 (skyvec ra2 dec2)))
  rwa [norm_toE3_of_dot_self (dot_skyvec_self _ _), norm_toE3_of_dot_self (dot_skyvec_self _ _),
    one_mul] at this

/-! ### haversine = law of cosines -/

theorem sin_sq_half (x : ℝ) : sin (x / 2) ^ 2 = (1 - cos x) / 2 := by
  have h := Real.cos_sq (x / 2)
  have e : 2 * (x / 2) = x := by ring
  rw [e] at h
  have := Real.sin_sq_add_cos_sq (x / 2)
  linarith

theorem hav_identity (p1 p2 l : ℝ) :
    sin ((p2 - p1) / 2) ^ 2 + cos p1 * cos p2 * sin (l / 2) ^ 2
      = (1 - (sin p1 * sin p2 + cos p1 * cos p2 * cos l)) / 2 := by
  rw [sin_sq_half, sin_sq_half, Real.cos_sub]
  ring

theorem two_arcsin_sqrt_hav (d : ℝ) (h1 : -1 ≤ d) (h2 : d ≤ 1) :
    2 * arcsin (min 1 (√((1 - d) / 2))) = arccos d := by
  have ha1 : (1 - d) / 2 ≤ 1 := by linarith
  have hs : √((1 - d) / 2) ≤ 1 := Real.sqrt_le_one.mpr ha1
  rw [min_eq_right hs]
  have ht0 := Real.arccos_nonneg d
  have ht1 := Real.arccos_le_pi d
  have hc := Real.cos_arccos h1 h2
  have hh := Real.sin_half_eq_sqrt ht0 (by linarith [Real.pi_pos])
  rw [hc] at hh
  rw [← hh, Real.arcsin_sin (by linarith [Real.pi_pos]) (by linarith [Real.pi_pos])]
  ring

/-! ### arctan2 of a polar pair -/

theorem arg_polar {r a : ℝ} (hr : 0 < r) (h1 : -π < a) (h2 : a ≤ π) :
    Complex.arg ⟨r * cos a, r * sin a⟩ = a := by
  have e : (⟨r * cos a, r * sin a⟩ : ℂ) = (r : ℂ) * (Complex.cos a + Complex.sin a * Complex.I) := by
    apply Complex.ext
    · simp [← Complex.ofReal_cos, ← Complex.ofReal_sin]
    · simp [← Complex.ofReal_cos, ← Complex.ofReal_sin]
  rw [e]
  exact Complex.arg_mul_cos_add_sin_mul_I hr ⟨h1, h2⟩

theorem arg_polar_wrap {r a : ℝ} (hr : 0 < r) (h1 : π < a) (h2 : a < 2 * π) :
    Complex.arg ⟨r * cos a, r * sin a⟩ = a - 2 * π := by
  have hc : cos a = cos (a - 2 * π) := (Real.cos_sub_two_pi a).symm
  have hs : sin a = sin (a - 2 * π) := (Real.sin_sub_two_pi a).symm
  rw [hc, hs]
  exact arg_polar hr (by linarith) (by linarith [Real.pi_pos])

theorem arg_origin : Complex.arg ⟨0, 0⟩ = 0 := by
  have : (⟨0, 0⟩ : ℂ) = 0 := rfl
  rw [this, Complex.arg_zero]

end Aegean.C09
