/-
  C02 / C11 — helper lemmas (core Lean only, no Mathlib):
  * membership in `allPx` / `boxPx`; `boxOf` returns the tight box, tight boxes are unique;
  * `Conn` is an equivalence on the flood mask; functions agreeing across mask edges are constant
    along mask paths;
  * soundness of the labelling checker (`checkLabelling_sound`);
  * what one pass of the `find_islands` loop returns (`islandOf_some`, `islandOf_isSome`).
-/
import Aegean.Spec.C02

namespace Aegean.Proofs.C02
open Aegean.Model.C02 Aegean.Spec.C02

/-! ### pixels, boxes -/

theorem mem_allPx {H W : Nat} {p : Px} : p ∈ allPx H W ↔ p.1 < H ∧ p.2 < W := by
  obtain ⟨r, c⟩ := p
  simp [allPx]

theorem mem_boxPx {b : Box} {p : Px} :
    p ∈ boxPx b ↔ b.rlo ≤ p.1 ∧ p.1 < b.rhi ∧ b.clo ≤ p.2 ∧ p.2 < b.chi := by
  obtain ⟨r, c⟩ := p
  simp only [boxPx, List.mem_flatMap, List.mem_map, List.mem_range, Prod.mk.injEq]
  constructor
  · rintro ⟨dr, hdr, dc, hdc, rfl, rfl⟩
    omega
  · rintro ⟨h1, h2, h3, h4⟩
    exact ⟨r - b.rlo, by omega, c - b.clo, by omega, by omega, by omega⟩

/-- tightness with respect to a membership predicate -/
def TightP (b : Box) (M : Px → Prop) : Prop :=
  (∀ p, M p → b.rlo ≤ p.1 ∧ p.1 < b.rhi ∧ b.clo ≤ p.2 ∧ p.2 < b.chi) ∧
  (∃ p, M p ∧ p.1 = b.rlo) ∧ (∃ p, M p ∧ p.1 + 1 = b.rhi) ∧
  (∃ p, M p ∧ p.2 = b.clo) ∧ (∃ p, M p ∧ p.2 + 1 = b.chi)

theorem tightP_single (p : Px) : TightP (Box.single p) (fun q => q = p) := by
  refine ⟨?_, ⟨p, rfl, rfl⟩, ⟨p, rfl, rfl⟩, ⟨p, rfl, rfl⟩, ⟨p, rfl, rfl⟩⟩
  intro q hq; subst hq; simp [Box.single]

theorem tightP_grow {b : Box} {M : Px → Prop} (h : TightP b M) (q : Px) :
    TightP (b.grow q) (fun p => M p ∨ p = q) := by
  obtain ⟨hall, ⟨p1, m1, e1⟩, ⟨p2, m2, e2⟩, ⟨p3, m3, e3⟩, ⟨p4, m4, e4⟩⟩ := h
  refine ⟨?_, ?_, ?_, ?_, ?_⟩
  · intro p hp
    simp only [Box.grow]
    rcases hp with hp | rfl
    · have := hall p hp; omega
    · omega
  · by_cases c : b.rlo ≤ q.1
    · exact ⟨p1, Or.inl m1, by simp only [Box.grow]; omega⟩
    · exact ⟨q, Or.inr rfl, by simp only [Box.grow]; omega⟩
  · by_cases c : q.1 + 1 ≤ b.rhi
    · exact ⟨p2, Or.inl m2, by simp only [Box.grow]; omega⟩
    · exact ⟨q, Or.inr rfl, by simp only [Box.grow]; omega⟩
  · by_cases c : b.clo ≤ q.2
    · exact ⟨p3, Or.inl m3, by simp only [Box.grow]; omega⟩
    · exact ⟨q, Or.inr rfl, by simp only [Box.grow]; omega⟩
  · by_cases c : q.2 + 1 ≤ b.chi
    · exact ⟨p4, Or.inl m4, by simp only [Box.grow]; omega⟩
    · exact ⟨q, Or.inr rfl, by simp only [Box.grow]; omega⟩

theorem tightP_congr {b : Box} {M N : Px → Prop} (h : ∀ p, M p ↔ N p) (t : TightP b M) : TightP b N := by
  have : M = N := funext fun p => propext (h p)
  subst this; exact t

theorem tightP_foldl (ps : List Px) : ∀ (b : Box) (M : Px → Prop), TightP b M →
    TightP (ps.foldl Box.grow b) (fun p => M p ∨ p ∈ ps) := by
  induction ps with
  | nil => intro b M h; exact tightP_congr (by simp) h
  | cons q qs ih =>
    intro b M h
    have := ih (b.grow q) _ (tightP_grow h q)
    refine tightP_congr ?_ this
    intro p; simp [or_assoc]

theorem tight_iff_tightP {b : Box} {l : List Px} : Tight b l ↔ TightP b (· ∈ l) := by
  simp only [Tight, TightP]

theorem boxOf_tight {l : List Px} {b : Box} (h : boxOf l = some b) : Tight b l := by
  cases l with
  | nil => simp [boxOf] at h
  | cons p ps =>
    simp only [boxOf, Option.some.injEq] at h
    subst h
    rw [tight_iff_tightP]
    refine tightP_congr ?_ (tightP_foldl ps _ _ (tightP_single p))
    intro q; simp

theorem boxOf_eq_none {l : List Px} : boxOf l = none ↔ l = [] := by
  cases l <;> simp [boxOf]

theorem boxOf_isSome_of_mem {l : List Px} {p : Px} (h : p ∈ l) : ∃ b, boxOf l = some b := by
  cases l with
  | nil => simp at h
  | cons q qs => exact ⟨_, rfl⟩

theorem tight_unique {b b' : Box} {l l' : List Px} (t : Tight b l) (t' : Tight b' l')
    (h : ∀ p, p ∈ l ↔ p ∈ l') : b = b' := by
  obtain ⟨a, ⟨p1, m1, e1⟩, ⟨p2, m2, e2⟩, ⟨p3, m3, e3⟩, ⟨p4, m4, e4⟩⟩ := t
  obtain ⟨a', ⟨q1, n1, f1⟩, ⟨q2, n2, f2⟩, ⟨q3, n3, f3⟩, ⟨q4, n4, f4⟩⟩ := t'
  have A1 := a' p1 ((h _).1 m1); have A2 := a' p2 ((h _).1 m2)
  have A3 := a' p3 ((h _).1 m3); have A4 := a' p4 ((h _).1 m4)
  have B1 := a q1 ((h _).2 n1); have B2 := a q2 ((h _).2 n2)
  have B3 := a q3 ((h _).2 n3); have B4 := a q4 ((h _).2 n4)
  cases b; cases b'
  simp only [Box.mk.injEq] at *
  omega

/-! ### connectivity -/

theorem adj8_symm {p q : Px} (h : adj8 p q) : adj8 q p := by
  unfold adj8 at *; omega

theorem adj8_refl (p : Px) : adj8 p p := by unfold adj8; omega

theorem adj8b_iff {p q : Px} : adj8b p q = true ↔ adj8 p q := by
  simp [adj8b, adj8, and_assoc]

theorem conn_left {g : Grid} {p q : Px} (h : Conn g p q) : g.inA p = true := by
  induction h with
  | refl hp => exact hp
  | step _ _ _ ih => exact ih

theorem conn_right {g : Grid} {p q : Px} (h : Conn g p q) : g.inA q = true := by
  cases h with
  | refl hp => exact hp
  | step _ _ hr => exact hr

theorem conn_trans {g : Grid} {p q r : Px} (h1 : Conn g p q) (h2 : Conn g q r) : Conn g p r := by
  induction h2 with
  | refl _ => exact h1
  | step _ hadj hr ih => exact Conn.step ih hadj hr

theorem conn_symm {g : Grid} {p q : Px} (h : Conn g p q) : Conn g q p := by
  induction h with
  | refl hp => exact Conn.refl _ hp
  | step hpq hadj hr ih =>
    exact conn_trans (Conn.step (Conn.refl _ hr) (adj8_symm hadj) (conn_right hpq)) ih

theorem conn_single {g : Grid} {p q : Px} (hp : g.inA p = true) (hq : g.inA q = true) (h : adj8 p q) :
    Conn g p q := Conn.step (Conn.refl p hp) h hq

/-- a function that agrees across every mask edge is constant along mask paths -/
theorem conn_const {g : Grid} {β : Type} (f : Px → β)
    (hf : ∀ p q, g.inA p = true → g.inA q = true → adj8 p q → f p = f q)
    {p q : Px} (h : Conn g p q) : f p = f q := by
  induction h with
  | refl _ => rfl
  | step hpq hadj hr ih => exact ih.trans (hf _ _ (conn_right hpq) hr hadj)

theorem mem_nbrs9_of_adj8 {p q : Px} (h : adj8 p q) : q ∈ nbrs9 p := by
  obtain ⟨pr, pc⟩ := p
  obtain ⟨qr, qc⟩ := q
  simp only [adj8] at h
  simp only [nbrs9, List.mem_cons, Prod.mk.injEq, List.not_mem_nil, or_false]
  omega

/-! ### the labelling checker -/

theorem inA_iff {g : Grid} {p : Px} : g.inA p = true ↔ (p.1 < g.H ∧ p.2 < g.W) ∧ g.A p = true := by
  simp [Grid.inA, Grid.inGrid]

theorem inGrid_iff {g : Grid} {p : Px} : g.inGrid p = true ↔ p.1 < g.H ∧ p.2 < g.W := by
  simp [Grid.inGrid]

/-- what `checkPx` says for a flood pixel -/
theorem checkPx_on {g : Grid} {lab : Px → Nat} {n : Nat} {cert : Cert} {p : Px}
    (h : checkPx g lab n cert p = true) (hA : g.A p = true) :
    lab p ≠ 0 ∧ lab p ≤ n ∧ (∀ q ∈ nbrs9 p, g.inA q = true → lab q = lab p) ∧
    (p = cert.root (lab p) ∨
      (g.inA (cert.parent p) = true ∧ adj8 (cert.parent p) p ∧ lab (cert.parent p) = lab p ∧
        cert.depth (cert.parent p) < cert.depth p)) := by
  simp only [checkPx, hA, if_true, Bool.and_eq_true, Bool.or_eq_true, bne_iff_ne, ne_eq,
    decide_eq_true_eq, List.all_eq_true, Bool.not_eq_true', beq_iff_eq, adj8b_iff] at h
  obtain ⟨⟨⟨h1, h2⟩, h3⟩, h4⟩ := h
  refine ⟨h1, h2, ?_, ?_⟩
  · intro q hq hqa
    rcases h3 q hq with h | h
    · rw [hqa] at h; cases h
    · exact h
  · rcases h4 with h | ⟨⟨⟨a, b⟩, c⟩, d⟩
    · exact Or.inl h
    · exact Or.inr ⟨a, b, c, d⟩

theorem checkPx_off {g : Grid} {lab : Px → Nat} {n : Nat} {cert : Cert} {p : Px}
    (h : checkPx g lab n cert p = true) (hA : g.A p = false) : lab p = 0 := by
  simpa [checkPx, hA] using h

theorem checkLabelling_sound {g : Grid} {lab : Px → Nat} {n : Nat} {cert : Cert}
    (h : checkLabelling g lab n cert = true) : IsLabelling g lab n := by
  have hpx : ∀ p, g.inGrid p = true → checkPx g lab n cert p = true := by
    intro p hp
    simp only [checkLabelling, List.all_eq_true] at h
    exact h p (mem_allPx.2 (inGrid_iff.1 hp))
  have hon : ∀ p, g.inA p = true → _ := fun p hp =>
    checkPx_on (hpx p (by simp [Grid.inA] at hp; exact hp.1)) (by simp [Grid.inA] at hp; exact hp.2)
  have edge : ∀ p q, g.inA p = true → g.inA q = true → adj8 p q → lab p = lab q := by
    intro p q hp hq hadj
    exact ((hon p hp).2.2.1 q (mem_nbrs9_of_adj8 hadj) hq).symm
  have toRoot : ∀ d p, cert.depth p = d → g.inA p = true → Conn g (cert.root (lab p)) p := by
    intro d
    induction d using Nat.strongRecOn with
    | _ d ih =>
      intro p hd hp
      rcases (hon p hp).2.2.2 with h | ⟨hq, hadj, hl, hlt⟩
      · rw [← h]; exact Conn.refl p hp
      · have := ih (cert.depth (cert.parent p)) (by omega) (cert.parent p) rfl hq
        rw [hl] at this
        exact Conn.step this hadj hp
  refine ⟨?_, ?_, ?_⟩
  · intro p hp
    cases hA : g.A p with
    | true =>
      have := (checkPx_on (hpx p hp) hA).1
      simp [this]
    | false => simp [checkPx_off (hpx p hp) hA]
  · intro p hp; exact (hon p hp).2.1
  · intro p q hp hq
    constructor
    · intro e
      have h1 := toRoot _ p rfl hp
      have h2 := toRoot _ q rfl hq
      rw [e] at h1
      exact conn_trans (conn_symm h1) h2
    · intro c; exact conn_const lab edge c

/-! islandOf -/

section island
variable {g : Grid} {lab : Px → Nat} {n : Nat}

theorem mem_labelled {i : Nat} {p : Px} : p ∈ labelled g lab i ↔ g.inGrid p = true ∧ lab p = i := by
  simp [labelled, mem_allPx, inGrid_iff]

/-- inside the `find_objects` box, "labelled i" and "on the mask and labelled i" select the same
    pixels, and they are all the pixels labelled `i` -/
theorem own_eq_lbl (hl : IsLabelling g lab n) {i : Nat} (hi : i ≠ 0) {fb : Box}
    (hfb : boxOf (labelled g lab i) = some fb) :
    (boxPx fb).filter (fun p => g.A p && lab p == i) = (boxPx fb).filter (fun p => lab p == i) := by
  apply List.filter_congr
  intro p hp
  have t := boxOf_tight hfb
  by_cases e : lab p = i
  · -- p is in the box, hence in the grid?  not necessarily: use zero_iff only when in grid
    by_cases hg : g.inGrid p = true
    · have : g.A p = true := by
        cases hA : g.A p with
        | true => rfl
        | false => exact absurd ((hl.zero_iff p hg).2 hA) (by omega)
      simp [this, e]
    · exfalso
      -- the box is spanned by grid pixels, so its pixels are in the grid
      obtain ⟨_, _, ⟨p2, m2, e2⟩, _, ⟨p4, m4, e4⟩⟩ := t
      have := mem_boxPx.1 hp
      have g2 := (mem_labelled.1 m2).1
      have g4 := (mem_labelled.1 m4).1
      rw [inGrid_iff] at g2 g4 hg
      omega
  · simp [e]

theorem mem_lbl {i : Nat} {fb : Box}
    (hfb : boxOf (labelled g lab i) = some fb) {p : Px} :
    p ∈ (boxPx fb).filter (fun p => lab p == i) ↔ g.inGrid p = true ∧ lab p = i := by
  have t := boxOf_tight hfb
  simp only [List.mem_filter, beq_iff_eq]
  constructor
  · rintro ⟨hp, e⟩
    refine ⟨?_, e⟩
    obtain ⟨_, _, ⟨p2, m2, e2⟩, _, ⟨p4, m4, e4⟩⟩ := t
    have := mem_boxPx.1 hp
    have g2 := (mem_labelled.1 m2).1
    have g4 := (mem_labelled.1 m4).1
    rw [inGrid_iff] at g2 g4 ⊢
    omega
  · rintro ⟨hg, e⟩
    exact ⟨mem_boxPx.2 (t.1 p (mem_labelled.2 ⟨hg, e⟩)), e⟩

/-- what one pass of the loop returns, when it returns something -/
theorem islandOf_some (hl : IsLabelling g lab n) {inside : Option (Px → Bool)} {i : Nat} (hi : i ≠ 0)
    {I : Island} (h : islandOf g lab inside i = some I) :
    (∀ p, p ∈ I.pixels ↔ g.inGrid p = true ∧ lab p = i) ∧ Tight I.box I.pixels ∧
    (∃ p ∈ I.pixels, g.Sd p = true) ∧ regionOK inside I.pixels = true ∧ I.frame = I.box := by
  simp only [islandOf, Option.bind_eq_some_iff] at h
  obtain ⟨fb, hfb, h⟩ := h
  simp only [islandIn, own_eq_lbl hl hi hfb] at h
  split at h
  · rename_i hc
    simp only [Bool.and_eq_true] at hc
    simp only [Option.map_eq_some_iff] at h
    obtain ⟨b, hb, rfl⟩ := h
    refine ⟨fun p => mem_lbl hfb, boxOf_tight hb, ?_, hc.2, ?_⟩
    · obtain ⟨p, hp, hs⟩ := List.any_eq_true.1 hc.1
      exact ⟨p, hp, hs⟩
    · exact tight_unique (boxOf_tight hfb) (boxOf_tight hb)
        (fun p => by rw [mem_labelled, mem_lbl hfb])
  · cases h

/-- when one pass of the loop returns something -/
theorem islandOf_isSome (hl : IsLabelling g lab n) {inside : Option (Px → Bool)} {i : Nat} (hi : i ≠ 0)
    {q : Px} (hq : g.inGrid q = true) (hqi : lab q = i) (hs : g.Sd q = true)
    (hin : ∀ f, inside = some f → ∃ p, g.inGrid p = true ∧ lab p = i ∧ f p = true) :
    ∃ I, islandOf g lab inside i = some I := by
  obtain ⟨fb, hfb⟩ := boxOf_isSome_of_mem (mem_labelled.2 ⟨hq, hqi⟩)
  have hq' := (mem_lbl hfb).2 ⟨hq, hqi⟩
  obtain ⟨b, hb⟩ := boxOf_isSome_of_mem hq'
  have s : ((boxPx fb).filter (fun p => lab p == i)).any g.Sd = true :=
    List.any_eq_true.2 ⟨q, hq', hs⟩
  have r : regionOK inside ((boxPx fb).filter (fun p => lab p == i)) = true := by
    cases inside with
    | none => rfl
    | some f =>
      obtain ⟨p, hp1, hp2, hp3⟩ := hin f rfl
      exact List.any_eq_true.2 ⟨p, (mem_lbl hfb).2 ⟨hp1, hp2⟩, hp3⟩
  refine ⟨{ box := b, pixels := (boxPx fb).filter (fun p => lab p == i), frame := fb }, ?_⟩
  simp only [islandOf, hfb, Option.bind_some, islandIn, own_eq_lbl hl hi hfb, s, r, Bool.and_self,
    if_true, hb, Option.map_some]

end island

/-! ### small facts used by the property theorems -/

section helpers
variable {g : Grid} {lab : Px → Nat} {n : Nat}

theorem mem_findIslands {inside : Option (Px → Bool)} {I : Island} :
    I ∈ findIslands g lab n inside ↔ ∃ k, k < n ∧ islandOf g lab inside (k + 1) = some I := by
  simp [findIslands, List.mem_filterMap]

theorem inA_of_label (hl : IsLabelling g lab n) {p : Px} (hp : g.inGrid p = true) (h : lab p ≠ 0) :
    g.inA p = true := by
  cases hA : g.A p with
  | true => simp [Grid.inA, hp, hA]
  | false => exact absurd ((hl.zero_iff p hp).2 hA) h

theorem label_ne_zero (hl : IsLabelling g lab n) {p : Px} (hp : g.inA p = true) : lab p ≠ 0 := by
  have h := inA_iff.1 hp
  intro e
  have := (hl.zero_iff p (inGrid_iff.2 h.1)).1 e
  rw [h.2] at this; cases this

theorem inGrid_of_inA {p : Px} (hp : g.inA p = true) : g.inGrid p = true :=
  inGrid_iff.2 (inA_iff.1 hp).1

/-- hl-free: the reported box is computed from the reported pixels -/
theorem islandOf_box {inside : Option (Px → Bool)} {i : Nat} {I : Island}
    (h : islandOf g lab inside i = some I) :
    boxOf I.pixels = some I.box ∧ ∀ p ∈ I.pixels, g.A p = true ∧ lab p = i := by
  simp only [islandOf, Option.bind_eq_some_iff] at h
  obtain ⟨fb, _, h⟩ := h
  simp only [islandIn] at h
  split at h
  · simp only [Option.map_eq_some_iff] at h
    obtain ⟨b, hb, rfl⟩ := h
    refine ⟨hb, ?_⟩
    intro p hp
    simpa using (List.mem_filter.1 hp).2
  · cases h

theorem sublist_filterMap_of_imp {β γ : Type} (f f' : β → Option γ)
    (h : ∀ a b, f' a = some b → f a = some b) (l : List β) :
    (l.filterMap f').Sublist (l.filterMap f) := by
  induction l with
  | nil => simp
  | cons a l ih =>
    simp only [List.filterMap_cons]
    cases h' : f' a with
    | none =>
      cases hf : f a with
      | none => exact ih
      | some b => exact List.Sublist.cons _ ih
    | some b =>
      rw [h a b h']
      exact List.Sublist.cons_cons _ ih


/-- the headline equivalence (restated as `Properties.C02.islands_eq_spec`; kept here so that C11 can use it
    without importing C02's regenerated definitions) -/
theorem islands_eq_spec_core (hl : IsLabelling g lab n) (S : Px → Prop) :
    (∃ I ∈ findIslands g lab n none, ∀ p, p ∈ I.pixels ↔ S p) ↔ IsIsland g S := by
  constructor
  · rintro ⟨I, hI, hS⟩
    obtain ⟨k, _, hk⟩ := mem_findIslands.1 hI
    obtain ⟨hpix, _, ⟨p0, hp0, hs0⟩, _, _⟩ := islandOf_some hl (Nat.succ_ne_zero k) hk
    have ⟨g0, l0⟩ := (hpix p0).1 hp0
    have a0 : g.inA p0 = true := inA_of_label hl g0 (by omega)
    refine ⟨p0, a0, ?_, p0, (hS p0).1 hp0, hs0⟩
    intro q
    rw [← hS q, hpix q]
    constructor
    · rintro ⟨gq, lq⟩
      exact (hl.eq_iff p0 q a0 (inA_of_label hl gq (by omega))).1 (by omega)
    · intro c
      have aq := conn_right c
      exact ⟨inGrid_of_inA aq, by rw [← (hl.eq_iff p0 q a0 aq).2 c]; exact l0⟩
  · rintro ⟨p0, a0, hS, q, hq, hs⟩
    have cq := (hS q).1 hq
    have aq := conn_right cq
    have lq : lab q = lab p0 := ((hl.eq_iff p0 q a0 aq).2 cq).symm
    have h0 := label_ne_zero hl a0
    have hn := hl.le_n p0 a0
    obtain ⟨I, hI⟩ := islandOf_isSome (inside := none) hl h0 (inGrid_of_inA aq) lq hs (by intro f hf; cases hf)
    refine ⟨I, mem_findIslands.2 ⟨lab p0 - 1, by omega, by rw [Nat.sub_add_cancel (by omega)]; exact hI⟩, ?_⟩
    obtain ⟨hpix, _⟩ := islandOf_some hl h0 hI
    intro p
    rw [hpix p, hS p]
    constructor
    · rintro ⟨gp, lp⟩
      exact (hl.eq_iff p0 p a0 (inA_of_label hl gp (by omega))).1 lp.symm
    · intro c
      have ap := conn_right c
      exact ⟨inGrid_of_inA ap, ((hl.eq_iff p0 p a0 ap).2 c).symm⟩

end helpers

/-! ### glue: `find_islands` assembled from regenerated pieces equals the hand model -/

theorem any_congr_mem {β : Type} {l : List β} {f h : β → Bool} (e : ∀ x ∈ l, f x = h x) : l.any f = l.any h := by
  induction l with
  | nil => rfl
  | cons a t ih =>
    simp only [List.any_cons]
    rw [e a (List.mem_cons_self), ih (fun x hx => e x (List.mem_cons_of_mem _ hx))]

theorem findIslandsGen_eq {seedScope ownLabel maskLabel : Nat → Nat}
    (hs : ∀ k, seedScope k = 1) (ho : ∀ k, ownLabel k = k + 1) (hm : ∀ k, maskLabel k = k + 1)
    (g : Grid) (lab : Px → Nat) (n : Nat) (inside : Option (Px → Bool)) :
    findIslandsGen seedScope ownLabel maskLabel g lab n inside = findIslands g lab n inside := by
  unfold findIslandsGen findIslands islandOf
  congr 1
  funext k
  rw [hs, ho, hm]
  congr 1

theorem gridOfSnr_A {floodTest seedTest : Int → Int → Bool} {floodFinite : Nat} (blankOn : Px → Bool)
    (hf : ∀ s c, floodTest s c = decide (c ≤ s)) (hfin : floodFinite = 1)
    (H W : Nat) (snr : Px → Option Int) (flood seed : Int) (p : Px) :
    (gridOfSnr floodTest seedTest floodFinite blankOn H W snr flood seed).A p = true ↔
      ∃ s, snr p = some s ∧ flood ≤ s := by
  simp only [gridOfSnr]
  cases h : snr p with
  | none => simp [hfin]
  | some s => simp [hf]

theorem gridOfSnr_Sd {floodTest seedTest : Int → Int → Bool} {floodFinite : Nat} (blankOn : Px → Bool)
    (hs : ∀ s c, seedTest s c = decide (c < s))
    (H W : Nat) (snr : Px → Option Int) (flood seed : Int) (p : Px) :
    (gridOfSnr floodTest seedTest floodFinite blankOn H W snr flood seed).Sd p = true ↔
      ∃ s, snr p = some s ∧ seed < s := by
  simp only [gridOfSnr]
  cases h : snr p with
  | none => simp
  | some s => simp [hs]

/-! ### the order law the numeric seed-monotonicity needs -/

/-- `seed ≤ seed'` and `seed' < x` give `seed < x`.  Holds for ℝ (`Proofs/C02Real.lean`) and for
    IEEE doubles (not provable in Lean: `Float` is opaque; sampled by the correspondence). -/
class CmpLaws (α : Type) [Cmp α] : Prop where
  lt_of_le_of_lt : ∀ a b c : α, Cmp.le a b = true → Cmp.lt b c = true → Cmp.lt a c = true

end Aegean.Proofs.C02
