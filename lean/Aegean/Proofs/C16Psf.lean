/-
  C16 — psf lookups through a psf MAP: every lookup is a function of (the map's value at the position,
  the position) only, and the answers of a helper object do not depend on the lookups made before
  (its only state is "psf image loaded yet?").  Plus the negation witness: a helper that keeps the last
  conversion keyed on the map VALUE alone (seeded change C16-3) returns the conversion of the earlier
  position.  Generic in the number type (no Mathlib needed).
-/
import Aegean.Model.C16

namespace Aegean.Model.C16


set_option linter.unusedSectionVars false

variable {α : Type} [R α]

/-- `get_psf_sky2pix` = read the map at the position, then convert AT THAT position -/
theorem psfMapSky2Pix_eq (W : Wcs α) (M : PsfMap α) (ra dec : α) :
    psfMapSky2Pix W M ra dec = psfConvertAt W ra dec (M.val ra dec) := rfl

/-- **locality**: two maps that agree at the position give the same lookup there -/
theorem psfMapSky2Pix_local (W : Wcs α) (M M' : PsfMap α) (ra dec : α) (h : M.val ra dec = M'.val ra dec) :
    psfMapSky2Pix W M ra dec = psfMapSky2Pix W M' ra dec := by
  rw [psfMapSky2Pix_eq, psfMapSky2Pix_eq, h]

theorem psfMapPix2Pix_eq (W : Wcs α) (M : PsfMap α) (x y : α) :
    psfMapPix2Pix W M x y
      = psfConvertAt W (pix2sky W x y).1 (pix2sky W x y).2 (M.val (pix2sky W x y).1 (pix2sky W x y).2) := rfl

/-- the sky position a query is about -/
def PsfQuery.pos (W : Wcs α) : PsfQuery α → α × α
  | .sky2sky ra dec => (ra, dec)
  | .sky2pix ra dec => (ra, dec)
  | .pix2pix x y => pix2sky W x y
  | .skybeam ra dec => (ra, dec)
  | .areaPix ra dec => (ra, dec)
  | .areaDeg2 ra dec => (ra, dec)

/-- every kind of lookup depends on the map only through its value at the query's position -/
theorem answer_local (W : Wcs α) (M M' : PsfMap α) (q : PsfQuery α)
    (h : M.val (q.pos W).1 (q.pos W).2 = M'.val (q.pos W).1 (q.pos W).2) :
    answer W M q = answer W M' q := by
  cases q <;>
    simp only [PsfQuery.pos] at h <;>
    simp only [answer, psfMapSky2Sky, psfMapSky2Pix, psfMapPix2Pix, beamAreaPix, beamAreaDeg2, h]

/-! ### histories -/

/-- the reachable states of a helper built on the file `M` -/
def PsfHelper.Ok (M : PsfMap α) (h : PsfHelper α) : Prop :=
  h.file = M ∧ (h.loaded = none ∨ h.loaded = some M)

theorem PsfHelper.fresh_ok (M : PsfMap α) : (PsfHelper.fresh M).Ok M := ⟨rfl, Or.inl rfl⟩

theorem PsfHelper.step_ok (W : Wcs α) (M : PsfMap α) (h : PsfHelper α) (hk : h.Ok M) (q : PsfQuery α) :
    (h.step W q).1 = answer W M q ∧ (h.step W q).2.Ok M := by
  obtain ⟨hf, hl | hl⟩ := hk
  · have e : h.step W q = (answer W M q, { h with loaded := some h.file }) := by
      simp only [PsfHelper.step, PsfHelper.load, hl, hf]
    rw [e]
    exact ⟨rfl, hf, Or.inr (by simp [hf])⟩
  · have e : h.step W q = (answer W M q, h) := by
      simp only [PsfHelper.step, PsfHelper.load, hl]
    rw [e]
    exact ⟨rfl, hf, Or.inr hl⟩

theorem PsfHelper.run_ok (W : Wcs α) (M : PsfMap α) (qs : List (PsfQuery α)) :
    ∀ h : PsfHelper α, h.Ok M → h.run W qs = qs.map (answer W M) := by
  induction qs with
  | nil => intro h _; rfl
  | cons q qs ih =>
    intro h hk
    obtain ⟨h1, h2⟩ := PsfHelper.step_ok W M h hk q
    simp only [PsfHelper.run, List.map_cons]
    rw [h1, ih _ h2]

/-- **history independence**: the answers of one helper object to any sequence of lookups are the
    answers a fresh computation gives to each lookup on its own -/
theorem psf_history_independent (W : Wcs α) (M : PsfMap α) (qs : List (PsfQuery α)) :
    (PsfHelper.fresh M).run W qs = qs.map (answer W M) :=
  PsfHelper.run_ok W M qs _ (PsfHelper.fresh_ok M)

/-- … in particular the answer to `q` after any earlier lookups `pre` is the fresh helper's answer -/
theorem psf_lookup_after_history (W : Wcs α) (M : PsfMap α) (pre : List (PsfQuery α)) (q : PsfQuery α) :
    ((PsfHelper.fresh M).run W (pre ++ [q])).getLast? = ((PsfHelper.fresh M).run W [q]).head? := by
  rw [psf_history_independent, psf_history_independent]
  simp

/-! ### negation witness: the last conversion cached on the map value alone -/

/-- the seeded helper: remembers `(map value, converted ellipse)` of the last conversion -/
structure CachedHelper (α : Type) where
  last : Option ((α × α × α) × (α × α × α))

def CachedHelper.sky2pix [DecidableEq α] (W : Wcs α) (M : PsfMap α) (h : CachedHelper α) (ra dec : α) :
    (α × α × α) × CachedHelper α :=
  let v := M.val ra dec
  match h.last with
  | some (k, r) => if k = v then (r, h) else (psfConvertAt W ra dec v, ⟨some (v, psfConvertAt W ra dec v)⟩)
  | none => (psfConvertAt W ra dec v, ⟨some (v, psfConvertAt W ra dec v)⟩)

/-- on a map whose value repeats, the second lookup returns the ellipse converted at the FIRST position:
    the result depends on the history, not on (map value, position) -/
theorem cached_helper_returns_stale [DecidableEq α] (W : Wcs α) (M : PsfMap α) (ra1 dec1 ra2 dec2 : α)
    (h : M.val ra1 dec1 = M.val ra2 dec2) :
    let s1 := CachedHelper.sky2pix W M ⟨none⟩ ra1 dec1
    (CachedHelper.sky2pix W M s1.2 ra2 dec2).1 = psfConvertAt W ra1 dec1 (M.val ra1 dec1) := by
  simp [CachedHelper.sky2pix, h]

end Aegean.Model.C16
