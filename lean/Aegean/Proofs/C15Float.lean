/-
  C15 — the one fact about IEEE arithmetic the property needs.

  `expand` shifts its node grid by `int(lc / factor)`, where `lc` is a residual keyword written by
  `compress` (so `lc < factor`) and `/` is Python float division.  Lean's `Float` is opaque to
  proofs but not to evaluation, so the statement is checked by the kernel on every pair in the
  property's range of factors, 1..64 (2080 pairs; about 40 s, which is why it lives in its own
  file: it does not depend on the regenerated source and is compiled once).
-/
namespace Aegean.Proofs.C15

/-- `int(lc / factor)` — float division, then truncation — is 0 for every factor 1..64 and every
    residual below the factor -/
theorem float_offset_zero : ∀ f, f ≤ 64 → ∀ lc, lc < f →
    (Float.toUInt64 ((Float.ofNat lc) / (Float.ofNat f))).toNat = 0 := by
  decide +kernel

end Aegean.Proofs.C15
